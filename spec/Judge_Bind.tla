------------------------------ MODULE Judge_Bind ------------------------------
(* J binding for the bind grammar: the real parseKeymap run on random atom strings; every record is judged by    *)
(* the specification's ParseBind.  record: atoms, s (the string parsed), err, panic, keys, acts (aligned).        *)
EXTENDS FzfBind, Json, IOUtils
TraceLog == ndJsonDeserialize(IOEnv.TRACE)
Shards == 16
VARIABLE l
JInit == l \in 1..(IF Len(TraceLog) < Shards THEN Len(TraceLog) ELSE Shards)
JNext == l + Shards <= Len(TraceLog) /\ l' = l + Shards

Explained(r) ==
    LET p == ParseBind(EmptyKm, r.atoms) IN
    /\ ~r.panic
    /\ Str(r.atoms) = r.s
    /\ p.err = r.err
    /\ ~p.err => /\ Len(r.keys) = Cardinality(DOMAIN p.km) /\ Len(r.acts) = Len(r.keys)
                 /\ \A n \in 1..Len(r.keys) : r.keys[n] \in DOMAIN p.km /\ p.km[r.keys[n]] = r.acts[n]
                 /\ \A n, m \in 1..Len(r.keys) : n # m => r.keys[n] # r.keys[m]
JInv == Explained(TraceLog[l]) \/ PrintT(<<"MISMATCH", l>>)
=============================================================================
