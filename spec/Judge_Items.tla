------------------------------- MODULE Judge_Items -------------------------------
(* J binding of FzfItems at the process boundary: every record of the log is one run of the real fzf binary on a      *)
(* random stream of records (symbol sequences, r.recs) under options r.o and query r.q:                                *)
(*   path = "sorted" | "streaming" | "sync" : fzf -e +i --literal [+x] -f TERM [+s [--sync]] ... ; r.out = the          *)
(*          records printed (decoded back to symbols by table look-up), r.exit = the exit status;                      *)
(*   path = "interactive": a session under a terminal with the stream arriving through a FIFO; r.out / r.idx /         *)
(*          r.total = text and index of every list entry and the item count as GET / of --listen reports them once     *)
(*          loading has finished, then `pos(r.pos)+accept` was posted: r.accepted = what fzf printed, r.exit its       *)
(*          status.                                                                                                     *)
(* The specification decides which records are printed, in which order, WITH WHICH CONTENT.                            *)
EXTENDS FzfItems, Json, IOUtils, TLC

TraceLog == ndJsonDeserialize(IOEnv.TRACE)
Shards == 16
VARIABLE l

ExplainedWith(r, devs) ==
    LET out == FilterOutD(r.recs, r.o, r.q, devs) IN
    IF r.path = "interactive"
    THEN /\ r.out = out
         /\ r.idx = FilterIdx(r.recs, r.o, r.q)
         /\ r.total = Len(Searchable(Len(r.recs), r.o.header, r.o.tail))
         /\ r.pos \in 1..Len(out)
         /\ r.accepted = <<out[r.pos]>>                 \* accept prints the item under the cursor: the record
         /\ r.exit = 0
    ELSE /\ r.out = out
         /\ r.exit = (IF out = <<>> THEN 1 ELSE 0)

JInit == l \in 1..(IF Len(TraceLog) < Shards THEN Len(TraceLog) ELSE Shards)
JNext == l + Shards <= Len(TraceLog) /\ l' = l + Shards
Explained(r) == ExplainedWith(r, {})
(* the run is explained by the same specification with the named deviation switched on (interactive runs use the empty   *)
(* query: no deviation can show there)                                                                                    *)
AnsiPrefixed(r) == r.path # "interactive" /\ DevObservable(r.o, r.q) /\ ExplainedWith(r, Devs)
JInv == LET r == TraceLog[l] IN
        \/ Explained(r)
        \/ PrintT(<<"MISMATCH", l, IF AnsiPrefixed(r) THEN "ansi_token_prefix" ELSE "other">>)
=============================================================================
