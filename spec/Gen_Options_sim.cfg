CONSTANTS
  Sample = 1
  SimDepth = 6
INIT SimInit
NEXT SimNext
INVARIANTS EmitSim
CHECK_DEADLOCK FALSE
