------------------------------ MODULE Judge_Rank ------------------------------
(* J binding of FzfRank (C04, process-level half of C05): every record is something the REAL code did; the      *)
(* specification's own operators (CriteriaOf, IsRanked, Key, Less, Result) must explain it.                     *)
(*                                                                                                              *)
(* record kinds                                                                                                 *)
(*  "run"  one real run (binary `fzf -f`, or Matcher.scan with forced partitions) on a list of vocabulary       *)
(*         lines: options, table (per distinct line: did it match, score, match offsets - measured on the real  *)
(*         matcher; matching itself is C01-C03's business), list (vocabulary ids), out (what was emitted:       *)
(*         vocabulary ids in stdout order for the binary, input positions for the in-package scan)              *)
(*  "sub"  the same list filtered as a whole (outAll) and restricted to a sub-list (outSub)                      *)
EXTENDS FzfRank, Json, IOUtils

TraceLog == ndJsonDeserialize(IOEnv.TRACE)
Shards == 16
VARIABLE l
JInit == l \in 1..(IF Len(TraceLog) < Shards THEN Len(TraceLog) ELSE Shards)
JNext == l + Shards <= Len(TraceLog) /\ l' = l + Shards

-------------------------------------------------------------------------------
(* keys of the distinct lines, computed once per record *)
KeysOf(r, crit) == TLCEval([v \in 1..Len(r.table) |->
                      IF r.table[v].matched THEN Key(r.table[v].text, r.table[v].offs, r.table[v].score, crit)
                      ELSE <<>>])

(* the lines fzf keeps: all of them, or the last `tail` *)
FirstKept(r) == IF r.tail > 0 /\ Len(r.list) > r.tail THEN Len(r.list) - r.tail + 1 ELSE 1
FromTo(a, b) == [i \in 1..(b - a + 1) |-> a + i - 1]

(* the matching lines among the positions posSeq (ascending), as items in ascending input order *)
AscItems(r, keys, posSeq) ==
    LET m == SelectSeq(posSeq, LAMBDA p : r.table[r.list[p]].matched)
    IN TLCEval([i \in 1..Len(m) |-> [key |-> keys[r.list[m[i]]], index |-> m[i]]])

Positions(s) == [i \in 1..Len(s) |-> s[i].index]
Project(r, s) == [i \in 1..Len(s) |-> r.list[s[i].index]]

(* FzfRank!Result of those items.  Computed group-wise (ResultOfSeq, equal to Result by MC_Rank!GroupsLemma);     *)
(* on short lists the literal definition is evaluated as well.                                                    *)
SmallEnough == 300
Expected(r, keys, posSeq) ==
    LET asc == AscItems(r, keys, posSeq)
        srt == IsRanked(r.sort, r.query)
        e == TLCEval(ResultOfSeq(asc, srt, r.tac))
    IN IF Len(asc) <= SmallEnough /\ e # Result({asc[i] : i \in 1..Len(asc)}, srt, r.tac)
         THEN Assert(FALSE, "ResultOfSeq differs from Result: specification error") ELSE e

RunExplained(r) ==
    LET crit == CriteriaOf(r.scheme, r.tiebreak)
        keys == KeysOf(r, crit)
        exp  == Expected(r, keys, FromTo(FirstKept(r), Len(r.list)))
    IN /\ r.criteria = crit                                      \* the option parser produced the documented list
       /\ \A v \in 1..Len(r.table) : r.table[v].matched => keys[v] = r.table[v].points
       /\ IF r.mode = "pos"
            THEN /\ r.out = Positions(exp)
                 \* indices probed before the sequential read (lazy merge) returned the same elements
                 /\ \A j \in 1..Len(r.probed) : r.probed[j] = exp[(r.probes[j] % Len(exp)) + 1].index
            ELSE /\ r.out = Project(r, exp)
                 /\ r.exit = (IF Len(exp) = 0 THEN 1 ELSE 0)          \* documented exit status of filter mode

(* C05, process level: the sub-list's output is the whole list's output restricted to the sub-list, in the same *)
(* relative order.  Stated on the two observed outputs alone (vocabulary ids); the sub-list is either a set of  *)
(* positions of a list without repeated lines, or all occurrences of a set of lines - in both cases "restricted *)
(* to the sub-list" = "restricted to the ids in r.ids".  That the specification itself has this property is     *)
(* MC_Rank!SubListTheorem; that each output is the ranked result is C04's RunExplained.                         *)
SubExplained(r) ==
    LET ids == {r.ids[i] : i \in 1..Len(r.ids)}
    IN r.outSub = SelectSeq(r.outAll, LAMBDA v : v \in ids)

Explained(r) == IF "kind" \notin DOMAIN r THEN FALSE          \* the real code panicked / refused the options
                ELSE CASE r.kind = "run" -> RunExplained(r)
                       [] r.kind = "sub" -> SubExplained(r)

(* Named deviation (finding F13): filter mode ranks the result although --no-sort was given.  Never accepted;   *)
(* only used to label a rejected record so that the finding can be told apart from any other disagreement.      *)
NoSortIgnored(r) ==
    /\ "kind" \in DOMAIN r /\ r.kind = "run" /\ r.mode = "vocab" /\ ~r.sort /\ Sortable(r.query)
    /\ LET crit == CriteriaOf(r.scheme, r.tiebreak)
           keys == KeysOf(r, crit)
       IN r.out = Project(r, ResultOfSeq(AscItems(r, keys, FromTo(FirstKept(r), Len(r.list))), TRUE, r.tac))
Why(r) == IF NoSortIgnored(r) THEN "no-sort-ignored" ELSE "unexplained"

JInv == Explained(TraceLog[l]) \/ PrintT(<<"MISMATCH", l, Why(TraceLog[l])>>)
================================================================================
