----------------------------- MODULE MC_Screen -----------------------------
(* Exhaustive check of FzfScreen on small constants: every geometry x configuration of the constant sets, and    *)
(* from an initial state every sequence of abstract editor steps (type / erase, cursor moves that scroll,        *)
(* selection toggles, a new result list, a resize, showing / hiding the header and input sections, a new search   *)
(* pattern).  Render is a function, so the state machine is only the enumerator; the invariants say that the      *)
(* rendering satisfies the documented claims.                                                                     *)
EXTENDS FzfScreen, Json, IOUtils

CONSTANTS Widths, Heights, Layouts, Infos, Seps, Headers, Hlines, HeaderFirsts, Inputless, Pointers, Markers,
          Ellipses, Lists, Multis, Queries, MaxCount, Tracks,
          Hscrolls, HscrollOffs, KeepRights, Scrollbars, Borders, Patterns, Tabstops,
          Acts          \* enabled steps: subset of {"edit", "move", "toggle", "list", "resize", "vis", "pattern"}

VARIABLES g, c, s
vars == <<g, c, s>>

TextOf(id) == CASE id = 0 -> <<"a", "b">>
                [] id = 1 -> <<"l", "o", "n", "g", " ", "l", "i", "n", "e", " ", "x", "y", "z", "w">>     \* 14 cells
                [] id = 2 -> <<"W", "i", "W", "x">>                                                 \* "W" is wide in MC
                [] id = 3 -> <<>>
                [] id = 4 -> <<"e", "x", "^", "a", "c", "t", "l", "y", "9", "!">>                     \* 9 columns ("^" is zero-width in MC)
                [] id = 6 -> <<"a", "b", Tab, "X", "|">>                                              \* TABs: after, between, before the
                [] id = 7 -> <<"a", Tab, "b", Tab, "l", "o">>                                         \* characters a pattern matches
                [] id = 8 -> <<Tab, "a", "b", "c", "d", "e", "f", "g", Tab, "Z">>
                [] id = 9 -> <<"W", "i", Tab, Tab, "e", "n", "d">>                                   \* a wide cell before a TAB; a TAB on a tab stop
                [] OTHER -> <<">", " ", "t">>
Wide == {"W"}
Zero == {"^"}
Geoms == [w : Widths, h : Heights, wide : {Wide}, zero : {Zero}]
Cfgs == [layout : Layouts, info : Infos, sep : Seps, header : Headers, hlines : Hlines, headerFirst : HeaderFirsts,
         inputless : Inputless, prompt : {<<">", " ">>}, pointer : Pointers, marker : Markers, ellipsis : Ellipses,
         hscroll : Hscrolls, hscrollOff : HscrollOffs, keepRight : KeepRights, scrollbar : Scrollbars, border : Borders,
         tabstop : Tabstops]
TextsOf(l) == [i \in 1..Len(l) |-> TextOf(l[i])]

(* printList -> constrain: the current line is kept inside the displayed window *)
View(st, gg, cc) ==
    LET mi == MaxItems(Inner(gg, cc), Eff(st, cc))
        n == Len(st.list)
        cy == Constrain(st.cy, 0, n - 1)
        cy0 == IF n = 0 THEN 0 ELSE cy
        off == IF mi = 0 \/ n = 0 THEN 0
               ELSE IF cy0 < st.offset THEN cy0
               ELSE IF cy0 >= st.offset + mi THEN cy0 - mi + 1
               ELSE Min2(st.offset, Max2(n - mi, 0))
    IN [st EXCEPT !.cy = cy0, !.offset = off]

Init == /\ g \in Geoms /\ c \in Cfgs
        /\ \E l \in Lists, m \in Multis, tr \in Tracks :
             s = [input |-> <<>>, cx |-> 0, xoffset |-> 0, list |-> l, texts |-> TextsOf(l), sel |-> <<>>, multi |-> m, cy |-> 0,
                  offset |-> 0, count |-> MaxCount, track |-> tr, showHeader |-> TRUE, hideInput |-> c.inputless,
                  pattern |-> <<>>]
gi == Inner(g, c)                  \* the finder's area
ce == Eff(s, c)                    \* the configuration in effect

(* a new query with the cursor somewhere in it; the prompt is redrawn (updatePromptOffset) *)
Edit == \E q \in Queries : \E x \in {0, 1, Len(q) \div 2, Len(q) - 1, Len(q)} \cap 0..Len(q) :
           LET s1 == [s EXCEPT !.input = q, !.cx = x] IN
           s' = [s1 EXCEPT !.xoffset = PromptOffset(s1, gi, ce)] /\ UNCHANGED <<g, c>>
Move == \E d \in {-1, 1} : s' = View([s EXCEPT !.cy = s.cy + d], g, c) /\ UNCHANGED <<g, c>>
Toggle == /\ s.multi > 0 /\ N(s) > 0
          /\ LET id == s.list[s.cy + 1] IN
             IF Selected(id, s) THEN s' = [s EXCEPT !.sel = SelectSeq(s.sel, LAMBDA x : x # id)]
             ELSE Len(s.sel) < s.multi /\ s' = [s EXCEPT !.sel = Append(s.sel, id)]
          /\ UNCHANGED <<g, c>>
NewList == \E l \in Lists : s' = View([s EXCEPT !.list = l, !.texts = TextsOf(l)], g, c) /\ UNCHANGED <<g, c>>
Resize == \E g2 \in Geoms : g' = g2 /\ UNCHANGED c
                              /\ LET s1 == View(s, g2, c) IN s' = [s1 EXCEPT !.xoffset = PromptOffset(s1, Inner(g2, c), ce)]
(* toggle-header / show-header / hide-header / toggle-input / show-input / hide-input: the list is laid out again *)
Vis == \E a \in VisActs : s' = View(VisStep(s, a), g, c) /\ UNCHANGED <<g, c>>
(* the result list now belongs to another pattern (the lines all match in this abstraction) *)
SetPattern == \E p \in Patterns : s' = [s EXCEPT !.pattern = p] /\ UNCHANGED <<g, c>>
AEdit == "edit" \in Acts /\ Edit
AMove == "move" \in Acts /\ Move
AToggle == "toggle" \in Acts /\ Toggle
ANewList == "list" \in Acts /\ NewList
AResize == "resize" \in Acts /\ Resize
AVis == "vis" \in Acts /\ Vis
APattern == "pattern" \in Acts /\ SetPattern
Next == AEdit \/ AMove \/ AToggle \/ ANewList \/ AResize \/ AVis \/ APattern

-----------------------------------------------------------------------------
R == Render(s, g, c)                                   \* the screen
A == RenderArea(s, gi, ce)                             \* the finder's area (= R without a border)
Exact == InlineInfo(ce) => InfoFits(QShown(s, gi, ce), s, gi, ce)
Scrolled == s.xoffset > 0

InvPlace == PlaceOK(gi, ce)
InvRowCount == Len(R) = g.h /\ Len(A) = gi.h
InvWidth == Exact /\ InfoFits(QShown(s, gi, ce), s, gi, ce) => \A r \in 1..g.h : TW(R[r], g) <= g.w
(* the code-derived rendering satisfies the documented claims *)
InvClaims == Exact => Claims(R, s, g, c)
(* the border is a frame around the area and nothing else *)
InvFrame == c.border => ClaimFrame(R, g) /\ Unframe(R, g) = A
(* a hidden section has no row; the list gets the rows *)
InvHidden == /\ (~s.showHeader => RowsOf("header", gi, ce) \cup RowsOf("hline", gi, ce) = {})
             /\ (s.hideInput => RowsOf("prompt", gi, ce) \cup RowsOf("info", gi, ce) = {})
             /\ (~s.showHeader /\ s.hideInput => RowsOf("item", gi, ce) = 1..gi.h)
(* showing / hiding is idempotent, toggling twice changes nothing, and the layout depends on the flags only *)
InvVisAlgebra == /\ \A a \in {"toggle-header", "toggle-input"} : VisStep(VisStep(s, a), a) = s
                 /\ \A a \in VisActs \ {"toggle-header", "toggle-input"} : VisStep(VisStep(s, a), a) = VisStep(s, a)
                 /\ VisStep(VisStep(s, "hide-header"), "toggle-header") = VisStep(s, "show-header")
                 /\ VisStep(VisStep(s, "hide-input"), "toggle-input") = VisStep(s, "show-input")
(* the text of a list row never reaches the reserved column, whatever part of the line is displayed *)
InvTextRoom == \A r \in RowsOf("item", gi, ce) :
                  LET k == SlotAt(r - 1, gi, ce).ix IN
                  s.offset + k < N(s) =>
                     TW(WindowT(s.texts[s.offset + k + 1], MatchEnd(s.texts[s.offset + k + 1], s.pattern), s.pattern = <<>>,
                                TextRoom(gi, ce), ce, g), g) <= Max2(TextRoom(gi, ce), 0)

ItemRows == RowsOf("item", gi, ce)
PointerRows == {r \in ItemRows : IsPrefix(c.pointer, A[r])}
MarkerRows == {r \in ItemRows : Sub(A[r] \o Spaces(Indent(c, g)), Len(c.pointer) + 1, Len(c.pointer) + Len(c.marker)) = c.marker}
VisibleIx(r) == s.offset + SlotAt(r - 1, gi, ce).ix + 1
InvOnePointer == Cardinality(PointerRows) = (IF N(s) > 0 /\ MaxItems(gi, ce) > 0 THEN 1 ELSE 0)
InvPointerOnCurrent == \A r \in PointerRows : VisibleIx(r) = s.cy + 1
InvMarkers == MarkerRows = {r \in ItemRows : VisibleIx(r) <= N(s) /\ Selected(s.list[VisibleIx(r)], s)}
InvHeaderOutsideList ==
    \A r \in RowsOf("header", gi, ce) \cup RowsOf("hline", gi, ce) :
        /\ r \notin ItemRows
        /\ \A r1, r2 \in ItemRows : ~(r1 < r /\ r < r2)
(* every visible result is on exactly one row, in list order along the layout's direction (lines cut on the right) *)
InvRowsAreResults ==
    \A r \in ItemRows : VisibleIx(r) <= N(s) =>
        /\ IsPrefix(RTrim(Sub(s.texts[VisibleIx(r)], 1, 1)), RTrim(Sub(A[r] \o Spaces(Indent(c, g) + 1), Indent(c, g) + 1, Indent(c, g) + 1)))
(* the recursive cut equals its declarative definition *)
InvTakeW == (s.sel = <<>> /\ s.cy = 0) => \A id \in 0..5 : \A lim \in -1..(Len(TextOf(id)) + 2) :
                /\ TakeW(TextOf(id), lim, g) = TakeWDecl(TextOf(id), lim, g)
                /\ TakeRightW(TextOf(id), lim, g) = TakeRightWMirror(TextOf(id), lim, g)
                /\ TW(TextOf(id), g) = TWRec(TextOf(id), g) /\ TW(<<"^", "W", "a", "^">>, g) = 3
(* the cursor stays on the prompt line: what is shown before it fits, the offset never passes it *)
InvCursorVisible == /\ 0 <= s.xoffset /\ s.xoffset <= s.cx
                    /\ QBefore(s, gi, ce) = Sub(s.input, s.xoffset + 1, s.cx)
                    /\ TW(QShown(s, gi, ce), g) <= PromptRoom(gi, ce)
InvRTrim == \A r \in 1..gi.h : A[r] = <<>> \/ A[r][Len(A[r])] # " "
(* TABs: the width of a text is the width of its expansion; the expansion of a head is a head of the expansion;     *)
(* the cut that never splits a TAB is the longest head whose expansion fits; a text without TABs is left alone;     *)
(* and the drawn row of a line does not depend on the pattern as long as lines are cut behind only.                  *)
InvTab == (s.sel = <<>> /\ s.cy = 0 /\ s.pattern = <<>> /\ ~c.hscroll /\ ~c.keepRight /\ c.ellipsis = <<".", ".">>) => \A id \in 0..9 : LET t == TextOf(id) ts == c.tabstop IN
             /\ TWT(t, ts, g) = TW(ExpandT(t, ts, g), g)
             /\ ~HasTab(ExpandT(t, ts, g))
             /\ (~HasTab(t) => ExpandT(t, ts, g) = t /\ TWT(t, ts, g) = TW(t, g))
             /\ \A k \in 0..Len(t) : IsPrefix(ExpandT(Sub(t, 1, k), ts, g), ExpandT(t, ts, g))
             /\ \A lim \in -1..(TWT(t, ts, g) + 1) :
                   /\ TakeWT(t, lim, ts, g) = TakeWTDecl(t, lim, ts, g)
                   /\ \A pre \in 0..2 : LET r == TakeRightWT(t, lim, pre, ts, g) IN    \* the longest proper tail that fits behind pre columns
                         /\ r = Sub(t, Len(t) - Len(r) + 1, Len(t))
                         /\ TW(ExpandAt(r, pre, ts, g), g) = TWAt(r, pre, ts, g)
                         /\ (HasTab(t) /\ lim >= 0 /\ TWT(t, ts, g) > lim =>
                               /\ TWAt(r, pre, ts, g) <= lim /\ Len(r) < Len(t)
                               /\ (Len(r) < Len(t) - 1 => TWAt(Sub(t, Len(t) - Len(r), Len(t)), pre, ts, g) > lim))
             /\ \A i \in 1..Len(t) : t[i] = Tab =>                       \* every TAB ends on a tab stop, and is never empty
                   LET e == TWT(Sub(t, 1, i), ts, g) IN e % ts = 0 /\ e > TWT(Sub(t, 1, i - 1), ts, g) /\ e - TWT(Sub(t, 1, i - 1), ts, g) <= ts
(* EXPECTED TO FAIL (MC_Screen_dev_tabpre.cfg): the rendition that measures the part cut in front as if the ellipsis  *)
(* were two columns wide (finding "tab-stops-assume-two-column-ellipsis") stays within the room for the text          *)
InvTabPre2Room == \A r \in RowsOf("item", gi, ce) :
                     LET k == SlotAt(r - 1, gi, ce).ix IN
                     s.offset + k < N(s) =>
                        TW(WindowTP(s.texts[s.offset + k + 1], MatchEnd(s.texts[s.offset + k + 1], s.pattern), s.pattern = <<>>,
                                    TextRoom(gi, ce), ce, g, TRUE), g) <= Max2(TextRoom(gi, ce), 0)
InvTabNoPattern == ~c.hscroll => \A id \in 0..9 : \A me \in 0..Len(TextOf(id)) : \A np \in BOOLEAN :
                      WindowT(TextOf(id), me, np, TextRoom(gi, ce), ce, g) = WindowT(TextOf(id), 0, TRUE, TextRoom(gi, ce), ce, g)


-----------------------------------------------------------------------------
(* Export for the E binding (Gen_Screen*.cfg): every geometry x configuration x a few states, with the rows the    *)
(* specification predicts.  The driver puts the real program into that state (--disabled, --scroll-off=0, actions  *)
(* deselect-all / change-multi / change-query / pos / select, resize) and compares the captured screen.             *)
GenCfgs == {cc \in Cfgs : cc.inputless => (cc.info = "default" /\ cc.sep /\ ~cc.headerFirst)}
GenCombos == {  \* <<query, cy, selected list positions, multi>>
    <<<<>>, 0, {}, 0>>,
    <<<<"a", "b">>, 1, {1}, 5>>,
    <<<<>>, 2, {2, 5}, 5>>,
    <<<<"a", " ", "b">>, 0, {1, 2, 3, 4, 5}, 5>>,
    <<<<"x">>, 3, {4}, MaxMulti>>,
    <<<<"l", "o">>, 4, {5, 3}, 2>> }
RECURSIVE SortedSeq(_)
SortedSeq(S) == IF S = {} THEN <<>> ELSE LET m == CHOOSE x \in S : \A y \in S : x <= y IN <<m>> \o SortedSeq(S \ {m})
(* The enumeration runs in two levels so that TLC's workers share it: the initial states are the (geometry,       *)
(* configuration) pairs with a placeholder state (Seed), the successors of a placeholder are the cases.  A quick run *)
(* exports one slice of the configurations, chosen by the seed of the run (environment VERIF_SLICES / VERIF_SLICE;   *)
(* unset = everything).                                                                                               *)
Seed == [input |-> <<>>, cx |-> 0, xoffset |-> 0, list |-> <<>>, texts |-> <<>>, sel |-> <<>>, multi |-> 0, cy |-> 0, offset |-> 0,
         count |-> 0, track |-> 9, showHeader |-> TRUE, hideInput |-> FALSE, pattern |-> <<>>]
IsSeed == s.track = 9
Slices == IF "VERIF_SLICES" \in DOMAIN IOEnv THEN atoi(IOEnv.VERIF_SLICES) ELSE 1
Slice == IF "VERIF_SLICE" \in DOMAIN IOEnv THEN atoi(IOEnv.VERIF_SLICE) ELSE 0
B(x) == IF x THEN 1 ELSE 0
CfgCode(cc) == Len(cc.header) + 2 * Len(cc.hlines) + 3 * B(cc.headerFirst) + 5 * B(cc.sep) + 7 * B(cc.inputless)
               + 11 * (CASE cc.layout = "default" -> 0 [] cc.layout = "reverse" -> 1 [] OTHER -> 2)
               + 13 * (CASE cc.info = "default" -> 0 [] cc.info = "inline" -> 1 [] cc.info = "hidden" -> 2 [] cc.info = "right" -> 3 [] OTHER -> 4)
               + 17 * Len(cc.ellipsis) + 19 * cc.hscrollOff + 23 * B(cc.hscroll) + 29 * B(cc.keepRight) + 31 * Len(cc.scrollbar)
               + 37 * B(cc.border) + 41 * cc.tabstop
InSlice(cc) == CfgCode(cc) % Slices = Slice % Slices

(* the sections' visibility is part of the exported state: <<showHeader, hideInput>>; the driver reaches it with *)
(* show-/hide-header and show-/hide-input, whatever the previous case of the same session left behind             *)
GenVis == {<<TRUE, FALSE>>, <<FALSE, FALSE>>, <<TRUE, TRUE>>, <<FALSE, TRUE>>}
GenInit == g \in Geoms /\ c \in {cc \in GenCfgs : InSlice(cc)} /\ s = Seed
GenNextL == /\ IsSeed /\ UNCHANGED <<g, c>>
            /\ \E l \in Lists, k \in GenCombos, v \in GenVis :
                LET s0 == [input |-> k[1], cx |-> Len(k[1]), xoffset |-> 0, list |-> l, texts |-> TextsOf(l), sel |-> <<>>, multi |-> k[4],
                           cy |-> 0, offset |-> 0, count |-> Len(l), track |-> 0, showHeader |-> v[1], hideInput |-> v[2], pattern |-> <<>>]
                    vis == Min2(Len(l), MaxItems(Inner(g, c), Eff(s0, c)))
                    pos == {p \in k[3] : p <= Len(l)}
                IN s' = [s0 EXCEPT !.sel = [i \in 1..Cardinality(pos) |-> l[SortedSeq(pos)[i]]],
                                   !.cy = IF vis = 0 THEN 0 ELSE Min2(k[2], vis - 1)]
GenCase == IsSeed \/ PrintT(<<"CASE", ToJson([w |-> g.w, h |-> g.h, cfg |-> c, st |-> [s EXCEPT !.texts = <<>>],
                                    items |-> s.texts, maxItems |-> MaxItems(gi, ce), rows |-> R])>>)

(* Export of lines that are too long for the window (Gen_ScreenH*.cfg): the search is enabled (--no-sort, so the   *)
(* list is the input), every line contains every marker exactly once (upper-case letters: case-sensitive terms,    *)
(* the rest of a line is lower-case letters, digits and dashes), the query is one of the marker patterns: at the   *)
(* start, in the middle, at the very END of the line, two terms, none.                                              *)
FillSeq == <<"a", "b", "c", "d", "e", "f", "g", "h", "i", "j", "-", "0", "1", "2", "3", "4", "5", "6", "7", "8", "9", "-", "k", "l", "m", "n", "o", "p", "q", "r", "s", "t", "u", "v", "w", "x", "y", "z", "_">>
LongLine(n, tag) ==     \* n cells: <tag> A B ... M N ... Y Z
    [i \in 1..n |-> IF i = 1 THEN tag
                    ELSE IF i = 3 THEN "A" ELSE IF i = 4 THEN "B"
                    ELSE IF i = n \div 2 THEN "M" ELSE IF i = n \div 2 + 1 THEN "N"
                    ELSE IF i = n - 1 THEN "Y" ELSE IF i = n THEN "Z"
                    ELSE FillSeq[((i * 7) % Len(FillSeq)) + 1]]
TextH(id) == CASE id = 0 -> LongLine(61, "0")
               [] id = 1 -> LongLine(90, "1")
               [] id = 2 -> <<"2", "-", "A", "B", " ", "M", "N", " ", "s", "h", "o", "r", "t", " ", "Y", "Z">>        \* fits
               [] id = 3 -> LongLine(137, "3")
               [] id = 4 -> LongLine(44, "4")
               [] id = 5 -> LongLine(23, "5")
               [] OTHER -> LongLine(70, "6")
TextsH(l) == [i \in 1..Len(l) |-> TextH(l[i])]
GenPatternsH == {<<>>, <<"A", "B">>, <<"M", "N">>, <<"Y", "Z">>, <<"Z">>, <<"A", "B", " ", "Y", "Z">>, <<"N", " ", "Y">>}
GenInitH == g \in Geoms /\ c \in {cc \in Cfgs : InSlice(cc)} /\ s = Seed
GenNextH == /\ IsSeed /\ UNCHANGED <<g, c>>
            /\ \E l \in Lists, p \in GenPatternsH : \E k \in {0, 1, Len(l) - 1} :
                 s' = View([input |-> p, cx |-> Len(p), xoffset |-> 0, list |-> l, texts |-> TextsH(l), sel |-> <<>>, multi |-> 0,
                           cy |-> k, offset |-> 0, count |-> Len(l), track |-> 0, showHeader |-> TRUE, hideInput |-> FALSE,
                           pattern |-> p], g, c)
(* every exported line / pattern pair is in the domain where the position of the match is beyond doubt *)
InvGenHDetermined == IsSeed \/ \A i \in 1..N(s) : Determined(s.texts[i], s.pattern, g) /\ (s.pattern # <<>> => MatchEnd(s.texts[i], s.pattern) > 0)
(* Export of lines with TABs (Gen_ScreenT*.cfg): the search is enabled (--no-sort: the list is the input), every    *)
(* line contains the letters a and b exactly once, in this order, with TABs after / between / before them; the      *)
(* query is none, a, b, ab.  Windows from 20 columns upwards in steps of one, so that for each line and tabstop     *)
(* there are windows the expanded line fits exactly and by one column less.  The rows are predicted from (line,     *)
(* tabstop, room) - and the pattern only where horizontal scrolling cuts in front.                                   *)
TextT(id) == CASE id = 0 -> <<"a", "b", Tab, "X", "|">>
               [] id = 1 -> <<"a", "b", "c", "d", "e", "f", "g", "h", "i", "j", "k", "l", "m", "n", "o", Tab, "Z", "|">>
               [] id = 2 -> <<"a", Tab, "b", Tab, "c", "d", "e", "f", "g", "h", Tab, "V", "|">>
               [] id = 3 -> <<Tab, "a", "b", Tab, "e", "n", "d", " ", "o", "f", " ", "l", "i", "n", "e">>
               [] id = 4 -> <<"x", Tab, "y", Tab, "a", "b">>
               [] id = 5 -> <<"a", "b", Tab, "0", "1", "2", "3", "4", "5", "6", "7", "8", "9", Tab, "c", "d", "e", "f", "g", "h", "i", "j", "k", "l", "m", "n", "o", "p", "q", "r", Tab, "E", "N", "D">>
               [] id = 6 -> <<"0", "1", "2", "3", Tab, "5", "6", "7", "8", "9", Tab, "a", Tab, Tab, "b">>
               [] OTHER -> <<"n", "o", " ", "T", "s", " ", "h", "e", "r", "e", ":", " ", "a", "-", "b">>
TextsT(l) == [i \in 1..Len(l) |-> TextT(l[i])]
MCListsT == {<<0, 1, 2, 3, 4, 5, 6, 7>>}
GenPatternsT == {<<>>, <<"a">>, <<"b">>, <<"a", "b">>}
GenInitT == g \in Geoms /\ c \in {cc \in Cfgs : InSlice(cc)} /\ s = Seed
GenNextT == /\ IsSeed /\ UNCHANGED <<g, c>>
            /\ \E l \in Lists, p \in GenPatternsT : \E k \in {0, Len(l) - 1} :
                 s' = View([input |-> p, cx |-> Len(p), xoffset |-> 0, list |-> l, texts |-> TextsT(l), sel |-> <<>>, multi |-> 0,
                            cy |-> k, offset |-> 0, count |-> Len(l), track |-> 0, showHeader |-> TRUE, hideInput |-> FALSE,
                            pattern |-> p], g, c)
NoTab(t) == SelectSeq(t, LAMBDA x : x # Tab)
InvGenTDetermined == IsSeed \/ \A i \in 1..N(s) : Determined(NoTab(s.texts[i]), s.pattern, g) /\ (s.pattern # <<>> => MatchEnd(s.texts[i], s.pattern) > 0)
(* how many of the listed lines fit exactly or miss by one column (coverage figure of the export) *)
FitEdge == Cardinality({i \in 1..N(s) : TWT(s.texts[i], c.tabstop, g) - TextRoom(gi, ce) \in {0, 1}})
GenCaseT == IsSeed \/ PrintT(<<"CASE", ToJson([w |-> g.w, h |-> g.h, cfg |-> c, st |-> [s EXCEPT !.texts = <<>>],
                                     items |-> s.texts, maxItems |-> MaxItems(gi, ce), rows |-> R, fitEdge |-> FitEdge])>>)

(* Export of prompt lines for queries that are wider than the prompt area (Gen_ScreenP*.cfg).  The queries - with   *)
(* East Asian wide characters at the start, in the middle, at the end - come from a file the driver writes          *)
(* (environment VERIF_PIN: one JSON record [queries |-> <<[q |-> cells, pos |-> cursor positions]>>, wide |-> cells]) *)
(* because a module is plain ASCII.  A case is a walk of the cursor: the query is set and the cursor put at its      *)
(* beginning (one rendition: offset 0), then moved to each position of the walk in turn (beginning-of-line /          *)
(* end-of-line / forward-char / backward-char; one rendition each: the scroll offset is carried along, PromptOffset). *)
(* The search is disabled: the list stays as it is.                                                                   *)
PIn == ndJsonDeserialize(IOEnv.VERIF_PIN)[1]
GeomsP == [w : Widths, h : Heights, wide : {Range(PIn.wide)}, zero : {{}}]
RECURSIVE WalkFrom(_, _, _, _, _)
WalkFrom(st, walk, i, gg, cc) == IF i > Len(walk) THEN st
                                 ELSE LET s1 == [st EXCEPT !.cx = walk[i]] IN
                                      WalkFrom([s1 EXCEPT !.xoffset = PromptOffset(s1, gg, cc)], walk, i + 1, gg, cc)
GenInitP == g \in GeomsP /\ c \in {cc \in GenCfgs : InSlice(cc)} /\ s = Seed
GenNextP == /\ IsSeed /\ UNCHANGED <<g, c>>
            /\ \E l \in Lists, qi \in 1..Len(PIn.queries) :
                 LET q == PIn.queries[qi].q
                     P == Range(PIn.queries[qi].pos)
                     s0 == [input |-> q, cx |-> 0, xoffset |-> 0, list |-> l, texts |-> TextsOf(l), sel |-> <<>>, multi |-> 0,
                            cy |-> 0, offset |-> 0, count |-> Len(l), track |-> 0, showHeader |-> TRUE, hideInput |-> FALSE,
                            pattern |-> <<>>, walk |-> <<>>]
                 IN \E walk \in {<<x>> : x \in P} \cup {<<x, y>> : x \in P, y \in P} \cup {<<x, y, x>> : x \in P, y \in P} :
                      s' = [WalkFrom(s0, walk, 1, gi, Eff(s0, c)) EXCEPT !.walk = walk]
(* what the walk claims: the cursor is visible after every step - the offset never passes it, the part shown is at   *)
(* most PromptRoom columns wide - and a query that fits is shown whole as soon as the cursor has been at its start    *)
InvWalk == IsSeed \/ (/\ 0 <= s.xoffset /\ s.xoffset <= s.cx
                      /\ QBefore(s, gi, ce) = Sub(s.input, s.xoffset + 1, s.cx)
                      /\ TW(QShown(s, gi, ce), g) <= PromptRoom(gi, ce)
                      /\ TW(c.prompt, g) + TW(QBefore(s, gi, ce), g) < gi.w
                      /\ (QueryFits(s, gi, ce) => s.xoffset = 0 /\ QShown(s, gi, ce) = s.input))
InvFrameX == Exact => InvFrame
GenCaseP == IsSeed \/ ~Exact \/ PrintT(<<"CASE", ToJson([w |-> g.w, h |-> g.h, cfg |-> c, st |-> [s EXCEPT !.texts = <<>>],
                                     items |-> s.texts, maxItems |-> MaxItems(gi, ce), rows |-> R, walk |-> s.walk,
                                     longer |-> ~QueryFits(s, gi, ce)])>>)
MCListsTab == {<<6, 7, 8, 9, 1>>}
MCHeadersC0 == {<<>>}
MCListsD1 == {<<1, 0, 5>>}
MCHeadersT == {<<>>, <<<<"h", Tab, "e", "a", "d", "e", "r", Tab, "x">>>>}
MCPatternsTab == {<<>>, <<"a">>, <<"b">>, <<"e">>, <<"o">>}
MCPatternsTabQ == {<<>>, <<"b">>, <<"o">>}
MCListsH == {<<0, 1, 2, 3, 4, 5, 6>>}
MCHeadersH == {<<>>, <<LongLine(75, "H")>>}
MCScrollbars == {<<>>, <<"|">>}
MCNoScrollbar == {<<>>}
MCEllipsesH == {<<".", ".">>, <<"~">>, <<>>}
MCEllipsesHq == {<<".", ".">>, <<>>}
MCPatternsNone == {<<>>}
MCPatternsQ == {<<>>, <<"o">>, <<"w">>, <<"z", "w">>, <<"n", "g">>}
MCPatterns == {<<>>, <<"o">>, <<"e">>, <<"w">>, <<"z", "w">>, <<"n", "g">>, <<"x", " ", "a">>, <<"!">>}
MCListsG == {<<1, 0, 5, 3, 4>>}
MCHeadersG == {<<>>, <<<<"H", "1">>, <<"a", " ", "h", "e", "a", "d", "e", "r", " ", "l", "i", "n", "e", " ", "o", "f", " ", "2", "4", " ", "c", "e", "l", "l", "s">>>>}
MCHlinesG == {<<>>, <<<<"x", "1">>, <<"x", "2">>>>}
MCPointers == {<<">">>}
MCPointers2 == {<<">">>, <<"=", ">">>}
MCMarkers == {<<">">>}
MCMarkers2 == {<<">">>, <<"*">>}
MCEllipses == {<<".", ".">>}
MCEllipses2 == {<<".", ".">>, <<"~">>, <<>>}
MCHeaders == {<<>>, <<<<"H", "1">>>>, <<<<"H", "1">>, <<"h", "e", "a", "d", "e", "r", " ", "t", "w", "o", " ", "!">>>>}
MCHeadersQ == {<<>>, <<<<"H", "1">>, <<"h", "e", "a", "d", "e", "r", " ", "t", "w", "o", " ", "!">>>>}
MCHlines == {<<>>, <<<<"x", "1">>>>, <<<<"x", "1">>, <<"x", "2">>>>}
MCHlinesQ == {<<>>, <<<<"x", "1">>, <<"x", "2">>>>}
MCHlinesC0 == {<<>>}
MCLists == {<<>>, <<0>>, <<1, 0, 2>>, <<0, 1, 2, 3, 4, 5>>}
MCListsQ == {<<>>, <<1, 0, 5>>, <<0, 1, 2, 3, 4>>}
MCListsD == {<<>>, <<1, 0, 5>>}
MCQueriesD == {<<>>, <<"a", " ", "W">>, <<"q", "u", "e", "r", "y", "l", "o", "n", "g", "e", "r">>,
               <<"W", "W", "W", "q", "u", "e", "W", "r", "y", "W", "W">>}                 \* wide cells at the start, in the middle, at the end
MCListsP == {<<>>, <<1, 0, 5, 2>>}
MCListsC == {<<1, 2, 4, 5, 3>>}
MCHeadersL == {<<<<"h", "e", "a", "d", "e", "r", " ", "t", "w", "o", " ", "!">>>>}
MCQueriesC == {<<>>}
MCQueries == {<<>>, <<"a">>, <<"a", " ", "W">>, <<"q", "u", "e", "r", "y", "l", "o", "n", "g", "e", "r">>,
              <<"W", "W", "W", "q", "u", "e", "W", "r", "y", "W", "W">>}
MCQueriesQ == {<<>>, <<"a", " ", "W">>}
=============================================================================
