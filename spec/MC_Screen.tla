----------------------------- MODULE MC_Screen -----------------------------
(* Exhaustive check of FzfScreen on small constants: every geometry x configuration of the constant sets, and    *)
(* from an initial state every sequence of abstract editor steps (type / erase, cursor moves that scroll,        *)
(* selection toggles, a new result list, a resize).  Render is a function, so the state machine is only the      *)
(* enumerator; the invariants say that the rendering satisfies the documented claims.                             *)
EXTENDS FzfScreen, Json

CONSTANTS Widths, Heights, Layouts, Infos, Seps, Headers, Hlines, HeaderFirsts, Inputless, Pointers, Markers,
          Ellipses, Lists, Multis, Queries, MaxCount, Tracks,
          Acts          \* enabled steps: subset of {"edit", "move", "toggle", "list", "resize"}

VARIABLES g, c, s
vars == <<g, c, s>>

TextOf(id) == CASE id = 0 -> <<"a", "b">>
                [] id = 1 -> <<"l", "o", "n", "g", " ", "l", "i", "n", "e", " ", "x", "y", "z", "w">>     \* 14 cells
                [] id = 2 -> <<"W", "i", "W", "x">>                                                 \* "W" is wide in MC
                [] id = 3 -> <<>>
                [] id = 4 -> <<"e", "x", "a", "c", "t", "l", "y", "9", "!">>                          \* 9 cells
                [] OTHER -> <<">", " ", "t">>
Wide == {"W"}
Zero == {"^"}
Geoms == [w : Widths, h : Heights, wide : {Wide}, zero : {Zero}]
Cfgs == [layout : Layouts, info : Infos, sep : Seps, header : Headers, hlines : Hlines, headerFirst : HeaderFirsts,
         inputless : Inputless, prompt : {<<">", " ">>}, pointer : Pointers, marker : Markers, ellipsis : Ellipses]
TextsOf(l) == [i \in 1..Len(l) |-> TextOf(l[i])]

(* printList -> constrain: the current line is kept inside the displayed window *)
View(st, gg, cc) ==
    LET mi == MaxItems(gg, cc)
        n == Len(st.list)
        cy == Constrain(st.cy, 0, n - 1)
        cy0 == IF n = 0 THEN 0 ELSE cy
        off == IF mi = 0 \/ n = 0 THEN 0
               ELSE IF cy0 < st.offset THEN cy0
               ELSE IF cy0 >= st.offset + mi THEN cy0 - mi + 1
               ELSE Min2(st.offset, Max2(n - mi, 0))
    IN [st EXCEPT !.cy = cy0, !.offset = off]

Init == /\ g \in Geoms /\ c \in Cfgs
        /\ \E l \in Lists, m \in Multis, tr \in Tracks :
             s = [input |-> <<>>, cx |-> 0, xoffset |-> 0, list |-> l, texts |-> TextsOf(l), sel |-> <<>>, multi |-> m, cy |-> 0,
                  offset |-> 0, count |-> MaxCount, track |-> tr]

(* a new query with the cursor somewhere in it; the prompt is redrawn (updatePromptOffset) *)
Edit == \E q \in Queries : \E x \in {0, Len(q) \div 2, Len(q)} :
           LET s1 == [s EXCEPT !.input = q, !.cx = x] IN
           s' = [s1 EXCEPT !.xoffset = PromptOffset(s1, g, c)] /\ UNCHANGED <<g, c>>
Move == \E d \in {-1, 1} : s' = View([s EXCEPT !.cy = s.cy + d], g, c) /\ UNCHANGED <<g, c>>
Toggle == /\ s.multi > 0 /\ N(s) > 0
          /\ LET id == s.list[s.cy + 1] IN
             IF Selected(id, s) THEN s' = [s EXCEPT !.sel = SelectSeq(s.sel, LAMBDA x : x # id)]
             ELSE Len(s.sel) < s.multi /\ s' = [s EXCEPT !.sel = Append(s.sel, id)]
          /\ UNCHANGED <<g, c>>
NewList == \E l \in Lists : s' = View([s EXCEPT !.list = l, !.texts = TextsOf(l)], g, c) /\ UNCHANGED <<g, c>>
Resize == \E g2 \in Geoms : g' = g2 /\ UNCHANGED c
                              /\ LET s1 == View(s, g2, c) IN s' = [s1 EXCEPT !.xoffset = PromptOffset(s1, g2, c)]
AEdit == "edit" \in Acts /\ Edit
AMove == "move" \in Acts /\ Move
AToggle == "toggle" \in Acts /\ Toggle
ANewList == "list" \in Acts /\ NewList
AResize == "resize" \in Acts /\ Resize
Next == AEdit \/ AMove \/ AToggle \/ ANewList \/ AResize

-----------------------------------------------------------------------------
R == Render(s, g, c)
Exact == InlineInfo(c) => InfoFits(QShown(s, g, c), s, g, c)
Scrolled == s.xoffset > 0

InvPlace == PlaceOK(g, c)
InvRowCount == Len(R) = g.h
InvWidth == Exact /\ InfoFits(QShown(s, g, c), s, g, c) => \A r \in 1..g.h : TW(R[r], g) <= g.w
(* the code-derived rendering satisfies the documented claims *)
InvClaims == Exact => Claims(R, s, g, c)

ItemRows == RowsOf("item", g, c)
PointerRows == {r \in ItemRows : IsPrefix(c.pointer, R[r])}
MarkerRows == {r \in ItemRows : Sub(R[r] \o Spaces(Indent(c, g)), Len(c.pointer) + 1, Len(c.pointer) + Len(c.marker)) = c.marker}
VisibleIx(r) == s.offset + SlotAt(r - 1, g, c).ix + 1
InvOnePointer == Cardinality(PointerRows) = (IF N(s) > 0 /\ MaxItems(g, c) > 0 THEN 1 ELSE 0)
InvPointerOnCurrent == \A r \in PointerRows : VisibleIx(r) = s.cy + 1
InvMarkers == MarkerRows = {r \in ItemRows : VisibleIx(r) <= N(s) /\ Selected(s.list[VisibleIx(r)], s)}
InvHeaderOutsideList ==
    \A r \in RowsOf("header", g, c) \cup RowsOf("hline", g, c) :
        /\ r \notin ItemRows
        /\ \A r1, r2 \in ItemRows : ~(r1 < r /\ r < r2)
(* every visible result is on exactly one row, in list order along the layout's direction *)
InvRowsAreResults ==
    \A r \in ItemRows : VisibleIx(r) <= N(s) =>
        /\ IsPrefix(RTrim(Sub(s.texts[VisibleIx(r)], 1, 1)), RTrim(Sub(R[r] \o Spaces(Indent(c, g) + 1), Indent(c, g) + 1, Indent(c, g) + 1)))
(* the recursive cut equals its declarative definition *)
InvTakeW == (s.sel = <<>> /\ s.cy = 0) => \A id \in 0..5 : \A lim \in -1..(Len(TextOf(id)) + 2) : TakeW(TextOf(id), lim, g) = TakeWDecl(TextOf(id), lim, g)
(* the cursor stays on the prompt line: what is shown before it fits, the offset never passes it *)
InvCursorVisible == /\ 0 <= s.xoffset /\ s.xoffset <= s.cx
                    /\ QBefore(s, g, c) = Sub(s.input, s.xoffset + 1, s.cx)
                    /\ TW(QShown(s, g, c), g) <= PromptRoom(g, c)
InvRTrim == \A r \in 1..g.h : R[r] = <<>> \/ R[r][Len(R[r])] # " "


-----------------------------------------------------------------------------
(* Export for the E binding (Gen_Screen*.cfg): every geometry x configuration x a few states, with the rows the    *)
(* specification predicts.  The driver puts the real program into that state (--disabled, --scroll-off=0, actions  *)
(* deselect-all / change-multi / change-query / pos / select, resize) and compares the captured screen.             *)
GenCfgs == {cc \in Cfgs : cc.inputless => (cc.info = "default" /\ cc.sep /\ ~cc.headerFirst)}
GenCombos == {  \* <<query, cy, selected list positions, multi>>
    <<<<>>, 0, {}, 0>>,
    <<<<"a", "b">>, 1, {1}, 5>>,
    <<<<>>, 2, {2, 5}, 5>>,
    <<<<"a", " ", "b">>, 0, {1, 2, 3, 4, 5}, 5>>,
    <<<<"x">>, 3, {4}, MaxMulti>>,
    <<<<"l", "o">>, 4, {5, 3}, 2>> }
RECURSIVE SortedSeq(_)
SortedSeq(S) == IF S = {} THEN <<>> ELSE LET m == CHOOSE x \in S : \A y \in S : x <= y IN <<m>> \o SortedSeq(S \ {m})
GenInit == /\ g \in Geoms /\ c \in GenCfgs
           /\ \E l \in Lists, k \in GenCombos :
                LET vis == Min2(Len(l), MaxItems(g, c))
                    pos == {p \in k[3] : p <= Len(l)}
                IN s = [input |-> k[1], cx |-> Len(k[1]), xoffset |-> 0, list |-> l, texts |-> TextsOf(l),
                        sel |-> [i \in 1..Cardinality(pos) |-> l[SortedSeq(pos)[i]]], multi |-> k[4],
                        cy |-> IF vis = 0 THEN 0 ELSE Min2(k[2], vis - 1), offset |-> 0, count |-> Len(l), track |-> 0]
GenNext == UNCHANGED vars
GenCase == PrintT(<<"CASE", ToJson([w |-> g.w, h |-> g.h, cfg |-> c, st |-> [s EXCEPT !.texts = <<>>],
                                    items |-> s.texts, rows |-> R])>>)
MCListsG == {<<1, 0, 5, 3, 4>>}
MCHeadersG == {<<>>, <<<<"H", "1">>, <<"a", " ", "h", "e", "a", "d", "e", "r", " ", "l", "i", "n", "e", " ", "o", "f", " ", "2", "4", " ", "c", "e", "l", "l", "s">>>>}
MCHlinesG == {<<>>, <<<<"x", "1">>, <<"x", "2">>>>}
MCPointers == {<<">">>}
MCPointers2 == {<<">">>, <<"=", ">">>}
MCMarkers == {<<">">>}
MCMarkers2 == {<<">">>, <<"*">>}
MCEllipses == {<<".", ".">>}
MCEllipses2 == {<<".", ".">>, <<"~">>, <<>>}
MCHeaders == {<<>>, <<<<"H", "1">>>>, <<<<"H", "1">>, <<"h", "e", "a", "d", "e", "r", " ", "t", "w", "o", " ", "!">>>>}
MCHeadersQ == {<<>>, <<<<"H", "1">>, <<"h", "e", "a", "d", "e", "r", " ", "t", "w", "o", " ", "!">>>>}
MCHlines == {<<>>, <<<<"x", "1">>>>, <<<<"x", "1">>, <<"x", "2">>>>}
MCHlinesQ == {<<>>, <<<<"x", "1">>, <<"x", "2">>>>}
MCLists == {<<>>, <<0>>, <<1, 0, 2>>, <<0, 1, 2, 3, 4, 5>>}
MCListsQ == {<<>>, <<1, 0, 5>>, <<0, 1, 2, 3, 4>>}
MCListsD == {<<>>, <<1, 0, 5>>}
MCQueriesD == {<<>>, <<"a", " ", "W">>, <<"q", "u", "e", "r", "y", "l", "o", "n", "g", "e", "r">>}
MCListsP == {<<>>, <<1, 0, 5, 2>>}
MCListsC == {<<1, 2, 4, 5, 3>>}
MCHeadersL == {<<<<"h", "e", "a", "d", "e", "r", " ", "t", "w", "o", " ", "!">>>>}
MCQueriesC == {<<>>}
MCQueries == {<<>>, <<"a">>, <<"a", " ", "W">>, <<"q", "u", "e", "r", "y", "l", "o", "n", "g", "e", "r">>}
MCQueriesQ == {<<>>, <<"a", " ", "W">>}
=============================================================================
