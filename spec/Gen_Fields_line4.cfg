CONSTANTS
  AlphaOf <- FullAlpha
  MaxLenOf <- Len4
  DelimSet <- AllDelims
INIT Init
NEXT Next
INVARIANTS InvPartition InvSelection InvNth InvRender EmitMenu EmitLine
CHECK_DEADLOCK FALSE
