CONSTANTS
  AlphaOf <- LineAlpha
  MaxLenOf <- Len4
  DelimSet <- LineDelims
INIT Init
NEXT Next
INVARIANTS InvPartition InvSelection InvNth InvRender EmitMenu EmitLine
CHECK_DEADLOCK FALSE
