CONSTANTS
  AlphaOf <- AwkTokAlpha
  MaxLenOf <- Len3
  DelimSet <- AwkUOnly
INIT Init
NEXT Next
INVARIANTS InvPartition EmitTok
CHECK_DEADLOCK FALSE
