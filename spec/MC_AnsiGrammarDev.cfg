CONSTANTS
  AlphaSeq <- AlphaFull
  Prefix <- PrefNone
  MaxLen = 0
  Pres = {0}
  Depth = 3
INIT GInit
NEXT GNext
INVARIANTS GDevLocal
CHECK_DEADLOCK FALSE
