---------------------------- MODULE MC_Lifecycle ----------------------------
(* Behaviour export of FzfLifecycle for the E binding (Gen_Lifecycle.cfg, -simulate): a behaviour = the steps of   *)
(* one life of fzf up to its exit, each step one a driver can bring about from outside, together with what the     *)
(* specification predicts: the tracked mode changes a terminal receives, in order, and what is left afterwards.    *)
(* (The exhaustive configurations MC_Lifecycle*.cfg check FzfLifecycle itself.)                                     *)
EXTENDS FzfLifecycle, Json

VARIABLES hist, ops
gvars == <<vars, hist, ops>>

GenHows == {"accept", "abort", "print-query", "SIGINT", "SIGTERM"}
MaxSteps == 9
Step(label) == hist' = Append(hist, label)

GInit == Init /\ hist = <<>> /\ ops = <<>>
GStep == \/ RInit /\ Step([a |-> "init"])
         \/ Flush /\ UNCHANGED hist
         \/ \E k \in Kinds, n \in TempCounts : StartChild(k, n) /\ Step([a |-> "start", k |-> k, n |-> n])
         \/ BgPause /\ Step([a |-> "bgpause"])
         \/ \E k \in Kinds : ChildExit(k) /\ Step([a |-> "end", k |-> k])
         \/ \E t \in temps : RemoveTemp(t) /\ UNCHANGED hist
         \/ Suspend /\ Step([a |-> "suspend"])
         \/ Continue /\ Step([a |-> "continue"])
         \/ ToggleCursor /\ Step([a |-> "cursor"])
         \* one exit request per life, asked for when fzf is up; a SIGINT is only sent when it is not dropped
         \/ \E h \in GenHows : /\ pending = {} /\ phase \notin {"start", "stopped"} /\ ~(h = "SIGINT" /\ phase \in Executing)
                               /\ (phase \in Executing => h \in Signals)
                               /\ RequestExit(h) /\ pending' = {h} /\ Step([a |-> "exit", how |-> h])
         \/ \E h \in ExitHows : ExitVia(h) /\ UNCHANGED hist
GNext == GStep /\ ops' = ops \o out'
GBound == Len(hist) <= MaxSteps

Emit == phase = "exited" =>
          PrintT(<<"CASE", ToJson([cfg |-> cfg, steps |-> hist, ops |-> ops, how |-> how, mouse |-> mouseOn,
                                   statuses |-> AllowedStatus(how), restored |-> RestoredScr(scr, cfg), alt |-> scr.alt,
                                   tio |-> tio, children |-> Cardinality(children), temps |-> Cardinality(temps),
                                   listener |-> listener])>>)
=============================================================================
