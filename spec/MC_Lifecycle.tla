---------------------------- MODULE MC_Lifecycle ----------------------------
(* Constant sets for the exhaustive configurations of FzfLifecycle (MC_Lifecycle*.cfg): exit-at-any-moment closure  *)
(* on the model.                                                                                                    *)
EXTENDS FzfLifecycle

AllCfgs == Cfgs
ListenCfgs == {c \in Cfgs : c.listen}
FewCfgs == {c \in Cfgs : c.listen /\ c.clear}
AllHows == ExitHows
FewHows == {"accept", "SIGINT", "SIGTERM"}
=============================================================================
