------------------------------- MODULE FzfAlgo -------------------------------
(* The matchers of src/algo/algo.go as functions of (text, pattern, options): witness semantics (C02), the     *)
(* scoring model (C03), and - in FzfAlgoV2 - the dynamic programme and the scratch slab (C05).                  *)
(* A text / pattern is a sequence of FzfChars symbols.  Positions in RESULTS are 0-based like in the code,      *)
(* sequences are 1-based: result position p denotes text[p+1].                                                  *)
(* Contract of the code (algo.go "Algo functions make two assumptions"): the pattern is lower-case when the     *)
(* match is case-insensitive and accent-free when normalisation is on: Admissible(pat, cs, norm).               *)
EXTENDS FzfChars, FiniteSets, TLC

Kinds == <<"v2", "v1", "exact", "boundary", "prefix", "suffix", "equal">>
Schemes == <<"default", "path", "history">>

Max2(a, b) == IF a >= b THEN a ELSE b
Rev(s) == [i \in 1..Len(s) |-> s[Len(s) + 1 - i]]

(* ---------------------------------------------------------------- folding *)
Fold(c, cs, norm) == LET l == IF cs THEN c ELSE Lower(c) IN IF norm THEN Norm(l) ELSE l
FoldSeq(t, cs, norm) == [i \in 1..Len(t) |-> Fold(t[i], cs, norm)]
Admissible(pat, cs, norm) == \A i \in 1..Len(pat) : Fold(pat[i], cs, norm) = pat[i]

(* ---------------------------------------------------------------- scoring constants (algo.go:112-146) *)
ScoreMatch == 16
GapStart == -3
GapExt == -1
BonusBoundary == 8
BonusNonWord == 8
BonusCamel == 7
BonusConsecutive == 4
FirstMult == 2
BonusWhite(scheme) == IF scheme = "default" THEN 10 ELSE 8
BonusDelim(scheme) == IF scheme = "history" THEN 8 ELSE 9
InitialClass(scheme) == IF scheme = "path" THEN "delimiter" ELSE "white"
SepClasses == {"white", "nonword", "delimiter"}        \* classes that end a word (charClass <= charDelimiter)

(* bonus of a character of class cur that follows a character of class prev *)
Bonus(prev, cur, scheme) ==
    IF cur \notin {"white", "nonword"} /\ prev \in SepClasses
      THEN (CASE prev = "white" -> BonusWhite(scheme) [] prev = "delimiter" -> BonusDelim(scheme)
              [] OTHER -> BonusBoundary)
    ELSE IF (prev = "lower" /\ cur = "upper") \/ (prev # "number" /\ cur = "number") THEN BonusCamel
    ELSE IF cur \in {"nonword", "delimiter"} THEN BonusNonWord
    ELSE IF cur = "white" THEN BonusWhite(scheme)
    ELSE 0

ClassSeq(t, scheme) == [i \in 1..Len(t) |-> Class(t[i], scheme)]
(* bonus of every position of the whole line, the line start counting as InitialClass *)
BonusSeq(t, scheme) == [i \in 1..Len(t) |->
    Bonus(IF i = 1 THEN InitialClass(scheme) ELSE Class(t[i - 1], scheme), Class(t[i], scheme), scheme)]
(* bonusAt() used by the exact matchers to rank occurrences: line start always counts as white  \* CODE-DERIVED *)
BonusAt(t, i, scheme) == IF i = 1 THEN BonusWhite(scheme)
                         ELSE Bonus(Class(t[i - 1], scheme), Class(t[i], scheme), scheme)

(* ---------------------------------------------------------------- declarative witnesses (C02) *)
(* embeddings: strictly increasing position sequences (1-based) whose characters fold to the pattern *)
RECURSIVE EmbFrom(_, _, _, _)
EmbFrom(T, P, k, from) ==      \* all ways to place P[k..] at positions >= from
    IF k > Len(P) THEN {<<>>}
    ELSE UNION {{<<j>> \o r : r \in EmbFrom(T, P, k + 1, j + 1)} : j \in {x \in from..Len(T) : T[x] = P[k]}}
Embeddings(T, P) == EmbFrom(T, P, 1, 1)

IsEmbedding(T, P, e) == /\ Len(e) = Len(P)
                        /\ \A k \in 1..Len(e) : e[k] \in 1..Len(T) /\ T[e[k]] = P[k]
                        /\ \A k \in 1..Len(e) - 1 : e[k] < e[k + 1]

OccursAt(T, P, i) == i >= 1 /\ i + Len(P) - 1 <= Len(T) /\ \A k \in 1..Len(P) : T[i + k - 1] = P[k]
Occurrences(T, P) == {i \in 1..(Len(T) - Len(P) + 1) : OccursAt(T, P, i)}

RECURSIVE LeadWhite(_), TrailWhite(_)
LeadWhite(t) == IF t # <<>> /\ IsSpace(Head(t)) THEN 1 + LeadWhite(Tail(t)) ELSE 0
TrailWhite(t) == LeadWhite(Rev(t))

(* word boundary on both sides: line edge or a separator-class character (underscore included) *)
AtBoundary(t, i, m, scheme) == /\ (i = 1 \/ Class(t[i - 1], scheme) \in SepClasses)
                               /\ (i + m - 1 = Len(t) \/ Class(t[i + m], scheme) \in SepClasses)
BoundaryOccurrences(t, T, P, scheme) == {i \in Occurrences(T, P) : AtBoundary(t, i, Len(P), scheme)}

(* anchors with the documented trimming: blanks of the line are skipped unless the pattern itself starts/ends blank *)
PrefixAt(t, P) == IF IsSpace(P[1]) THEN 1 ELSE LeadWhite(t) + 1
SuffixEnd(t, P) == IF IsSpace(P[Len(P)]) THEN Len(t) ELSE Len(t) - TrailWhite(t)     \* 1-based last position

(* Witness(kind, ...) for a non-empty admissible pattern: the set of witnesses is non-empty *)
Witness(kind, t, P, cs, norm, scheme) ==
    LET T == FoldSeq(t, cs, norm) IN
    CASE kind \in {"v1", "v2"} -> Embeddings(T, P) # {}
      [] kind = "exact"    -> Occurrences(T, P) # {}
      [] kind = "boundary" -> BoundaryOccurrences(t, T, P, scheme) # {}
      [] kind = "prefix"   -> OccursAt(T, P, PrefixAt(t, P))
      [] kind = "suffix"   -> OccursAt(T, P, SuffixEnd(t, P) - Len(P) + 1)
      [] kind = "equal"    -> /\ OccursAt(T, P, PrefixAt(t, P))
                              /\ PrefixAt(t, P) + Len(P) - 1 = SuffixEnd(t, P)

(* linear-time existence test for embeddings (MC_Algo: HasEmb <=> Embeddings # {}), used on long judged texts *)
RECURSIVE GreedyEmb(_, _, _, _)
GreedyEmb(T, P, k, from) ==     \* leftmost embedding of P[k..] at positions >= from, or <<0>> if none
    IF k > Len(P) THEN <<>>
    ELSE IF from > Len(T) THEN <<0>>
    ELSE IF T[from] = P[k]
           THEN LET r == GreedyEmb(T, P, k + 1, from + 1) IN IF r = <<0>> THEN <<0>> ELSE <<from>> \o r
           ELSE GreedyEmb(T, P, k, from + 1)
HasEmb(T, P) == GreedyEmb(T, P, 1, 1) # <<0>>

(* ---------------------------------------------------------------- results *)
(* [s, e): 0-based half-open range; sc: score; pos: highlight positions, 0-based ascending *)
NoMatch == [s |-> -1, e |-> -1, sc |-> 0, pos |-> <<>>]
Range(s, e) == [i \in 1..(e - s) |-> s + i - 1]
FuzzyKind(kind) == kind \in {"v1", "v2"}

(* C02: what a returned result must satisfy.  withPos = positions were requested.  Non-empty admissible pattern. *)
ValidResult(kind, t, P, cs, norm, scheme, r, withPos) ==
    LET T == FoldSeq(t, cs, norm)
        N == Len(t)
        M == Len(P)
        e1 == [k \in 1..Len(r.pos) |-> r.pos[k] + 1]      \* 1-based
    IN IF r.s < 0 THEN r.e < 0 /\ (IF FuzzyKind(kind) THEN ~HasEmb(T, P) ELSE ~Witness(kind, t, P, cs, norm, scheme))
       ELSE /\ 0 <= r.s /\ r.s <= r.e /\ r.e <= N
            /\ IF FuzzyKind(kind)
                 THEN IF withPos THEN /\ IsEmbedding(T, P, e1)
                                      /\ \A k \in 1..Len(r.pos) : r.s <= r.pos[k] /\ r.pos[k] < r.e
                      ELSE HasEmb(SubSeq(T, r.s + 1, r.e), P)
                 ELSE /\ r.e = r.s + M /\ OccursAt(T, P, r.s + 1)
                      /\ (withPos => r.pos = Range(r.s, r.e))
                      /\ (kind = "boundary" => AtBoundary(t, r.s + 1, M, scheme))
                      /\ (kind \in {"prefix", "equal"} => r.s + 1 = PrefixAt(t, P))
                      /\ (kind \in {"suffix", "equal"} => r.e = SuffixEnd(t, P))

(* ---------------------------------------------------------------- score of an alignment (C03) *)
(* calculateScore: walk the span of the embedding; matched characters score 16 + bonus (first pattern character  *)
(* twice the bonus), a run of consecutive matches inherits the bonus of its first character (at least 4) unless   *)
(* a stronger boundary starts inside it; unmatched characters cost 3 for the first and 1 for each further one.    *)
RECURSIVE EmbWalk(_, _, _, _, _, _, _, _)
EmbWalk(B, emb, idx, k, score, inGap, cons, first) ==
    IF k > Len(emb) THEN score
    ELSE IF idx = emb[k]
      THEN LET b0 == B[idx]
               fb == IF cons = 0 THEN b0 ELSE IF b0 >= BonusBoundary /\ b0 > first THEN b0 ELSE first
               b == IF cons = 0 THEN b0 ELSE Max2(Max2(b0, fb), BonusConsecutive)
           IN EmbWalk(B, emb, idx + 1, k + 1, score + ScoreMatch + (IF k = 1 THEN FirstMult * b ELSE b),
                      FALSE, cons + 1, fb)
      ELSE EmbWalk(B, emb, idx + 1, k, score + (IF inGap THEN GapExt ELSE GapStart), TRUE, 0, 0)
(* score of embedding emb (1-based positions) of the pattern in line t *)
AlignScore(t, scheme, emb) == IF emb = <<>> THEN 0
                              ELSE EmbWalk(BonusSeq(t, scheme), emb, emb[1], 1, 0, FALSE, 0, 0)
SetMax(S) == CHOOSE x \in S : \A y \in S : y <= x
BestAlign(t, P, cs, norm, scheme) ==
    SetMax({AlignScore(t, scheme, e) : e \in Embeddings(FoldSeq(t, cs, norm), P)})
(* calculateScore(sidx, eidx): the leftmost embedding inside the span [s1, e1] (1-based, inclusive) *)
SpanEmb(T, P, s1) == GreedyEmb(T, P, 1, s1)

(* ---------------------------------------------------------------- FuzzyMatchV1: first occurrence, then shrink *)
RECURSIVE GreedyBack(_, _, _, _)
GreedyBack(T, P, k, from) ==     \* scanning leftwards from `from`, match P[k], P[k-1], ...; position of P[1] (0 if none)
    IF k = 0 THEN from + 1
    ELSE IF from < 1 THEN 0
    ELSE IF T[from] = P[k] THEN GreedyBack(T, P, k - 1, from - 1) ELSE GreedyBack(T, P, k, from - 1)
(* 1-based inclusive span <<s, e>> found scanning left to right, <<0, 0>> if none *)
V1SpanFwd(T, P) == LET g == GreedyEmb(T, P, 1, 1) IN
                   IF g = <<0>> THEN <<0, 0>> ELSE <<GreedyBack(T, P, Len(P), g[Len(P)]), g[Len(P)]>>
(* scanning right to left is the same on the mirrored line and pattern *)
V1Span(T, P, fwd) == IF fwd THEN V1SpanFwd(T, P)
                     ELSE LET m == V1SpanFwd(Rev(T), Rev(P)) IN
                          IF m = <<0, 0>> THEN m ELSE <<Len(T) + 1 - m[2], Len(T) + 1 - m[1]>>
ZeroBased(emb) == [k \in 1..Len(emb) |-> emb[k] - 1]
SpanResult(t, T, P, scheme, s1) ==      \* the exact family and V1 score the span by its leftmost embedding
    LET emb == SpanEmb(T, P, s1) IN [s |-> s1 - 1, e |-> emb[Len(emb)], sc |-> AlignScore(t, scheme, emb), pos |-> ZeroBased(emb)]
V1Result(t, P, cs, norm, fwd, scheme) ==
    LET T == FoldSeq(t, cs, norm)
        sp == V1Span(T, P, fwd)
    IN IF sp = <<0, 0>> THEN NoMatch ELSE SpanResult(t, T, P, scheme, sp[1])

(* ---------------------------------------------------------------- exact family *)
(* ExactMatchNaive reports the occurrence whose first character has the best bonus; among equals the first one   *)
(* met in scan direction; the scan stops at the first occurrence with a boundary-grade bonus.   \* CODE-DERIVED  *)
MinOf(S) == CHOOSE x \in S : \A y \in S : x <= y
MaxOf(S) == CHOOSE x \in S : \A y \in S : y <= x
FirstIn(S, fwd) == IF fwd THEN MinOf(S) ELSE MaxOf(S)
BestOccurrence(t, occ, fwd, scheme) ==
    LET good == {i \in occ : BonusAt(t, i, scheme) >= BonusBoundary}
        before == IF good = {} THEN occ
                  ELSE {i \in occ : IF fwd THEN i <= FirstIn(good, fwd) ELSE i >= FirstIn(good, fwd)}
        top == MaxOf({BonusAt(t, i, scheme) : i \in before})
    IN FirstIn({i \in before : BonusAt(t, i, scheme) = top}, fwd)
ExactResult(t, P, cs, norm, fwd, scheme) ==
    LET T == FoldSeq(t, cs, norm)
        occ == Occurrences(T, P)
    IN IF occ = {} THEN NoMatch ELSE SpanResult(t, T, P, scheme, BestOccurrence(t, occ, fwd, scheme))
(* 'foo': first boundary occurrence in scan direction.  Score: closed formula, underscores rank lower (man page) *)
BoundaryScore(t, P, i, scheme) ==       \* CODE-DERIVED formula
    LET b == BonusAt(t, i, scheme)
        d0 == b - BonusBoundary + 1
        lu == i > 1 /\ t[i - 1] = "_"
        ru == i + Len(P) <= Len(t) /\ t[i + Len(P)] = "_"
    IN b - (IF lu THEN d0 + 1 ELSE 0) - (IF ru THEN (IF lu THEN 1 ELSE d0) ELSE 0)
         + ScoreMatch * Len(P) + BonusWhite(scheme) * (Len(P) + 1)
BoundaryResult(t, P, cs, norm, fwd, scheme) ==
    LET T == FoldSeq(t, cs, norm)
        occ == BoundaryOccurrences(t, T, P, scheme)
    IN IF occ = {} THEN NoMatch
       ELSE LET i == FirstIn(occ, fwd) IN
            [s |-> i - 1, e |-> i - 1 + Len(P), sc |-> BoundaryScore(t, P, i, scheme), pos |-> Range(i - 1, i - 1 + Len(P))]
AnchoredResult(kind, t, P, cs, norm, scheme) ==
    LET T == FoldSeq(t, cs, norm)
        i == IF kind = "suffix" THEN SuffixEnd(t, P) - Len(P) + 1 ELSE PrefixAt(t, P)
    IN IF ~Witness(kind, t, P, cs, norm, scheme) THEN NoMatch
       ELSE IF kind = "equal"
         THEN [s |-> i - 1, e |-> i - 1 + Len(P), pos |-> Range(i - 1, i - 1 + Len(P)),
               sc |-> (ScoreMatch + BonusWhite(scheme)) * Len(P) + (FirstMult - 1) * BonusWhite(scheme)]  \* CODE-DERIVED
         ELSE SpanResult(t, T, P, scheme, i)

(* empty pattern: every matcher but `equal` reports an empty match; suffix puts it after the last non-blank  \* CODE-DERIVED *)
EmptyResult(kind, t) ==
    IF kind = "equal" THEN NoMatch
    ELSE LET p == IF kind = "suffix" THEN Len(t) - TrailWhite(t) ELSE 0 IN [s |-> p, e |-> p, sc |-> 0, pos |-> <<>>]

(* ---------------------------------------------------------------- run-length encoded lines (giant lines in J) *)
(* runs = << <<symbol, count>>, ... >> *)
RECURSIVE SymAt(_, _), RunsLen(_), Expand(_, _)
RunsLen(runs) == IF runs = <<>> THEN 0 ELSE runs[1][2] + RunsLen(Tail(runs))
SymAt(runs, p) == IF p < runs[1][2] THEN runs[1][1] ELSE SymAt(Tail(runs), p - runs[1][2])      \* 0-based p
(* the line with every run cut to at most k characters: contains the same windows of length < k and the same    *)
(* embeddings of patterns shorter than k                                                                          *)
Expand(runs, k) == IF runs = <<>> THEN <<>>
                   ELSE [i \in 1..(IF runs[1][2] < k THEN runs[1][2] ELSE k) |-> runs[1][1]] \o Expand(Tail(runs), k)
RECURSIVE LeadRuns(_)
LeadRuns(runs) == IF runs # <<>> /\ IsSpace(runs[1][1]) THEN runs[1][2] + LeadRuns(Tail(runs)) ELSE 0
RECURSIVE ToRuns(_, _)
ToRuns(t, acc) == IF t = <<>> THEN acc
                  ELSE IF acc # <<>> /\ acc[Len(acc)][1] = Head(t)
                         THEN ToRuns(Tail(t), [acc EXCEPT ![Len(acc)] = <<Head(t), acc[Len(acc)][2] + 1>>])
                         ELSE ToRuns(Tail(t), Append(acc, <<Head(t), 1>>))
(* the line cut down to runs of at most Len(P) + 2 has a witness iff the line has one (MC_Algo!RleSound) *)
Shortened(t, P) == Expand(ToRuns(t, <<>>), Len(P) + 2)
================================================================================
