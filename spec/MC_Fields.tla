------------------------------ MODULE MC_Fields ------------------------------
(* Exhaustive configurations and case export for FzfFields.                                                      *)
(* The state is (line, d): lines are grown one symbol at a time (a tree walk that TLC's workers share), the        *)
(* delimiter is chosen initially.  MC_Fields*.cfg check the design invariants in every state; Gen_Fields*.cfg      *)
(* print, per state, the observations the specification predicts (PrintT CASE) for the Go harness.                *)
EXTENDS FzfFields, Json, TLC

CONSTANTS AlphaOf(_),   \* symbols a line is built from, per delimiter
          MaxLenOf(_),  \* longest line, per delimiter
          DelimSet      \* delimiters

VARIABLES line, d
vars == <<line, d>>

Init == line = <<>> /\ d \in DelimSet
Extend == /\ Len(line) < MaxLenOf(d)
          /\ \E c \in AlphaOf(d) : line' = Append(line, c)
          /\ d' = d
Next == Extend

-------------------------------------------------------------------------------
(* constant sets for the configurations *)
LineAlphabet == {"a", "b", ",", ":", " ", "TAB", "e~"}
AllDelims == {AwkD,
              [kind |-> "str", id |-> ","], [kind |-> "str", id |-> ", "], [kind |-> "str", id |-> "TAB"],
              [kind |-> "re", id |-> "[,:]"], [kind |-> "re", id |-> ",+"], [kind |-> "re", id |-> ",|, "], [kind |-> "re", id |-> "b*"],
              [kind |-> "re", id |-> ","], [kind |-> "re", id |-> ", "], [kind |-> "re", id |-> "TAB"]}
(* AWK style on characters that are NOT AWK blanks but look like white space to something else: a second AWK         *)
(* "delimiter" record (same kind, other id: the harness and FzfFields only look at the kind) that carries its own     *)
(* alphabets.  AwkLineAlphabet (full menu per line): the two AWK blanks, CR VT FF, NBSP, NEL, and multi-byte          *)
(* characters whose UTF-8 encoding contains the bytes 0xA0 / 0x85 / 0x80 (a-grave, a-ogonek, U+4F60, U+5800; the      *)
(* last two are wide).  AwkTokAlphabet (tokens only): also the other control characters, LF, U+2003, U+3000,          *)
(* zero width space, dagger, e-acute.                                                                                 *)
AwkU == [kind |-> "awk", id |-> "uni"]
AwkLineAlphabet == {"a", "b", " ", "TAB", "CR", "VT", "FF", "NBSP", "NEL", "a`", "aog", "ni", "hori"}
AwkTokAlphabet == AwkLineAlphabet \cup {"LF", "BS", "US", "DEL", "IDSP", "EMSP", "ZWSP", "dag", "e~"}
ASSUME AwkTokAlphabet \subseteq AllSymbols
AwkUOnly == {AwkU}
(* Non-ASCII delimiters: a literal of one two-byte character (e-acute), of one three-byte character (box drawings      *)
(* vertical), of two non-ASCII characters (e-acute + box vertical), and - the same two characters on the regular      *)
(* expression path - the bracket expression over them.  Their lines are made of the delimiter characters, of            *)
(* characters sharing the lead bytes of their encodings (e-grave C3 A8, box horizontal E2 94 80), ASCII letters,       *)
(* SPACE (trailing white space of a stripped field) and a wide character.                                              *)
U8Delims == {[kind |-> "str", id |-> "e~"], [kind |-> "str", id |-> "bxv"], [kind |-> "str", id |-> "e~bxv"],
             [kind |-> "re", id |-> "[e~bxv]"]}
U8LineAlphabet == {"a", "b", " ", "e~", "e`", "bxv", "bxh", "ni"}
ASSUME U8LineAlphabet \subseteq AllSymbols
ASSUME \A dd \in U8Delims : DelimChars(dd) \subseteq U8LineAlphabet /\ \A c \in DelimChars(dd) : ~IsAscii(c)
ASSUME Utf8Len("e~") = 2 /\ Utf8Len("e`") = 2 /\ Utf8Len("bxv") = 3 /\ Utf8Len("bxh") = 3
LineDelims == AllDelims \cup {AwkU} \cup U8Delims
FullDelims == AllDelims \cup U8Delims
LineAlpha(dd) == IF dd = AwkU THEN AwkLineAlphabet ELSE IF dd \in U8Delims THEN U8LineAlphabet ELSE LineAlphabet
AwkTokAlpha(dd) == AwkTokAlphabet
(* shape lines for the selection export: one body symbol (multi-byte) plus the delimiter's own symbols *)
AwkShape   == {"e~", " "}
CommaShape == {"e~", ","}
CSpShape   == {"e~", ",", " "}
TabShape   == {"e~", "TAB"}
CColShape  == {"e~", ",", ":"}
AwkOnly    == {AwkD}
FullAlpha(dd) == IF dd \in U8Delims THEN U8LineAlphabet ELSE LineAlphabet
AwkUShape  == {"hori", " ", "NBSP"}
ShapeAlpha(dd) == CASE dd = AwkU -> AwkUShape
                    [] dd.id = "e~"      -> {"e`", "e~"}             \* body: the character sharing the lead byte
                    [] dd.id = "bxv"     -> {"bxh", "bxv"}
                    [] dd.id = "e~bxv"   -> {"e`", "e~", "bxv"}
                    [] dd.id = "[e~bxv]" -> {"bxh", "e~", "bxv"}
                    [] dd = AwkD       -> AwkShape
                    [] dd.id \in {", ", ",|, "} -> CSpShape
                    [] dd.id = "TAB"   -> TabShape
                    [] dd.id = "b*"    -> {"e~", "b", ","}
                    [] dd.id = "[,:]"  -> CColShape
                    [] OTHER           -> CommaShape
ShapeLen(dd) == IF dd.kind # "awk" /\ dd.id \in {", ", ",|, ", "[,:]", "e~bxv", "[e~bxv]"} THEN 6 ELSE 7      \* AWK: 4 fields need 7 symbols
Len2(dd) == 2
Len3(dd) == 3
Len4(dd) == 4
Len5(dd) == 5
Len6(dd) == 6
ExprAlphabet == {"0", "1", "2", "-", "."}
ExprAlpha(dd) == ExprAlphabet

-------------------------------------------------------------------------------
(* field index expressions as character sequences *)
IntChars(n) == IF n < 0 THEN <<"-">> \o NatChars(0 - n) ELSE NatChars(n)
ExprN(a) == IntChars(a)
ExprAB(a, b) == IntChars(a) \o Dots \o IntChars(b)
ExprA(a) == IntChars(a) \o Dots
ExprB(b) == Dots \o IntChars(b)
Bound == 5
Ints == (0 - Bound)..Bound
SeqOfInts == [k \in 1..(2 * Bound + 1) |-> k - Bound - 1]
(* every N, A.., ..B, A..B for A, B in -5..5 (zero included: must be rejected), and .. *)
AllExprs == <<Dots>> \o [k \in 1..Len(SeqOfInts) |-> ExprN(SeqOfInts[k])]
                     \o [k \in 1..Len(SeqOfInts) |-> ExprA(SeqOfInts[k])]
                     \o [k \in 1..Len(SeqOfInts) |-> ExprB(SeqOfInts[k])]
                     \o [k \in 1..(Len(SeqOfInts) * Len(SeqOfInts)) |->
                            ExprAB(SeqOfInts[((k - 1) \div Len(SeqOfInts)) + 1], SeqOfInts[((k - 1) % Len(SeqOfInts)) + 1])]

(* ParseRange agrees with the documented grammar on all of them *)
ParseDocumented ==
    /\ ParseRange(Dots) = [ok |-> TRUE, lo |-> 0, hi |-> 0]
    /\ \A a \in Ints :
          /\ ParseRange(ExprN(a)) = IF a = 0 THEN BadRange ELSE [ok |-> TRUE, lo |-> a, hi |-> a]
          /\ ParseRange(ExprA(a)) = IF a = 0 THEN BadRange ELSE [ok |-> TRUE, lo |-> a, hi |-> 0]
          /\ ParseRange(ExprB(a)) = IF a = 0 THEN BadRange ELSE [ok |-> TRUE, lo |-> 0, hi |-> a]
          /\ \A b \in Ints :
                ParseRange(ExprAB(a, b)) = IF a = 0 \/ b = 0 \/ (a < 0 /\ b > 0) THEN BadRange
                                           ELSE [ok |-> TRUE, lo |-> a, hi |-> b]
    /\ ~ParseRange(<<>>).ok /\ ~ParseRange(<<".">>).ok /\ ~ParseRange(<<"-">>).ok
    /\ ~ParseRange(<<".", ".", ".">>).ok /\ ~ParseRange(<<"1", ".", ".", ".", "2">>).ok
    /\ ~ParseRange(<<"1", ".", ".", "2", ".", ".", "3">>).ok /\ ~ParseRange(<<"-", "-", "1">>).ok
    /\ ParseRange(<<"0", "2">>) = [ok |-> TRUE, lo |-> 2, hi |-> 2]        \* CODE-DERIVED: leading zeros are read
ASSUME ParseDocumented

-------------------------------------------------------------------------------
(* menus shared by the exhaustive check and the export *)
NthMenu == << <<>>,
              <<ExprN(1)>>, <<ExprN(2)>>, <<ExprN(-1)>>, <<ExprN(-2)>>, <<ExprA(2)>>, <<ExprB(2)>>, <<ExprA(-2)>>,
              <<ExprB(-2)>>, <<ExprAB(2, 3)>>, <<Dots>>, <<ExprN(2), ExprN(1)>>, <<ExprN(1), ExprN(3)>>,
              <<ExprA(3), ExprB(2)>>, <<ExprN(2), ExprA(1)>> >>
Kinds == <<"exact", "prefix", "suffix", "fuzzy", "xexact">>
Terms == << <<"a">>, <<"b">>, <<"e~">>, <<",">>, <<"a", "b">>, <<"a", ",">>, <<",", "a">>, <<"e~", "b">>, <<"ni">>, <<"hori">>,
           <<"e`">>, <<"bxh">> >>
(* combos: index c <-> (nth, kind, term), c = ((n-1)*|Kinds| + (k-1))*|Terms| + t *)
NCombos == Len(NthMenu) * Len(Kinds) * Len(Terms)
ComboNth(c) == ((c - 1) \div (Len(Kinds) * Len(Terms))) + 1
ComboKind(c) == (((c - 1) \div Len(Terms)) % Len(Kinds)) + 1
ComboTerm(c) == ((c - 1) % Len(Terms)) + 1

Plain(es) == [plain |-> TRUE, nth |-> es, parts |-> <<>>]
Lit(v) == [k |-> "lit", v |-> v]
NthP(es) == [k |-> "nth", v |-> es]
IdxP == [k |-> "n", v |-> <<>>]
Tmpl(ps) == [plain |-> FALSE, nth |-> <<>>, parts |-> ps]
SpecMenu == << Plain(<<ExprA(2)>>), Plain(<<ExprN(1)>>), Plain(<<ExprN(-1)>>), Plain(<<ExprN(2), ExprN(1)>>),
               Plain(<<ExprB(-2)>>), Plain(<<Dots>>),
               Tmpl(<<NthP(<<ExprN(2)>>), Lit(<<":">>), NthP(<<ExprN(1)>>)>>),
               Tmpl(<<NthP(<<ExprAB(1, 2)>>)>>),
               Tmpl(<<Lit(<<"b">>), NthP(<<ExprA(2)>>), Lit(<<",">>), NthP(<<ExprN(-1), ExprN(1)>>)>>),
               Tmpl(<<IdxP, Lit(<<" ">>), NthP(<<ExprN(-1)>>)>>) >>
SpecIndex == 12             \* the ordinal the harness passes for {n}: rendered with the symbols "1" "2"
(* --with-nth followed by a search on the rendition: (spec, nth, kind, term) *)
WNth == << <<>>, <<ExprN(1)>>, <<ExprN(-1)>> >>
WKinds == <<"exact", "suffix">>
WTerms == << <<"a">>, <<"e~">>, <<",">>, <<"a", ",">>, <<"b">>, <<":">>, <<"ni">>, <<"e`">> >>
NWCombos == Len(SpecMenu) * Len(WNth) * Len(WKinds) * Len(WTerms)
WSpec(c) == ((c - 1) \div (Len(WNth) * Len(WKinds) * Len(WTerms))) + 1
WNthOf(c) == (((c - 1) \div (Len(WKinds) * Len(WTerms))) % Len(WNth)) + 1
WKindOf(c) == (((c - 1) \div Len(WTerms)) % Len(WKinds)) + 1
WTermOf(c) == ((c - 1) % Len(WTerms)) + 1
PhMenu == << <<ExprN(1)>>, <<ExprN(2)>>, <<ExprN(-1)>>, <<ExprA(2)>>, <<ExprB(2)>>, <<ExprN(2), ExprN(1)>>, <<Dots>>,
             <<ExprAB(1, -2)>> >>

ParsedExprs == TLCEval([k \in 1..Len(AllExprs) |-> ParseRange(AllExprs[k])])
ParsedNthMenu == TLCEval([n \in 1..Len(NthMenu) |-> ParseNth(NthMenu[n])])
ParsedPhMenu == TLCEval([n \in 1..Len(PhMenu) |-> ParseNth(PhMenu[n])])
ParsedWNth == TLCEval([n \in 1..Len(WNth) |-> ParseNth(WNth[n])])
(* the character table the C10 alphabets rely on, bound to unicode.IsSpace / the UTF-8 encoder by the harness *)
CharTable == [s \in LineAlphabet \cup AwkTokAlphabet \cup U8LineAlphabet |->
                 [blank |-> Blank(s), space |-> Space(s), bytes |-> Utf8Len(s), width |-> Width(s)]]
(* which menu entry a command line --nth really searches with (entry 1 = no --nth), per kind *)
EffNthIndex(n, k) == LET eff == EffectiveNth(ParsedNthMenu[n], ExtendedKind(Kinds[k])) IN
                     CHOOSE m \in 1..Len(NthMenu) : ParsedNthMenu[m] = eff
Menu == [effnth |-> [n \in 1..Len(NthMenu) |-> [k \in 1..Len(Kinds) |-> EffNthIndex(n, k)]], nth |-> NthMenu, kinds |-> Kinds, det |-> [k \in 1..Len(Kinds) |-> Determined(Kinds[k])], terms |-> Terms, specs |-> SpecMenu, index |-> SpecIndex,
         wnth |-> WNth, wkinds |-> WKinds, wterms |-> WTerms, ph |-> PhMenu, exprs |-> AllExprs, chars |-> CharTable]

-------------------------------------------------------------------------------
(* exhaustive design check: every state, every expression, every combo *)
InvPartition == /\ Partition(line, d) /\ OffsetsExact(line, d) /\ CutsRight(line, d)
                /\ d.kind = "awk" => AwkByCharacter(line)
                /\ ByCharacter(line, d) /\ LiteralWhole(line, d)
InvSelection == LET toks == Tokenize(line, d) IN
                /\ SelectionDocumented(toks)
                /\ \A k \in 1..Len(AllExprs) : ParsedExprs[k].ok => SelectionContiguousT(line, toks, ParsedExprs[k])
InvNth == LET toks == Tokenize(line, d)
              bodies == FieldBodies(toks, d) IN
          \A n \in 2..Len(NthMenu) :
             LET nth == ParsedNthMenu[n]
                 sc == ScopesOfT(line, toks, d, nth)
                 selpos == SelectedPositionsT(toks, nth)
                 fields == SelectedFields(toks, nth) IN
             \A t \in 1..Len(Terms) :
                /\ NthCompleteM(bodies, fields, Terms[t], MatchScopes(sc, "exact", Terms[t]))
                /\ \A k \in 1..4 : NthSoundM(line, selpos, MatchScopes(sc, Kinds[k], Terms[t]), Terms[t])   \* xexact = exact
(* renditions: a plain list shows exactly the selected fields; every {expr} of a template has lost its delimiter;   *)
(* what --accept-nth prints never ends with the delimiter unless it was there twice                                *)
EndsWithDelim(s) == d.kind # "awk" /\ StripDelim(s, d) # s
InvRender == \A k \in 1..Len(SpecMenu) :
               LET sp == SpecMenu[k] IN
               /\ sp.plain => RenderRaw(line, d, sp, SpecIndex) = JoinT(Transform(Tokenize(line, d), ParseNth(sp.nth)))
               /\ Len(AcceptText(line, d, sp, SpecIndex)) <= Len(RenderRaw(line, d, sp, SpecIndex))
               /\ \A j \in 1..Len(PhMenu) :
                     /\ LET p == Placeholder(line, d, ParsedPhMenu[j], FALSE) IN p = TrimBoth(p)
                     /\ Len(Placeholder(line, d, ParsedPhMenu[j], TRUE))
                            <= Len(JoinT(Transform(Tokenize(line, d), ParsedPhMenu[j])))

-------------------------------------------------------------------------------
(* export (E binding) *)
TokOut(toks) == toks
Hits == LET toks == Tokenize(line, d)
            sc == TLCEval([n \in 1..Len(NthMenu) |-> ScopesOfT(line, toks, d, ParsedNthMenu[n])])
            res4 == TLCEval([c \in 1..NCombos |-> IF ComboKind(c) = 5 THEN NoMatch
                                   ELSE MatchScopes(sc[ComboNth(c)], Kinds[ComboKind(c)], Terms[ComboTerm(c)])])
            res == [c \in 1..NCombos |-> IF ComboKind(c) = 5 THEN res4[c - 4 * Len(Terms)] ELSE res4[c]]    \* xexact = exact
        IN SelectSeq([c \in 1..NCombos |-> [c |-> c, m |-> res[c].matched, s |-> res[c].s, e |-> res[c].e]],
                     LAMBDA h : h.m)
HitOut(hs) == LET h == TLCEval(hs) IN [i \in 1..Len(h) |-> <<h[i].c, h[i].s, h[i].e>>]
WHits == LET txt == TLCEval([k \in 1..Len(SpecMenu) |-> WithNthText(line, d, SpecMenu[k], SpecIndex)])
             wsc == TLCEval([j \in 1..(Len(SpecMenu) * Len(WNth)) |->
                               ScopesOf(txt[((j - 1) \div Len(WNth)) + 1], d, ParsedWNth[((j - 1) % Len(WNth)) + 1])])
         IN SelectSeq([c \in 1..NWCombos |-> c],
                      LAMBDA c : MatchScopes(wsc[(WSpec(c) - 1) * Len(WNth) + WNthOf(c)], WKinds[WKindOf(c)],
                                             WTerms[WTermOf(c)]).matched)
LineCase == LET raw == TLCEval([k \in 1..Len(SpecMenu) |-> RenderRaw(line, d, SpecMenu[k], SpecIndex)])
                toks == Tokenize(line, d)
                qtoks == Tokenize(line, AwkD)
                phj == TLCEval([k \in 1..Len(PhMenu) |-> StripDelim(JoinT(Transform(toks, ParsedPhMenu[k])), d)])
                qj == TLCEval([k \in 1..Len(PhMenu) |-> JoinT(Transform(qtoks, ParsedPhMenu[k]))])
            IN [line |-> line, d |-> d,
                toks |-> TokOut(toks),
                hits |-> HitOut(Hits),
                raw |-> raw,
                shown |-> [k \in 1..Len(SpecMenu) |-> TrimRight(raw[k])],
                acc |-> [k \in 1..Len(SpecMenu) |-> StripLastDelimiter(raw[k], d)],
                whits |-> WHits,
                ph |-> [k \in 1..Len(PhMenu) |-> TrimBoth(phj[k])],
                phs |-> phj,
                phq |-> [k \in 1..Len(PhMenu) |-> Quoted(TrimBoth(phj[k]))],
                qph |-> [k \in 1..Len(PhMenu) |-> Quoted(TrimBoth(qj[k]))],
                qphs |-> [k \in 1..Len(PhMenu) |-> Quoted(qj[k])]]
(* the export takes the shortcuts above; they are the definitions of FzfFields *)
ExportFaithful == LET lc == LineCase IN
                  /\ \A k \in 1..Len(PhMenu) :
                        /\ lc.ph[k] = Placeholder(line, d, ParsedPhMenu[k], FALSE)
                        /\ lc.phs[k] = Placeholder(line, d, ParsedPhMenu[k], TRUE)
                        /\ lc.phq[k] = Quoted(Placeholder(line, d, ParsedPhMenu[k], FALSE))
                        /\ lc.qph[k] = Quoted(QueryPlaceholder(line, ParsedPhMenu[k], FALSE))
                        /\ lc.qphs[k] = Quoted(QueryPlaceholder(line, ParsedPhMenu[k], TRUE))
                  /\ \A j \in 1..Len(SpecMenu) :
                        /\ lc.shown[j] = WithNthText(line, d, SpecMenu[j], SpecIndex)
                        /\ lc.acc[j] = AcceptText(line, d, SpecMenu[j], SpecIndex)
                  /\ \A c \in 1..NCombos :
                        LET m == NthMatch(line, d, ParsedNthMenu[ComboNth(c)], Kinds[ComboKind(c)], Terms[ComboTerm(c)]) IN
                        IF m.matched THEN \E i \in 1..Len(lc.hits) : lc.hits[i] = <<c, m.s, m.e>>
                        ELSE \A i \in 1..Len(lc.hits) : lc.hits[i][1] # c
EmitTok == PrintT(<<"CASE", ToJson([line |-> line, d |-> d, toks |-> Tokenize(line, d)])>>)
EmitLine == PrintT(<<"CASE", ToJson(LineCase)>>)

(* selection export: every expression of AllExprs against the fields of this line *)
SelCase == LET toks == Tokenize(line, d) IN
           [line |-> line, d |-> d, n |-> Len(toks),
            sel |-> [k \in 1..Len(AllExprs) |->
                       LET r == ParsedExprs[k] IN
                       IF r.ok THEN (LET x == Select(toks, r) IN <<1, x.t, IF x.t = <<>> THEN 0 ELSE x.p>>)   \* offset of an empty selection: unobservable
                       ELSE <<0, <<>>, 0>>]]
EmitSel == PrintT(<<"CASE", ToJson(SelCase)>>)

(* expression grammar export: the "line" is an expression string; which of n = 0..4 fields it selects *)
SelSeq(r, n) == LET lo == IF LoOf(r, n) < 1 THEN 1 ELSE LoOf(r, n)
                    hi == IF HiOf(r, n) > n THEN n ELSE HiOf(r, n)
                IN [k \in 1..(IF hi >= lo THEN hi - lo + 1 ELSE 0) |-> lo + k - 1]
(* the same grammar wherever an expression is written: --nth/--with-nth/--accept-nth lists and {..} placeholders *)
ParseCase == LET r == ParseRange(line) IN
             [e |-> line, ok |-> r.ok, oklist |-> NthOk(<<line>>), okph |-> r.ok,
              sel |-> IF r.ok THEN [n \in 1..5 |-> SelSeq(r, n - 1)] ELSE <<>>]
EmitParse == PrintT(<<"CASE", ToJson(ParseCase)>>)

EmitMenu == (line = <<>>) => PrintT(<<"MENU", ToJson(Menu)>>)
=============================================================================
