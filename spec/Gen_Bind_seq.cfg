CONSTANTS
  MaxArg = 0
  MaxSeq = 3
INIT InitSeq
NEXT GrowSeq
INVARIANTS EmitSeq
CHECK_DEADLOCK FALSE
