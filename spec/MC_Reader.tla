---------------------------- MODULE MC_Reader ----------------------------
(* Exhaustive configurations and behaviour export for FzfReader. *)
EXTENDS FzfReader, Json

VARIABLE hist      \* export only: the read() calls so far as <<bytes returned, len(p) offered>>

GInit == Init /\ hist = <<>>
(* exhaustive: the history is not part of the state *)
GNextMC == Next /\ UNCHANGED hist

(* export: after SmallBudget calls only full reads, so that every walk ends *)
SmallBudget == 40
GNext == \/ \E l \in RecLens : AddRecord(l) /\ UNCHANGED hist
         \/ \E n \in (IF Len(hist) < SmallBudget THEN Sizes(S, Cur) ELSE {Cap(S, Cur)} \ {0}) :
               Read(n) /\ hist' = Append(hist, <<n, Scope(Cur)>>)
         \/ SlabRotate /\ UNCHANGED hist
         \/ Eof /\ hist' = Append(hist, <<0, Scope(Cur)>>)

(* identity of an item for the harness: <<ordinal of the record with exactly these bytes, length>>; empty records *)
(* are indistinguishable by content: <<0, 0>>; bytes that are no record of the stream: <<-1, length>>              *)
Ident(b) == IF b = <<>> THEN <<0, 0>>
            ELSE LET m == {i \in 1..NumRecords(S) : Records(S)[i] = b}
                 IN  IF m = {} THEN <<-1, BLen(b)>> ELSE <<CHOOSE i \in m : TRUE, BLen(b)>>
Emit == done => PrintT(<<"CASE", ToJson([lens |-> lens, unterm |-> unterm,
                                          reads |-> [i \in 1..Len(hist) |-> hist[i][1]],
                                          scopes |-> [i \in 1..Len(hist) |-> hist[i][2]],
                                          slabs |-> slabNo + 1,
                                          alias |-> [i \in 1..Len(emitted) |-> emitted[i].loc # Heap],
                                          exp |-> [i \in 1..Len(emitted) |-> Ident(emitted[i].bytes)]])>>)

MCLens == 0..7
GenLens == {0, 1, 2, 5, 1000, 65534, 65535, 65536, 65537, 131070, 131071, 131072, 131073, 196608, 300000}
=============================================================================
