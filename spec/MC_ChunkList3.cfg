CONSTANTS
  ChunkSize = 3
  HeaderChoices = {0, 1}
  TailChoices = {0, 1, 2, 3, 4, 5, 7}
  PushSizes = {1}
  MaxPushed = 10
  MaxSnaps = 3
INIT GInit
NEXT GNextMC
INVARIANTS SnapshotIsTail SnapshotFrozen MemoryBound ListIsSuffix CountAgrees HeaderIsFirstH IndexKeepsCounting OnlyEndsPartial
CHECK_DEADLOCK FALSE
