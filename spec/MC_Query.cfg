CONSTANTS
  Universe <- MCUniverse
  Bodies <- MCBodies
  OptSet <- ExtOpts
  MaxTerms = 2
  RawAlpha <- DocAlpha
  MaxSyms = 0
INIT Init
NEXT Next
INVARIANTS DocAgree GreedyIsDecl EmptyMatchesAll NegComplements AndIntersects OrWidens NarrowingSound LookupSound F1OnlyRemoves
CHECK_DEADLOCK FALSE
