----------------------------- MODULE Judge_Server -----------------------------
(* J binding of C16: records written by the harness from randomized runs of the real code are judged here.       *)
(*  kind "req":  one random byte stream (noise, mutated or concatenated requests, random framing) served by the   *)
(*               real handleHttpRequest.  No parse oracle: only the invariants of FzfServer that hold for every   *)
(*               byte stream and the well-formedness of the answer are asserted.                                  *)
(*  kind "acts": one random action list through the real POST parser and the real --bind parsers.                 *)
EXTENDS FzfServer, Json, IOUtils
TraceLog == ndJsonDeserialize(IOEnv.TRACE)
Shards == 16
VARIABLE l
JInit == l \in 1..(IF Len(TraceLog) < Shards THEN Len(TraceLog) ELSE Shards)
JNext == l + Shards <= Len(TraceLog) /\ l' = l + Shards

IsPrefixOf(p, q) == Len(q) >= Len(p) /\ SubSeq(q, 1, Len(p)) = p
GetBytes == <<71, 69, 84, 32, 47>>                                   \* "GET /"
PostBytes == <<80, 79, 83, 84, 32, 47, 32, 72, 84, 84, 80>>          \* "POST / HTTP"

ReqOK(r) ==
    LET isGet == IsPrefixOf(GetBytes, r.head)
        isPost == IsPrefixOf(PostBytes, r.head)
    IN /\ r.panic = "" /\ r.wf /\ r.st \in Statuses                  \* an answer, well-formed, no crash
       /\ r.nodeadline = 0 /\ r.deadlineok                             \* never reads without a deadline: cannot wedge
       /\ (r.key # "" /\ ~r.haskey) => (r.dl = <<>> /\ ~r.rv /\ r.ngets = 0)   \* the key bytes were never sent
       /\ ~isPost => r.dl = <<>>                                        \* only POST / delivers (GET never changes state)
       /\ ~isGet => (~r.rv /\ r.ngets = 0)                              \* only GET / reads the state
       /\ (~isGet /\ ~isPost) => r.st = 400
       /\ r.dl # <<>> => r.st = 200
       /\ r.rv => r.st = 200
       /\ r.st = 401 => r.key # ""
ActsOK(r) == /\ r.panic = ""
             /\ r.post = r.bind /\ r.bind = r.opts                     \* POST payload = right-hand side of --bind
             /\ r.bound.ok = r.bind.ok /\ r.bound.acts = BindOrder(r.bind.acts)
Explained(r) == IF r.kind = "req" THEN ReqOK(r) ELSE ActsOK(r)
JInv == Explained(TraceLog[l]) \/ PrintT(<<"MISMATCH", l>>)
================================================================================
