CONSTANTS
  AlphaOf <- FullAlpha
  MaxLenOf <- Len2
  DelimSet <- AllDelims
INIT Init
NEXT Next
INVARIANTS ExportFaithful
CHECK_DEADLOCK FALSE
