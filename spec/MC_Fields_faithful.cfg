CONSTANTS
  AlphaOf <- LineAlpha
  MaxLenOf <- Len2
  DelimSet <- LineDelims
INIT Init
NEXT Next
INVARIANTS ExportFaithful
CHECK_DEADLOCK FALSE
