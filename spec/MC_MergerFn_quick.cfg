CONSTANTS
  KeySpace <- MCKeys2
  MaxLines = 1
  MaxParts = 1
  AnyPartition = TRUE
  FnChunkSizes = {1, 2, 3, 4}
  FnMaxChunks = 5
  FnMaxN = 70
  FnParts = {1, 2, 3, 7, 32}
  GenProbes = 0
INIT FInit
NEXT FNext
INVARIANTS FnCorrect
CHECK_DEADLOCK FALSE
