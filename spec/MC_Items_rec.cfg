CONSTANTS
  Alpha <- AlphaRec
  MaxLen = 3
  MaxRecs = 0
  Variants <- VarRec
  Dev = "none"
INIT Init
NEXT Next
INVARIANTS InvContent InvRecord
CHECK_DEADLOCK FALSE
