\* quick: horizontal scrolling (pattern positions, --hscroll-off, --keep-right, --no-hscroll, ellipsis, scrollbar, border)
CONSTANTS
  Widths = {12, 16}
  Heights = {5}
  Layouts = {"default"}
  Infos = {"hidden"}
  Seps = {FALSE}
  Headers <- MCHeadersL
  Hlines <- MCHlinesQ
  HeaderFirsts = {FALSE}
  Inputless = {FALSE}
  Pointers <- MCPointers
  Markers <- MCMarkers
  Ellipses <- MCEllipses2
  Lists <- MCListsC
  Multis = {1}
  Queries <- MCQueriesC
  MaxCount = 12
  Tracks = {0}
  Hscrolls = {TRUE, FALSE}
  HscrollOffs = {0, 2, 10}
  KeepRights = {TRUE, FALSE}
  Scrollbars <- MCScrollbars
  Borders = {TRUE, FALSE}
  Tabstops = {8}
  Patterns <- MCPatternsQ
  Acts = {"move", "pattern"}
INIT Init
NEXT Next
INVARIANTS InvRowCount InvWidth InvClaims InvFrame InvTextRoom InvOnePointer InvMarkers InvHidden InvRTrim
CHECK_DEADLOCK FALSE
