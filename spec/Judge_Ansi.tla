------------------------------ MODULE Judge_Ansi ------------------------------
(* J binding of C11: every record written by harness/overlay/src/zz_verif_ansi_test.go (the lines fed to the real  *)
(* extractColor, in order, and what it returned for each) is evaluated against FzfAnsi.                            *)
(*   text            = Strip of the line                       (every line, arbitrary bytes included)               *)
(*   spans           within the text, ordered, non-overlapping (every line)                                         *)
(*   attrs, final    = Colour(line, state carried from the previous line)   (while the stream is well-formed)       *)
(* A record only explained when a named deviation is switched on is reported as MISMATCH plus DEV <label>.          *)
EXTENDS FzfAnsi, Json, IOUtils

TraceLog == ndJsonDeserialize(IOEnv.TRACE)
Shards == 16
VARIABLE l
(* l = 0 is a dummy root: TLC evaluates initial states on the JVM's main thread, whose stack is not enlarged by -Xss; *)
(* the deep recursion over long lines has to happen in the worker threads.                                           *)
JInit == l = 0
JNext == IF l = 0 THEN l' \in 1..(IF Len(TraceLog) < Shards THEN Len(TraceLog) ELSE Shards)
         ELSE l + Shards <= Len(TraceLog) /\ l' = l + Shards

LineOk(p, g, sp) == /\ g.text = p.text
                    /\ WellFormedSpans(sp, Len(g.text))
                    /\ p.wf => (g.attrs = p.attrs /\ g.final = p.final)
ExplainedBy(r, dv) == LET p == Predict(r.lines, dv) IN
                      /\ "panic" \notin DOMAIN r
                      /\ Len(r.got) = Len(p) /\ Len(r.spans) = Len(p)
                      /\ \A i \in 1..Len(p) : LineOk(p[i], r.got[i], r.spans[i])

(* the harness' translation table: the attribute names are the specification's, each bound to its own single bit *)
IsPow2(n) == n \in {1, 2, 4, 8, 16, 32, 64, 128, 256, 512, 1024, 2048, 4096, 8192, 16384, 32768}
TableOk(r) == /\ r.attr_names = AttrOrder
              /\ Len(r.attr_bits) = Len(AttrOrder)
              /\ \A i \in 1..Len(r.attr_bits) : IsPow2(r.attr_bits[i])
              /\ \A i, j \in 1..Len(r.attr_bits) : i # j => r.attr_bits[i] # r.attr_bits[j]
              /\ r.default_colour = -1
              /\ r.samples = <<<<>>, <<0>>, <<255>>, <<1, 2, 3>>>>

RECURSIVE FirstHit(_, _)
FirstHit(r, j) == IF j > Len(DevSets) THEN 0 ELSE IF ExplainedBy(r, Corners \cup DevSets[j]) THEN j ELSE FirstHit(r, j + 1)
Verdict(r) == IF r.kind = "table" THEN TableOk(r) \/ PrintT(<<"MISMATCH", l>>)
              ELSE IF ExplainedBy(r, Corners) THEN TRUE
              ELSE /\ PrintT(<<"MISMATCH", l>>)
                   /\ LET hit == FirstHit(r, 1) IN hit # 0 => PrintT(<<"DEV", l, DevNames[hit]>>)
JInv == l = 0 \/ Verdict(TraceLog[l])
================================================================================
