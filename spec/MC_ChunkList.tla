---------------------------- MODULE MC_ChunkList ----------------------------
(* Exhaustive configurations and behaviour export for FzfChunkList. *)
EXTENDS FzfChunkList, Json

VARIABLES hist,     \* export only: the steps so far with the predicted observation
          hruns     \* export only: the content of every snapshot handed out, as runs, computed when it was taken

(* items as runs <<first record, last record, first index>> of consecutive records with consecutive indices *)
(* (walks the heap directly: c = chunk position, i = item position; no intermediate concatenation) *)
RECURSIVE RunsAcc(_, _, _, _, _)
RunsAcc(h, cids, c, i, acc) ==
    IF c > Len(cids) THEN acc
    ELSE IF i > Len(h[cids[c]]) THEN RunsAcc(h, cids, c + 1, 1, acc)
    ELSE LET it == h[cids[c]][i] IN
         IF acc # <<>> /\ acc[Len(acc)][2] + 1 = it.rec /\ acc[Len(acc)][3] + (it.rec - acc[Len(acc)][1]) = it.index
           THEN RunsAcc(h, cids, c, i + 1, [acc EXCEPT ![Len(acc)] = <<@[1], it.rec, @[3]>>])
           ELSE RunsAcc(h, cids, c, i + 1, Append(acc, <<it.rec, it.rec, it.index>>))
Runs(h, cids) == RunsAcc(h, cids, 1, 1, <<>>)

(* what every snapshot handed out so far must show when it is read again through its chunk pointers after this    *)
(* step: what it showed when it was taken (SnapshotFrozen, model-checked in the exhaustive configurations)           *)
Held == hruns'
ObsPush(k) == [act |-> "Push", k |-> k, accepted |-> nextIndex' - nextIndex, count |-> -1, changed |-> FALSE,
               chunks |-> -1, held |-> Held]
ObsSnap == [act |-> "Snap", k |-> 0, accepted |-> 0, count |-> snaps'[Len(snaps')].count,
            changed |-> snaps'[Len(snaps')].changed, chunks |-> Len(snaps'[Len(snaps')].cids), held |-> Held]

GInit == Init /\ hist = <<>> /\ hruns = <<>>
GNextMC == Next /\ UNCHANGED <<hist, hruns>>
(* export: the push sizes on offer rotate with the step number, so that a random walk takes a snapshot about every *)
(* fourth step                                                                                                     *)
Offer == LET m == Len(hist) % 3 IN
         {k \in PushSizes : IF m = 0 THEN k <= 3 ELSE IF m = 1 THEN k > 3 /\ k <= 101 ELSE k > 101 \/ k = 1}
GNext == \/ \E k \in Offer : Push(k) /\ hruns' = hruns /\ hist' = Append(hist, ObsPush(k))
         \/ Snapshot /\ hruns' = Append(hruns, Runs(heap', snaps'[Len(snaps')].cids)) /\ hist' = Append(hist, ObsSnap)
Depth == 16
Emit == Len(hist) = Depth =>
          PrintT(<<"CASE", ToJson([header |-> H, tail |-> tail, steps |-> hist, hdr |-> header])>>)
GBound == Len(hist) <= Depth

GenPush == {1, 2, 3, 49, 98, 99, 100, 101, 150, 250}
GenTails == {0, 1, 2, 50, 99, 100, 101, 150, 200, 201, 333}
=============================================================================
