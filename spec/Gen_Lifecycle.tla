---------------------------- MODULE Gen_Lifecycle ----------------------------
(* Behaviour export of FzfLifecycle for the E binding (Gen_Lifecycle.cfg, -simulate): a behaviour = the steps of   *)
(* one life of fzf up to its exit, each step one a driver can bring about from outside, together with what the     *)
(* specification predicts: the tracked mode changes a terminal receives, in order, and what is left afterwards.    *)
EXTENDS MC_Lifecycle, Json

VARIABLES hist, ops
gvars == <<vars, hist, ops>>

GenHows == {"accept", "abort", "print-query", "SIGINT", "SIGTERM"}
MaxSteps == 9
Step(label) == hist' = Append(hist, label)

GInit == Init /\ hist = <<>> /\ ops = <<>>
(* steps a driver can bring about and wait for from outside.  The driver's terminal answers the cursor position     *)
(* query (mouse as configured); an execute-silent command is always left running until fzf's timer has paused the   *)
(* renderer (the driver can see that: termios turns cooked), so that the prediction does not depend on timing.      *)
GStep == \/ RInit /\ mouseOn' = cfg.mouse /\ Step([a |-> "init"])
         \/ Flush /\ UNCHANGED hist
         \/ \E k \in Kinds, n \in TempCounts : phase = "running" /\ StartChild(k, n) /\ Step([a |-> "start", k |-> k, n |-> n])
         \/ \E k \in Kinds : ChildExit(k) /\ Step([a |-> "end", k |-> k])
         \/ \E t \in temps : RemoveTemp(t) /\ UNCHANGED hist
         \/ Suspend /\ Step([a |-> "suspend"])
         \/ Continue /\ Step([a |-> "continue"])
         \/ ToggleCursor /\ Step([a |-> "cursor"])
         \* one exit request per life, asked for when fzf is up; a SIGINT is only sent when it is not dropped;
         \* while a command owns the terminal only signals reach fzf
         \/ \E h \in GenHows : /\ pending = {} /\ phase \notin {"start", "stopped"} /\ ~(h = "SIGINT" /\ phase \in Executing)
                               /\ (phase \in Executing => h \in Signals)
                               /\ RequestExit(h) /\ pending' = {h} /\ Step([a |-> "exit", how |-> h])
(* once the exit has been asked for nothing else is brought about: fzf goes at once, or - while a command owns the  *)
(* terminal - as soon as the driver has ended that command                                                          *)
GNext == /\ IF phase = "bg" THEN BgPause /\ Step([a |-> "bgpause"])
            ELSE IF phase = "stopped" THEN Continue /\ Step([a |-> "continue"])    \* no job control: the stop is discarded
            ELSE IF pending = {} THEN GStep
            ELSE IF phase = "fg" THEN ChildExit("execute") /\ Step([a |-> "end", k |-> "execute"])
            ELSE IF phase = "bgpaused" THEN ChildExit("silent") /\ Step([a |-> "end", k |-> "silent"])
            ELSE \E h \in GenHows : ExitVia(h) /\ UNCHANGED hist
         /\ ops' = ops \o out'
GSpec == GInit /\ [][GNext]_gvars
GBound == Len(hist) <= MaxSteps

Emit == phase = "exited" =>
          PrintT(<<"CASE", ToJson([cfg |-> cfg, steps |-> hist, ops |-> ops, how |-> how, mouse |-> mouseOn,
                                   statuses |-> AllowedStatus(how), restored |-> RestoredScr(scr, cfg), alt |-> scr.alt,
                                   tio |-> tio, children |-> Cardinality(children), temps |-> Cardinality(temps),
                                   listener |-> listener])>>)
=============================================================================
