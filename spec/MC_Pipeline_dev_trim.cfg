CONSTANTS
  MaxItems = 5
  ChunkSize = 2
  QueryCacheMax = 1
  MaxEdits = 1
  Queries = {"", "a", "b", "ab"}
  MaxReloads = 0
  TailN = 3
  BumpOnTrim = FALSE
  StalePrevCount = FALSE
  AllowOlder = FALSE
SPECIFICATION Spec
INVARIANTS PublishedIsFilter
CHECK_DEADLOCK FALSE
