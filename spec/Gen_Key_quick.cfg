CONSTANTS
  KeySpace <- MCKeys2
  MaxLines = 0
  KeyAlphabet <- KeyAlpha7
  KeyMaxLen = 3
  KeyScores <- KeyScores4
INIT KInit
NEXT KNext
INVARIANTS KMeta KEmit KeyDirections
CHECK_DEADLOCK FALSE
