CONSTANT MCSet = "all"
INIT MInit
NEXT MNext
INVARIANTS TypeOK KeyEnforced GetIsReadOnly OnlyGetReveals BadMethodRefused DeliveredOnlyAsDeserved MalformedRejected
           FramingIndependent CutsOnlyRefuse WellFormedAnswer StartRule
CHECK_DEADLOCK TRUE
