---------------------------- MODULE MC_Options ----------------------------
(* Exhaustive configurations and case export for FzfOptions.                                                     *)
(*  An OCCURRENCE is one option written in one of its forms (1-2 words).  mode "enum" walks                       *)
(*     every occurrence alone in each source, and every ordered pair of occurrences in each of the six            *)
(*     order-preserving placements (file,file) (file,env) (file,argv) (env,env) (env,argv) (argv,argv);           *)
(*  Keep selects same-family pairs plus a seeded sample of the cross-family ones (Sample = 1: all).               *)
(*  mode "sim" (TLC -simulate) appends random occurrences to random sources.                                      *)
EXTENDS FzfOptions, Json, SequencesExt, IOUtils

CONSTANTS Sample,        \* keep every Sample-th cross-family pair
          SimDepth

Seed == IF "VERIF_SEED" \in DOMAIN IOEnv THEN atoi(IOEnv.VERIF_SEED) ELSE 1

(* ---- values per option ---- *)
C(s) == s                                                   \* readability: a value is a sequence of atoms
ValuesOf(o) ==
    CASE o = "--query" -> {<<"a">>, <<"a", " ", "x">>, <<>>,
                          <<"a", "=", "x">>, <<"$a">>}     \* text that matters to the layers around the value: the
                                                                      \* --opt=value split, the word splitter of env / file
      [] o = "--filter" -> {<<"x">>}
      [] o = "--prompt" -> {<<"x", ">">>, <<>>, <<"x", "=", "=">>, <<"$", "HOME", " ">>}
      [] o = "--delimiter" -> {<<":">>, <<"a", "x">>, <<"[", ":", ",", "]">>}
      [] o = "--tiebreak" -> {<<"index">>, <<"length", ",", "index">>, <<"begin">>, <<"end", ",", "length">>,
                              <<"index", ",", "length">>, <<"length", ",", "length">>, <<"bogus">>,
                              <<"chunk", ",", "length", ",", "begin", ",", "end">>, <<>>}
      [] o = "--scheme" -> {<<"default">>, <<"path">>, <<"history">>, <<"bogus">>}
      [] o = "--nth" -> {<<"1">>, <<"2", "..">>, <<"..">>, <<"1", ",", "-1">>, <<"1", "..", "3">>, <<"0">>, <<"a">>,
                         <<"-1", "..", "2">>}
      [] o = "--height" -> {<<"50", "%">>, <<"10">>, <<"~", "10">>, <<"-1">>, <<"256", "%">>, <<"~", "-1">>, <<"a">>}
      [] o = "--history" -> {<<"@T/h1">>, <<"@T/h2">>, <<>>}
      [] o = "--history-size" -> {<<"2">>, <<"5">>, <<"0">>, <<"a">>}
      [] o = "--walker" -> {<<"file">>, <<"dir", ",", "hidden">>, <<"hidden">>, <<"bogus">>, <<"file", ",", ",", "follow">>}
      [] o = "--tabstop" -> {<<"2">>, <<"0">>, <<"a">>}
      [] o = "--pointer" -> {<<">">>, <<"a", "x", "a">>, <<>>}
      [] o = "--preview-window" -> {<<"up">>, <<"hidden">>, <<"up", ",", "hidden">>, <<"10", "%">>, <<"default">>,
                                    <<"nohidden">>, <<"left", ":", "5">>, <<"bogus">>, <<"100", "%">>}
      [] o = "--expect" -> {<<"a">>, <<"ctrl-a", ",", "enter">>, <<",">>, <<"a", "x">>, <<>>}
      [] o = "--bind" -> {<<"a", ":", "up">>, <<"a", ":", "down">>, <<"a", ":", "+", "accept">>,
                          <<"ctrl-a", ",", "x", ":", "execute", "(", "a", "+", "x", ")", "+", "abort">>,
                          <<"a", ":", "execute", ":", "x", ",", "+", "a">>, <<",", ":", "abort">>,
                          <<"a", ":", "bogus">>, <<"a">>, <<"enter", ":", "put">>}
      [] o = "--multi" -> {<<"3">>, <<"0">>, <<"a">>}
      [] o = "--sort" -> {<<"5">>}
      [] o = "--border" -> {<<"sharp">>, <<"none">>, <<"bogus">>, <<>>}
      [] o = "--tmux" -> {<<"center">>, <<"bottom", ",", "40", "%">>, <<"left", ",", "30">>, <<"80", "%", ",", "60", "%">>,
                          <<"border-native">>, <<"center", ",", "border-native">>, <<"top", ",", "80", "%", ",", "40", "%">>,
                          <<"bogus">>, <<"right", ",", "256", "%">>, <<>>}
      [] o = "--color" -> {<<"fg", ":", "1">>, <<"bg", ":", "2">>, <<"fg", ":", "3", ",", "bg", ":", "5">>,
                           <<"fg", ":", "256">>, <<"bogus">>, <<>>}
      (* 1, 2, 3, 4 parts; 5 and 6 valid parts; 5 parts with a bad one; no / empty / trailing-empty part; percent   *)
      (* forms at the bound; a fraction with and without %; negative; no number                                     *)
      [] o = "--margin" -> {<<"1">>, <<"1", ",", "2">>, <<"1", ",", "2", ",", "3">>, <<"1", ",", "2", ",", "3", ",", "5">>,
                            <<"1", ",", "2", ",", "3", ",", "5", ",", "8">>, <<"0", ",", "0", ",", "0", ",", "0", ",", "0", ",", "0">>,
                            <<"1", ",", "2", ",", "3", ",", "5", ",", "a">>, <<"1", ",", "2", ",", "3", ",", "5", ",">>,
                            <<"10", "%">>, <<"1", ",", "5", "%">>, <<"49", "%">>, <<"50", "%">>, <<"1.5", "%">>, <<"1.5">>,
                            <<"5", "%", ",", "2", ",", "10", "%", ",", "3">>, <<"2", ",", "10", "%", ",", "3">>,
                            <<"-1">>, <<"a">>, <<>>, <<"1", ",", ",", "2">>, <<"1", ",">>, <<"2", ",", "100", "%">>}
      [] o = "--padding" -> {<<"1">>, <<"1", ",", "2">>, <<"2", ",", "3", ",", "5">>, <<"0", ",", "1", ",", "2", ",", "3">>,
                             <<"0", ",", "0", ",", "0", ",", "0", ",", "0">>, <<"5", "%">>, <<"50", "%">>, <<"a">>, <<>>,
                             <<"1", ",", ",", "2">>, <<"2", ",", "10", "%", ",", "3", ",", "5", "%">>, <<"3", ",", "10", "%">>}
      [] o = "--border-label-pos" -> {<<"3">>, <<"5">>, <<"0">>, <<"3", ":", "bottom">>, <<"7">>, <<"8", ":", "top">>, <<"bottom">>,
                                      <<"top">>, <<"center">>, <<"-1", ":", "bottom">>, <<"center", ":", "bottom">>, <<"bogus">>, <<>>,
                                      <<"bottom", ":", "5">>, <<"bogus", ":", "3">>, <<"3", ":", "bogus">>, <<"3", ":">>,
                                      <<"2", ",", "BOTTOM">>, <<"1.5">>}
      [] o \in LabelSpell \ {"--border-label-pos"} ->
                          {<<"5">>, <<"3", ":", "bottom">>, <<"bottom">>, <<"7">>, <<"center">>, <<"-1", ":", "top">>, <<"bogus">>}
Short(o) == CASE o = "--query" -> "-q" [] o = "--filter" -> "-f" [] o = "--delimiter" -> "-d" [] o = "--nth" -> "-n"
              [] o = "--multi" -> "-m" [] o = "--sort" -> "-s" [] OTHER -> ""
LongValued == {o \in ReqSpell \cup OptNumSpell \cup OptStrSpell : Canon(o) = o}

FormsOf(o) == {<<Opt(o)>>}                                                            \* dangling / bare
              \cup {<<Eq(o, v)>> : v \in ValuesOf(o)} \cup {<<Opt(o), Val(v)>> : v \in ValuesOf(o)}
              \cup (IF Short(o) = "" THEN {}
                    ELSE {<<Opt(Short(o))>>} \cup {<<Att(Short(o), v)>> : v \in ValuesOf(o) \ {<<>>}}
                         \cup {<<Opt(Short(o)), Val(v)>> : v \in ValuesOf(o)})
Misc == {<<Opt("--bogus")>>, <<Eq("--cycle", <<"1">>)>>, <<Eq("--bogus", <<"1">>)>>, <<Val(<<"a">>)>>, <<Val(<<"-1">>)>>}
OccSet == {<<Opt(o)>> : o \in FlagSpell} \cup UNION {FormsOf(o) : o \in LongValued} \cup Misc
OccSeq == SetToSeq(OccSet)
N == Len(OccSeq)

(* family = the group of options that act on the same part of the configuration *)
Family(occ) == LET o == Canon(occ[1].o) IN
    CASE o \in {"--multi", "--no-multi", "+m"} -> "multi" [] o \in {"--sort", "--no-sort", "+s"} -> "sort"
      [] o \in {"--cycle", "--no-cycle"} -> "cycle" [] o \in {"--tac", "--no-tac"} -> "tac"
      [] o \in {"-e", "--exact", "+e", "--no-exact"} -> "exact"
      [] o \in {"-i", "--ignore-case", "+i", "--no-ignore-case", "--smart-case"} -> "case"
      [] o \in {"--tiebreak", "--scheme"} -> "criteria"
      [] o \in {"--height", "--no-height", "--tmux", "--no-tmux"} -> "display"
      [] o \in {"--history", "--history-size", "--no-history"} -> "history"
      [] o \in {"--expect", "--no-expect"} -> "expect" [] o \in {"--border", "--no-border"} -> "border"
      [] o \in {"--help", "-h", "--version"} -> "exit"
      [] o \in {"--margin", "--no-margin"} -> "margin" [] o \in {"--padding", "--no-padding"} -> "padding"
      [] OTHER -> o

(* ---- enumeration ---- *)
VARIABLES mode, i, j, p, sf, se, sa, n
vars == <<mode, i, j, p, sf, se, sa, n>>

Flat2(a, b) == a \o b
(* placement of the pair (a, b), a before b *)
PFile(a, b, q) == CASE q = 1 -> a \o b [] q \in {2, 3} -> a [] OTHER -> <<>>
PEnv(a, b, q)  == CASE q = 2 -> b [] q = 4 -> a \o b [] q = 5 -> a [] OTHER -> <<>>
PArgv(a, b, q) == CASE q \in {3, 5} -> b [] q = 6 -> a \o b [] OTHER -> <<>>
(* single occurrence a: q = 1 file, 2 env, 3 argv, 4 argv with an unreadable options file *)
CurFile == IF mode = "sim" THEN sf ELSE IF j = 0 THEN (IF p = 1 THEN OccSeq[i] ELSE <<>>) ELSE PFile(OccSeq[i], OccSeq[j], p)
CurEnv  == IF mode = "sim" THEN se ELSE IF j = 0 THEN (IF p = 2 THEN OccSeq[i] ELSE <<>>) ELSE PEnv(OccSeq[i], OccSeq[j], p)
CurArgv == IF mode = "sim" THEN sa ELSE IF j = 0 THEN (IF p \in {3, 4} THEN OccSeq[i] ELSE <<>>) ELSE PArgv(OccSeq[i], OccSeq[j], p)
Missing == mode = "enum" /\ j = 0 /\ p = 4

(* an adaptive --height against a --margin / --padding with a percent part (DOCUMENTED as incompatible) *)
Mentions(occ, a) == \E k \in 1..Len(occ) : \E m \in 1..Len(occ[k].v) : occ[k].v[m] = a
AutoVsPercent(a, b) == /\ Canon(a[1].o) = "--height" /\ Mentions(a, "~")
                       /\ Canon(b[1].o) \in {"--margin", "--padding"} /\ Mentions(b, "%")
Keep == \/ mode = "sim"
        \/ j = 0
        \/ Family(OccSeq[i]) = Family(OccSeq[j])
        \/ AutoVsPercent(OccSeq[i], OccSeq[j]) \/ AutoVsPercent(OccSeq[j], OccSeq[i])
        \/ (i * 7919 + j * 104729 + p * 31 + Seed * 17) % Sample = 0

Init == /\ mode = "enum" /\ i \in 1..N /\ j = 0 /\ p = 1 /\ sf = <<>> /\ se = <<>> /\ sa = <<>> /\ n = 0
StepSingle == /\ mode = "enum" /\ j = 0 /\ p < 4 /\ p' = p + 1 /\ UNCHANGED <<mode, i, j, sf, se, sa, n>>
FirstPair  == /\ mode = "enum" /\ j = 0 /\ p = 4 /\ j' = 1 /\ p' = 1 /\ UNCHANGED <<mode, i, sf, se, sa, n>>
StepPlace  == /\ mode = "enum" /\ j > 0 /\ p < 6 /\ p' = p + 1 /\ UNCHANGED <<mode, i, j, sf, se, sa, n>>
StepPair   == /\ mode = "enum" /\ j > 0 /\ p = 6 /\ j < N /\ j' = j + 1 /\ p' = 1 /\ UNCHANGED <<mode, i, sf, se, sa, n>>
Next == StepSingle \/ FirstPair \/ StepPlace \/ StepPair

SimInit == /\ mode = "sim" /\ i = 0 /\ j = 0 /\ p = 0 /\ sf = <<>> /\ se = <<>> /\ sa = <<>> /\ n = 0
SimNext == /\ mode = "sim" /\ n < SimDepth /\ n' = n + 1
           /\ LET occ == OccSeq[RandomElement(1..N)] src == RandomElement(1..3) IN   \* one random successor per step
                 /\ sf' = IF src = 1 THEN sf \o occ ELSE sf
                 /\ se' = IF src = 2 THEN se \o occ ELSE se
                 /\ sa' = IF src = 3 THEN sa \o occ ELSE sa
           /\ UNCHANGED <<mode, i, j, p>>

(* ---- design-level properties of the fold (checked on every kept state) ---- *)
Whole == Parse3(CurFile, CurEnv, CurArgv)
Alone(occ) == Parse3(<<>>, <<>>, occ)
(* layering = concatenation: whenever the three sources are accepted, the result is what argv = file ++ env ++ argv
   alone gives.  This is "argv over environment over file" stated once for every option. *)
ConcatLaw == (Keep /\ ~Missing) => (~Whole.err => LET one == Parse3(<<>>, <<>>, CurFile \o CurEnv \o CurArgv) IN
                                                  ~one.err /\ one.cfg = Whole.cfg)
(* fields an option assigns (options for which "last occurrence wins" holds field by field) *)
Assigns(occ) == LET o == Canon(occ[1].o) IN
    CASE o \in {"--multi", "--no-multi", "+m"} -> {"multi"} [] o \in {"--sort", "--no-sort", "+s"} -> {"sort"}
      [] o \in {"--cycle", "--no-cycle"} -> {"cycle"} [] o \in {"--tac", "--no-tac"} -> {"tac"}
      [] o \in {"-e", "--exact", "+e", "--no-exact"} -> {"fuzzy"}
      [] o \in {"-i", "--ignore-case", "+i", "--no-ignore-case", "--smart-case"} -> {"case"}
      [] o = "--query" -> {"query"} [] o = "--filter" -> {"filter"} [] o = "--prompt" -> {"prompt"}
      [] o = "--delimiter" -> {"delimiter"} [] o = "--tiebreak" -> {"criteria"} [] o = "--scheme" -> {"scheme", "criteria"}
      [] o = "--nth" -> {"nth"} [] o \in {"--height", "--no-height"} -> {"height"}
      [] o = "--history" -> {"hon", "hpath"} [] o = "--no-history" -> {"hon", "hpath"} [] o = "--history-size" -> {"hsize"}
      [] o = "--walker" -> {"walker"} [] o = "--tabstop" -> {"tabstop"} [] o = "--pointer" -> {"pointer"}
      [] o \in {"--tmux", "--no-tmux"} -> {"tmux"}
      [] o \in {"--border", "--no-border"} -> {"border"} [] o \in {"--help", "-h", "--version"} -> {"exit"}
      [] o \in {"--margin", "--no-margin"} -> {"margin"} [] o \in {"--padding", "--no-padding"} -> {"padding"}
      [] o \in LabelSpell -> {LabelField(o)}             \* the whole position: column AND side
      [] OTHER -> {}
(* last occurrence wins, and what the earlier occurrence set elsewhere persists (incl. --history-size with a later
   --history, whichever sources they are in) *)
LastWins == (Keep /\ mode = "enum" /\ j > 0 /\ ~Whole.err) =>
               LET a == Alone(OccSeq[i]) b == Alone(OccSeq[j]) IN
               (~a.err /\ ~b.err) =>
                   /\ \A f \in Assigns(OccSeq[j]) : Whole.cfg[f] = b.cfg[f]
                   /\ \A f \in Assigns(OccSeq[i]) \ Assigns(OccSeq[j]) : Whole.cfg[f] = a.cfg[f]
(* an error anywhere is an error of the whole: no later source repairs an earlier invalid one *)
ErrorsStick == (Keep /\ mode = "enum" /\ j > 0 /\ p \in {2, 3, 5}) =>
                   (Source(St0, OccSeq[i]).err => Whole.err)
(* --tmux against --height: whichever of the two is written later wins, in whatever sources they are (DOCUMENTED) *)
IsTmux(occ) == Canon(occ[1].o) = "--tmux"
IsHeight(occ) == Canon(occ[1].o) = "--height"
Popup(c) == c.tmux.on /\ c.tidx >= c.hidx
LaterWins == (Keep /\ mode = "enum" /\ j > 0 /\ ~Whole.err) =>
                 LET a == Alone(OccSeq[i]) b == Alone(OccSeq[j]) IN
                 (~a.err /\ ~b.err) =>
                     /\ (IsHeight(OccSeq[i]) /\ IsTmux(OccSeq[j])) => Popup(Whole.cfg)
                     /\ (IsTmux(OccSeq[i]) /\ IsHeight(OccSeq[j])) => ~Popup(Whole.cfg)
                     /\ (IsTmux(OccSeq[j]) /\ ~IsHeight(OccSeq[i])) => Popup(Whole.cfg)
TypeOK == mode \in {"enum", "sim"}

(* ---- export ---- *)
CaseRec == [file |-> IF Missing THEN "\\MISSING" ELSE IF CurFile = <<>> THEN "\\NONE" ELSE FileString(CurFile),
            env |-> EnvString(CurEnv), argv |-> Strings(CurArgv),
            exp |-> IF Missing THEN [err |-> TRUE, src |-> "file"] ELSE Outcome(CurFile, CurEnv, CurArgv)]
Emit == (mode = "enum" /\ Keep) => PrintT(<<"CASE", ToJson(CaseRec)>>)
EmitSim == (mode = "sim" /\ n = SimDepth) => PrintT(<<"CASE", ToJson(CaseRec)>>)
(* sources that are not well-formed shell word lists are errors of that source (DOCUMENTED only by the error message) *)
Specials == << [file |-> "\\NONE", env |-> "'--cycle", argv |-> <<>>, exp |-> [err |-> TRUE, src |-> "env"]],
               [file |-> "--cycle 'x\n", env |-> "", argv |-> <<>>, exp |-> [err |-> TRUE, src |-> "file"]],
               [file |-> "# only a comment\n", env |-> "--cycle # --bogus", argv |-> <<"--tac">>,
                exp |-> Outcome(<<>>, <<Opt("--cycle")>>, <<Opt("--tac")>>)],
               [file |-> "\\NONE", env |-> "", argv |-> <<>>, exp |-> Outcome(<<>>, <<>>, <<>>)] >>
EmitSpecials == (mode = "enum" /\ i = 1 /\ j = 0 /\ p = 1) =>
                    \A k \in 1..Len(Specials) : PrintT(<<"CASE", ToJson(Specials[k])>>)
=============================================================================
