---------------------------------- MODULE Fzf ----------------------------------
(* Root of the fzf specification: the map of modules and the lemmas that tie the abstract concurrent model to the    *)
(* detailed functional modules.                                                                                       *)
(*                                                                                                                    *)
(*   input bytes --FzfReader/FzfRecords--> records --FzfChunkList--> items (chunks, snapshots, --tail, header lines)  *)
(*        FzfItems: the item builders of core.Run (plain / --ansi / --with-nth): what is searched, shown and printed   *)
(*        walker: FzfWalker (when fzf produces its own input)          --ansi: FzfAnsi        fields: FzfFields       *)
(*   query text --FzfQuery--> terms/groups --FzfAlgo, FzfAlgoV2, FzfAlgoSlab--> match / score / positions             *)
(*        --FzfRank--> sort keys --FzfMerger--> lazily merged result list                                              *)
(*   FzfPipeline: reader | coordinator | matcher | terminal with explicit chunk lists (--tail windows, trimmed copies), *)
(*        reload generations, exclusions, merger / chunk caches; its FilterD(q, snapshot, deny) abstracts FzfQuery +     *)
(*        FzfRank over the items of a snapshot; Trace_Pipeline / Gen_Matcher bind it to the running program; named      *)
(*        deviations (ServeOlderSlot F5, StaleChunkCache F17, LostExclusion F21, StalePrevCount F26, no bump on trim)    *)
(*        are kept as constants with counterexample configurations                                                       *)
(*   FzfEditor: query line, cursor, selection, tracking (what the terminal does with a result list)                    *)
(*   FzfScreen: rendition of (FzfEditor state, list) on the screen      FzfPreview: previewer protocol                 *)
(*   FzfOutput: stdout + exit status (uses FzfEditor.Exits)             FzfHistory: --history file                     *)
(*   FzfServer: --listen         FzfOptions/FzfBind: command line, --bind grammar      FzfShell: placeholder quoting   *)
(*   FzfLifecycle: terminal modes, children, temp files over every exit path                                           *)
(*                                                                                                                    *)
(* Lemmas checked here (TLC evaluates them as ASSUMEs, MC_Fzf.cfg):                                                    *)
(*   HoldsIsMatches   the item texts / query lattice used by FzfPipeline, Gen_Matcher and the matcher-schedule harness  *)
(*                    ("[a][b]-1" texts, queries "", a, b, ab) mean under the real query semantics (FzfQuery.Matches)   *)
(*                    exactly what the abstract table Holds says - the abstraction the concurrent model rests on       *)
(*   LatticeNarrows   on that lattice the cache keys are cacheable and proper prefixes/suffixes of one another exactly  *)
(*                    where FzfPipeline.Narrower says so, and narrowing is sound (NarrowingSound of FzfQuery)           *)
(*   ExitCodesTotal   every way FzfEditor says a session can end has a status in FzfOutput                              *)
EXTENDS FzfQuery, Sequences, Integers

DefaultOpts == [fuzzy |-> TRUE, extended |-> TRUE, case |-> "smart", normalize |-> TRUE]
Has(i, c) == IF c = "a" THEN i % 7 = 0 ELSE i % 5 = 0                  \* Gen_Matcher's table
Holds(q, i) == CASE q = <<>> -> TRUE [] q = <<"a">> -> Has(i, "a") [] q = <<"b">> -> Has(i, "b")
                 [] q = <<"a", "b">> -> Has(i, "a") /\ Has(i, "b")
TextOf(i) == (IF Has(i, "a") THEN <<"a">> ELSE <<>>) \o (IF Has(i, "b") THEN <<"b">> ELSE <<>>) \o <<"-", "1", "2">>
Lattice == {<<>>, <<"a">>, <<"b">>, <<"a", "b">>}

HoldsIsMatches == \A i \in 0..80 : \A q \in Lattice : Matches(q, TextOf(i), DefaultOpts) = Holds(q, i)
Narrower(q) == IF q = <<"a", "b">> THEN {<<"a">>, <<"b">>} ELSE {}
LatticeNarrows ==
    \A q \in Lattice \ {<<>>} :
        /\ Cacheable(q, DefaultOpts) /\ CacheKey(q, DefaultOpts) = q
        /\ \A p \in Lattice \ {<<>>} :
              (ProperPrefix(CacheKey(p, DefaultOpts), CacheKey(q, DefaultOpts)) \/ ProperSuffix(CacheKey(p, DefaultOpts), CacheKey(q, DefaultOpts)))
                  <=> p \in Narrower(q)
        /\ \A p \in Narrower(q) : \A i \in 0..80 : Holds(q, i) => Holds(p, i)

ASSUME HoldsIsMatches
ASSUME LatticeNarrows

VARIABLE x
Init == x = 0
Next == UNCHANGED x
================================================================================
