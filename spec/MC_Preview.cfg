CONSTANTS
  MaxUI = 3
  Kinds = {"finite", "endless"}
  ShowBumpsVersion = TRUE
  TemplateHasQ = TRUE
  H = 2
  LensKind = "one"
  WithReload = TRUE
  ReloadBumpsVersion = TRUE
  WithHideKeep = FALSE
  Follow = FALSE
  WithScroll = FALSE
  DelayedSetsVersion <- TreeDelayedSetsVersion
SPECIFICATION Spec
INVARIANTS TypeOK OneAlive ShownIsStarted Convergence ShowFixed ReloadFixed DelayedFixed RowsOfOneRequest ExitClean
PROPERTIES Liveness NoSurvivor
CHECK_DEADLOCK FALSE
