CONSTANTS
  MaxUI = 4
  Kinds = {"finite", "endless"}
  TemplateHasQ = TRUE
SPECIFICATION Spec
INVARIANTS TypeOK OneAlive ShownIsStarted Convergence ExitClean
PROPERTIES Liveness NoSurvivor
CHECK_DEADLOCK FALSE
