------------------------------- MODULE MC_Ansi -------------------------------
(* Exhaustive configurations and case export for FzfAnsi.                                                          *)
(*  (1) "bytes":   every line of at most MaxLen symbols over Alphabet (a tree of states: one symbol appended per     *)
(*                 step), optionally preceded by a fixed line that leaves every component of the carried state set. *)
(*  (2) "grammar": lines assembled from well-formed chunks (text | SGR | OSC 8 | other OSC/CSI | SO/SI | x BS |     *)
(*                 two-character ESC sequences), up to three lines per case so that state is carried over.          *)
(* Every state is checked against the design properties of FzfAnsi and printed (BEmit, GEmit) as a case with the      *)
(* observation the specification predicts.                                                                           *)
EXTENDS FzfAnsi, Json, IOUtils

CONSTANTS AlphaSeq,    \* bytes: the alphabet, as a sequence (its order numbers the shards)
          Prefix,      \* bytes: fixed beginning of every line (<<>>, ESC ], ESC [)
          MaxLen,      \* bytes: longest variable part
          Pres,        \* bytes: subset of {0, 1}: without / with the state-setting previous line
          Depth        \* grammar: steps per exported behaviour

(* DESIGN 6/C11: every class the scanner and the interpreter distinguish has a representative *)
AlphaFull == <<ESC, "[", "]", "(", BSL, "0", "1", "3", "4", "5", "8", "9", ";", ":", "?", "m", "K", "a", "e~",
               BS, SO, SI, BEL, LF>>
AlphaRed  == <<ESC, "[", "]", "(", BSL, "0", "1", "8", ";", "?", "m", "K", "e~", BS, SO, BEL, LF>>
AlphaOsc  == <<"8", "0", ";", ":", "a", "e~", ESC, BSL, BEL, BS, LF>>                  \* after ESC ]
AlphaCsi  == <<"0", "1", "3", "4", "5", "8", ";", ":", "?", "m", "K", "e~", ESC, BS>>   \* after ESC [
PrefNone == <<>>
PrefOsc  == <<ESC, "]">>
PrefCsi  == <<ESC, "[">>
Alphabet == {AlphaSeq[i] : i \in 1..Len(AlphaSeq)}

(* the export configuration takes its parameters from the environment (one cfg, many runs) *)
EnvOr(k, d) == IF k \in DOMAIN IOEnv THEN IOEnv[k] ELSE d
EnvNat(k, d) == CHOOSE x \in 0..99 : ToString(x) = EnvOr(k, ToString(d))
EnvAlpha  == LET a == EnvOr("ALPHA", "full") IN
             CASE a = "full" -> AlphaFull [] a = "red" -> AlphaRed [] a = "osc" -> AlphaOsc [] a = "csi" -> AlphaCsi
EnvPrefix == LET a == EnvOr("ALPHA", "full") IN CASE a = "osc" -> PrefOsc [] a = "csi" -> PrefCsi [] OTHER -> PrefNone
EnvMaxLen == EnvNat("MAXLEN", 3)
EnvPres   == LET a == EnvOr("PRES", "0") IN CASE a = "0" -> {0} [] a = "1" -> {1} [] a = "01" -> {0, 1}
EnvDepth  == EnvNat("DEPTH", 8)

(* SHARD = k in 1..Len(AlphaSeq): only lines whose variable part starts with the k-th symbol; 0 or unset: all *)
Shard == EnvNat("SHARD", 0)

(* ESC[1;3;31;48;5;208m  ESC]8;a=1;a BEL  ESC[0K : bold italic, fg 1, bg 208, hyperlink, line background *)
PreLine == <<ESC, "[", "1", ";", "3", ";", "3", "1", ";", "4", "8", ";", "5", ";", "2", "0", "8", "m",
             ESC, "]", "8", ";", "a", "=", "1", ";", "a", BEL, ESC, "[", "0", "K">>

-------------------------------------------------------------------------------
(* case record: the lines, the documented prediction, and - where a named deviation would change it - the          *)
(* prediction under that deviation *)
HasStripping(x) == \E i \in 1..Len(x) : x[i] \in Stripping
Touches(ls, d) == \E i \in 1..Len(ls) : CASE d = "StAsCsi" -> Contains(ls[i], <<ESC, BSL>>)
                                            [] d = "SkipEmptyParam" -> Contains(ls[i], <<"[", ";">>) \/ Contains(ls[i], <<";", ";">>)
                                                                       \/ Contains(ls[i], <<";", "m">>)
                                            [] d = "OpenSpanAtEol" -> HasStripping(ls[i])
Alts(ls, exp) == LET touched == {d \in {"StAsCsi", "SkipEmptyParam", "OpenSpanAtEol"} : Touches(ls, d)}
                     idx == SelectSeq([i \in 1..Len(DevSets) |-> i], LAMBDA i : DevSets[i] \subseteq touched)
                     all == [k \in 1..Len(idx) |-> [dv |-> DevNames[idx[k]], exp |-> Predict(ls, Corners \cup DevSets[idx[k]])]]
                 IN SelectSeq(all, LAMBDA a : a.exp # exp)
Case(ls) == LET exp == Predict(ls, Corners) IN [lines |-> ls, exp |-> exp, alts |-> Alts(ls, exp)]

-------------------------------------------------------------------------------
(* (1) bytes *)
VARIABLES s, pre,
          done,    \* grammar: completed lines
          cur,     \* grammar: the line being assembled
          plain,   \* grammar ghost: the text chunks of cur, minus struck characters
          mode,    \* grammar: "top" | "sgr" (between ESC [ and m)
          ng,      \* grammar: groups in the open SGR
          exotic,  \* grammar: "none" | "st" | "empty": at most one kind of deviation-prone chunk per case
          steps    \* grammar: steps so far
gvars == <<done, cur, plain, mode, ng, exotic, steps>>
GIdle == done = <<>> /\ cur = <<>> /\ plain = <<>> /\ mode = "top" /\ ng = 0 /\ exotic = "none" /\ steps = 0

BInit == /\ pre \in Pres
         /\ s = IF Shard = 0 THEN <<>> ELSE <<AlphaSeq[Shard]>>
         /\ GIdle
BNext == /\ Len(s) < MaxLen
         /\ \E c \in Alphabet : s' = Append(s, c)
         /\ pre' = pre /\ UNCHANGED gvars
line == Prefix \o s
BLines == IF pre = 1 THEN <<PreLine, line>> ELSE <<line>>
Carry == IF pre = 1 THEN Colour(PreLine, Default).final ELSE Default

BFixedPoint    == FixedPoint(line)
BOnlyRemoves   == OnlyRemoves(line)
BCornerIsLocal == CornerIsLocal(line)
BColourShape   == ColourShape(line, Carry)
BCarryThrough  == CarryThrough(line, Carry)
BPreLineSets   == pre = 1 => LET c == Carry IN c.fg # <<>> /\ c.bg # <<>> /\ c.at # {} /\ c.url # NoUrl /\ c.lbg # <<>>
BEmit == PrintT(<<"CASE", ToJson(Case(BLines))>>)

-------------------------------------------------------------------------------
(* (2) grammar *)
DigitSym(d) == CASE d = 0 -> "0" [] d = 1 -> "1" [] d = 2 -> "2" [] d = 3 -> "3" [] d = 4 -> "4"
                 [] d = 5 -> "5" [] d = 6 -> "6" [] d = 7 -> "7" [] d = 8 -> "8" [] d = 9 -> "9"
RECURSIVE NumSyms(_)
NumSyms(n) == IF n < 10 THEN <<DigitSym(n)>> ELSE Append(NumSyms(n \div 10), DigitSym(n % 10))
RECURSIVE JoinNums(_, _)
JoinNums(ns, sep) == IF Len(ns) = 1 THEN NumSyms(ns[1]) ELSE NumSyms(ns[1]) \o <<sep>> \o JoinNums(Tail(ns), sep)

Singles == {0, 1, 2, 3, 4, 5, 7, 9, 22, 23, 24, 25, 27, 29, 30, 31, 37, 39, 40, 41, 47, 49, 90, 97, 100, 107, 8, 28, 53}
ColourGroups == {<<38, 5, 0>>, <<38, 5, 1>>, <<38, 5, 9>>, <<38, 5, 255>>, <<38, 5, 38>>, <<38, 5, 5>>, <<48, 5, 48>>,
                 <<48, 5, 208>>, <<48, 5, 2>>, <<38, 2, 1, 2, 3>>, <<38, 2, 255, 0, 128>>, <<38, 2, 5, 2, 38>>,
                 <<48, 2, 0, 0, 0>>, <<48, 2, 10, 20, 30>>}
Groups == {NumSyms(n) : n \in Singles} \cup {JoinNums(g, ";") : g \in ColourGroups} \cup {<<"0", "1">>, <<"0", "0">>}
EmptyGroup == <<>>

Texts == {<<c>> : c \in {"a", "e~", "m", "1", ";", "[", "K", " "}}
           \cup {<<c, d>> : c \in {"a", "e~", "1"}, d \in {"a", "e~", "m"}}
StruckSyms == {"a", "e~", "m", "1", " "}

Sts == {<<BEL>>, <<ESC, BSL>>}
Osc8Open == {<<ESC, "]", "8", ";">> \o p \o <<";">> \o u \o t :
               p \in {<<>>, <<"a", "=", "1">>}, u \in {<<"a">>, <<"a", ";", "1">>, <<"/", "/", "a", "m">>}, t \in Sts}
Osc8Close == {<<ESC, "]", "8", ";", ";">> \o t : t \in Sts}
OtherOsc == {<<ESC, "]", "0", ";", "a", BEL>>, <<ESC, "]", "1", "3", "3", ";", "a", ESC, BSL>>,
             <<ESC, "]", "4", ";", "1", ";", "a", BEL>>, <<ESC, "]", "5", "2", ":", "a", ESC, BSL>>}
ColonSgr == {<<ESC, "[">> \o b \o <<"m">> :
               b \in {JoinNums(<<38, 5, 9>>, ":"), JoinNums(<<48, 5, 208>>, ":"), JoinNums(<<38, 2, 1, 2, 3>>, ":"),
                      <<"3", "8", ":", "2", ":", ":", "1", ":", "2", ":", "3">>,
                      <<"4", "8", ":", "2", ":", ":", "1", "0", ":", "2", "0", ":", "3", "0">>}}
OtherCsi == {<<ESC, "[", "K">>, <<ESC, "[", "0", "K">>, <<ESC, "[", "1", "K">>, <<ESC, "[", "2", "J">>, <<ESC, "[", "H">>,
             <<ESC, "[", "1", ";", "1", "H">>, <<ESC, "[", "?", "2", "5", "l">>, <<ESC, "[", "1", "@">>,
             <<ESC, "(", "B">>, <<ESC, ")", "B">>}
Shifts == {<<SO>>, <<SI>>}
Esc2 == {<<ESC, c>> : c \in {"7", "8", "=", "c", "M", "e~"}}
Ctls == Osc8Open \cup Osc8Close \cup OtherOsc \cup ColonSgr \cup OtherCsi \cup Shifts \cup Esc2
St == <<ESC, BSL>>

GInit == GIdle /\ s = <<>> /\ pre = 0

Tick == steps < Depth /\ steps' = steps + 1 /\ UNCHANGED <<s, pre>>
Same == UNCHANGED <<done, mode, ng, exotic>>
GText    == \E t \in Texts : Tick /\ mode = "top" /\ cur' = cur \o t /\ plain' = plain \o t /\ Same
GCtl     == \E c \in Ctls : Tick /\ mode = "top" /\ cur' = cur \o c /\ plain' = plain /\ Same
GStruck  == \E x \in StruckSyms : Tick /\ mode = "top" /\ cur' = cur \o <<x, BS>> /\ plain' = plain /\ Same
GSt      == /\ Tick /\ exotic \in {"none", "st"} /\ mode = "top" /\ cur' = cur \o St /\ exotic' = "st"
            /\ UNCHANGED <<done, plain, mode, ng>>
GSgrOpen == /\ Tick /\ mode = "top" /\ cur' = cur \o <<ESC, "[">> /\ mode' = "sgr" /\ ng' = 0
            /\ UNCHANGED <<done, plain, exotic>>
GGroup   == /\ Tick /\ mode = "sgr" /\ ng < 4
            /\ \E g \in Groups : cur' = cur \o (IF ng = 0 THEN <<>> ELSE <<";">>) \o g
            /\ ng' = ng + 1 /\ UNCHANGED <<done, plain, mode, exotic>>
GEmpty   == /\ Tick /\ mode = "sgr" /\ ng < 4 /\ exotic \in {"none", "empty"}
            /\ cur' = cur \o (IF ng = 0 THEN <<>> ELSE <<";">>)
            /\ ng' = ng + 1 /\ exotic' = "empty" /\ UNCHANGED <<done, plain, mode>>
GSgrClose == /\ Tick /\ mode = "sgr" /\ cur' = cur \o <<"m">> /\ mode' = "top" /\ UNCHANGED <<done, plain, ng, exotic>>
GNewLine == /\ Tick /\ mode = "top" /\ Len(done) < 2 /\ done' = Append(done, cur) /\ cur' = <<>> /\ plain' = <<>>
            /\ UNCHANGED <<mode, ng, exotic>>
GNext == GText \/ GCtl \/ GStruck \/ GSt \/ GSgrOpen \/ GGroup \/ GEmpty \/ GSgrClose \/ GNewLine
(* for -simulate: one action, so that TLC draws uniformly from all successors instead of first drawing a disjunct *)
GNextSim == steps < Depth /\ GNext

GCur == IF mode = "sgr" THEN cur \o <<"m">> ELSE cur
GLines == Append(done, GCur)
(* a sequence never swallows the text that follows it: the stripped line is exactly its text chunks *)
GNoSwallow == mode = "top" => Strip(cur) = plain /\ StripD(cur, Corners) = plain
(* the grammar stays inside the well-formed domain, where colours are specified *)
GWellFormed == LET p == Predict(GLines, Corners) IN \A i \in 1..Len(p) : p[i].wf
GSpans == LET carry == IF done = <<>> THEN Default ELSE Colour(done[Len(done)], Default).final IN ColourShape(GCur, carry)
GEmit == steps = Depth => PrintT(<<"CASE", ToJson(Case(GLines))>>)
=============================================================================
