------------------------------- MODULE MC_Ansi -------------------------------
(* Exhaustive configurations and case export for FzfAnsi.                                                          *)
(*  (1) "bytes":   every line of at most MaxLen symbols over Alphabet (a tree of states: one symbol appended per     *)
(*                 step), optionally preceded by a fixed line that leaves every component of the carried state set. *)
(*  (2) "grammar": lines assembled from well-formed chunks (text | SGR | OSC 8 | other OSC/CSI | SO/SI | x BS |     *)
(*                 two-character ESC sequences), up to three lines per case so that state is carried over.          *)
(*  (3) "sgr":     every SGR sequence of at most MaxLen parameter groups from a menu that covers the ways of writing     *)
(*                 a group (ordinary parameter, empty, legacy 38/48/58;..., colon groups incl. the empty colour-space    *)
(*                 sub-parameter, renditions fzf cannot show), followed by one character.                                *)
(*  (4) "items":   streams of Depth lines from a menu of line shapes (colours left open, closed, re-opened; one, two,    *)
(*                 three fields), as items of the list with and without --with-nth (FzfAnsi Part C).                     *)
(* Every state is checked against the design properties of FzfAnsi and printed (BEmit, GEmit) as a case with the      *)
(* observation the specification predicts.                                                                           *)
EXTENDS FzfAnsi, Json, IOUtils

CONSTANTS AlphaSeq,    \* bytes: the alphabet, as a sequence (its order numbers the shards)
          Prefix,      \* bytes: fixed beginning of every line (<<>>, ESC ], ESC [)
          MaxLen,      \* bytes: longest variable part
          Pres,        \* bytes: subset of {0, 1}: without / with the state-setting previous line
          Depth        \* grammar: steps per exported behaviour

(* DESIGN 6/C11: every class the scanner and the interpreter distinguish has a representative *)
AlphaFull == <<ESC, "[", "]", "(", BSL, "0", "1", "3", "4", "5", "8", "9", ";", ":", "?", "m", "K", "a", "e~",
               BS, SO, SI, BEL, LF>>
AlphaRed  == <<ESC, "[", "]", "(", BSL, "0", "1", "8", ";", "?", "m", "K", "e~", BS, SO, BEL, LF>>
AlphaOsc  == <<"8", "0", ";", ":", "a", "e~", ESC, BSL, BEL, BS, LF>>                  \* after ESC ]
AlphaCsi  == <<"0", "1", "3", "4", "5", "8", ";", ":", "?", "m", "K", "e~", ESC, BS>>   \* after ESC [
PrefNone == <<>>
PrefOsc  == <<ESC, "]">>
PrefCsi  == <<ESC, "[">>
Alphabet == {AlphaSeq[i] : i \in 1..Len(AlphaSeq)}

(* the export configuration takes its parameters from the environment (one cfg, many runs) *)
EnvOr(k, d) == IF k \in DOMAIN IOEnv THEN IOEnv[k] ELSE d
EnvNat(k, d) == CHOOSE x \in 0..99 : ToString(x) = EnvOr(k, ToString(d))
EnvAlpha  == LET a == EnvOr("ALPHA", "full") IN
             CASE a = "full" -> AlphaFull [] a = "red" -> AlphaRed [] a = "osc" -> AlphaOsc [] a = "csi" -> AlphaCsi
EnvPrefix == LET a == EnvOr("ALPHA", "full") IN CASE a = "osc" -> PrefOsc [] a = "csi" -> PrefCsi [] OTHER -> PrefNone
EnvMaxLen == EnvNat("MAXLEN", 3)
EnvPres   == LET a == EnvOr("PRES", "0") IN CASE a = "0" -> {0} [] a = "1" -> {1} [] a = "01" -> {0, 1}
EnvDepth  == EnvNat("DEPTH", 8)

(* SHARD = k in 1..Len(AlphaSeq): only lines whose variable part starts with the k-th symbol; 0 or unset: all *)
Shard == EnvNat("SHARD", 0)

(* ESC[1;3;31;48;5;208m  ESC]8;a=1;a BEL  ESC[0K : bold italic, fg 1, bg 208, hyperlink, line background *)
PreLine == <<ESC, "[", "1", ";", "3", ";", "3", "1", ";", "4", "8", ";", "5", ";", "2", "0", "8", "m",
             ESC, "]", "8", ";", "a", "=", "1", ";", "a", BEL, ESC, "[", "0", "K">>

-------------------------------------------------------------------------------
(* case record: the lines, the documented prediction, and - where a named deviation would change it - the          *)
(* prediction under that deviation *)
(* some ESC [ ... m of the line satisfies P (attribution only: which deviations are worth predicting for a case) *)
SgrTokWith(x, P(_)) == \E p \in 1..(Len(x) - 1) : /\ x[p] = ESC /\ x[p + 1] = "["
                                                  /\ LET e == CsiEnd(x, p, {}) IN e > 0 /\ x[e] = "m" /\ P(SubSeq(x, p, e))
HasStripping(x) == \E i \in 1..Len(x) : x[i] \in Stripping
Touches(ls, d) == \E i \in 1..Len(ls) : CASE d = "StAsCsi" -> Contains(ls[i], <<ESC, BSL>>)
                                            [] d = "SkipEmptyParam" -> Contains(ls[i], <<"[", ";">>) \/ Contains(ls[i], <<";", ";">>)
                                                                       \/ Contains(ls[i], <<";", "m">>)
                                            [] d = "OpenSpanAtEol" -> HasStripping(ls[i])
                                            [] d = "MixedSep" -> SgrTokWith(ls[i], LAMBDA t : Has(t, ":") /\ Has(t, ";"))
                                            [] d = "Sgr58" -> SgrTokWith(ls[i], LAMBDA t : Contains(t, <<"5", "8">>))
Alts(ls, exp) == LET touched == {d \in {DevAll[i] : i \in 1..Len(DevAll)} : Touches(ls, d)}
                     idx == SelectSeq([i \in 1..Len(DevSets) |-> i], LAMBDA i : DevSets[i] \subseteq touched)
                     all == [k \in 1..Len(idx) |-> [dv |-> DevNames[idx[k]], exp |-> Predict(ls, Corners \cup DevSets[idx[k]])]]
                 IN SelectSeq(all, LAMBDA a : a.exp # exp)
Case(ls) == LET exp == Predict(ls, Corners) IN [lines |-> ls, exp |-> exp, alts |-> Alts(ls, exp)]

-------------------------------------------------------------------------------
(* (1) bytes *)
VARIABLES s, pre,
          done,    \* grammar: completed lines
          cur,     \* grammar: the line being assembled
          plain,   \* grammar ghost: the text chunks of cur, minus struck characters
          mode,    \* grammar: "top" | "sgr" (between ESC [ and m)
          ng,      \* grammar: groups in the open SGR
          exotic,  \* grammar: "none" | "st" | "empty": at most one kind of deviation-prone chunk per case
          steps    \* grammar: steps so far
gvars == <<done, cur, plain, mode, ng, exotic, steps>>
GIdle == done = <<>> /\ cur = <<>> /\ plain = <<>> /\ mode = "top" /\ ng = 0 /\ exotic = "none" /\ steps = 0

BInit == /\ pre \in Pres
         /\ s = IF Shard = 0 THEN <<>> ELSE <<AlphaSeq[Shard]>>
         /\ GIdle
BNext == /\ Len(s) < MaxLen
         /\ \E c \in Alphabet : s' = Append(s, c)
         /\ pre' = pre /\ UNCHANGED gvars
line == Prefix \o s
BLines == IF pre = 1 THEN <<PreLine, line>> ELSE <<line>>
Carry == IF pre = 1 THEN Colour(PreLine, Default).final ELSE Default

BFixedPoint    == FixedPoint(line)
BOnlyRemoves   == OnlyRemoves(line)
BCornerIsLocal == CornerIsLocal(line)
BColourShape   == ColourShape(line, Carry)
BCarryThrough  == CarryThrough(line, Carry)
BPreLineSets   == pre = 1 => LET c == Carry IN c.fg # <<>> /\ c.bg # <<>> /\ c.at # {} /\ c.url # NoUrl /\ c.lbg # <<>>
BEmit == PrintT(<<"CASE", ToJson(Case(BLines))>>)

-------------------------------------------------------------------------------
(* (2) grammar *)
DigitSym(d) == CASE d = 0 -> "0" [] d = 1 -> "1" [] d = 2 -> "2" [] d = 3 -> "3" [] d = 4 -> "4"
                 [] d = 5 -> "5" [] d = 6 -> "6" [] d = 7 -> "7" [] d = 8 -> "8" [] d = 9 -> "9"
RECURSIVE NumSyms(_)
NumSyms(n) == IF n < 10 THEN <<DigitSym(n)>> ELSE Append(NumSyms(n \div 10), DigitSym(n % 10))
RECURSIVE JoinNums(_, _)
JoinNums(ns, sep) == IF Len(ns) = 1 THEN NumSyms(ns[1]) ELSE NumSyms(ns[1]) \o <<sep>> \o JoinNums(Tail(ns), sep)

Singles == {0, 1, 2, 3, 4, 5, 7, 9, 22, 23, 24, 25, 27, 29, 30, 31, 37, 39, 40, 41, 47, 49, 90, 97, 100, 107, 8, 28, 53,
            10, 20, 26, 50, 55, 59, 65, 73}
ColourGroups == {<<38, 5, 0>>, <<38, 5, 1>>, <<38, 5, 9>>, <<38, 5, 255>>, <<38, 5, 38>>, <<38, 5, 5>>, <<48, 5, 48>>,
                 <<48, 5, 208>>, <<48, 5, 2>>, <<38, 2, 1, 2, 3>>, <<38, 2, 255, 0, 128>>, <<38, 2, 5, 2, 38>>,
                 <<48, 2, 0, 0, 0>>, <<48, 2, 10, 20, 30>>, <<58, 5, 3>>, <<58, 5, 38>>, <<58, 2, 1, 2, 3>>, <<58, 2, 4, 48, 5>>}
(* colon groups, which may stand among ';'-separated parameters *)
ColonBodies == {JoinNums(<<38, 5, 9>>, ":"), JoinNums(<<48, 5, 208>>, ":"), JoinNums(<<38, 2, 1, 2, 3>>, ":"),
                <<"3", "8", ":", "2", ":", ":", "1", ":", "2", ":", "3">>,
                <<"4", "8", ":", "2", ":", ":", "1", "0", ":", "2", "0", ":", "3", "0">>,
                JoinNums(<<58, 5, 3>>, ":"), JoinNums(<<58, 2, 1, 2, 3>>, ":"),
                <<"5", "8", ":", "2", ":", ":", "4", ":", "5", ":", "7">>}
Groups == {NumSyms(n) : n \in Singles} \cup {JoinNums(g, ";") : g \in ColourGroups} \cup {<<"0", "1">>, <<"0", "0">>}
            \cup ColonBodies
EmptyGroup == <<>>

Texts == {<<c>> : c \in {"a", "e~", "m", "1", ";", "[", "K", " "}}
           \cup {<<c, d>> : c \in {"a", "e~", "1"}, d \in {"a", "e~", "m"}}
StruckSyms == {"a", "e~", "m", "1", " "}

Sts == {<<BEL>>, <<ESC, BSL>>}
Osc8Open == {<<ESC, "]", "8", ";">> \o p \o <<";">> \o u \o t :
               p \in {<<>>, <<"a", "=", "1">>}, u \in {<<"a">>, <<"a", ";", "1">>, <<"/", "/", "a", "m">>}, t \in Sts}
Osc8Close == {<<ESC, "]", "8", ";", ";">> \o t : t \in Sts}
OtherOsc == {<<ESC, "]", "0", ";", "a", BEL>>, <<ESC, "]", "1", "3", "3", ";", "a", ESC, BSL>>,
             <<ESC, "]", "4", ";", "1", ";", "a", BEL>>, <<ESC, "]", "5", "2", ":", "a", ESC, BSL>>}
ColonSgr == {<<ESC, "[">> \o b \o <<"m">> : b \in ColonBodies}
OtherCsi == {<<ESC, "[", "K">>, <<ESC, "[", "0", "K">>, <<ESC, "[", "1", "K">>, <<ESC, "[", "2", "J">>, <<ESC, "[", "H">>,
             <<ESC, "[", "1", ";", "1", "H">>, <<ESC, "[", "?", "2", "5", "l">>, <<ESC, "[", "1", "@">>,
             <<ESC, "(", "B">>, <<ESC, ")", "B">>}
Shifts == {<<SO>>, <<SI>>}
Esc2 == {<<ESC, c>> : c \in {"7", "8", "=", "c", "M", "e~"}}
Ctls == Osc8Open \cup Osc8Close \cup OtherOsc \cup ColonSgr \cup OtherCsi \cup Shifts \cup Esc2
St == <<ESC, BSL>>

GInit == GIdle /\ s = <<>> /\ pre = 0

Tick == steps < Depth /\ steps' = steps + 1 /\ UNCHANGED <<s, pre>>
Same == UNCHANGED <<done, mode, ng, exotic>>
GText    == \E t \in Texts : Tick /\ mode = "top" /\ cur' = cur \o t /\ plain' = plain \o t /\ Same
GCtl     == \E c \in Ctls : Tick /\ mode = "top" /\ cur' = cur \o c /\ plain' = plain /\ Same
GStruck  == \E x \in StruckSyms : Tick /\ mode = "top" /\ cur' = cur \o <<x, BS>> /\ plain' = plain /\ Same
GSt      == /\ Tick /\ exotic \in {"none", "st"} /\ mode = "top" /\ cur' = cur \o St /\ exotic' = "st"
            /\ UNCHANGED <<done, plain, mode, ng>>
GSgrOpen == /\ Tick /\ mode = "top" /\ cur' = cur \o <<ESC, "[">> /\ mode' = "sgr" /\ ng' = 0
            /\ UNCHANGED <<done, plain, exotic>>
GGroup   == /\ Tick /\ mode = "sgr" /\ ng < 4
            /\ \E g \in Groups : cur' = cur \o (IF ng = 0 THEN <<>> ELSE <<";">>) \o g
            /\ ng' = ng + 1 /\ UNCHANGED <<done, plain, mode, exotic>>
GEmpty   == /\ Tick /\ mode = "sgr" /\ ng < 4 /\ exotic \in {"none", "empty"}
            /\ cur' = cur \o (IF ng = 0 THEN <<>> ELSE <<";">>)
            /\ ng' = ng + 1 /\ exotic' = "empty" /\ UNCHANGED <<done, plain, mode>>
GSgrClose == /\ Tick /\ mode = "sgr" /\ cur' = cur \o <<"m">> /\ mode' = "top" /\ UNCHANGED <<done, plain, ng, exotic>>
GNewLine == /\ Tick /\ mode = "top" /\ Len(done) < 2 /\ done' = Append(done, cur) /\ cur' = <<>> /\ plain' = <<>>
            /\ UNCHANGED <<mode, ng, exotic>>
GNext == GText \/ GCtl \/ GStruck \/ GSt \/ GSgrOpen \/ GGroup \/ GEmpty \/ GSgrClose \/ GNewLine
(* for -simulate: one action, so that TLC draws uniformly from all successors instead of first drawing a disjunct *)
GNextSim == steps < Depth /\ GNext

GCur == IF mode = "sgr" THEN cur \o <<"m">> ELSE cur
GLines == Append(done, GCur)
(* a sequence never swallows the text that follows it: the stripped line is exactly its text chunks *)
GNoSwallow == mode = "top" => Strip(cur) = plain /\ StripD(cur, Corners) = plain
(* the grammar stays inside the well-formed domain, where colours are specified *)
GWellFormed == LET p == Predict(GLines, Corners) IN \A i \in 1..Len(p) : p[i].wf
GSpans == LET carry == IF done = <<>> THEN Default ELSE Colour(done[Len(done)], Default).final IN ColourShape(GCur, carry)
(* the deviations named for parameter lists are local: they cannot be seen on lines without their trigger *)
GDevLocal == LET ls == GLines
                 none(c) == \A i \in 1..Len(ls) : ~Contains(ls[i], c) IN
             /\ (\A i \in 1..Len(ls) : ~(Has(ls[i], ":") /\ Has(ls[i], ";"))) => Predict(ls, {"MixedSep"}) = Predict(ls, {})
             /\ none(<<"5", "8">>) => Predict(ls, {"Sgr58"}) = Predict(ls, {})
GEmit == steps = Depth => PrintT(<<"CASE", ToJson(Case(GLines))>>)
-------------------------------------------------------------------------------
(* (3) sgr: s is the parameter string, ng the number of groups in it *)
SgrMenuFull == {NumSyms(n) : n \in {0, 1, 3, 4, 5, 22, 31, 39, 44, 49, 97, 100, 8, 10, 20, 26, 53, 59, 65, 73}} \cup {EmptyGroup}
                 \cup {JoinNums(g, ";") : g \in {<<38, 5, 100>>, <<48, 5, 3>>, <<38, 2, 1, 2, 3>>, <<58, 5, 3>>, <<58, 2, 1, 2, 3>>, <<58, 5, 38>>}}
                 \cup {JoinNums(g, ":") : g \in {<<38, 5, 100>>, <<48, 5, 3>>, <<38, 2, 1, 2, 3>>, <<58, 5, 3>>, <<58, 2, 1, 2, 3>>}}
                 \cup {<<"3", "8", ":", "2", ":", ":", "1", ":", "2", ":", "3">>,
                       <<"4", "8", ":", "2", ":", ":", "1", "0", ":", "2", "0", ":", "3", "0">>,
                       <<"5", "8", ":", "2", ":", ":", "1", ":", "2", ":", "3">>}
SgrMenuRed  == {NumSyms(n) : n \in {0, 1, 5, 31, 53, 59}} \cup {EmptyGroup}
                 \cup {JoinNums(g, ";") : g \in {<<38, 5, 100>>, <<58, 5, 3>>, <<58, 2, 1, 2, 3>>}}
                 \cup {JoinNums(g, ":") : g \in {<<38, 5, 100>>, <<58, 5, 3>>}}
                 \cup {<<"4", "8", ":", "2", ":", ":", "1", "0", ":", "2", "0", ":", "3", "0">>,
                       <<"5", "8", ":", "2", ":", ":", "1", ":", "2", ":", "3">>}
SgrMenu == IF EnvOr("MENU", "full") = "red" THEN SgrMenuRed ELSE SgrMenuFull

SInit == pre \in Pres /\ s = <<>> /\ GIdle
SNext == /\ ng < MaxLen
         /\ \E g \in SgrMenu : s' = (IF ng = 0 THEN g ELSE s \o <<";">> \o g)
         /\ ng' = ng + 1 /\ pre' = pre /\ UNCHANGED <<done, cur, plain, mode, exotic, steps>>
SLine == <<ESC, "[">> \o s \o <<"m", "a">>
SLines == IF pre = 1 THEN <<PreLine, SLine>> ELSE <<SLine>>
SWellFormed == LET p == Predict(SLines, Corners) IN \A i \in 1..Len(p) : p[i].wf
SDevLocal == /\ ~(Has(s, ":") /\ Has(s, ";")) => Predict(SLines, {"MixedSep"}) = Predict(SLines, {})
             /\ ~Contains(s, <<"5", "8">>) => Predict(SLines, {"Sgr58"}) = Predict(SLines, {})
(* the colour of underlines and the renditions fzf cannot show change nothing: a parameter string made of them only   *)
(* (and not empty: that would be a reset) leaves every component of the state as it was                               *)
SInvisible == LET r == SgrParams(s) IN
              /\ (s # <<>> /\ r[1] /\ \A i \in 1..Len(r[2]) : IF Plain(r[2][i]) THEN r[2][i][1] \in Unrepresented ELSE r[2][i][1] = 58)
                 => Colour(SLine, Carry).final = Carry
              /\ s \in {JoinNums(g, ";") : g \in {<<58, 5, 3>>, <<58, 2, 1, 2, 3>>, <<58, 5, 38>>}} => Colour(SLine, Carry).final = Carry
SEmit == PrintT(<<"CASE", ToJson(Case(SLines))>>)

-------------------------------------------------------------------------------
(* (4) items: done = the lines after the sentinel *)
Sp == " "
Sgr0(b) == <<ESC, "[">> \o b \o <<"m">>
Sentinel == <<"@", Sp, "@">>                  \* first line of every stream: the item under the cursor
LineMenu == {
  Sgr0(<<"3", "1">>) \o <<"a", "m", Sp, "a">>,                                             \* red left open, two fields
  <<"K", Sp, "B">>,                                                                          \* plain, two fields
  <<"c">>,                                                                                   \* plain, one field
  Sgr0(<<>>) \o <<"H", Sp, "J">>,                                                            \* reset first
  <<"a", Sp>> \o Sgr0(JoinNums(<<1, 48, 5, 208>>, ";")) \o <<"B">>,                          \* bold + 256-colour background from the second field on
  <<"a">> \o Sgr0(<<"0">>) \o <<Sp, "B">>,                                                   \* reset at the end of the first field
  Sgr0(JoinNums(<<38, 2, 1, 2, 3>>, ";")) \o <<"l">>,                                        \* 24-bit colour left open, one field
  <<"M", Sp, "c">> \o Sgr0(<<"3", "2">>),                                                    \* colour opened by the last thing on the line
  Sgr0(<<"4">>) \o <<"a", Sp>> \o Sgr0(<<"2", "4">>) \o <<"B", Sp, "c">>,                   \* three fields, underline on and off
  Sgr0(JoinNums(<<97, 100>>, ";")) \o <<"a", Sp, "B">>,                                      \* bright colours left open
  <<"a", Sp, "B", Sp, Sp, "c">>,                                                             \* three fields, plain
  Sgr0(JoinNums(<<38, 5, 100>>, ":")) \o <<"a", Sp, "B">>,                                   \* colon form
  Sgr0(<<"7">>) \o <<"a", Sp, "B">> \o Sgr0(<<"2", "7">>),                                   \* closed within the line
  <<"e~", Sp>> \o Sgr0(JoinNums(<<3, 9>>, ";")) \o <<"e~">>,                                 \* non-ASCII, italic + strike left open
  Sgr0(JoinNums(<<39, 49>>, ";")) \o <<"a", Sp, "B">>,                                       \* colours back to default, attributes stay
  Sgr0(JoinNums(<<2, 5, 35>>, ";")) \o <<"l">> }                                             \* dim blink magenta, one field

NInit == GIdle /\ s = <<>> /\ pre = 0
NNext == /\ steps < Depth /\ steps' = steps + 1
         /\ \E ln \in LineMenu : done' = Append(done, ln)
         /\ UNCHANGED <<s, pre, cur, plain, mode, ng, exotic>>
NNextSim == steps < Depth /\ NNext
NLines == <<Sentinel>> \o done
Rows(its) == [i \in 1..Len(its) |-> [text |-> its[i].text, attrs |-> its[i].attrs]]
RECURSIVE Expand(_)                              \* one entry per character
Expand(ar) == IF ar = <<>> THEN <<>> ELSE [i \in 1..ar[1][1] |-> ar[1][2]] \o Expand(Tail(ar))
IsSuffix(a, b) == Len(a) <= Len(b) /\ SubSeq(b, Len(b) - Len(a) + 1, Len(b)) = a
(* --with-nth 1.. shows what is shown without it (no line of the menu begins with a blank) *)
NIdentity == Rows(Items(NLines, 1, Corners)) = Rows(Items(NLines, 0, Corners))
(* without --with-nth an item shows what Part B says about its line *)
NOneStream == LET a == Items(NLines, 0, Corners)
                  b == Predict(NLines, Corners) IN
              \A i \in 1..Len(a) : /\ a[i].text = b[i].text            \* no line of the menu ends with a blank
                                   /\ Expand(a[i].attrs) = [k \in 1..Len(b[i].text) |-> [fg |-> AttrAt(b[i].attrs, k).fg,
                                                            bg |-> AttrAt(b[i].attrs, k).bg, at |-> AttrAt(b[i].attrs, k).at]]
(* hiding the first field does not change what the characters of the other fields show (every line >= 2 fields) *)
NHiding == (\A i \in 1..Len(NLines) : Len(AwkFields(NLines[i])) >= 2) =>
           LET a == Items(NLines, 1, Corners)
               b == Items(NLines, 2, Corners) IN
           \A i \in 1..Len(a) : IsSuffix(b[i].text, a[i].text) /\ IsSuffix(Expand(b[i].attrs), Expand(a[i].attrs))
NWellFormed == \A f \in {0, 1, 2} : LET a == Items(NLines, f, Corners) IN \A i \in 1..Len(a) : a[i].wf
ItemCase(ls) == [lines |-> ls,
                 exp |-> [f \in 1..3 |-> Rows(Items(ls, f - 1, Corners))],                          \* f - 1 = 0: no --with-nth, 1: 1.., 2: 2..
                 lag |-> [f \in 1..3 |-> Rows(Items(ls, f - 1, Corners \cup {"CarryLag"}))]]
NEmit == steps = Depth => PrintT(<<"CASE", ToJson(ItemCase(NLines))>>)
=============================================================================
