\* quick: lines with TABs: tab stops, the cut that never splits a TAB, horizontal scrolling, with and without a pattern
CONSTANTS
  Widths = {12, 13, 17}
  Heights = {6}
  Layouts = {"default"}
  Infos = {"hidden"}
  Seps = {TRUE}
  Headers <- MCHeadersT
  Hlines <- MCHlinesC0
  HeaderFirsts = {FALSE}
  Inputless = {FALSE}
  Pointers <- MCPointers
  Markers <- MCMarkers
  Ellipses <- MCEllipses2
  Lists <- MCListsTab
  Multis = {1}
  Queries <- MCQueriesC
  MaxCount = 12
  Tracks = {0}
  Hscrolls = {TRUE, FALSE}
  HscrollOffs = {10}
  KeepRights = {TRUE, FALSE}
  Scrollbars <- MCNoScrollbar
  Borders = {FALSE}
  Tabstops = {1, 4, 8}
  Patterns <- MCPatternsTabQ
  Acts = {"move", "pattern"}
INIT Init
NEXT Next
INVARIANTS InvRowCount InvWidth InvClaims InvTextRoom InvOnePointer InvMarkers InvRTrim InvTab InvTabNoPattern
CHECK_DEADLOCK FALSE
