CONSTANTS
  MaxTokens = 2
  NItems = 2
  WorldIds = {1}
INIT Init
NEXT Next
INVARIANTS InvExpansionReadsBack InvEscapedStayLiteral InvPlusCoversSelection InvOrdinals InvNeverHazard Emit
CHECK_DEADLOCK FALSE
