CONSTANTS
  AlphaSeq <- AlphaFull
  Prefix <- PrefNone
  MaxLen = 0
  Pres = {0}
  Depth = 3
INIT NInit
NEXT NNext
INVARIANTS NIdentity NOneStream NHiding NWellFormed
CHECK_DEADLOCK FALSE
