CONSTANTS
  BufferSize = 65536
  SlabSize = 131072
  MaxRecords = 0
  RecLens = {}
  Exhaustive = FALSE
INIT JInit
NEXT JNext
INVARIANT JInv
CHECK_DEADLOCK FALSE
