CONSTANTS
  MaxChildren = 2
  MaxTemps = 2
  QMax = 10
  MaxPending = 1
  CfgSet <- ListenCfgs
  Hows <- FewHows
SPECIFICATION SpecDev
VIEW NoOut
INVARIANTS TypeOK Restored DevBounded ExitAlwaysPossible OnlyConfigured
CONSTRAINT PendingBound
CHECK_DEADLOCK FALSE
