CONSTANTS
  MaxChildren = 2
  MaxTemps = 2
  QMax = 10
  MaxPending = 2
SPECIFICATION SpecDev
INVARIANTS TypeOK Restored DevBounded ExitAlwaysPossible OnlyConfigured
CONSTRAINT PendingBound
CHECK_DEADLOCK FALSE
