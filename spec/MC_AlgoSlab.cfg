CONSTANTS
  MaxT = 1
  MaxP = 1
  Depth = 0
  SlabCaps = {0}
  Fills <- MCFills
  ArgSpace <- MCArgSpace
INIT MCInit
NEXT MCNext
INVARIANT PureInv
PROPERTY Pure
CHECK_DEADLOCK FALSE
