------------------------------ MODULE Judge_Shell ------------------------------
(* C12, J binding: every record written by TestVerifShellRecord / TestVerifShellTmux / the execute-silent sessions  *)
(* of c12.py (real code, real shells, real binary) must be explained by FzfShell.  Texts are sequences of symbol     *)
(* names.                                                                                                             *)
EXTENDS FzfShell, Json, IOUtils

TraceLog == ndJsonDeserialize(IOEnv.TRACE)
Shards == 16
VARIABLE l
JInit == l \in 1..(IF Len(TraceLog) < Shards THEN Len(TraceLog) ELSE Shards)
JNext == l + Shards <= Len(TraceLog) /\ l' = l + Shards

(* kind = "expand": input (t, items, ix, cur, sel, q, fp); the code said valid / x; argv = what each real shell,      *)
(* started by the real Executor.ExecCommand, passed to the command (a marker if it was not run as one plain command)      *)
(* d = the --delimiter fzf has (kind awk / str / cls, pat), sep = its print separator; fs = what the temporary files   *)
(* of the expansion held, in template order (read before they are removed; in x the path of a file is the symbol FILE)  *)
StateOf(r) == [items |-> [i \in 1..Len(r.items) |-> [text |-> r.items[i], idx |-> r.ix[i]]],
               cur |-> r.cur, sel |-> r.sel, query |-> r.q, fp |-> r.fp, delim |-> r.d, sep |-> r.sep]
ShellNames(r) == DOMAIN r.argv
(* runs: the same input under cells of the ($SHELL, --with-shell) matrix.  set / shell / ws = the cell (paths as        *)
(* element lists); x = the expansion by the executor NewExecutor built under the cell; ran = its own ExecCommand was    *)
(* used to run the line (exactly when the specification says a POSIX shell evaluates), argv = what that shell passed on *)
CellEnv(c) == [set |-> c.set, path |-> c.shell]
ExplainedRun(c, ti, st, w) ==
    LET env == CellEnv(c)
    IN /\ c.x = ExpandByI(ti, st, env, c.ws)
       /\ c.ran = (Evaluator(env, c.ws) = "posix")
       /\ (c.ran /\ w.status = "OK") => c.argv = w.words
ExplainedExpand(r) ==
    LET st == StateOf(r)
        ti == TInfo(r.t)
        v  == ValidI(ti, st)
        x  == ExpandI(ti, st, Quote)
        w  == WantI(ti, st)
    IN /\ r.valid = v
       /\ v => /\ r.x = x                                                  \* the code expands as specified
               /\ r.fs = FilesI(ti, st)                                    \* and writes the files as specified
               /\ FilesReadBackI(ti, st)
               /\ w.status = "OK" =>                                        \* and where the property speaks:
                    /\ ShEval(x) = w                                        \*   the model reads back the original texts
                    /\ \A n \in ShellNames(r) : r.argv[n] = w.words         \*   and so does every real shell
               /\ \A k \in 1..Len(r.runs) : ExplainedRun(r.runs[k], ti, st, w)

(* kind = "pexec": the real binary, started with $SHELL / --with-shell of a cell, ran                                  *)
(*   load:execute-silent(printf '%s\0' {} {q} > FILE)+abort   on one item (--read0) and a query; seen = the          *)
(* arguments printf received.  Only cells whose program is a POSIX shell are run.                                       *)
ExplainedPexec(r) ==
    LET env == CellEnv(r)
    IN /\ r.err = ""
       /\ Evaluator(env, r.ws) = "posix"
       /\ ExecutorReadsBack(env, r.ws, r.item) /\ ExecutorReadsBack(env, r.ws, r.q)
       /\ r.seen = <<r.item, r.q>>

(* kind = "tmux": the real binary re-launched itself (argv0 + args) through the generated script, run by the real sh  *)
(* from an environment that has none of the entries (a popup starts from the tmux server's environment).               *)
(* ents = the entries fzf was started with (any text; with or without "="), in order; script = the part of the         *)
(* generated script that carries them; seen = argv of the re-launched process; seenenv = the entries of ents that       *)
(* arrived verbatim in its environment, in order, followed by every other entry it had that the harness did not put     *)
(* there; ran = what the stand-in command `a` (first in $PATH) was called with, if the script ran it.                   *)
(* CODE-DERIVED: exactly one argument is inserted after argv0 and some are appended; the original arguments stay         *)
(* contiguous.                                                                                                            *)
ExplainedTmux(r) ==
    /\ r.err = ""
    /\ LET all == <<r.argv0>> \o r.args
           n   == Len(r.args)
       IN /\ Len(r.seen) >= n + 2
          /\ ShEval(TmuxArgStr(all)) = Ok(<<r.seen[1]>> \o SubSeq(r.seen, 3, n + 2))
    /\ r.script = TmuxExports(r.ents)
    /\ ScriptSafe(r.ents)
    /\ r.seenenv = ScriptEval(TmuxExports(r.ents)).vars
    /\ r.seenenv = SelectSeq(r.ents, Exported)
    /\ \A i \in 1..Len(r.ents) : Exported(r.ents[i]) => TmuxExportReadsBack(EntryValue(r.ents[i]))
    /\ r.ran = <<>>

(* kind = "pmix": the real binary under tmux, --read0 --multi [--print0] [--delimiter D] --query Q, ran                  *)
(*   load:select-all+execute-silent(cp {+f} pf; cp {+f2} pf2; cp {f} cf; cp {+nf} nf;                                     *)
(*                                  printf '%s\0' {q:1} {q:2..} {q:s-1} {2} {+1} > seen)+abort                            *)
(* on several items; pf / pf2 / cf / nf = what the files held, seen = the arguments printf received.                      *)
PhB(body) == ParseBody(body)
ExplainedPmix(r) ==
    LET n  == Len(r.items)
        st == [items |-> [i \in 1..n |-> [text |-> r.items[i], idx |-> i - 1]], cur |-> 1, sel |-> [i \in 1..n |-> i],
               query |-> r.q, fp |-> FALSE, delim |-> r.d, sep |-> r.sep]
        ti == TInfo(<<"LB", "PLUS", "RB">>)
        M(body) == Meaning(PhB(body), ti, st)
        F(body) == FileContent(PhB(body), ti, st)
    IN /\ r.err = ""
       /\ r.seen = M(<<"q", "COLON", "1">>) \o M(<<"q", "COLON", "2", "DOT", "DOT">>) \o M(<<"q", "COLON", "s", "MINUS", "1">>)
                   \o M(<<"2">>) \o M(<<"PLUS", "1">>)
       /\ r.pf = F(<<"PLUS", "f">>) /\ r.pf2 = F(<<"PLUS", "f", "2">>) /\ r.cf = F(<<"f">>) /\ r.nf = F(<<"PLUS", "n", "f">>)
       /\ RecordsReadBack(FileRecords(PhB(<<"PLUS", "f", "2">>), ti, st), r.pf2, r.sep)

Explained(r) == CASE r.kind = "tmux"  -> ExplainedTmux(r)
                  [] r.kind = "pexec" -> ExplainedPexec(r)
                  [] r.kind = "pmix"  -> ExplainedPmix(r)
                  [] OTHER            -> ExplainedExpand(r)
JInv == Explained(TraceLog[l]) \/ PrintT(<<"MISMATCH", l>>)
(* how many records the property actually speaks about (evidence only) *)
JStat == LET r == TraceLog[l] IN
         (r.kind = "expand" /\ r.valid /\ WantI(TInfo(r.t), StateOf(r)).status = "OK") => PrintT(<<"SPOKEN", l>>)
================================================================================
