------------------------------ MODULE Judge_Shell ------------------------------
(* C12, J binding: every record written by TestVerifShellRecord / TestVerifShellTmux / the execute-silent sessions  *)
(* of c12.py (real code, real shells, real binary) must be explained by FzfShell.  Texts are sequences of symbol     *)
(* names.                                                                                                             *)
EXTENDS FzfShell, Json, IOUtils

TraceLog == ndJsonDeserialize(IOEnv.TRACE)
Shards == 16
VARIABLE l
JInit == l \in 1..(IF Len(TraceLog) < Shards THEN Len(TraceLog) ELSE Shards)
JNext == l + Shards <= Len(TraceLog) /\ l' = l + Shards

(* kind = "expand": input (t, items, ix, cur, sel, q, fp); the code said valid / x; argv = what each real shell,      *)
(* started by the real Executor.ExecCommand, passed to the command (a marker if it was not run as one plain command)      *)
StateOf(r) == [items |-> [i \in 1..Len(r.items) |-> [text |-> r.items[i], idx |-> r.ix[i]]],
               cur |-> r.cur, sel |-> r.sel, query |-> r.q, fp |-> r.fp]
ShellNames(r) == DOMAIN r.argv
(* runs: the same input under cells of the ($SHELL, --with-shell) matrix.  set / shell / ws = the cell (paths as        *)
(* element lists); x = the expansion by the executor NewExecutor built under the cell; ran = its own ExecCommand was    *)
(* used to run the line (exactly when the specification says a POSIX shell evaluates), argv = what that shell passed on *)
CellEnv(c) == [set |-> c.set, path |-> c.shell]
ExplainedRun(c, ti, st, w) ==
    LET env == CellEnv(c)
    IN /\ c.x = ExpandByI(ti, st, env, c.ws)
       /\ c.ran = (Evaluator(env, c.ws) = "posix")
       /\ (c.ran /\ w.status = "OK") => c.argv = w.words
ExplainedExpand(r) ==
    LET st == StateOf(r)
        ti == TInfo(r.t)
        v  == ValidI(ti, st)
        x  == ExpandI(ti, st, Quote)
        w  == WantI(ti, st)
    IN /\ r.valid = v
       /\ v => /\ r.x = x                                                  \* the code expands as specified
               /\ w.status = "OK" =>                                        \* and where the property speaks:
                    /\ ShEval(x) = w                                        \*   the model reads back the original texts
                    /\ \A n \in ShellNames(r) : r.argv[n] = w.words         \*   and so does every real shell
               /\ \A k \in 1..Len(r.runs) : ExplainedRun(r.runs[k], ti, st, w)

(* kind = "pexec": the real binary, started with $SHELL / --with-shell of a cell, ran                                  *)
(*   load:execute-silent(printf '%s\0' {} {q} > FILE)+abort   on one item (--read0) and a query; seen = the          *)
(* arguments printf received.  Only cells whose program is a POSIX shell are run.                                       *)
ExplainedPexec(r) ==
    LET env == CellEnv(r)
    IN /\ r.err = ""
       /\ Evaluator(env, r.ws) = "posix"
       /\ ExecutorReadsBack(env, r.ws, r.item) /\ ExecutorReadsBack(env, r.ws, r.q)
       /\ r.seen = <<r.item, r.q>>

(* kind = "tmux": the real binary re-launched itself (argv0 + args) through the generated script; seen / seenenv =   *)
(* what the re-launched process received.  CODE-DERIVED: exactly one argument is inserted after argv0 and some are     *)
(* appended; the original arguments stay contiguous.                                                                   *)
ExplainedTmux(r) ==
    /\ r.err = ""
    /\ LET all == <<r.argv0>> \o r.args
           n   == Len(r.args)
       IN /\ Len(r.seen) >= n + 2
          /\ ShEval(TmuxArgStr(all)) = Ok(<<r.seen[1]>> \o SubSeq(r.seen, 3, n + 2))
    /\ \A i \in 1..Len(r.envs) : ShEval(TmuxExportWord(r.envs[i])) = Ok(<<<<"a">> \o r.seenenv[i]>>)

Explained(r) == IF r.kind = "tmux" THEN ExplainedTmux(r) ELSE IF r.kind = "pexec" THEN ExplainedPexec(r) ELSE ExplainedExpand(r)
JInv == Explained(TraceLog[l]) \/ PrintT(<<"MISMATCH", l>>)
(* how many records the property actually speaks about (evidence only) *)
JStat == LET r == TraceLog[l] IN
         (r.kind = "expand" /\ r.valid /\ WantI(TInfo(r.t), StateOf(r)).status = "OK") => PrintT(<<"SPOKEN", l>>)
================================================================================
