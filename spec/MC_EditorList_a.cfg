CONSTANTS
  Alphabet = {"a"}
  MaxLen = 0
  Items = {1, 2, 3}
  Lists <- MCLists
  MaxItemsC = 2
  CycleC = TRUE
  LayoutC = "default"
  ScrollOffC = 1
  InputlessC = FALSE
  Multis = {0, 2, 2147483647}
  Tracks = {0}
  ActFilter = "list"
INIT Init
NEXT Next
CONSTRAINT Bound
INVARIANTS InvType InvLimit InvNoMulti InvRendered InvToggleInvolution InvAllLocal InvDeselectAll InvSurvive InvTrackFollows
CHECK_DEADLOCK FALSE
