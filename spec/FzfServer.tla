------------------------------- MODULE FzfServer -------------------------------
(* The --listen endpoint: src/server.go (startHttpServer, handleHttpRequest, parseListenAddress), the action     *)
(* channel into the terminal loop (src/terminal.go) and the action-list grammar a POST body shares with --bind    *)
(* (src/options.go parseSingleActionList / parseKeymap).                                                          *)
(*                                                                                                                *)
(* A byte stream is a sequence of ATOMS.  An atom is a string that denotes its own bytes ("POST", " ", ":",      *)
(* "17"), except the names below ("%r" = CR ...).  TLC strings are atomic, so every predicate on text is stated   *)
(* on the concatenation Str(atoms) compared with a literal, or on whole atoms; a stream can be cut into TCP       *)
(* segments at every atom boundary (CR and LF are separate atoms).                                                *)
(*                                                                                                                *)
(* The server is a state machine: Arrive (one Read returns the next segment), SeeEOF (the client closed its       *)
(* write side), Scan (the scanner hands one token to the handler), Finish (the answer).  The same transition      *)
(* operators are folded by Run(W, segments, key, env), which is what the export configuration prints.             *)
EXTENDS Integers, Sequences, FiniteSets, TLC

CR == "%r"   LF == "%n"   TAB == "%t"   NUL == "%0"   HI == "%h"
EOL == <<CR, LF>>
Named1 == {CR, LF, TAB, NUL, HI}
BLen1(a) == IF a \in Named1 THEN 1 ELSE IF a = "%X" THEN 60000 ELSE IF a = "%Y" THEN 70000 ELSE Len(a)

RECURSIVE BSum(_, _, _), StrFrom(_, _, _)
BSum(s, i, j) == IF i > j THEN 0 ELSE BLen1(s[i]) + BSum(s, i + 1, j)
BLen(s) == BSum(s, 1, Len(s))                                   \* number of bytes
StrFrom(s, i, j) == IF i > j THEN "" ELSE s[i] \o StrFrom(s, i + 1, j)
Str(s) == StrFrom(s, 1, Len(s))                                 \* the text
Take(s, k) == SubSeq(s, 1, k)
Drop(s, k) == SubSeq(s, k + 1, Len(s))
Min2(a, b) == IF a < b THEN a ELSE b

(* number of leading atoms of t whose text is exactly lit, or -1: "t starts with lit" (lit never ends inside an atom) *)
PrefixAtoms(t, lit) == LET ks == {k \in 0..Min2(Len(t), Len(lit)) : StrFrom(t, 1, k) = lit}
                       IN IF ks = {} THEN -1 ELSE CHOOSE k \in ks : TRUE
StartsWith(t, lit) == PrefixAtoms(t, lit) >= 0

-------------------------------------------------------------------------------
(* Constants of the implementation *)
MaxContentLength == 1048576       \* documented by the property: "oversized" = more than 1 MiB
MaxToken == 65536                 \* CODE-DERIVED: bufio.Scanner's token limit (DESIGN appendix D)
DefaultLimit == 100
Statuses == {200, 400, 401, 503}

-------------------------------------------------------------------------------
(* strconv.Atoi on the texts that occur: decimal digits with an optional sign; everything else is an error.     *)
NumRange == 0..90 \cup {6266, 60000, 60014, 65535, 65536, 70000, 70014, 1020048, 1048576, 1048577}
AtoiTab == [s \in {ToString(n) : n \in NumRange} |-> CHOOSE n \in NumRange : ToString(n) = s]
Atoi(str) == IF str \in DOMAIN AtoiTab THEN [ok |-> TRUE, v |-> AtoiTab[str]]
             ELSE IF \E n \in NumRange : str = "+" \o ToString(n)
                  THEN [ok |-> TRUE, v |-> CHOOSE n \in NumRange : str = "+" \o ToString(n)]
             ELSE IF \E n \in NumRange : str = "-" \o ToString(n)
                  THEN [ok |-> TRUE, v |-> 0 - (CHOOSE n \in NumRange : str = "-" \o ToString(n))]
             ELSE IF \E n \in NumRange : str = "00" \o ToString(n)
                  THEN [ok |-> TRUE, v |-> CHOOSE n \in NumRange : str = "00" \o ToString(n)]
             ELSE [ok |-> FALSE, v |-> 0]

Spaces == {" ", TAB, CR, LF}                                    \* strings.TrimSpace on these texts
RECURSIVE TrimL(_), TrimR(_)
TrimL(s) == IF s # <<>> /\ s[1] \in Spaces THEN TrimL(Tail(s)) ELSE s
TrimR(s) == IF s # <<>> /\ s[Len(s)] \in Spaces THEN TrimR(Take(s, Len(s) - 1)) ELSE s
TrimSpace(s) == TrimR(TrimL(s))
RECURSIVE TrimNLL(_), TrimNLR(_)
TrimNLL(s) == IF s # <<>> /\ s[1] \in {CR, LF} THEN TrimNLL(Tail(s)) ELSE s
TrimNLR(s) == IF s # <<>> /\ s[Len(s)] \in {CR, LF} THEN TrimNLR(Take(s, Len(s) - 1)) ELSE s
TrimNL(s) == TrimNLR(TrimNLL(s))                                 \* strings.Trim(body, "\r\n")

FirstIdx(s, a, from) == LET c == {i \in from..Len(s) : s[i] = a} IN IF c = {} THEN 0 ELSE CHOOSE i \in c : \A j \in c : i <= j

-------------------------------------------------------------------------------
(* ACTION LISTS: the payload of POST, "the same format" as the right-hand side of --bind (man: ACTION           *)
(* COMPOSITION, ACTION ARGUMENT).  actions are chained with "+"; an action with an argument is written          *)
(* name(...) name[...] name{...} name<...> name~...~ (and ! @ # $ ^ & * ; / |) or name:... (rest of the list). *)
(* Action types are named as actionType.Name() prints them.                                                     *)
SimpleActs == [ up |-> <<"up">>, down |-> <<"down">>, accept |-> <<"accept">>, abort |-> <<"abort">>,
                top |-> <<"first">>, first |-> <<"first">>, ignore |-> <<"ignore">> ]
               @@ ("toggle-down" :> <<"toggle", "down">>) @@ ("select-all" :> <<"select-all">>)
               @@ ("toggle-preview" :> <<"toggle-preview">>) @@ ("hide-preview" :> <<"hide-preview">>)
ArgActs == [ reload |-> "reload", pos |-> "position", put |-> "put", preview |-> "preview", print |-> "print" ]
           @@ ("change-query" :> "change-query") @@ ("change-prompt" :> "change-prompt")
           @@ ("execute-silent" :> "execute-silent") @@ ("transform-query" :> "transform-query")
           @@ ("change-multi" :> "change-multi") @@ ("change-preview-window" :> "change-preview-window")
LowerAct(a) == CASE a = "UP" -> "up" [] a = "Change-Query" -> "change-query" [] a = "RELOAD" -> "reload" [] OTHER -> a
Closer(o) == CASE o = "(" -> ")" [] o = "[" -> "]" [] o = "{" -> "}" [] o = "<" -> ">" [] OTHER -> o
Openers == {"(", "[", "{", "<", "~", "!", "@", "#", "$", "^", "&", "*", ";", "/", "|"}
PreviewWindowOK == {"up", "hidden", "down,5"}       \* the argument of change-preview-window must be a valid spec

ParseErr == [ok |-> FALSE, acts |-> <<>>]
Act(t, arg) == <<t, arg>>
ArgOK(t, arg) == t = "change-preview-window" => arg \in PreviewWindowOK
(* the argument ends at the first closing character that is followed by "+", "," or the end of the list *)
ArgEnd(b, from, c) == LET js == {j \in from..Len(b) : b[j] = c /\ (j = Len(b) \/ b[j + 1] \in {"+", ","})}
                      IN IF js = {} THEN 0 ELSE CHOOSE j \in js : \A k \in js : j <= k
RECURSIVE ParseFrom(_, _, _)
ParseFrom(b, i, first) ==
    IF i > Len(b) THEN (IF first THEN [ok |-> TRUE, acts |-> <<>>] ELSE ParseErr)      \* "" / trailing "+"
    ELSE LET a == LowerAct(b[i])
             cont(acts, nxt) == IF nxt > Len(b) + 1 THEN [ok |-> TRUE, acts |-> acts]
                                ELSE LET r == ParseFrom(b, nxt, FALSE)
                                     IN IF r.ok THEN [ok |-> TRUE, acts |-> acts \o r.acts] ELSE ParseErr
         IN IF a \in DOMAIN ArgActs /\ i < Len(b) /\ b[i + 1] = ":"
              THEN LET arg == StrFrom(b, i + 2, Len(b))
                   IN IF ArgOK(ArgActs[a], arg) THEN [ok |-> TRUE, acts |-> <<Act(ArgActs[a], arg)>>] ELSE ParseErr
            ELSE IF a \in DOMAIN ArgActs /\ i < Len(b) /\ b[i + 1] \in Openers
              THEN LET j == ArgEnd(b, i + 2, Closer(b[i + 1]))
                       arg == StrFrom(b, i + 2, j - 1)
                   IN IF j = 0 \/ ~ArgOK(ArgActs[a], arg) THEN ParseErr
                      ELSE IF j = Len(b) THEN [ok |-> TRUE, acts |-> <<Act(ArgActs[a], arg)>>]
                      ELSE IF b[j + 1] = "+" THEN cont(<<Act(ArgActs[a], arg)>>, j + 2)
                      ELSE ParseErr   \* "name(arg),more": outside the grammar (a comma separates key bindings)
            ELSE LET p == FirstIdx(b, "+", i)
                     k == IF p = 0 THEN Len(b) + 1 ELSE p
                     spec == SubSeq(b, i, k - 1)
                     nm == IF Len(spec) = 1 THEN LowerAct(spec[1]) ELSE "?"
                 IN IF spec = <<>> THEN (IF first THEN cont(<<>>, k + 1) ELSE ParseErr)   \* a leading "+" is allowed
                    ELSE IF nm \in DOMAIN SimpleActs
                      THEN cont([x \in 1..Len(SimpleActs[nm]) |-> Act(SimpleActs[nm][x], "")], k + 1)
                    ELSE IF nm = "change-multi" THEN cont(<<Act("change-multi", "")>>, k + 1)
                    ELSE ParseErr
ParseActions(b) == ParseFrom(b, 1, TRUE)

(* The terminal runs a posted list as it is when the listener is local or --listen-unsafe was given; for a remote *)
(* listener the actions that start processes are dropped (man: "To allow remote process execution ...").         *)
ExecTypes == {"transform", "transform-border-label", "transform-header", "transform-preview-label", "transform-prompt",
              "transform-query", "preview", "change-preview", "refresh-preview", "execute", "execute-silent",
              "execute-multi", "reload", "reload-sync", "become"}
Executed(acts, local, unsafe) == IF local \/ unsafe THEN acts ELSE SelectSeq(acts, LAMBDA a : a[1] \notin ExecTypes)
(* CODE-DERIVED: a key map built from --bind puts the actions that change the preview window first              *)
(* (postProcessOptions); a posted list is run in the order given.                                                 *)
PWTypes == {"toggle-preview", "show-preview", "hide-preview", "change-preview-window"}
BindOrder(acts) == IF \E i \in 1..Len(acts) : acts[i][1] \in PWTypes
                     THEN SelectSeq(acts, LAMBDA a : a[1] \in PWTypes) \o SelectSeq(acts, LAMBDA a : a[1] \notin PWTypes)
                     ELSE acts

-------------------------------------------------------------------------------
(* LISTENER START: --listen [ADDR:]PORT; a non-local address needs FZF_API_KEY. *)
IsLocal(host) == host \in {"localhost", "127.0.0.1"}
StartAllowed(host, key) == IsLocal(host) \/ key # ""
(* parseListenAddress on "port", "host:port", ":port": parts are atoms *)
ParseListen(parts) ==
    LET n == Len(SelectSeq(parts, LAMBDA a : a = ":"))
        host == IF n = 0 \/ parts[1] = ":" THEN "localhost" ELSE parts[1]
        pstr == IF parts = <<>> THEN "" ELSE parts[Len(parts)]
        p == Atoi(pstr)
    IN IF n > 1 \/ pstr = ":" \/ ~p.ok \/ p.v < 0 \/ p.v > 65535 \/ Str(parts) \notin {pstr, host \o ":" \o pstr, ":" \o pstr}
       THEN [ok |-> FALSE, host |-> "", port |-> -1] ELSE [ok |-> TRUE, host |-> host, port |-> p.v]

-------------------------------------------------------------------------------
(* REQUEST LINE *)
QAtoms == {"limit=2", "offset=1", "limit=0", "&", "x=1", "limit=", "offset=3", "limit=100"}   \* all within [a-z0-9=&]+
ParamTab == ("limit=2" :> <<"limit", 2>>) @@ ("offset=1" :> <<"offset", 1>>) @@ ("limit=0" :> <<"limit", 0>>)
            @@ ("offset=3" :> <<"offset", 3>>) @@ ("limit=100" :> <<"limit", 100>>)
RECURSIVE QRun(_, _)
QRun(r, i) == IF i <= Len(r) /\ r[i] \in QAtoms THEN QRun(r, i + 1) ELSE i - 1     \* last index of the run from 2
NoGet == [m |-> FALSE, q |-> <<>>]
(* the request line "GET /[?query] HTTP..." (query over a-z 0-9 = &) *)
GetMatch(t) == LET k == PrefixAtoms(t, "GET /")
                   r == Drop(t, k)
               IN IF k < 0 THEN NoGet
                  ELSE IF StartsWith(r, " HTTP") THEN [m |-> TRUE, q |-> <<>>]
                  ELSE IF r # <<>> /\ r[1] = "?"
                    THEN LET e == QRun(r, 2)
                         IN IF e >= 2 /\ StartsWith(Drop(r, e), " HTTP") THEN [m |-> TRUE, q |-> SubSeq(r, 2, e)] ELSE NoGet
                  ELSE NoGet
RECURSIVE ParamFold(_, _, _)
ParamFold(q, i, p) == IF i > Len(q) THEN p
                      ELSE IF q[i] \in DOMAIN ParamTab /\ (i = 1 \/ q[i - 1] = "&") /\ (i = Len(q) \/ q[i + 1] = "&")
                        THEN ParamFold(q, i + 1, IF ParamTab[q[i]][1] = "limit" THEN <<ParamTab[q[i]][2], p[2]>>
                                                                                 ELSE <<p[1], ParamTab[q[i]][2]>>)
                      ELSE ParamFold(q, i + 1, p)
GetParams(q) == ParamFold(q, 1, <<DefaultLimit, 0>>)         \* <<limit, offset>>
IsPostLine(t) == StartsWith(t, "POST / HTTP")

(* HEADER LINE: name ":" value; names are case-insensitive; the value is taken without surrounding blanks *)
HdrNames == ("Content-Length" :> "content-length") @@ ("content-length" :> "content-length")
            @@ ("CONTENT-LENGTH" :> "content-length") @@ ("Content-length" :> "content-length")
            @@ ("X-API-Key" :> "x-api-key") @@ ("x-api-key" :> "x-api-key") @@ ("X-Api-Key" :> "x-api-key")
            @@ ("X-API-KEY" :> "x-api-key")
Header(t) == LET c == FirstIdx(t, ":", 1)
                 n == StrFrom(t, 1, c - 1)
             IN IF c = 0 THEN [name |-> "", val |-> ""]
                ELSE [name |-> IF n \in DOMAIN HdrNames THEN HdrNames[n] ELSE "other", val |-> Str(TrimSpace(Drop(t, c)))]
ValidLength(a) == a.ok /\ a.v > 0 /\ a.v <= MaxContentLength

-------------------------------------------------------------------------------
(* ANSWERS.  bare = status line only (no Content-Length, empty body): how a POST is acknowledged. *)
Resp(st, dl, rv, gets, bare) == [st |-> st, dl |-> dl, rv |-> rv, gets |-> gets, bare |-> bare]
NoResp == Resp(0, <<>>, FALSE, <<>>, FALSE)
R400 == Resp(400, <<>>, FALSE, <<>>, FALSE)
R401 == Resp(401, <<>>, FALSE, <<>>, FALSE)
RGet(p, env) == IF env = "uiBusy" THEN Resp(503, <<>>, FALSE, <<p>>, FALSE) ELSE Resp(200, <<>>, TRUE, <<p>>, FALSE)
RPost(acts, env) == IF env = "chanFull" THEN Resp(503, <<>>, FALSE, <<>>, TRUE) ELSE Resp(200, acts, FALSE, <<>>, TRUE)
Authorised(key, presented) == key = "" \/ presented = key

-------------------------------------------------------------------------------
(* THE SERVER, one connection.  s: sent = atoms the server has read, cons = atoms consumed as tokens, eof = the    *)
(* end of the stream was read, sec = 0 request line / 1 headers / 2 body, cl = declared length, pkey = presented   *)
(* key, bs = first atom of the body, sd = scanning is over, ans = answered.                                        *)
(* W is the byte stream with two tables: pre[i] = bytes of the first i atoms, crlf = positions of the LF of CRLFs  *)
S0 == [sent |-> 0, cons |-> 0, eof |-> FALSE, sec |-> 0, cl |-> 0, pkey |-> "", bs |-> 0, isGet |-> FALSE,
       gp |-> <<DefaultLimit, 0>>, flaw |-> FALSE, sd |-> FALSE, ans |-> FALSE, resp |-> NoResp, waits |-> FALSE]

RECURSIVE PreSums(_, _, _, _)
PreSums(a, i, acc, f) == IF i > Len(a) THEN f ELSE PreSums(a, i + 1, acc + BLen1(a[i]), f @@ (i :> acc + BLen1(a[i])))
Prep(a) == [a |-> a, pre |-> PreSums(a, 1, 0, (0 :> 0)), crlf |-> {p \in 2..Len(a) : a[p - 1] = CR /\ a[p] = LF}]
Bytes(W, i, j) == IF i > j THEN 0 ELSE W.pre[j] - W.pre[i - 1]                   \* bytes of atoms i..j
BodyBytes(W, s) == IF s.bs = 0 THEN 0 ELSE Bytes(W, s.bs, s.cons)
(* What the scanner does next with the bytes it holds (atoms cons+1..sent).  A line ends with CRLF.             *)
(* CODE-DERIVED: bytes without a CRLF are handed over as the last token as soon as body + pending >= declared   *)
(* length (always, while no length is declared) or at the end of the stream; a pending run of MaxToken bytes    *)
(* that is still short ends the scan without a token.                                                            *)
Token(W, s) == LET es == {p \in W.crlf : p >= s.cons + 2 /\ p <= s.sent}
                   e == IF es = {} THEN 0 ELSE CHOOSE p \in es : \A q \in es : p <= q
                   pend == Bytes(W, s.cons + 1, s.sent)
               IN IF e > 0 /\ Bytes(W, s.cons + 1, e) <= MaxToken THEN [k |-> "tok", n |-> e - s.cons, fin |-> FALSE]
                  ELSE IF s.eof THEN [k |-> "tok", n |-> s.sent - s.cons, fin |-> TRUE]
                  ELSE IF s.sent = s.cons THEN [k |-> "need", n |-> 0, fin |-> FALSE]
                  ELSE IF BodyBytes(W, s) + Min2(pend, MaxToken) >= s.cl THEN [k |-> "tok", n |-> s.sent - s.cons, fin |-> TRUE]
                  ELSE IF pend >= MaxToken THEN [k |-> "long", n |-> 0, fin |-> TRUE]
                  ELSE [k |-> "need", n |-> 0, fin |-> FALSE]
NeedsInput(W, s) == ~s.ans /\ ~s.sd /\ Token(W, s).k = "need"
CanScan(W, s) == ~s.ans /\ ~s.sd /\ Token(W, s).k # "need"

Answer(s, r) == [s EXCEPT !.ans = TRUE, !.resp = r]
(* the handler's reaction to one token t (section by section) *)
Handle(s, t) ==
    CASE s.sec = 0 ->
           LET g == GetMatch(t)
           IN IF g.m THEN [s EXCEPT !.isGet = TRUE, !.gp = GetParams(g.q), !.sec = 1]
              ELSE IF IsPostLine(t) THEN [s EXCEPT !.sec = 1]
              ELSE Answer(s, R400)                                     \* neither GET / nor POST /
      [] s.sec = 1 ->
           IF t = EOL
             THEN IF s.isGet THEN [s EXCEPT !.sd = TRUE]                 \* a GET ends with its header block
                  ELSE IF s.cl = 0 THEN Answer(s, R400)                  \* POST without a length
                  ELSE [s EXCEPT !.sec = 2, !.bs = s.cons + 1]
             ELSE LET h == Header(t)
                      n == Atoi(h.val)
                  IN IF h.name = "content-length"
                       THEN IF ValidLength(n) THEN [s EXCEPT !.cl = n.v]
                            ELSE IF s.isGet THEN [s EXCEPT !.flaw = TRUE] ELSE Answer(s, R400)
                     ELSE IF h.name = "x-api-key" THEN [s EXCEPT !.pkey = h.val]
                     ELSE s
      [] OTHER -> s                                                    \* body bytes accumulate (bs..cons)
ScanWith(W, s, tk) == LET s1 == [s EXCEPT !.cons = s.cons + tk.n, !.sd = tk.fin]
                      IN IF tk.k = "long" THEN s1 ELSE Handle(s1, SubSeq(W.a, s.cons + 1, s.cons + tk.n))
Scan(W, s) == ScanWith(W, s, Token(W, s))

(* take the first n bytes of a body; the cases are built so that n falls on an atom boundary *)
RECURSIVE TakeBytes(_, _, _)
TakeBytes(b, i, n) == IF n <= 0 \/ i > Len(b) THEN <<>>
                      ELSE IF BLen1(b[i]) > n THEN Assert(FALSE, <<"declared length inside an atom", b, i, n>>)
                      ELSE <<b[i]>> \o TakeBytes(b, i + 1, n - BLen1(b[i]))
(* the answer once scanning is over.  Key first, then completeness, then the action list. *)
Finish(W, s, key, env) ==
    IF ~Authorised(key, s.pkey) THEN Answer(s, R401)
    ELSE IF s.isGet THEN Answer(s, RGet(s.gp, env))
    ELSE IF BodyBytes(W, s) < s.cl THEN Answer(s, R400)                               \* incomplete
    ELSE LET body == IF s.bs = 0 THEN <<>> ELSE SubSeq(W.a, s.bs, s.cons)
             p == ParseActions(TrimNL(TakeBytes(body, 1, s.cl)))
         IN IF ~p.ok \/ p.acts = <<>> THEN Answer(s, R400) ELSE Answer(s, RPost(p.acts, env))

(* the whole connection as a function: segs = atoms per Read; after them the client has closed its write side *)
(* (atoms of W beyond the segments are never sent)                                                              *)
RECURSIVE Drive(_, _, _, _, _)
Drive(W, s, segs, key, env) ==
    IF s.ans THEN s
    ELSE IF s.sd THEN Finish(W, s, key, env)
    ELSE LET tk == Token(W, s)
         IN IF tk.k # "need" THEN Drive(W, ScanWith(W, s, tk), segs, key, env)
            ELSE IF segs # <<>> THEN Drive(W, [s EXCEPT !.sent = s.sent + Head(segs)], Tail(segs), key, env)
            ELSE Drive(W, [s EXCEPT !.eof = TRUE, !.waits = TRUE], <<>>, key, env)
RECURSIVE SumSeq(_)
SumSeq(q) == IF q = <<>> THEN 0 ELSE Head(q) + SumSeq(Tail(q))
Run(W, segs, key, env) == Drive(W, S0, segs, key, env)
Obs(s) == [st |-> s.resp.st, dl |-> s.resp.dl, rv |-> s.resp.rv, gets |-> s.resp.gets, waits |-> s.waits, wf |-> TRUE]

-------------------------------------------------------------------------------
(* STRUCTURED REQUESTS (what the property quantifies over) and the answer they deserve, Respond.               *)
(* req = [start, hdrs (sequence of lines without EOL), blank (number of empty lines after the headers), body].  *)
(* Every line ends with CRLF.                                                                                    *)
RECURSIVE JoinLines(_)
JoinLines(ls) == IF ls = <<>> THEN <<>> ELSE Head(ls) \o EOL \o JoinLines(Tail(ls))
Wire(req) == req.start \o EOL \o JoinLines(req.hdrs) \o JoinLines([i \in 1..req.blank |-> <<>>]) \o req.body
RECURSIVE HdrFold(_, _, _)
(* h = [cl, pkey, bad]: headers in order, the last one of a kind counts; bad = some Content-Length is invalid *)
HdrFold(hs, i, h) == IF i > Len(hs) THEN h
                     ELSE LET x == Header(hs[i] \o EOL)
                          IN HdrFold(hs, i + 1,
                               IF x.name = "content-length"
                                 THEN (IF ValidLength(Atoi(x.val)) THEN [h EXCEPT !.cl = Atoi(x.val).v] ELSE [h EXCEPT !.bad = TRUE])
                               ELSE IF x.name = "x-api-key" THEN [h EXCEPT !.pkey = x.val] ELSE h)
Respond(req, key, env) ==
    LET g == GetMatch(req.start \o EOL)
        h == HdrFold(req.hdrs, 1, [cl |-> 0, pkey |-> "", bad |-> FALSE])
        body == JoinLines([i \in 1..(req.blank - 1) |-> <<>>]) \o req.body
    IN IF g.m THEN (IF Authorised(key, h.pkey) THEN RGet(GetParams(g.q), env) ELSE R401)
       ELSE IF ~IsPostLine(req.start \o EOL) THEN R400
       ELSE IF h.bad THEN R400                                  \* malformed / oversized length
       ELSE IF req.blank = 0 THEN (IF Authorised(key, h.pkey) THEN R400 ELSE R401)   \* the header block never ends
       ELSE IF h.cl = 0 THEN R400                               \* no length
       ELSE IF ~Authorised(key, h.pkey) THEN R401
       ELSE IF BLen(body) < h.cl THEN R400                      \* incomplete
       ELSE LET p == ParseActions(TrimNL(TakeBytes(body, 1, h.cl)))
            IN IF ~p.ok \/ p.acts = <<>> THEN R400 ELSE RPost(p.acts, env)

(* GET: what an answer may look like.  The property fixes: never an action; the state only with the key; a        *)
(* complete, plainly framed GET (request line, headers without a length, one empty line, segments cut at line     *)
(* ends) gets exactly 200 + state or 401.  For every other GET (cut inside a line, closed early, with a length    *)
(* or a body) the answer may also be a rejection, and reading on to the end of the stream is not prescribed.      *)
LineAligned(w, segs) == \A k \in 1..Len(segs) : LET p == SumSeq(Take(segs, k))
                                                IN p = 0 \/ p >= Len(w) \/ (p >= 2 /\ w[p - 1] = CR /\ w[p] = LF)
HasLength(w) == \E i \in 1..Len(w) : w[i] \in DOMAIN HdrNames /\ HdrNames[w[i]] = "content-length"
RECURSIVE EndOfHead(_, _)
EndOfHead(w, i) == IF i + 3 > Len(w) THEN 0
                   ELSE IF w[i] = CR /\ w[i + 1] = LF /\ w[i + 2] = CR /\ w[i + 3] = LF THEN i + 3 ELSE EndOfHead(w, i + 1)
PlainGet(w, segs) == EndOfHead(w, 1) = Len(w) /\ LineAligned(w, segs) /\ ~HasLength(w)
(* some header line of the bytes sent (ended by CRLF or by the end of the stream) names x-api-key and its value    *)
(* begins with the exact key: whatever the framing, a server that answers such a GET with the state has seen the  *)
(* key; without such a line it cannot have                                                                          *)
RECURSIVE CrlfFrom(_, _)
CrlfFrom(d, i) == IF i >= Len(d) THEN 0 ELSE IF d[i] = CR /\ d[i + 1] = LF THEN i + 1 ELSE CrlfFrom(d, i + 1)
HasKeyLine(t, key) == LET c == FirstIdx(t, ":", 1)
                       v == TrimL(Drop(t, c))
                   IN c > 0 /\ Header(t).name = "x-api-key" /\ StartsWith(v, key)
RECURSIVE KeyInLine(_, _, _)
KeyInLine(w, i, key) == IF i > Len(w) THEN FALSE
                        ELSE LET e == CrlfFrom(Drop(w, i - 1), 1)
                             IN IF e = 0 THEN HasKeyLine(Drop(w, i - 1), key)
                                ELSE HasKeyLine(SubSeq(w, i, i + e - 1), key) \/ KeyInLine(w, i + e, key)
GetAllowed(wire, segs, s, key, env) ==            \* s = Run(Prep(wire), segs, key, env), whose first token was a GET line
    LET w == Take(wire, SumSeq(segs))
        o == Obs(s)
        both(r) == {[r EXCEPT !.waits = TRUE], [r EXCEPT !.waits = FALSE]}
        o400 == [st |-> 400, dl |-> <<>>, rv |-> FALSE, gets |-> <<>>, waits |-> FALSE, wf |-> TRUE]
        o401 == [o400 EXCEPT !.st = 401]
        oget == LET r == RGet(s.gp, env) IN [st |-> r.st, dl |-> <<>>, rv |-> r.rv, gets |-> r.gets, waits |-> FALSE, wf |-> TRUE]
    IN IF PlainGet(w, segs) THEN {o}
       ELSE both(o400) \cup (IF key # "" THEN both(o401) ELSE {})
                       \cup (IF key = "" \/ KeyInLine(w, 1, key) THEN both(oget) ELSE {})
-------------------------------------------------------------------------------
(* What a GET reveals: the state dump carries the slice [offset, offset+limit) of the match list and of the       *)
(* selection (src/terminal.go dumpStatus): empty when the offset lies beyond the list, never an error, whatever    *)
(* the (non-negative) numbers are.  Numbers are capped by the driver at a value far above any list length.         *)
DumpSlice(list, limit, offset) ==
    IF offset >= Len(list) \/ limit <= 0 THEN <<>> ELSE SubSeq(list, offset + 1, Min2(Len(list), offset + limit))
================================================================================
