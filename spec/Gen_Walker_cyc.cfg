CONSTANTS
  Names <- MCNames3
  MaxNodes = 4
  AllowDangling = FALSE
  AllowCycles = TRUE
  CheckSkips = {1}
  FullUpTo = 0
  OnlyCyclic = TRUE
  MinNodes = 4
INIT Init
NEXT Next
INVARIANTS Emit
CHECK_DEADLOCK FALSE
