CONSTANTS
  MaxItems = 3
  ChunkSize = 2
  QueryCacheMax = 1
  MaxEdits = 2
  Queries = {"", "a", "b", "ab"}
  MaxReloads = 1
  TailN = 0
  BumpOnTrim = TRUE
  StalePrevCount = FALSE
  AllowOlder = FALSE
SPECIFICATION Spec
INVARIANTS NeverStale
CHECK_DEADLOCK FALSE
