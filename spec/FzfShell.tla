------------------------------- MODULE FzfShell -------------------------------
(* C12 - command templates: placeholder expansion, shell quoting and the shell's own word lexing.               *)
(*   src/terminal.go    placeholder regex, parsePlaceholder, buildPlusList, replacePlaceholder                    *)
(*   src/util/util_unix.go   Executor.QuoteEntry (POSIX and fish escapers), ExecCommand                           *)
(*   src/proxy.go, src/tmux.go   escapeSingleQuote, re-quoted argv / exported environment of `--tmux`             *)
(* A text is a sequence of SYMBOLS (TLC strings are atomic); a symbol names one byte.  The table is local to this  *)
(* property (harness/overlay/src/zz_verif_shell_test.go holds the same table):                                     *)
(*   SQ '   DQ "   BSL \   DOL $   BT `   SP space   LF newline   STAR *   SEMI ;   AMP &   PIPE |   LP (          *)
(*   LB {   RB }   BANG !   HASH #   TILDE ~   a                    -- the data alphabet (items, queries)          *)
(*   PLUS +  MINUS -  DOT .  COLON :  q n s r f  0..9                -- additionally needed to write placeholders  *)
(* Function-shaped module: no variables.  MC_Shell.tla / MC_ShellExpand.tla hold the state machines that           *)
(* enumerate strings, templates and selection states; Judge_Shell.tla evaluates records of real executions.        *)
EXTENDS Integers, Sequences, FiniteSets, SequencesExt, TLC

DataSyms  == {"SQ", "DQ", "BSL", "DOL", "BT", "SP", "LF", "STAR", "SEMI", "AMP", "PIPE", "LP", "LB", "RB",
              "BANG", "HASH", "TILDE", "a"}
DigitSyms == {"0", "1", "2", "3", "4", "5", "6", "7", "8", "9"}
TemplSyms == {"PLUS", "MINUS", "DOT", "COLON", "q", "n", "s", "r", "f"} \cup DigitSyms
AllSyms   == DataSyms \cup TemplSyms

Cat(seqs) == FlattenSeq(seqs)
RECURSIVE JoinWith(_, _)
JoinWith(seqs, sep) == IF seqs = <<>> THEN <<>>
                       ELSE IF Len(seqs) = 1 THEN seqs[1]
                       ELSE seqs[1] \o sep \o JoinWith(Tail(seqs), sep)

-------------------------------------------------------------------------------
(* 1. Quoting.                                                                                                   *)
(* man fzf: "{} ... is replaced to the single-quoted string of the current line"; "Each expression expands to a  *)
(* quoted string, so that it's safe to pass it as an argument to an external command."                           *)
(* POSIX escaper (util_unix.go): every ' becomes '\'' and the result is wrapped in single quotes.                 *)
EscPosix(s) == Cat([i \in 1..Len(s) |-> IF s[i] = "SQ" THEN <<"SQ", "BSL", "SQ", "SQ">> ELSE <<s[i]>>])
Quote(s) == <<"SQ">> \o EscPosix(s) \o <<"SQ">>
(* fish escaper (util_unix.go, chosen when the last path element of the program that runs the command is "fish",    *)
(* see 1b): inside single quotes                                                                                   *)
(* fish knows exactly two escapes, \' and \\ (fishshell.com/docs/current/language.html#quotes).                   *)
EscFish(s) == Cat([i \in 1..Len(s) |-> IF s[i] = "SQ" THEN <<"BSL", "SQ">>
                                       ELSE IF s[i] = "BSL" THEN <<"BSL", "BSL">> ELSE <<s[i]>>])
QuoteFish(s) == <<"SQ">> \o EscFish(s) \o <<"SQ">>
(* proxy.go escapeSingleQuote: the same POSIX scheme, written independently in the code (strings.ReplaceAll).     *)
EscapeSingleQuote(s) == <<"SQ">> \o Cat([i \in 1..Len(s) |-> IF s[i] = "SQ" THEN <<"SQ", "BSL", "SQ", "SQ">>
                                                             ELSE <<s[i]>>]) \o <<"SQ">>
(* tmux.go: the re-launch command line is every argument re-quoted, joined by blanks; proxy.go: every exported    *)
(* variable is written as  export NAME=<re-quoted value>  (NAME is an identifier: one ordinary word part).         *)
TmuxArgStr(args) == JoinWith([i \in 1..Len(args) |-> EscapeSingleQuote(args[i])], <<"SP">>)
TmuxExportWord(value) == <<"a">> \o EscapeSingleQuote(value)        \* NAME= abstracted to one ordinary character

-------------------------------------------------------------------------------
(* 1b. The executor: which program runs a command, and therefore which of the two quoting styles is used.         *)
(* man fzf, --with-shell=STR: "Shell command and flags to start child processes with. On *nix Systems, the default *)
(* value is $SHELL -c if $SHELL is set, otherwise sh -c."  Two inputs decide: the environment's $SHELL and the     *)
(* --with-shell value.  A PATH is the sequence of its elements (what splitting at "/" gives: "/bin/sh" is          *)
(* <<"", "bin", "sh">>, "sh" is <<"sh">>); elements are atomic strings.  A --with-shell value is the sequence of   *)
(* its blank-separated words (<<>> = option not given), each word a path; $SHELL is [set, path].                   *)
UnsetShell == [set |-> FALSE, path |-> <<>>]
ShellVar(p) == [set |-> TRUE, path |-> p]
EmptyPath == <<"">>                                     \* the empty string
(* the program that will run the command: the first word of --with-shell if given, else $SHELL, else sh           *)
(* CODE-DERIVED: an empty $SHELL counts as not set.                                                                 *)
ExecProgram(env, ws) == IF ws # <<>> THEN ws[1]
                        ELSE IF env.set /\ env.path # EmptyPath THEN env.path ELSE <<"sh">>
ExecFlags(env, ws)   == IF ws # <<>> THEN Tail(ws) ELSE <<<<"-c">>>>
ExecArgv(env, ws)    == <<ExecProgram(env, ws)>> \o ExecFlags(env, ws)      \* the command line is appended as one argument
BaseName(p) == p[Len(p)]
(* the quoting style is that of the program that will run the command - NOT that of $SHELL when --with-shell names *)
(* another program: "fish" (by its last path element) reads the fish style, anything else gets the POSIX style.     *)
QuoteStyle(env, ws) == IF BaseName(ExecProgram(env, ws)) = "fish" THEN "fish" ELSE "posix"
QuoteBy(style, s) == IF style = "fish" THEN QuoteFish(s) ELSE Quote(s)
ExecQuote(env, ws, s) == QuoteBy(QuoteStyle(env, ws), s)                    \* Executor.QuoteEntry
(* the language the running program reads: the POSIX shells the property names, fish, or something this            *)
(* specification has no model of (zsh, ruby -e, ...)                                                               *)
PosixShellNames == {"sh", "bash"}
Evaluator(env, ws) == LET b == BaseName(ExecProgram(env, ws))
                      IN IF b \in PosixShellNames THEN "posix" ELSE IF b = "fish" THEN "fish" ELSE "other"
(* wire / display form of paths and word lists *)
JoinStr(seq, sep) == IF seq = <<>> THEN "" ELSE FoldLeft(LAMBDA acc, x : acc \o sep \o x, seq[1], Tail(seq))
PathStr(p) == JoinStr(p, "/")
WordsStr(ws) == JoinStr([i \in 1..Len(ws) |-> PathStr(ws[i])], " ")

-------------------------------------------------------------------------------
(* 2. The shell: a small-step model of POSIX word lexing (XCU 2.2 Quoting, 2.3 Token Recognition) restricted to   *)
(* single quotes, double quotes, backslash, blanks and newline.  Every other character with a meaning of its own   *)
(* in the given context ($ ` * ; & | ( { } ! # ~ and an unquoted newline) stops the model with HAZARD: the model   *)
(* makes no claim about such input, so  ShEval(x) = OK(words)  means "x is inert: exactly these words".            *)
(* A lexer state: mode U unquoted, S inside '...', D inside "...", UB / DB just after a backslash (unquoted / in   *)
(* double quotes), HAZ; inw = a word is in progress (it may be empty: ''), cur = its text, words = finished words. *)
UnquotedSpecial == {"DOL", "BT", "STAR", "SEMI", "AMP", "PIPE", "LP", "LB", "RB", "BANG", "HASH", "TILDE", "LF"}
DQuoteSpecial   == {"DOL", "BT"}
DQuoteEscapable == {"DOL", "BT", "DQ", "BSL"}

LexInit == [mode |-> "U", inw |-> FALSE, cur |-> <<>>, words |-> <<>>]
Put(st, c)  == [st EXCEPT !.cur = Append(@, c), !.inw = TRUE]
Mode(st, m) == [st EXCEPT !.mode = m]
EndWord(st) == IF st.inw THEN [st EXCEPT !.words = Append(@, st.cur), !.cur = <<>>, !.inw = FALSE] ELSE st

LexStep(st, c) ==
    CASE st.mode \in {"HAZ", "NA"} -> st
      [] st.mode = "S"  -> IF c = "SQ" THEN Mode(st, "U") ELSE Put(st, c)
      [] st.mode = "D"  -> IF c = "DQ" THEN Mode(st, "U")
                           ELSE IF c = "BSL" THEN Mode(st, "DB")
                           ELSE IF c \in DQuoteSpecial THEN Mode(st, "HAZ")
                           ELSE Put(st, c)
      [] st.mode = "DB" -> IF c \in DQuoteEscapable THEN Mode(Put(st, c), "D")
                           ELSE IF c = "LF" THEN Mode(st, "D")                      \* line continuation
                           ELSE Mode(Put(Put(st, "BSL"), c), "D")                   \* the backslash stays
      [] st.mode = "UB" -> IF c = "LF" THEN Mode(st, "U")                           \* line continuation
                           ELSE Mode(Put(st, c), "U")
      [] st.mode = "U"  -> IF c = "SQ" THEN [st EXCEPT !.mode = "S", !.inw = TRUE]
                           ELSE IF c = "DQ" THEN [st EXCEPT !.mode = "D", !.inw = TRUE]
                           ELSE IF c = "BSL" THEN Mode(st, "UB")
                           ELSE IF c = "SP" THEN EndWord(st)
                           ELSE IF c \in UnquotedSpecial THEN Mode(st, "HAZ")
                           ELSE Put(st, c)

LexRun(st, s) == FoldLeft(LexStep, st, s)
Ok(ws) == [status |-> "OK", words |-> ws]
LexDone(st) == CASE st.mode = "U"   -> Ok(EndWord(st).words)
                 [] st.mode = "HAZ" -> [status |-> "HAZARD", words |-> <<>>]
                 [] st.mode = "NA"  -> [status |-> "NA", words |-> <<>>]
                 [] OTHER           -> [status |-> "INCOMPLETE", words |-> <<>>]   \* open quote / trailing backslash
ShEval(s) == LexDone(LexRun(LexInit, s))

(* fish, one single-quoted word only (bound to the code only: there is no fish binary to validate this against)   *)
RECURSIVE FishBody(_)
FishBody(s) == IF s = <<>> THEN <<>>
               ELSE IF Head(s) = "BSL" /\ Len(s) >= 2 /\ s[2] \in {"SQ", "BSL"} THEN <<s[2]>> \o FishBody(Tail(Tail(s)))
               ELSE <<Head(s)>> \o FishBody(Tail(s))
FishEvalQuoted(s) == FishBody(SubSeq(s, 2, Len(s) - 1))
(* a single-quoted fish word ends at the first ' that is not escaped: the quoting must not close early *)
RECURSIVE FishClosesAt(_, _)
FishClosesAt(s, i) == IF i > Len(s) THEN 0
                      ELSE IF s[i] = "SQ" THEN i
                      ELSE IF s[i] = "BSL" /\ i < Len(s) /\ s[i + 1] \in {"SQ", "BSL"} THEN FishClosesAt(s, i + 2)
                      ELSE FishClosesAt(s, i + 1)

-------------------------------------------------------------------------------
(* 3. Field index expressions, default (AWK-style) delimiter only - just enough for {N} / {N..M} / {q:N};          *)
(* the full field semantics belong to C10 (FzfFields).  man fzf, FIELD INDEX EXPRESSION.                            *)
IsBlank(c) == c = "SP"                          \* TAB is not in this alphabet
RECURSIVE PrefixLen(_, _)
PrefixLen(s, blank) == IF s # <<>> /\ IsBlank(Head(s)) = blank THEN 1 + PrefixLen(Tail(s), blank) ELSE 0
DropN(s, k) == SubSeq(s, k + 1, Len(s))
(* tokens = maximal non-blank run plus the blanks after it; leading blanks belong to no token *)
RECURSIVE AwkTokensFrom(_)
AwkTokensFrom(s) == IF s = <<>> THEN <<>>
                    ELSE LET nb == PrefixLen(s, FALSE)
                             bl == PrefixLen(DropN(s, nb), TRUE)
                         IN <<SubSeq(s, 1, nb + bl)>> \o AwkTokensFrom(DropN(s, nb + bl))
AwkTokens(s) == AwkTokensFrom(DropN(s, PrefixLen(s, TRUE)))

IsSpaceSym(c) == c \in {"SP", "LF"}             \* strings.TrimSpace on this alphabet
RECURSIVE TrimL(_), TrimR(_)
TrimL(s) == IF s # <<>> /\ IsSpaceSym(Head(s)) THEN TrimL(Tail(s)) ELSE s
TrimR(s) == IF s # <<>> /\ IsSpaceSym(s[Len(s)]) THEN TrimR(SubSeq(s, 1, Len(s) - 1)) ELSE s
TrimSpace(s) == TrimR(TrimL(s))

(* numbers: optional MINUS, then digits *)
DigitVal(d) == CASE d = "0" -> 0 [] d = "1" -> 1 [] d = "2" -> 2 [] d = "3" -> 3 [] d = "4" -> 4
                 [] d = "5" -> 5 [] d = "6" -> 6 [] d = "7" -> 7 [] d = "8" -> 8 [] d = "9" -> 9
DigitSym(v) == CASE v = 0 -> "0" [] v = 1 -> "1" [] v = 2 -> "2" [] v = 3 -> "3" [] v = 4 -> "4"
                 [] v = 5 -> "5" [] v = 6 -> "6" [] v = 7 -> "7" [] v = 8 -> "8" [] v = 9 -> "9"
RECURSIVE Digits(_)
Digits(v) == IF v < 10 THEN <<DigitSym(v)>> ELSE Append(Digits(v \div 10), DigitSym(v % 10))
AllDigits(x) == x # <<>> /\ \A i \in 1..Len(x) : x[i] \in DigitSyms
IsNum(x) == x # <<>> /\ AllDigits(IF Head(x) = "MINUS" THEN Tail(x) ELSE x)
NatVal(x) == FoldLeft(LAMBDA acc, d : acc * 10 + DigitVal(d), 0, x)
NumVal(x) == IF Head(x) = "MINUS" THEN 0 - NatVal(Tail(x)) ELSE NatVal(x)

(* a range expression: N | N.. | ..N | N..M | ..   ->  [ok, b, e] with 0 for an open end *)
BadRange == [ok |-> FALSE, b |-> 0, e |-> 0]
RECURSIVE DotDotAt(_, _)
DotDotAt(x, i) == IF i >= Len(x) THEN 0 ELSE IF x[i] = "DOT" /\ x[i + 1] = "DOT" THEN i ELSE DotDotAt(x, i + 1)
ParseRange(x) ==
    LET p == DotDotAt(x, 1) IN
    IF p = 0 THEN IF IsNum(x) /\ NumVal(x) # 0 THEN [ok |-> TRUE, b |-> NumVal(x), e |-> NumVal(x)] ELSE BadRange
    ELSE LET l == SubSeq(x, 1, p - 1)
             r == DropN(x, p + 1)
         IN IF l = <<>> /\ r = <<>> THEN [ok |-> TRUE, b |-> 0, e |-> 0]
            ELSE IF l = <<>> THEN IF IsNum(r) /\ NumVal(r) # 0 THEN [ok |-> TRUE, b |-> 0, e |-> NumVal(r)] ELSE BadRange
            ELSE IF r = <<>> THEN IF IsNum(l) /\ NumVal(l) # 0 THEN [ok |-> TRUE, b |-> NumVal(l), e |-> 0] ELSE BadRange
            ELSE IF IsNum(l) /\ IsNum(r) /\ NumVal(l) # 0 /\ NumVal(r) # 0 /\ ~(NumVal(l) < 0 /\ NumVal(r) > 0)
                 THEN [ok |-> TRUE, b |-> NumVal(l), e |-> NumVal(r)] ELSE BadRange

(* the text a range selects from a line: the chosen tokens, concatenated *)
RangeText(line, rng) ==
    LET toks == AwkTokens(line)
        n    == Len(toks)
        Abs(i) == IF i < 0 THEN i + n + 1 ELSE i
        b    == IF rng.b = 0 THEN 1 ELSE Abs(rng.b)
        e    == IF rng.e = 0 THEN n ELSE Abs(rng.e)
        lo   == IF b < 1 THEN 1 ELSE b
        hi   == IF e > n THEN n ELSE e
    IN IF lo > hi THEN <<>> ELSE Cat(SubSeq(toks, lo, hi))
(* "leading and trailing whitespace is stripped from the replacement string. To preserve the whitespace, use the s flag" *)
FieldText(line, rng, preserve) == IF preserve THEN RangeText(line, rng) ELSE TrimSpace(RangeText(line, rng))

-------------------------------------------------------------------------------
(* 4. Templates.  A template is raw text; Scan cuts it into pieces the way the placeholder pattern does:           *)
(* leftmost match, an immediately preceding backslash makes it an escaped placeholder ("you can escape a           *)
(* placeholder pattern by prepending a backslash").  Pattern (terminal.go):                                        *)
(*     \\?(?:{[+sfr]*[0-9,-.]*}|{q(?::s?[0-9,-.]+)?}|{fzf:(?:query|action|prompt)}|{\+?f?nf?})                    *)
(* Not modelled: {fzf:...} and range lists with commas (neither can be written in this alphabet).                   *)
FlagSyms  == {"PLUS", "s", "f", "r"}
RangeSyms == DigitSyms \cup {"MINUS", "DOT"}
AllIn(x, S) == \A i \in 1..Len(x) : x[i] \in S
NumberBodies == {<<"n">>, <<"PLUS", "n">>, <<"f", "n">>, <<"n", "f">>, <<"f", "n", "f">>, <<"PLUS", "f", "n">>,
                 <<"PLUS", "n", "f">>, <<"PLUS", "f", "n", "f">>}
RECURSIVE PrefixIn(_, _)
PrefixIn(x, S) == IF x # <<>> /\ Head(x) \in S THEN 1 + PrefixIn(Tail(x), S) ELSE 0
IsPlaceholderBody(b) ==
    \/ AllIn(DropN(b, PrefixIn(b, FlagSyms)), RangeSyms)                             \* {FLAGS RANGE}, both may be empty
    \/ b = <<"q">>
    \/ /\ Len(b) >= 3 /\ b[1] = "q" /\ b[2] = "COLON"
       /\ LET rest == IF b[3] = "s" THEN DropN(b, 3) ELSE DropN(b, 2) IN rest # <<>> /\ AllIn(rest, RangeSyms)
    \/ b \in NumberBodies

RECURSIVE IndexFrom(_, _, _)
IndexFrom(t, i, c) == IF i > Len(t) THEN 0 ELSE IF t[i] = c THEN i ELSE IndexFrom(t, i + 1, c)
(* end position of a placeholder starting at i (t[i] = LB), or 0 *)
PlaceholderEnd(t, i) == IF i > Len(t) \/ t[i] # "LB" THEN 0
                        ELSE LET j == IndexFrom(t, i + 1, "RB")
                             IN IF j # 0 /\ IsPlaceholderBody(SubSeq(t, i + 1, j - 1)) THEN j ELSE 0

(* parsePlaceholder: flag letters are collected wherever they stand in the body; what is left decides the type *)
FlagLetters == {"PLUS", "s", "n", "f", "r"}
ParseBody(b) ==
    LET trimmed == SelectSeq(b, LAMBDA c : c \notin FlagLetters)
        has(c)  == \E i \in 1..Len(b) : b[i] = c
        kind    == IF trimmed = <<>> THEN "item"
                   ELSE IF trimmed = <<"q">> THEN "query"
                   ELSE IF trimmed[1] = "q" THEN "qfield" ELSE "field"
        rtxt    == IF kind = "qfield" THEN DropN(trimmed, 2) ELSE IF kind = "field" THEN trimmed ELSE <<>>
        rng     == IF kind \in {"field", "qfield"} THEN ParseRange(rtxt) ELSE BadRange
    IN [kind |-> IF kind \in {"field", "qfield"} /\ ~rng.ok THEN "bad" ELSE kind,
        plus |-> has("PLUS"), preserve |-> has("s"), number |-> has("n"), file |-> has("f"), raw |-> has("r"),
        isq |-> has("q"), rng |-> rng, stripped |-> <<"LB">> \o trimmed \o <<"RB">>]

(* pieces: [type "lit", text]  |  [type "esc", text = the placeholder without its backslash]  |  [type "ph", ph]   *)
(* CODE-DERIVED: a field placeholder whose range does not parse (kind "bad") is put back as text, without its flag  *)
(* letters - but it still counts as a placeholder, flags included, when buildPlusList looks at the template.         *)
RECURSIVE ScanFrom(_, _)
ScanFrom(t, i) ==
    IF i > Len(t) THEN <<>>
    ELSE IF t[i] = "BSL" /\ PlaceholderEnd(t, i + 1) # 0
         THEN <<[type |-> "esc", text |-> SubSeq(t, i + 1, PlaceholderEnd(t, i + 1))]>> \o ScanFrom(t, PlaceholderEnd(t, i + 1) + 1)
    ELSE IF PlaceholderEnd(t, i) # 0
         THEN LET j == PlaceholderEnd(t, i)
              IN <<[type |-> "ph", ph |-> ParseBody(SubSeq(t, i + 1, j - 1))]>> \o ScanFrom(t, j + 1)
    ELSE <<[type |-> "lit", text |-> <<t[i]>>]>> \o ScanFrom(t, i + 1)
Scan(t) == ScanFrom(t, 1)
(* a scanned template: its pieces and what buildPlusList wants to know about it (hasPreviewFlags) *)
TInfo(t) == LET ps  == Scan(t)
                phs == SelectSeq(ps, LAMBDA p : p.type = "ph")
            IN [ps |-> ps, slot |-> phs # <<>>,
                plus  |-> \E i \in 1..Len(phs) : phs[i].ph.plus,
                query |-> \E i \in 1..Len(phs) : phs[i].ph.isq,
                file  |-> \E i \in 1..Len(phs) : phs[i].ph.file]

-------------------------------------------------------------------------------
(* 5. What the placeholders stand for.  A terminal state (the part that matters here):                             *)
(*   items  sequence of [text, idx]   the lines on the list; idx = zero-based ordinal of the line in the input      *)
(*   cur    0 (no line: the list is empty) or the position of the current line                                      *)
(*   sel    positions of the selected lines, in the order they were selected                                        *)
(*   query  the query string          fp  the action forces {+} semantics for every placeholder (execute-multi)     *)
(* Operators ending in I take a scanned template (TInfo).                                                           *)
NoLine == [text |-> <<>>, idx |-> -1]           \* CODE-DERIVED: stands in for the current line when there is none
(* buildPlusList.  Documented part: {} is the current line, {+} the selected lines or the current line if nothing   *)
(* is selected; a template without item placeholders, or with {q}, is evaluated even without a current line.        *)
(* CODE-DERIVED: in that case the missing line is an empty text whose {n} is ''.                                    *)
SpecialI(ti, st) == ~ti.slot \/ ti.query \/ ((st.fp \/ ti.plus) /\ st.sel # <<>>)
ValidI(ti, st)   == st.cur # 0 \/ SpecialI(ti, st)
CurList(ti, st)  == IF st.cur # 0 THEN <<st.items[st.cur]>> ELSE IF SpecialI(ti, st) THEN <<NoLine>> ELSE <<>>
PlusList(ti, st) == IF st.sel # <<>> THEN [i \in 1..Len(st.sel) |-> st.items[st.sel[i]]] ELSE CurList(ti, st)
LinesFor(p, ti, st) == IF p.plus \/ st.fp THEN PlusList(ti, st) ELSE CurList(ti, st)

(* the original texts a placeholder denotes: one per line ({q}: exactly one, the query) *)
LineMeaning(p, line) == IF p.kind = "item"
                        THEN IF p.number THEN (IF line.idx < 0 THEN <<>> ELSE Digits(line.idx)) ELSE line.text
                        ELSE FieldText(line.text, p.rng, p.preserve)
Meaning(p, ti, st) == CASE p.kind = "query"  -> <<st.query>>
                        [] p.kind = "qfield" -> <<FieldText(st.query, p.rng, p.preserve)>>
                        [] OTHER -> LET ls == LinesFor(p, ti, st) IN [i \in 1..Len(ls) |-> LineMeaning(p, ls[i])]
(* how one original text is written into the command line *)
Written(p, x, q(_)) == IF p.kind \in {"query", "qfield"} THEN q(x)
                       ELSE IF p.kind = "item" /\ p.number THEN (IF x = <<>> THEN <<"SQ", "SQ">> ELSE x)   \* the ordinal, bare
                       ELSE IF p.raw \/ p.file THEN x            \* {r}: documented as unquoted; {f} is out of scope
                       ELSE q(x)
ExpandPiece(pc, ti, st, q(_)) ==
    IF pc.type # "ph" THEN pc.text
    ELSE IF pc.ph.kind = "bad" THEN pc.ph.stripped
    ELSE LET m == Meaning(pc.ph, ti, st) IN JoinWith([i \in 1..Len(m) |-> Written(pc.ph, m[i], q)], <<"SP">>)
ExpandI(ti, st, q(_)) == Cat([i \in 1..Len(ti.ps) |-> ExpandPiece(ti.ps[i], ti, st, q)])
Valid(t, st)      == ValidI(TInfo(t), st)
Expand(t, st)     == ExpandI(TInfo(t), st, Quote)          \* the executor's style is POSIX (section 1b)
ExpandFish(t, st) == ExpandI(TInfo(t), st, QuoteFish)      \* the executor's style is fish

-------------------------------------------------------------------------------
(* 6. The property.  Reading the command line the way the shell does, a placeholder that stands in unquoted        *)
(* position contributes exactly its original texts: the first continues the word in progress, every further one     *)
(* is a word of its own; nothing else changes.  Want(t, st) is that reading.  It is not defined (NA) when the        *)
(* template author put a placeholder inside quotes ("you should not manually add quotes around the curly braces")    *)
(* or asked for raw text ({r}, "use it with caution"), and HAZARD/INCOMPLETE when the template's own text is          *)
(* outside the shell model.                                                                                          *)
AddWords(ls, m) == FoldLeft(LAMBDA s, x : [EndWord(s) EXCEPT !.cur = x, !.inw = TRUE],
                            [ls EXCEPT !.cur = ls.cur \o m[1], !.inw = TRUE], Tail(m))
WantStep(ti, st, ls, pc) ==
    IF ls.mode \in {"HAZ", "NA"} THEN ls
    ELSE IF pc.type # "ph" THEN LexRun(ls, pc.text)
    ELSE IF pc.ph.kind = "bad" THEN LexRun(ls, pc.ph.stripped)
    ELSE IF ls.mode # "U" \/ ((pc.ph.raw \/ pc.ph.file) /\ pc.ph.kind \in {"item", "field"} /\ ~pc.ph.number)
         THEN Mode(ls, "NA")
    ELSE LET m == Meaning(pc.ph, ti, st) IN IF m = <<>> THEN ls ELSE AddWords(ls, m)
WantI(ti, st) == LexDone(FoldLeft(LAMBDA ls, pc : WantStep(ti, st, ls, pc), LexInit, ti.ps))
Want(t, st) == WantI(TInfo(t), st)

(* C12, expansion level *)
ExpansionReadsBackI(ti, st) == LET w == WantI(ti, st) IN w.status = "OK" => ShEval(ExpandI(ti, st, Quote)) = w
ExpansionReadsBack(t, st) == ExpansionReadsBackI(TInfo(t), st)
(* escaped placeholders are left literal: a template without live placeholders expands to itself minus the         *)
(* escaping backslashes, whatever the state *)
UnescapedI(ti) == Cat([i \in 1..Len(ti.ps) |-> ti.ps[i].text])
EscapedStayLiteralI(ti, st) == ~ti.slot => ExpandI(ti, st, Quote) = UnescapedI(ti)
EscapedStayLiteral(t, st) == EscapedStayLiteralI(TInfo(t), st)
(* C12, quoting level: a quoted text is one inert word part in any unquoted context *)
QuoteReadsBack(s) == ShEval(Quote(s)) = Ok(<<s>>)
QuoteInsideWord(s) == ShEval(<<"a">> \o Quote(s) \o <<"a">>) = Ok(<<<<"a">> \o s \o <<"a">>>>)
EscapeReadsBack(s) == ShEval(EscapeSingleQuote(s)) = Ok(<<s>>)
FishReadsBack(s) == /\ FishEvalQuoted(QuoteFish(s)) = s
                    /\ FishClosesAt(QuoteFish(s), 2) = Len(QuoteFish(s))
(* C12, executor level: the round trip is a statement about a PAIR (quoting style, program that evaluates).        *)
(*   POSIX style read by sh / bash: the documented claim, validated against the real shells.                        *)
(*   fish style read by fish: CODE-DERIVED model of fish's single quotes (no fish binary here), bound to the code.    *)
(*   any style read by a program without a model here: no claim.                                                     *)
(* The crossed pairs do NOT round-trip (CrossedStylesBreak: ' in fish style ends a POSIX word early, \\ in POSIX    *)
(* style collapses in fish) - which is why the style has to follow the program and not $SHELL.                       *)
ReadsBackBy(style, ev, s) ==
    LET q == QuoteBy(style, s)
    IN CASE ev = "posix" -> ShEval(q) = Ok(<<s>>)
         [] ev = "fish"  -> FishEvalQuoted(q) = s /\ FishClosesAt(q, 2) = Len(q)
         [] OTHER        -> TRUE
ExecutorReadsBack(env, ws, s) == ReadsBackBy(QuoteStyle(env, ws), Evaluator(env, ws), s)
CrossedStylesBreak == /\ ~ReadsBackBy("fish", "posix", <<"SQ">>)
                      /\ ~ReadsBackBy("fish", "posix", <<"a", "BSL", "a">>)
                      /\ ~ReadsBackBy("posix", "fish", <<"BSL", "BSL">>)
(* expansion of a template by a given executor *)
ExpandByI(ti, st, env, ws) == IF QuoteStyle(env, ws) = "fish" THEN ExpandI(ti, st, QuoteFish) ELSE ExpandI(ti, st, Quote)
TmuxReadsBack(args) == ShEval(TmuxArgStr(args)) = Ok(args)
TmuxExportReadsBack(v) == ShEval(TmuxExportWord(v)) = Ok(<<<<"a">> \o v>>)

-------------------------------------------------------------------------------
(* wire encoding for cases handed to the Go harness: one ASCII character per symbol *)
Code(c) == CASE c = "SQ" -> "Q" [] c = "DQ" -> "D" [] c = "BSL" -> "B" [] c = "DOL" -> "S" [] c = "BT" -> "T"
             [] c = "SP" -> "_" [] c = "LF" -> "N" [] c = "STAR" -> "X" [] c = "SEMI" -> "C" [] c = "AMP" -> "A"
             [] c = "PIPE" -> "P" [] c = "LP" -> "L" [] c = "LB" -> "O" [] c = "RB" -> "E" [] c = "BANG" -> "G"
             [] c = "HASH" -> "H" [] c = "TILDE" -> "W" [] c = "PLUS" -> "+" [] c = "MINUS" -> "-"
             [] c = "DOT" -> "." [] c = "COLON" -> ":" [] OTHER -> c      \* letters and digits stand for themselves
Enc(s) == FoldLeft(LAMBDA acc, c : acc \o Code(c), "", s)
EncAll(ws) == [i \in 1..Len(ws) |-> Enc(ws[i])]
================================================================================
