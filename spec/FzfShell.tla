------------------------------- MODULE FzfShell -------------------------------
(* C12 - command templates: placeholder expansion, shell quoting and the shell's own word lexing.               *)
(*   src/terminal.go    placeholder regex, parsePlaceholder, buildPlusList, replacePlaceholder                    *)
(*   src/util/util_unix.go   Executor.QuoteEntry (POSIX and fish escapers), ExecCommand                           *)
(*   src/proxy.go, src/tmux.go   escapeSingleQuote, re-quoted argv / exported environment of `--tmux`             *)
(* A text is a sequence of SYMBOLS (TLC strings are atomic); a symbol names one byte.  The table is local to this  *)
(* property (harness/overlay/src/zz_verif_shell_test.go holds the same table):                                     *)
(*   SQ '   DQ "   BSL \   DOL $   BT `   SP space   LF newline   STAR *   SEMI ;   AMP &   PIPE |   LP (          *)
(*   LB {   RB }   BANG !   HASH #   TILDE ~   a                    -- the data alphabet (items, queries)          *)
(*   PLUS +  MINUS -  DOT .  COLON :  q n s r f  0..9                -- additionally needed to write placeholders  *)
(*   US _   EQ =   e x p o t                                        -- environment entries, the word `export`      *)
(*   NUL (the byte 0: print separator of --print0)   FILE (the path of one temporary file, see section 5)          *)
(* Function-shaped module: no variables.  MC_Shell.tla / MC_ShellExpand.tla hold the state machines that           *)
(* enumerate strings, templates and selection states; Judge_Shell.tla evaluates records of real executions.        *)
EXTENDS Integers, Sequences, FiniteSets, SequencesExt, TLC

DataSyms  == {"SQ", "DQ", "BSL", "DOL", "BT", "SP", "LF", "STAR", "SEMI", "AMP", "PIPE", "LP", "LB", "RB",
              "BANG", "HASH", "TILDE", "a"}
DigitSyms == {"0", "1", "2", "3", "4", "5", "6", "7", "8", "9"}
TemplSyms == {"PLUS", "MINUS", "DOT", "COLON", "q", "n", "s", "r", "f"} \cup DigitSyms
EnvSyms   == {"US", "EQ", "e", "x", "p", "o", "t"}
FileSyms  == {"NUL", "FILE"}
AllSyms   == DataSyms \cup TemplSyms \cup EnvSyms \cup FileSyms

Cat(seqs) == FlattenSeq(seqs)
RECURSIVE JoinWith(_, _)
JoinWith(seqs, sep) == IF seqs = <<>> THEN <<>>
                       ELSE IF Len(seqs) = 1 THEN seqs[1]
                       ELSE seqs[1] \o sep \o JoinWith(Tail(seqs), sep)

-------------------------------------------------------------------------------
(* 1. Quoting.                                                                                                   *)
(* man fzf: "{} ... is replaced to the single-quoted string of the current line"; "Each expression expands to a  *)
(* quoted string, so that it's safe to pass it as an argument to an external command."                           *)
(* POSIX escaper (util_unix.go): every ' becomes '\'' and the result is wrapped in single quotes.                 *)
EscPosix(s) == Cat([i \in 1..Len(s) |-> IF s[i] = "SQ" THEN <<"SQ", "BSL", "SQ", "SQ">> ELSE <<s[i]>>])
Quote(s) == <<"SQ">> \o EscPosix(s) \o <<"SQ">>
(* fish escaper (util_unix.go, chosen when the last path element of the program that runs the command is "fish",    *)
(* see 1b): inside single quotes                                                                                   *)
(* fish knows exactly two escapes, \' and \\ (fishshell.com/docs/current/language.html#quotes).                   *)
EscFish(s) == Cat([i \in 1..Len(s) |-> IF s[i] = "SQ" THEN <<"BSL", "SQ">>
                                       ELSE IF s[i] = "BSL" THEN <<"BSL", "BSL">> ELSE <<s[i]>>])
QuoteFish(s) == <<"SQ">> \o EscFish(s) \o <<"SQ">>
(* proxy.go escapeSingleQuote: the same POSIX scheme, written independently in the code (strings.ReplaceAll).     *)
EscapeSingleQuote(s) == <<"SQ">> \o Cat([i \in 1..Len(s) |-> IF s[i] = "SQ" THEN <<"SQ", "BSL", "SQ", "SQ">>
                                                             ELSE <<s[i]>>]) \o <<"SQ">>
(* tmux.go: the re-launch command line is every argument re-quoted, joined by blanks; proxy.go: every exported    *)
(* variable is written as  export NAME=<re-quoted value>  (NAME is an identifier: one ordinary word part).         *)
TmuxArgStr(args) == JoinWith([i \in 1..Len(args) |-> EscapeSingleQuote(args[i])], <<"SP">>)
TmuxExportWord(value) == <<"a">> \o EscapeSingleQuote(value)        \* NAME= abstracted to one ordinary character

-------------------------------------------------------------------------------
(* 1b. The executor: which program runs a command, and therefore which of the two quoting styles is used.         *)
(* man fzf, --with-shell=STR: "Shell command and flags to start child processes with. On *nix Systems, the default *)
(* value is $SHELL -c if $SHELL is set, otherwise sh -c."  Two inputs decide: the environment's $SHELL and the     *)
(* --with-shell value.  A PATH is the sequence of its elements (what splitting at "/" gives: "/bin/sh" is          *)
(* <<"", "bin", "sh">>, "sh" is <<"sh">>); elements are atomic strings.  A --with-shell value is the sequence of   *)
(* its blank-separated words (<<>> = option not given), each word a path; $SHELL is [set, path].                   *)
UnsetShell == [set |-> FALSE, path |-> <<>>]
ShellVar(p) == [set |-> TRUE, path |-> p]
EmptyPath == <<"">>                                     \* the empty string
(* the program that will run the command: the first word of --with-shell if given, else $SHELL, else sh           *)
(* CODE-DERIVED: an empty $SHELL counts as not set.                                                                 *)
ExecProgram(env, ws) == IF ws # <<>> THEN ws[1]
                        ELSE IF env.set /\ env.path # EmptyPath THEN env.path ELSE <<"sh">>
ExecFlags(env, ws)   == IF ws # <<>> THEN Tail(ws) ELSE <<<<"-c">>>>
ExecArgv(env, ws)    == <<ExecProgram(env, ws)>> \o ExecFlags(env, ws)      \* the command line is appended as one argument
BaseName(p) == p[Len(p)]
(* the quoting style is that of the program that will run the command - NOT that of $SHELL when --with-shell names *)
(* another program: "fish" (by its last path element) reads the fish style, anything else gets the POSIX style.     *)
QuoteStyle(env, ws) == IF BaseName(ExecProgram(env, ws)) = "fish" THEN "fish" ELSE "posix"
QuoteBy(style, s) == IF style = "fish" THEN QuoteFish(s) ELSE Quote(s)
ExecQuote(env, ws, s) == QuoteBy(QuoteStyle(env, ws), s)                    \* Executor.QuoteEntry
(* the language the running program reads: the POSIX shells the property names, fish, or something this            *)
(* specification has no model of (zsh, ruby -e, ...)                                                               *)
PosixShellNames == {"sh", "bash"}
Evaluator(env, ws) == LET b == BaseName(ExecProgram(env, ws))
                      IN IF b \in PosixShellNames THEN "posix" ELSE IF b = "fish" THEN "fish" ELSE "other"
(* wire / display form of paths and word lists *)
JoinStr(seq, sep) == IF seq = <<>> THEN "" ELSE FoldLeft(LAMBDA acc, x : acc \o sep \o x, seq[1], Tail(seq))
PathStr(p) == JoinStr(p, "/")
WordsStr(ws) == JoinStr([i \in 1..Len(ws) |-> PathStr(ws[i])], " ")

-------------------------------------------------------------------------------
(* 2. The shell: a small-step model of POSIX word lexing (XCU 2.2 Quoting, 2.3 Token Recognition) restricted to   *)
(* single quotes, double quotes, backslash, blanks and newline.  Every other character with a meaning of its own   *)
(* in the given context ($ ` * ; & | ( { } ! # ~ and an unquoted newline) stops the model with HAZARD: the model   *)
(* makes no claim about such input, so  ShEval(x) = OK(words)  means "x is inert: exactly these words".            *)
(* A lexer state: mode U unquoted, S inside '...', D inside "...", UB / DB just after a backslash (unquoted / in   *)
(* double quotes), HAZ; inw = a word is in progress (it may be empty: ''), cur = its text, words = finished words. *)
UnquotedSpecial == {"DOL", "BT", "STAR", "SEMI", "AMP", "PIPE", "LP", "LB", "RB", "BANG", "HASH", "TILDE", "LF"}
DQuoteSpecial   == {"DOL", "BT"}
DQuoteEscapable == {"DOL", "BT", "DQ", "BSL"}

LexInit == [mode |-> "U", inw |-> FALSE, cur |-> <<>>, words |-> <<>>]
Put(st, c)  == [st EXCEPT !.cur = Append(@, c), !.inw = TRUE]
Mode(st, m) == [st EXCEPT !.mode = m]
EndWord(st) == IF st.inw THEN [st EXCEPT !.words = Append(@, st.cur), !.cur = <<>>, !.inw = FALSE] ELSE st

LexStep(st, c) ==
    CASE st.mode \in {"HAZ", "NA"} -> st
      [] st.mode = "S"  -> IF c = "SQ" THEN Mode(st, "U") ELSE Put(st, c)
      [] st.mode = "D"  -> IF c = "DQ" THEN Mode(st, "U")
                           ELSE IF c = "BSL" THEN Mode(st, "DB")
                           ELSE IF c \in DQuoteSpecial THEN Mode(st, "HAZ")
                           ELSE Put(st, c)
      [] st.mode = "DB" -> IF c \in DQuoteEscapable THEN Mode(Put(st, c), "D")
                           ELSE IF c = "LF" THEN Mode(st, "D")                      \* line continuation
                           ELSE Mode(Put(Put(st, "BSL"), c), "D")                   \* the backslash stays
      [] st.mode = "UB" -> IF c = "LF" THEN Mode(st, "U")                           \* line continuation
                           ELSE Mode(Put(st, c), "U")
      [] st.mode = "U"  -> IF c = "SQ" THEN [st EXCEPT !.mode = "S", !.inw = TRUE]
                           ELSE IF c = "DQ" THEN [st EXCEPT !.mode = "D", !.inw = TRUE]
                           ELSE IF c = "BSL" THEN Mode(st, "UB")
                           ELSE IF c = "SP" THEN EndWord(st)
                           ELSE IF c \in UnquotedSpecial THEN Mode(st, "HAZ")
                           ELSE Put(st, c)

LexRun(st, s) == FoldLeft(LexStep, st, s)
Ok(ws) == [status |-> "OK", words |-> ws]
LexDone(st) == CASE st.mode = "U"   -> Ok(EndWord(st).words)
                 [] st.mode = "HAZ" -> [status |-> "HAZARD", words |-> <<>>]
                 [] st.mode = "NA"  -> [status |-> "NA", words |-> <<>>]
                 [] OTHER           -> [status |-> "INCOMPLETE", words |-> <<>>]   \* open quote / trailing backslash
ShEval(s) == LexDone(LexRun(LexInit, s))

(* fish, one single-quoted word only (bound to the code only: there is no fish binary to validate this against)   *)
RECURSIVE FishBody(_)
FishBody(s) == IF s = <<>> THEN <<>>
               ELSE IF Head(s) = "BSL" /\ Len(s) >= 2 /\ s[2] \in {"SQ", "BSL"} THEN <<s[2]>> \o FishBody(Tail(Tail(s)))
               ELSE <<Head(s)>> \o FishBody(Tail(s))
FishEvalQuoted(s) == FishBody(SubSeq(s, 2, Len(s) - 1))
(* a single-quoted fish word ends at the first ' that is not escaped: the quoting must not close early *)
RECURSIVE FishClosesAt(_, _)
FishClosesAt(s, i) == IF i > Len(s) THEN 0
                      ELSE IF s[i] = "SQ" THEN i
                      ELSE IF s[i] = "BSL" /\ i < Len(s) /\ s[i + 1] \in {"SQ", "BSL"} THEN FishClosesAt(s, i + 2)
                      ELSE FishClosesAt(s, i + 1)

-------------------------------------------------------------------------------
(* 3. Field index expressions, default (AWK-style) delimiter only - just enough for {N} / {N..M} / {q:N};          *)
(* the full field semantics belong to C10 (FzfFields).  man fzf, FIELD INDEX EXPRESSION.                            *)
IsBlank(c) == c = "SP"                          \* TAB is not in this alphabet
RECURSIVE PrefixLen(_, _)
PrefixLen(s, blank) == IF s # <<>> /\ IsBlank(Head(s)) = blank THEN 1 + PrefixLen(Tail(s), blank) ELSE 0
DropN(s, k) == SubSeq(s, k + 1, Len(s))
(* tokens = maximal non-blank run plus the blanks after it; leading blanks belong to no token *)
RECURSIVE AwkTokensFrom(_)
AwkTokensFrom(s) == IF s = <<>> THEN <<>>
                    ELSE LET nb == PrefixLen(s, FALSE)
                             bl == PrefixLen(DropN(s, nb), TRUE)
                         IN <<SubSeq(s, 1, nb + bl)>> \o AwkTokensFrom(DropN(s, nb + bl))
AwkTokens(s) == AwkTokensFrom(DropN(s, PrefixLen(s, TRUE)))

IsSpaceSym(c) == c \in {"SP", "LF"}             \* strings.TrimSpace on this alphabet
RECURSIVE TrimL(_), TrimR(_)
TrimL(s) == IF s # <<>> /\ IsSpaceSym(Head(s)) THEN TrimL(Tail(s)) ELSE s
TrimR(s) == IF s # <<>> /\ IsSpaceSym(s[Len(s)]) THEN TrimR(SubSeq(s, 1, Len(s) - 1)) ELSE s
TrimSpace(s) == TrimR(TrimL(s))

(* numbers: optional MINUS, then digits *)
DigitVal(d) == CASE d = "0" -> 0 [] d = "1" -> 1 [] d = "2" -> 2 [] d = "3" -> 3 [] d = "4" -> 4
                 [] d = "5" -> 5 [] d = "6" -> 6 [] d = "7" -> 7 [] d = "8" -> 8 [] d = "9" -> 9
DigitSym(v) == CASE v = 0 -> "0" [] v = 1 -> "1" [] v = 2 -> "2" [] v = 3 -> "3" [] v = 4 -> "4"
                 [] v = 5 -> "5" [] v = 6 -> "6" [] v = 7 -> "7" [] v = 8 -> "8" [] v = 9 -> "9"
RECURSIVE Digits(_)
Digits(v) == IF v < 10 THEN <<DigitSym(v)>> ELSE Append(Digits(v \div 10), DigitSym(v % 10))
AllDigits(x) == x # <<>> /\ \A i \in 1..Len(x) : x[i] \in DigitSyms
IsNum(x) == x # <<>> /\ AllDigits(IF Head(x) = "MINUS" THEN Tail(x) ELSE x)
NatVal(x) == FoldLeft(LAMBDA acc, d : acc * 10 + DigitVal(d), 0, x)
NumVal(x) == IF Head(x) = "MINUS" THEN 0 - NatVal(Tail(x)) ELSE NatVal(x)

(* a range expression: N | N.. | ..N | N..M | ..   ->  [ok, b, e] with 0 for an open end *)
BadRange == [ok |-> FALSE, b |-> 0, e |-> 0]
RECURSIVE DotDotAt(_, _)
DotDotAt(x, i) == IF i >= Len(x) THEN 0 ELSE IF x[i] = "DOT" /\ x[i + 1] = "DOT" THEN i ELSE DotDotAt(x, i + 1)
ParseRange(x) ==
    LET p == DotDotAt(x, 1) IN
    IF p = 0 THEN IF IsNum(x) /\ NumVal(x) # 0 THEN [ok |-> TRUE, b |-> NumVal(x), e |-> NumVal(x)] ELSE BadRange
    ELSE LET l == SubSeq(x, 1, p - 1)
             r == DropN(x, p + 1)
         IN IF l = <<>> /\ r = <<>> THEN [ok |-> TRUE, b |-> 0, e |-> 0]
            ELSE IF l = <<>> THEN IF IsNum(r) /\ NumVal(r) # 0 THEN [ok |-> TRUE, b |-> 0, e |-> NumVal(r)] ELSE BadRange
            ELSE IF r = <<>> THEN IF IsNum(l) /\ NumVal(l) # 0 THEN [ok |-> TRUE, b |-> NumVal(l), e |-> 0] ELSE BadRange
            ELSE IF IsNum(l) /\ IsNum(r) /\ NumVal(l) # 0 /\ NumVal(r) # 0 /\ ~(NumVal(l) < 0 /\ NumVal(r) > 0)
                 THEN [ok |-> TRUE, b |-> NumVal(l), e |-> NumVal(r)] ELSE BadRange

(* 3b. --delimiter.  The fields of an ITEM are cut with the item delimiter (man fzf, -d / --delimiter: "Field      *)
(* delimiter regex for --nth, --with-nth, and field index expressions (default: AWK-style)").  The words of the     *)
(* QUERY are not fields of an item: {q:N} always means the N-th blank-separated word of the query ("{q} can         *)
(* contain field index expressions"; CHANGELOG 0.59: "rg_pat={q:1}  # The first word is passed to ripgrep,           *)
(* fzf_pat={q:2..}  # The rest are passed to fzf"), whatever --delimiter says.  Both live in this one model, so a    *)
(* template that mixes {2} and {q:2} under a non-default delimiter has one meaning.                                  *)
(* A delimiter: [kind, pat] - "awk" (default), "str" (pat = the literal string), "cls" (a regular expression that    *)
(* is one bracket expression over the symbols of pat, e.g. [:;]).  The full menu of regular expressions and the      *)
(* non-ASCII delimiters belong to C10 (FzfFields); these three kinds are the three code paths of Tokenize.           *)
AwkDelim    == [kind |-> "awk", pat |-> <<>>]
StrDelim(p) == [kind |-> "str", pat |-> p]
ClsDelim(p) == [kind |-> "cls", pat |-> p]
HasAt(s, i, p) == /\ i >= 1 /\ i + Len(p) - 1 <= Len(s)
                  /\ \A k \in 1..Len(p) : s[i + k - 1] = p[k]
(* length of the delimiter occurrence that starts at position i; 0 = none there *)
DelimLenAt(d, s, i) == IF d.kind = "str" THEN (IF HasAt(s, i, d.pat) THEN Len(d.pat) ELSE 0)
                       ELSE IF \E k \in 1..Len(d.pat) : s[i] = d.pat[k] THEN 1 ELSE 0
(* DOCUMENTED: the line is cut after every delimiter occurrence, fields keep their trailing delimiter.               *)
(* CODE-DERIVED: a literal delimiter at the very end of the line is followed by one more, empty, field               *)
(* (strings.SplitAfter), a regex delimiter is not; the empty line has one empty field under a literal delimiter.     *)
RECURSIVE Cut(_, _, _, _)
Cut(d, s, i, b) ==       \* b = start of the field being scanned, i = scan position
    IF i > Len(s) THEN (IF b <= Len(s) \/ d.kind = "str" THEN <<SubSeq(s, b, Len(s))>> ELSE <<>>)
    ELSE LET n == DelimLenAt(d, s, i) IN
         IF n > 0 THEN <<SubSeq(s, b, i + n - 1)>> \o Cut(d, s, i + n, i + n)
         ELSE Cut(d, s, i + 1, b)
FieldTokens(s, d) == IF d.kind = "awk" THEN AwkTokens(s) ELSE Cut(d, s, 1, 1)
(* "the trailing delimiter is stripped" from what a field index expression selects: one occurrence, at the very end  *)
StripDelim(s, d) ==
    IF d.kind = "str" THEN (IF Len(s) >= Len(d.pat) /\ HasAt(s, Len(s) - Len(d.pat) + 1, d.pat)
                            THEN SubSeq(s, 1, Len(s) - Len(d.pat)) ELSE s)
    ELSE IF d.kind = "cls" THEN (IF s # <<>> /\ DelimLenAt(d, s, Len(s)) = 1 THEN SubSeq(s, 1, Len(s) - 1) ELSE s)
    ELSE s

(* the text a range selects from a line: the chosen tokens, concatenated *)
RangeTextD(line, rng, d) ==
    LET toks == FieldTokens(line, d)
        n    == Len(toks)
        Abs(i) == IF i < 0 THEN i + n + 1 ELSE i
        b    == IF rng.b = 0 THEN 1 ELSE Abs(rng.b)
        e    == IF rng.e = 0 THEN n ELSE Abs(rng.e)
        lo   == IF b < 1 THEN 1 ELSE b
        hi   == IF e > n THEN n ELSE e
    IN IF lo > hi THEN <<>> ELSE Cat(SubSeq(toks, lo, hi))
RangeText(line, rng) == RangeTextD(line, rng, AwkDelim)
(* "leading and trailing whitespace is stripped from the replacement string. To preserve the whitespace, use the s flag" *)
(* words of the query: AWK style, always *)
FieldText(line, rng, preserve) == IF preserve THEN RangeText(line, rng) ELSE TrimSpace(RangeText(line, rng))
(* fields of an item: the item delimiter; CODE-DERIVED order: the trailing delimiter goes first, then the white space *)
ItemFieldText(line, rng, preserve, d) ==
    LET x == StripDelim(RangeTextD(line, rng, d), d) IN IF preserve THEN x ELSE TrimSpace(x)
(* the two agree where they must: without --delimiter {N} of a line is what {q:N} of the same text is *)
AwkFieldsAgree(line, rng, preserve) == ItemFieldText(line, rng, preserve, AwkDelim) = FieldText(line, rng, preserve)

-------------------------------------------------------------------------------
(* 4. Templates.  A template is raw text; Scan cuts it into pieces the way the placeholder pattern does:           *)
(* leftmost match, an immediately preceding backslash makes it an escaped placeholder ("you can escape a           *)
(* placeholder pattern by prepending a backslash").  Pattern (terminal.go):                                        *)
(*     \\?(?:{[+sfr]*[0-9,-.]*}|{q(?::s?[0-9,-.]+)?}|{fzf:(?:query|action|prompt)}|{\+?f?nf?})                    *)
(* Not modelled: {fzf:...} and range lists with commas (neither can be written in this alphabet).                   *)
FlagSyms  == {"PLUS", "s", "f", "r"}
RangeSyms == DigitSyms \cup {"MINUS", "DOT"}
AllIn(x, S) == \A i \in 1..Len(x) : x[i] \in S
NumberBodies == {<<"n">>, <<"PLUS", "n">>, <<"f", "n">>, <<"n", "f">>, <<"f", "n", "f">>, <<"PLUS", "f", "n">>,
                 <<"PLUS", "n", "f">>, <<"PLUS", "f", "n", "f">>}
RECURSIVE PrefixIn(_, _)
PrefixIn(x, S) == IF x # <<>> /\ Head(x) \in S THEN 1 + PrefixIn(Tail(x), S) ELSE 0
IsPlaceholderBody(b) ==
    \/ AllIn(DropN(b, PrefixIn(b, FlagSyms)), RangeSyms)                             \* {FLAGS RANGE}, both may be empty
    \/ b = <<"q">>
    \/ /\ Len(b) >= 3 /\ b[1] = "q" /\ b[2] = "COLON"
       /\ LET rest == IF b[3] = "s" THEN DropN(b, 3) ELSE DropN(b, 2) IN rest # <<>> /\ AllIn(rest, RangeSyms)
    \/ b \in NumberBodies

RECURSIVE IndexFrom(_, _, _)
IndexFrom(t, i, c) == IF i > Len(t) THEN 0 ELSE IF t[i] = c THEN i ELSE IndexFrom(t, i + 1, c)
(* end position of a placeholder starting at i (t[i] = LB), or 0 *)
PlaceholderEnd(t, i) == IF i > Len(t) \/ t[i] # "LB" THEN 0
                        ELSE LET j == IndexFrom(t, i + 1, "RB")
                             IN IF j # 0 /\ IsPlaceholderBody(SubSeq(t, i + 1, j - 1)) THEN j ELSE 0

(* parsePlaceholder: flag letters are collected wherever they stand in the body; what is left decides the type *)
FlagLetters == {"PLUS", "s", "n", "f", "r"}
ParseBody(b) ==
    LET trimmed == SelectSeq(b, LAMBDA c : c \notin FlagLetters)
        has(c)  == \E i \in 1..Len(b) : b[i] = c
        kind    == IF trimmed = <<>> THEN "item"
                   ELSE IF trimmed = <<"q">> THEN "query"
                   ELSE IF trimmed[1] = "q" THEN "qfield" ELSE "field"
        rtxt    == IF kind = "qfield" THEN DropN(trimmed, 2) ELSE IF kind = "field" THEN trimmed ELSE <<>>
        rng     == IF kind \in {"field", "qfield"} THEN ParseRange(rtxt) ELSE BadRange
    IN [kind |-> IF kind \in {"field", "qfield"} /\ ~rng.ok THEN "bad" ELSE kind,
        plus |-> has("PLUS"), preserve |-> has("s"), number |-> has("n"), file |-> has("f"), raw |-> has("r"),
        isq |-> has("q"), rng |-> rng, stripped |-> <<"LB">> \o trimmed \o <<"RB">>]

(* pieces: [type "lit", text]  |  [type "esc", text = the placeholder without its backslash]  |  [type "ph", ph]   *)
(* CODE-DERIVED: a field placeholder whose range does not parse (kind "bad") is put back as text, without its flag  *)
(* letters - but it still counts as a placeholder, flags included, when buildPlusList looks at the template.         *)
RECURSIVE ScanFrom(_, _)
ScanFrom(t, i) ==
    IF i > Len(t) THEN <<>>
    ELSE IF t[i] = "BSL" /\ PlaceholderEnd(t, i + 1) # 0
         THEN <<[type |-> "esc", text |-> SubSeq(t, i + 1, PlaceholderEnd(t, i + 1))]>> \o ScanFrom(t, PlaceholderEnd(t, i + 1) + 1)
    ELSE IF PlaceholderEnd(t, i) # 0
         THEN LET j == PlaceholderEnd(t, i)
              IN <<[type |-> "ph", ph |-> ParseBody(SubSeq(t, i + 1, j - 1))]>> \o ScanFrom(t, j + 1)
    ELSE <<[type |-> "lit", text |-> <<t[i]>>]>> \o ScanFrom(t, i + 1)
Scan(t) == ScanFrom(t, 1)
(* a scanned template: its pieces and what buildPlusList wants to know about it (hasPreviewFlags) *)
TInfo(t) == LET ps  == Scan(t)
                phs == SelectSeq(ps, LAMBDA p : p.type = "ph")
            IN [ps |-> ps, slot |-> phs # <<>>,
                plus  |-> \E i \in 1..Len(phs) : phs[i].ph.plus,
                query |-> \E i \in 1..Len(phs) : phs[i].ph.isq,
                file  |-> \E i \in 1..Len(phs) : phs[i].ph.file]

-------------------------------------------------------------------------------
(* 5. What the placeholders stand for.  A terminal state (the part that matters here):                             *)
(*   items  sequence of [text, idx]   the lines on the list; idx = zero-based ordinal of the line in the input      *)
(*   cur    0 (no line: the list is empty) or the position of the current line                                      *)
(*   sel    positions of the selected lines, in the order they were selected                                        *)
(*   query  the query string          fp  the action forces {+} semantics for every placeholder (execute-multi)     *)
(*   delim  the item delimiter (--delimiter, section 3b)                                                            *)
(*   sep    the print separator: "LF", or "NUL" under --print0 (CODE-DERIVED: --read0 alone leaves it at "LF")       *)
(* Operators ending in I take a scanned template (TInfo).                                                           *)
NoLine == [text |-> <<>>, idx |-> -1]           \* CODE-DERIVED: stands in for the current line when there is none
(* buildPlusList.  Documented part: {} is the current line, {+} the selected lines or the current line if nothing   *)
(* is selected; a template without item placeholders, or with {q}, is evaluated even without a current line.        *)
(* CODE-DERIVED: in that case the missing line is an empty text whose {n} is ''.                                    *)
SpecialI(ti, st) == ~ti.slot \/ ti.query \/ ((st.fp \/ ti.plus) /\ st.sel # <<>>)
ValidI(ti, st)   == st.cur # 0 \/ SpecialI(ti, st)
CurList(ti, st)  == IF st.cur # 0 THEN <<st.items[st.cur]>> ELSE IF SpecialI(ti, st) THEN <<NoLine>> ELSE <<>>
PlusList(ti, st) == IF st.sel # <<>> THEN [i \in 1..Len(st.sel) |-> st.items[st.sel[i]]] ELSE CurList(ti, st)
LinesFor(p, ti, st) == IF p.plus \/ st.fp THEN PlusList(ti, st) ELSE CurList(ti, st)

(* the original texts a placeholder denotes: one per line ({q} / {q:N}: exactly one, from the query).  The fields   *)
(* of a line are cut with the item delimiter, the words of the query at blanks (section 3b).                         *)
LineMeaning(p, line, d) == IF p.kind = "item"
                           THEN IF p.number THEN (IF line.idx < 0 THEN <<>> ELSE Digits(line.idx)) ELSE line.text
                           ELSE ItemFieldText(line.text, p.rng, p.preserve, d)
Meaning(p, ti, st) == CASE p.kind = "query"  -> <<st.query>>
                        [] p.kind = "qfield" -> <<FieldText(st.query, p.rng, p.preserve)>>
                        [] OTHER -> LET ls == LinesFor(p, ti, st) IN [i \in 1..Len(ls) |-> LineMeaning(p, ls[i], st.delim)]
(* how one original text is written into the command line (or, for a file placeholder, into the file) *)
Written(p, x, q(_)) == IF p.kind \in {"query", "qfield"} THEN q(x)
                       ELSE IF p.kind = "item" /\ p.number THEN (IF x = <<>> THEN <<"SQ", "SQ">> ELSE x)   \* the ordinal, bare
                       ELSE IF p.raw \/ p.file THEN x            \* {r}: documented as unquoted; {f}: the record in the file
                       ELSE q(x)

(* 5b. File placeholders ({f} {+f} {+f2} {sf1..} {nf} {+nf} ...).  man fzf: "A placeholder expression with f flag  *)
(* is replaced to the path of a temporary file that holds the evaluated list."  The list: one RECORD per line the     *)
(* placeholder stands for - the current line, or every selected line in selection order - and every record is         *)
(* TERMINATED by the print separator.  The separator is a terminator, not a "make sure the file ends with one"         *)
(* nicety: k lines give k terminators, also when a record is empty ({+f2} of a line with one field, an empty line)    *)
(* or itself ends with the separator character (a --read0 line that ends in a line feed).                             *)
(* In the expansion the path is ONE symbol, FILE: its text is chosen by the operating system (os.CreateTemp under     *)
(* $TMPDIR), not by the input.  CODE-DERIVED: the path is written bare, not quoted; the shell-level reading below     *)
(* (FILE is an ordinary character of a word) therefore assumes a temporary directory whose name is inert.             *)
IsFilePh(p) == p.file /\ p.kind \in {"item", "field"}
TerminateEach(recs, sep) == Cat([i \in 1..Len(recs) |-> recs[i] \o <<sep>>])
FileRecords(p, ti, st) == LET m == Meaning(p, ti, st) IN [i \in 1..Len(m) |-> Written(p, m[i], Quote)]
FileContent(p, ti, st) == TerminateEach(FileRecords(p, ti, st), st.sep)
(* NOT the design - what "join with the separator and make sure the text ends with one" would give (MC_ShellExpand     *)
(* shows that it loses records: FilesByJoinLoseRecords) *)
JoinEnsureTrailing(recs, sep) == LET j == JoinWith(recs, <<sep>>)
                                 IN IF j # <<>> /\ j[Len(j)] = sep THEN j ELSE j \o <<sep>>
(* reading a file of terminated records back: the records, and what is left over after the last terminator *)
RECURSIVE ReadRecordsFrom(_, _, _, _)
ReadRecordsFrom(x, sep, i, b) == IF i > Len(x) THEN [recs |-> <<>>, rest |-> SubSeq(x, b, Len(x))]
                                 ELSE IF x[i] = sep
                                      THEN LET r == ReadRecordsFrom(x, sep, i + 1, i + 1)
                                           IN [recs |-> <<SubSeq(x, b, i - 1)>> \o r.recs, rest |-> r.rest]
                                      ELSE ReadRecordsFrom(x, sep, i + 1, b)
ReadRecords(x, sep) == ReadRecordsFrom(x, sep, 1, 1)
CountSym(x, c) == Len(SelectSeq(x, LAMBDA y : y = c))
(* the files of an expansion, in the order their placeholders stand in the template *)
FilesI(ti, st) == LET fps == SelectSeq(ti.ps, LAMBDA pc : pc.type = "ph" /\ pc.ph.kind # "bad" /\ IsFilePh(pc.ph))
                  IN [k \in 1..Len(fps) |-> FileContent(fps[k].ph, ti, st)]

ExpandPiece(pc, ti, st, q(_)) ==
    IF pc.type # "ph" THEN pc.text
    ELSE IF pc.ph.kind = "bad" THEN pc.ph.stripped
    ELSE IF IsFilePh(pc.ph) THEN <<"FILE">>
    ELSE LET m == Meaning(pc.ph, ti, st) IN JoinWith([i \in 1..Len(m) |-> Written(pc.ph, m[i], q)], <<"SP">>)
ExpandI(ti, st, q(_)) == Cat([i \in 1..Len(ti.ps) |-> ExpandPiece(ti.ps[i], ti, st, q)])
Files(t, st) == FilesI(TInfo(t), st)
Valid(t, st)      == ValidI(TInfo(t), st)
Expand(t, st)     == ExpandI(TInfo(t), st, Quote)          \* the executor's style is POSIX (section 1b)
ExpandFish(t, st) == ExpandI(TInfo(t), st, QuoteFish)      \* the executor's style is fish

-------------------------------------------------------------------------------
(* 6. The property.  Reading the command line the way the shell does, a placeholder that stands in unquoted        *)
(* position contributes exactly its original texts: the first continues the word in progress, every further one     *)
(* is a word of its own; nothing else changes.  Want(t, st) is that reading.  It is not defined (NA) when the        *)
(* template author put a placeholder inside quotes ("you should not manually add quotes around the curly braces")    *)
(* or asked for raw text ({r}, "use it with caution"), and HAZARD/INCOMPLETE when the template's own text is          *)
(* outside the shell model.                                                                                          *)
AddWords(ls, m) == FoldLeft(LAMBDA s, x : [EndWord(s) EXCEPT !.cur = x, !.inw = TRUE],
                            [ls EXCEPT !.cur = ls.cur \o m[1], !.inw = TRUE], Tail(m))
WantStep(ti, st, ls, pc) ==
    IF ls.mode \in {"HAZ", "NA"} THEN ls
    ELSE IF pc.type # "ph" THEN LexRun(ls, pc.text)
    ELSE IF pc.ph.kind = "bad" THEN LexRun(ls, pc.ph.stripped)
    ELSE IF ls.mode # "U" \/ (pc.ph.raw /\ ~pc.ph.file /\ pc.ph.kind \in {"item", "field"} /\ ~pc.ph.number)
         THEN Mode(ls, "NA")
    ELSE IF IsFilePh(pc.ph) THEN AddWords(ls, <<<<"FILE">>>>)         \* the path: one word part (5b)
    ELSE LET m == Meaning(pc.ph, ti, st) IN IF m = <<>> THEN ls ELSE AddWords(ls, m)
WantI(ti, st) == LexDone(FoldLeft(LAMBDA ls, pc : WantStep(ti, st, ls, pc), LexInit, ti.ps))
Want(t, st) == WantI(TInfo(t), st)

(* C12, expansion level *)
ExpansionReadsBackI(ti, st) == LET w == WantI(ti, st) IN w.status = "OK" => ShEval(ExpandI(ti, st, Quote)) = w
ExpansionReadsBack(t, st) == ExpansionReadsBackI(TInfo(t), st)
(* escaped placeholders are left literal: a template without live placeholders expands to itself minus the         *)
(* escaping backslashes, whatever the state *)
UnescapedI(ti) == Cat([i \in 1..Len(ti.ps) |-> ti.ps[i].text])
EscapedStayLiteralI(ti, st) == ~ti.slot => ExpandI(ti, st, Quote) = UnescapedI(ti)
EscapedStayLiteral(t, st) == EscapedStayLiteralI(TInfo(t), st)
(* C12, file placeholders (5b): every record of every file is terminated - k lines give k terminators on top of    *)
(* those the records contain, the file ends with a terminator, and when no record contains the separator character   *)
(* the file reads back as exactly the original texts, one record per line.                                            *)
RecordsReadBack(recs, content, sep) ==
    /\ CountSym(content, sep) = Len(recs) + FoldLeft(LAMBDA n, r : n + CountSym(r, sep), 0, recs)
    /\ recs # <<>> => content[Len(content)] = sep
    /\ (\A i \in 1..Len(recs) : CountSym(recs[i], sep) = 0) => ReadRecords(content, sep) = [recs |-> recs, rest |-> <<>>]
FilePhsI(ti) == SelectSeq(ti.ps, LAMBDA pc : pc.type = "ph" /\ pc.ph.kind # "bad" /\ IsFilePh(pc.ph))
FilesReadBackI(ti, st) == \A k \in 1..Len(FilePhsI(ti)) :
    LET p == FilePhsI(ti)[k].ph IN RecordsReadBack(FileRecords(p, ti, st), FileContent(p, ti, st), st.sep)
(* joining and "making sure there is a separator at the end" is not that: the last record loses its terminator when   *)
(* it is empty or ends with the separator                                                                              *)
FilesByJoinLoseRecords ==
    /\ ~RecordsReadBack(<<<<"a">>, <<>>>>, JoinEnsureTrailing(<<<<"a">>, <<>>>>, "LF"), "LF")
    /\ ~RecordsReadBack(<<<<"a">>, <<>>>>, JoinEnsureTrailing(<<<<"a">>, <<>>>>, "NUL"), "NUL")
    /\ ~RecordsReadBack(<<<<"a", "LF">>>>, JoinEnsureTrailing(<<<<"a", "LF">>>>, "LF"), "LF")
    /\ RecordsReadBack(<<<<"a">>, <<>>>>, TerminateEach(<<<<"a">>, <<>>>>, "LF"), "LF")
(* C12, quoting level: a quoted text is one inert word part in any unquoted context *)
QuoteReadsBack(s) == ShEval(Quote(s)) = Ok(<<s>>)
QuoteInsideWord(s) == ShEval(<<"a">> \o Quote(s) \o <<"a">>) = Ok(<<<<"a">> \o s \o <<"a">>>>)
EscapeReadsBack(s) == ShEval(EscapeSingleQuote(s)) = Ok(<<s>>)
FishReadsBack(s) == /\ FishEvalQuoted(QuoteFish(s)) = s
                    /\ FishClosesAt(QuoteFish(s), 2) = Len(QuoteFish(s))
(* C12, executor level: the round trip is a statement about a PAIR (quoting style, program that evaluates).        *)
(*   POSIX style read by sh / bash: the documented claim, validated against the real shells.                        *)
(*   fish style read by fish: CODE-DERIVED model of fish's single quotes (no fish binary here), bound to the code.    *)
(*   any style read by a program without a model here: no claim.                                                     *)
(* The crossed pairs do NOT round-trip (CrossedStylesBreak: ' in fish style ends a POSIX word early, \\ in POSIX    *)
(* style collapses in fish) - which is why the style has to follow the program and not $SHELL.                       *)
ReadsBackBy(style, ev, s) ==
    LET q == QuoteBy(style, s)
    IN CASE ev = "posix" -> ShEval(q) = Ok(<<s>>)
         [] ev = "fish"  -> FishEvalQuoted(q) = s /\ FishClosesAt(q, 2) = Len(q)
         [] OTHER        -> TRUE
ExecutorReadsBack(env, ws, s) == ReadsBackBy(QuoteStyle(env, ws), Evaluator(env, ws), s)
CrossedStylesBreak == /\ ~ReadsBackBy("fish", "posix", <<"SQ">>)
                      /\ ~ReadsBackBy("fish", "posix", <<"a", "BSL", "a">>)
                      /\ ~ReadsBackBy("posix", "fish", <<"BSL", "BSL">>)
(* expansion of a template by a given executor *)
ExpandByI(ti, st, env, ws) == IF QuoteStyle(env, ws) = "fish" THEN ExpandI(ti, st, QuoteFish) ELSE ExpandI(ti, st, Quote)
TmuxReadsBack(args) == ShEval(TmuxArgStr(args)) = Ok(args)
TmuxExportReadsBack(v) == ShEval(TmuxExportWord(v)) = Ok(<<<<"a">> \o v>>)

-------------------------------------------------------------------------------
(* 7. The script of the --tmux re-launch (proxy.go runProxy).  fzf writes a script and has tmux run it with sh in   *)
(* the popup; a popup starts from the environment of the tmux SERVER, so the script brings the environment of the    *)
(* calling fzf along:  export NAME=<re-quoted value>  for every entry, then the re-launch command line                *)
(* (TmuxArgStr).  An environment is a sequence of ENTRIES; an entry is any text (execve passes arbitrary strings):     *)
(* its NAME is what precedes the first "=", its value the rest.  POSIX (XBD 8.1): a shell variable can only be made    *)
(* from an entry whose name is a shell identifier - [a-zA-Z_][a-zA-Z0-9_]*, the WHOLE name - and so exactly those     *)
(* entries are exported; the name of every other entry (a-b, a.b, "a;a", "a$(a)", the empty name, ...) is DATA that   *)
(* must never reach the script.  An entry without "=" has no value and is not a variable.                              *)
(* Not modelled: TMUX_PANE (deliberately not exported) and BASH_FUNC_name%% entries (exported bash functions, passed   *)
(* on as function definitions by design) - neither can be written in this alphabet.                                    *)
LetterSyms == {"a", "q", "n", "s", "r", "f", "e", "x", "p", "o", "t"}
IdentStart(c) == c \in LetterSyms \cup {"US"}
IdentChar(c)  == IdentStart(c) \/ c \in DigitSyms
IsIdentifier(n) == n # <<>> /\ IdentStart(n[1]) /\ \A i \in 2..Len(n) : IdentChar(n[i])
(* NOT the design - a filter that only looks at how the name begins (ScriptUnsafeByPrefix) *)
IdentifierPrefix(n) == n # <<>> /\ IdentStart(n[1])
EqAt(e) == IndexFrom(e, 1, "EQ")
EntryHasValue(e) == EqAt(e) # 0
EntryName(e)  == IF EqAt(e) = 0 THEN e ELSE SubSeq(e, 1, EqAt(e) - 1)
EntryValue(e) == IF EqAt(e) = 0 THEN <<>> ELSE DropN(e, EqAt(e))
ExportedBy(F(_), e) == EntryHasValue(e) /\ F(EntryName(e))
Exported(e) == ExportedBy(IsIdentifier, e)
KwExport == <<"e", "x", "p", "o", "r", "t">>
ExportLineBy(F(_), e) == IF ExportedBy(F, e)
                         THEN KwExport \o <<"SP">> \o EntryName(e) \o <<"EQ">> \o EscapeSingleQuote(EntryValue(e)) \o <<"LF">>
                         ELSE <<>>
TmuxExportsBy(F(_), env) == Cat([i \in 1..Len(env) |-> ExportLineBy(F, env[i])])
TmuxExports(env) == TmuxExportsBy(IsIdentifier, env)         \* the part of the script that carries the environment

(* sh reading a script: a command ends at an unquoted newline, its words are lexed as in section 2 (so ; & | $ ( ` ...  *)
(* outside quotes stop the model: HAZARD - the text would be read as shell syntax).  The only commands the export      *)
(* part may consist of are  export NAME=value  with NAME an identifier; anything else is "OTHER": another command      *)
(* runs, or export is given an operand that is not a name (an error of a special built-in: sh gives up on the script). *)
ScriptStep(ss, c) == IF ss.ls.mode = "U" /\ c = "LF"
                     THEN [ls |-> LexInit, cmds |-> IF EndWord(ss.ls).words = <<>> THEN ss.cmds
                                                    ELSE Append(ss.cmds, EndWord(ss.ls).words)]
                     ELSE [ss EXCEPT !.ls = LexStep(ss.ls, c)]
IsExportCmd(ws) == /\ Len(ws) = 2 /\ ws[1] = KwExport
                   /\ EntryHasValue(ws[2]) /\ IsIdentifier(EntryName(ws[2]))
ScriptEval(s) ==
    LET fin  == FoldLeft(ScriptStep, [ls |-> LexInit, cmds |-> <<>>], s)
        last == EndWord(fin.ls).words
        cmds == IF last = <<>> THEN fin.cmds ELSE Append(fin.cmds, last)
    IN IF fin.ls.mode = "HAZ" THEN [status |-> "HAZARD", vars |-> <<>>]
       ELSE IF fin.ls.mode # "U" THEN [status |-> "INCOMPLETE", vars |-> <<>>]
       ELSE IF \E k \in 1..Len(cmds) : ~IsExportCmd(cmds[k]) THEN [status |-> "OTHER", vars |-> <<>>]
       ELSE [status |-> "OK", vars |-> [k \in 1..Len(cmds) |-> cmds[k][2]]]      \* the NAME=value texts, in order
(* C12, re-launch: sh evaluating the export part defines exactly the variables of the entries with an identifier      *)
(* name, with exactly their values, in order, and runs nothing else - for every environment                            *)
ScriptSafeBy(F(_), env) == ScriptEval(TmuxExportsBy(F, env)) = [status |-> "OK", vars |-> SelectSeq(env, LAMBDA e : ExportedBy(F, e))]
ScriptSafe(env) == ScriptSafeBy(IsIdentifier, env)
(* a filter that accepts every name with a valid beginning lets names through that are shell syntax or no names at all *)
ScriptUnsafeByPrefix ==
    /\ ScriptEval(TmuxExportsBy(IdentifierPrefix, <<<<"x", "SEMI", "a", "SP", "f", "SEMI", "q", "EQ", "1">>>>)).status = "HAZARD"
    /\ ScriptEval(TmuxExportsBy(IdentifierPrefix, <<<<"a", "DOL", "LP", "a", "EQ", "1">>>>)).status = "HAZARD"
    /\ ScriptEval(TmuxExportsBy(IdentifierPrefix, <<<<"a", "MINUS", "a", "EQ", "1">>>>)).status = "OTHER"
    /\ ScriptEval(TmuxExportsBy(IdentifierPrefix, <<<<"a", "SP", "a", "EQ", "1">>>>)).status = "OTHER"
    /\ ScriptSafeBy(IdentifierPrefix, <<<<"a", "1", "US", "EQ", "SQ", "SEMI">>>>)

-------------------------------------------------------------------------------
(* wire encoding for cases handed to the Go harness: one ASCII character per symbol *)
Code(c) == CASE c = "SQ" -> "Q" [] c = "DQ" -> "D" [] c = "BSL" -> "B" [] c = "DOL" -> "S" [] c = "BT" -> "T"
             [] c = "SP" -> "_" [] c = "LF" -> "N" [] c = "STAR" -> "X" [] c = "SEMI" -> "C" [] c = "AMP" -> "A"
             [] c = "PIPE" -> "P" [] c = "LP" -> "L" [] c = "LB" -> "O" [] c = "RB" -> "E" [] c = "BANG" -> "G"
             [] c = "HASH" -> "H" [] c = "TILDE" -> "W" [] c = "PLUS" -> "+" [] c = "MINUS" -> "-"
             [] c = "DOT" -> "." [] c = "COLON" -> ":" [] c = "US" -> "u" [] c = "EQ" -> "="
             [] c = "NUL" -> "Z" [] c = "FILE" -> "F" [] OTHER -> c     \* letters and digits stand for themselves
Enc(s) == FoldLeft(LAMBDA acc, c : acc \o Code(c), "", s)
EncAll(ws) == [i \in 1..Len(ws) |-> Enc(ws[i])]
================================================================================
