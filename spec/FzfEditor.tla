------------------------------- MODULE FzfEditor -------------------------------
(* Query line, list cursor and selection of the interactive finder: the bindable editing, navigation and        *)
(* selection actions of src/terminal.go (Loop/doAction), the list update (UpdateList) and the asynchronous       *)
(* cursor/scroll clamp done by the renderer (printList -> constrain).                                            *)
(*                                                                                                               *)
(* The module is written as operators over an explicit state record so that the same definitions serve          *)
(*   - the state machine below (Init/Next; model-checked by MC_Editor.cfg, simulated by Gen_Editor.cfg), and     *)
(*   - the trace judge (Judge_Editor.tla): every transition recorded from the real program must be               *)
(*     Apply(action)(pre-state) = post-state.                                                                    *)
(*                                                                                                               *)
(* State record  s = [input, cx, yanked, cy, offset, sel, multi, track]                                          *)
(*   track         : 0 = off, 1 = --track (follow the current item across list updates), 2 = track-current        *)
(*   input, yanked : sequences of symbols (FzfChars)      cx : cursor, 0..Len(input)                             *)
(*   cy            : position in the result list (0-based; may be transiently out of range, see Current)         *)
(*   offset        : index of the first displayed result                                                         *)
(*   sel           : selected item ids in selection order   multi : selection limit (0 = no multi-select)        *)
(* Environment   e = [list, texts, maxItems, cycle, layout, scrollOff, inputless]                                *)
(*   list : result item ids in display order; texts[i] : symbols of result i (for replace-query)                 *)
EXTENDS FzfChars, FiniteSets, TLC

MaxMulti == 2147483647

Min2(a, b) == IF a < b THEN a ELSE b
Max2(a, b) == IF a > b THEN a ELSE b
(* util.Constrain: lower bound first (matters when hi < lo, i.e. on an empty list) *)
Constrain(v, lo, hi) == IF v < lo THEN lo ELSE IF v > hi THEN hi ELSE v

SubSeqS(s, a, b) == IF a > b THEN <<>> ELSE SubSeq(s, a, b)
Before(s) == SubSeqS(s.input, 1, s.cx)                     \* input[:cx]
After(s)  == SubSeqS(s.input, s.cx + 1, Len(s.input))      \* input[cx:]
InSeq(x, q) == \E i \in 1..Len(q) : q[i] = x
Remove(q, x) == SelectSeq(q, LAMBDA y : y # x)

-------------------------------------------------------------------------------
(* Word motions: \pL\pN is the word class, \s the blank class (regexes wordRubout / wordNext / "\s\S") *)
IsWord(c)  == IsWordClass(Class(c, "default"))
IsBlank(c) == c \in Whites

(* findLastMatch(pat, input[:cx]) + 1 for a two-character pattern [P1][P2]: position of the second character   *)
(* of the last such pair, 0 if none *)
LastPair(b, P1(_), P2(_)) ==
    LET I == {i \in 1..(Len(b) - 1) : P1(b[i]) /\ P2(b[i + 1])}
    IN IF I = {} THEN 0 ELSE CHOOSE i \in I : \A j \in I : j <= i
NotWord(c) == ~IsWord(c)
NotBlank(c) == ~IsBlank(c)
WordRuboutPos(b) == LastPair(b, NotWord, IsWord)
UnixRuboutPos(b) == LastPair(b, IsBlank, NotBlank)
(* findFirstMatch("[\pL\pN][^\pL\pN]|(.$)", input[cx:]) + 1 : number of characters to move forward *)
WordNextLen(a) ==
    LET I == {i \in 1..Len(a) : i = Len(a) \/ (IsWord(a[i]) /\ ~IsWord(a[i + 1]))}
    IN IF I = {} THEN 0 ELSE CHOOSE i \in I : \A j \in I : i <= j

-------------------------------------------------------------------------------
(* List cursor *)
N(e) == Len(e.list)
Current(s, e) == IF s.cy >= 0 /\ N(e) > 0 /\ N(e) > s.cy THEN e.list[s.cy + 1] ELSE -1    \* currentItem()
VSet(s, e, o) == [s EXCEPT !.cy = Constrain(o, 0, N(e) - 1)]
VMove(s, e, o0, allowCycle) ==
    LET o == IF e.layout # "default" THEN -o0 ELSE o0
        dest == s.cy + o
        mx == N(e) - 1
        d2 == IF e.cycle /\ allowCycle
              THEN IF dest > mx THEN (IF s.cy = mx THEN 0 ELSE dest)
                   ELSE IF dest < 0 THEN (IF s.cy = 0 THEN mx ELSE dest) ELSE dest
              ELSE dest
    IN VSet(s, e, d2)

(* Terminal.constrain() in single-line mode (no --gap, no multi-line items) *)
RECURSIVE ScrollPhase(_, _, _, _, _, _, _)
ScrollPhase(phase, off, cy, maxLines, so, minOff, maxOff) ==
    LET before == cy - off
        after == maxLines - (before + 1)
        off2 == IF phase = 0 /\ before < so THEN Max2(minOff, off - 1)
                ELSE IF phase = 1 /\ after < so THEN Min2(maxOff, off + 1) ELSE off
    IN IF before < so /\ after < so THEN off
       ELSE IF off2 = off THEN off
       ELSE ScrollPhase(phase, off2, cy, maxLines, so, minOff, maxOff)
RECURSIVE ConstrainLoop(_, _, _, _, _, _)
ConstrainLoop(tries, cy, off, count, maxLines, scrollOff) ==
    IF tries >= maxLines THEN <<cy, off>>
    ELSE LET cy2 == Constrain(cy, 0, Max2(0, count - 1))
             minOff == Max2(cy2 - maxLines + 1, 0)
             maxOff == Max2(Min2(count - maxLines, cy2), 0)
             off2 == Constrain(off, minOff, maxOff)
             so == Min2(maxLines \div 2, scrollOff)
             off3 == IF scrollOff > 0
                     THEN ScrollPhase(1, ScrollPhase(0, off2, cy2, maxLines, so, minOff, maxOff), cy2, maxLines, so, minOff, maxOff)
                     ELSE off2
         IN IF off3 = off THEN <<cy2, off3>> ELSE ConstrainLoop(tries + 1, cy2, off3, count, maxLines, scrollOff)
ConstrainView(s, e) ==
    LET r == ConstrainLoop(0, s.cy, Constrain(s.offset, 0, N(e)), N(e), e.maxItems, e.scrollOff)
    IN [s EXCEPT !.cy = r[1], !.offset = r[2]]

-------------------------------------------------------------------------------
(* Selection *)
SelectOK(sel, multi) == Len(sel) < multi                         \* selectItem succeeds
SelectItem(sel, id) == IF InSeq(id, sel) THEN sel ELSE Append(sel, id)
ToggleCurrent(s, e) ==                                           \* toggle(): new state, or s itself when it fails
    LET c == Current(s, e)
    IN IF c = -1 THEN s
       ELSE IF InSeq(c, s.sel) THEN [s EXCEPT !.sel = Remove(s.sel, c)]
       ELSE IF SelectOK(s.sel, s.multi) THEN [s EXCEPT !.sel = Append(s.sel, c)] ELSE s
ToggleWorks(s, e) == LET c == Current(s, e) IN c # -1 /\ (InSeq(c, s.sel) \/ SelectOK(s.sel, s.multi))

(* select-all: walk the current results in order, stop as soon as the limit is reached *)
RECURSIVE SelectInOrder(_, _, _, _)
SelectInOrder(sel, list, i, multi) ==
    IF i > Len(list) \/ ~SelectOK(sel, multi) THEN sel
    ELSE SelectInOrder(SelectItem(sel, list[i]), list, i + 1, multi)
(* toggle-all: deselect the selected results, then select the previously unselected ones in order *)
ToggleAll(s, e) ==
    LET prev == {i \in 1..N(e) : InSeq(e.list[i], s.sel)}
        kept == SelectSeq(s.sel, LAMBDA x : ~InSeq(x, e.list))
        cand == SelectSeq(e.list, LAMBDA x : ~InSeq(x, s.sel))
    IN [s EXCEPT !.sel = SelectInOrder(kept, cand, 1, s.multi)]

-------------------------------------------------------------------------------
(* The actions.  arg: sequence of symbols (put, change-query), or a number (pos, change-multi).                  *)
Modelled == {"char", "put", "backward-char", "forward-char", "beginning-of-line", "end-of-line", "delete-char",
             "backward-delete-char", "kill-line", "kill-word", "backward-kill-word", "unix-line-discard",
             "unix-word-rubout", "yank", "backward-word", "forward-word", "clear-query", "change-query",
             "replace-query", "up", "down", "first", "last", "pos", "page-up", "page-down", "half-page-up",
             "half-page-down", "toggle", "toggle-up", "toggle-down", "toggle-in", "toggle-out", "toggle-all",
             "select-all", "deselect-all", "select", "deselect", "clear-selection", "change-multi",
             "next-selected", "prev-selected", "ignore", "toggle-sort", "print", "bell",
             "toggle-track", "toggle-track-current", "track-current", "untrack-current",
             "exclude", "exclude-multi", "cancel", "delete-char/eof", "backward-delete-char/eof", "accept", "accept-non-empty",
             "accept-or-print-query", "abort", "print-query"}

(* How the session ends, if the action ends it: "close" = accept (print selection or current line),              *)
(* "printquery", "quit" = abort (status 130), "none".  reading/count: loader state (for accept-non-empty).       *)
Exits(act, s, e, reading, count) ==
    CASE act = "accept" -> "close"
      [] act = "accept-non-empty" -> IF Len(s.sel) > 0 \/ N(e) > 0 \/ (~reading /\ count = 0) THEN "close" ELSE "none"
      [] act = "accept-or-print-query" -> IF Len(s.sel) > 0 \/ N(e) > 0 THEN "close" ELSE "printquery"
      [] act = "print-query" -> "printquery"
      [] act = "abort" -> "quit"
      [] act = "cancel" -> IF Len(s.input) = 0 THEN "quit" ELSE "none"
      [] act = "delete-char/eof" -> IF s.cx >= Len(s.input) /\ s.cx = 0 THEN "quit" ELSE "none"
      [] act = "backward-delete-char/eof" -> IF Len(s.input) = 0 THEN "quit" ELSE "none"
      [] OTHER -> "none"

InsertAt(s, str) == [s EXCEPT !.input = Before(s) \o str \o After(s), !.cx = s.cx + Len(str)]

PageMove(s, e, up, half) ==
    LET lines0 == IF half THEN e.maxItems \div 2 ELSE e.maxItems - 1
        lines == Max2(1, lines0)
        d0 == IF up THEN 1 ELSE -1
        d == IF e.layout # "default" THEN -d0 ELSE d0
    IN VSet(s, e, s.cy + d * lines)

NextSel(s, e, fwd) ==           \* fwd: scan towards larger positions
    LET total == N(e)
        Y(i) == IF fwd THEN (s.cy + i) % total ELSE (s.cy - i + total) % total
        I == {i \in 1..(total - 1) : InSeq(e.list[Y(i) + 1], s.sel)}
    IN IF Len(s.sel) = 0 \/ I = {} THEN s
       ELSE VSet(s, e, Y(CHOOSE i \in I : \A j \in I : i <= j))

RECURSIVE Apply1(_, _, _, _)
Apply1(act, arg, s, e) ==
  CASE act = "char" \/ act = "put" -> InsertAt(s, arg)
    [] act = "backward-char" -> [s EXCEPT !.cx = IF s.cx > 0 THEN s.cx - 1 ELSE 0]
    [] act = "forward-char" -> [s EXCEPT !.cx = IF s.cx < Len(s.input) THEN s.cx + 1 ELSE s.cx]
    [] act = "beginning-of-line" -> [s EXCEPT !.cx = 0]
    [] act = "end-of-line" -> [s EXCEPT !.cx = Len(s.input)]
    [] act = "delete-char" ->
         IF s.cx < Len(s.input) THEN [s EXCEPT !.input = Before(s) \o Tail(After(s))] ELSE s
    [] act = "backward-delete-char" ->
         IF s.cx > 0 THEN [s EXCEPT !.input = SubSeqS(s.input, 1, s.cx - 1) \o After(s), !.cx = s.cx - 1] ELSE s
    [] act = "kill-line" ->
         IF s.cx < Len(s.input) THEN [s EXCEPT !.yanked = After(s), !.input = Before(s)] ELSE s
    [] act = "kill-word" ->
         LET k == WordNextLen(After(s))
         IN IF k > 0 THEN [s EXCEPT !.yanked = SubSeq(After(s), 1, k),
                                    !.input = Before(s) \o SubSeqS(After(s), k + 1, Len(After(s)))] ELSE s
    [] act = "backward-kill-word" \/ act = "unix-word-rubout" ->
         IF s.cx > 0
         THEN LET p == IF act = "backward-kill-word" THEN WordRuboutPos(Before(s)) ELSE UnixRuboutPos(Before(s))
              IN [s EXCEPT !.yanked = SubSeqS(s.input, p + 1, s.cx), !.input = SubSeqS(s.input, 1, p) \o After(s), !.cx = p]
         ELSE s
    [] act = "unix-line-discard" ->
         IF s.cx > 0 THEN [s EXCEPT !.yanked = Before(s), !.input = After(s), !.cx = 0] ELSE s
    [] act = "yank" -> InsertAt(s, s.yanked)
    [] act = "backward-word" -> [s EXCEPT !.cx = WordRuboutPos(Before(s))]
    [] act = "forward-word" -> [s EXCEPT !.cx = s.cx + WordNextLen(After(s))]
    [] act = "cancel" -> IF Len(s.input) = 0 THEN s ELSE [s EXCEPT !.yanked = s.input, !.input = <<>>, !.cx = 0]
    [] act = "delete-char/eof" ->
         IF s.cx < Len(s.input) THEN [s EXCEPT !.input = Before(s) \o Tail(After(s))] ELSE s
    [] act = "backward-delete-char/eof" ->
         IF Len(s.input) > 0 /\ s.cx > 0
         THEN [s EXCEPT !.input = SubSeqS(s.input, 1, s.cx - 1) \o After(s), !.cx = s.cx - 1] ELSE s
    [] act = "clear-query" -> [s EXCEPT !.input = <<>>, !.cx = 0]
    [] act = "change-query" -> [s EXCEPT !.input = arg, !.cx = Len(arg)]
    [] act = "replace-query" ->
         IF Current(s, e) # -1 THEN [s EXCEPT !.input = e.texts[s.cy + 1], !.cx = Len(e.texts[s.cy + 1])] ELSE s
    [] act = "up" -> VMove(s, e, 1, TRUE)
    [] act = "down" -> VMove(s, e, -1, TRUE)
    [] act = "first" -> ConstrainView(VSet(s, e, 0), e)
    [] act = "last" -> ConstrainView(VSet(s, e, N(e) - 1), e)
    [] act = "pos" ->
         LET n == IF arg > 0 THEN arg - 1 ELSE IF arg < 0 THEN arg + N(e) ELSE 0
         IN ConstrainView(VSet(s, e, n), e)
    [] act = "page-up" -> PageMove(s, e, TRUE, FALSE)
    [] act = "page-down" -> PageMove(s, e, FALSE, FALSE)
    [] act = "half-page-up" -> PageMove(s, e, TRUE, TRUE)
    [] act = "half-page-down" -> PageMove(s, e, FALSE, TRUE)
    [] act = "toggle" -> IF s.multi > 0 /\ N(e) > 0 THEN ToggleCurrent(s, e) ELSE s
    [] act = "toggle-down" ->
         IF s.multi > 0 /\ N(e) > 0 /\ ToggleWorks(s, e) THEN VMove(ToggleCurrent(s, e), e, -1, TRUE) ELSE s
    [] act = "toggle-up" ->
         IF s.multi > 0 /\ N(e) > 0 /\ ToggleWorks(s, e) THEN VMove(ToggleCurrent(s, e), e, 1, TRUE) ELSE s
    [] act = "toggle-in" -> Apply1(IF e.layout # "default" THEN "toggle-up" ELSE "toggle-down", arg, s, e)
    [] act = "toggle-out" -> Apply1(IF e.layout # "default" THEN "toggle-down" ELSE "toggle-up", arg, s, e)
    [] act = "toggle-all" -> IF s.multi > 0 THEN ToggleAll(s, e) ELSE s
    [] act = "select-all" -> IF s.multi > 0 THEN [s EXCEPT !.sel = SelectInOrder(s.sel, e.list, 1, s.multi)] ELSE s
    [] act = "deselect-all" ->
         IF s.multi > 0 THEN [s EXCEPT !.sel = SelectSeq(s.sel, LAMBDA x : ~InSeq(x, e.list))] ELSE s
    [] act = "select" ->
         LET c == Current(s, e)
         IN IF s.multi > 0 /\ c # -1 /\ ~InSeq(c, s.sel) /\ SelectOK(s.sel, s.multi)
            THEN [s EXCEPT !.sel = Append(s.sel, c)] ELSE s
    [] act = "deselect" ->
         LET c == Current(s, e)
         IN IF s.multi > 0 /\ c # -1 THEN [s EXCEPT !.sel = Remove(s.sel, c)] ELSE s
    [] act = "exclude" ->          \* the excluded item is deselected; the list itself changes with the next result
         LET c == Current(s, e) IN IF c # -1 THEN [s EXCEPT !.sel = Remove(s.sel, c)] ELSE s
    [] act = "exclude-multi" -> [s EXCEPT !.sel = <<>>]
    [] act = "toggle-track" -> [s EXCEPT !.track = IF s.track = 1 THEN 0 ELSE IF s.track = 0 THEN 1 ELSE 2]
    [] act = "toggle-track-current" -> [s EXCEPT !.track = IF s.track = 2 THEN 0 ELSE IF s.track = 0 THEN 2 ELSE 1]
    [] act = "track-current" -> [s EXCEPT !.track = IF s.track = 0 THEN 2 ELSE s.track]
    [] act = "untrack-current" -> [s EXCEPT !.track = IF s.track = 2 THEN 0 ELSE s.track]
    [] act = "clear-selection" -> IF s.multi > 0 THEN [s EXCEPT !.sel = <<>>] ELSE s
    [] act = "change-multi" ->          \* arg: -1 = no argument (unlimited), n >= 0 = new limit
         LET m == IF arg = -1 THEN MaxMulti ELSE arg
         IN [s EXCEPT !.multi = m, !.sel = IF s.multi > 0 /\ m # s.multi THEN <<>> ELSE s.sel]
    [] act = "next-selected" -> NextSel(s, e, e.layout # "default")
    [] act = "prev-selected" -> NextSel(s, e, e.layout = "default")
    [] OTHER -> s       \* ignore, toggle-sort, print, bell: no effect on the editor state

(* --no-input: every action's change to the query line is discarded *)
Apply(act, arg, s, e) ==
    LET r == Apply1(act, arg, s, e)
    IN IF e.inputless THEN [r EXCEPT !.input = s.input, !.cx = Len(s.input)] ELSE r

(* UpdateList, selection part: selections survive unless the input was reloaded (kind = "reload");               *)
(* kind = "trim": only selections of items still loaded survive                                                  *)
ListChanged(s, kind, loaded(_)) ==
    CASE kind = "same" -> s
      [] kind = "reload" -> [s EXCEPT !.sel = <<>>]
      [] kind = "trim" -> [s EXCEPT !.sel = SelectSeq(s.sel, loaded)]

(* UpdateList, cursor part.  With tracking on (and no reload) the cursor follows the item it was on: the item is  *)
(* looked up in the new list and keeps its screen position; if it is gone, track-current switches itself off and   *)
(* plain --track keeps the vertical position.  With tracking off the cursor is left alone (the renderer clamps).   *)
IndexIn(list, id) == LET I == {i \in 1..Len(list) : list[i] = id} IN IF I = {} THEN -1 ELSE (CHOOSE i \in I : \A j \in I : i <= j) - 1
(* firstIsLast (CODE-DERIVED, Merger.First): when the previous list was empty, tracking latches on "the first item" of   *)
(* the new list - the first INPUT item, which under --tac with an unranked (pass-through) list is the LAST row.          *)
ListChangedTF(s, oldList, newList, kind, loaded(_), maxItems, firstIsLast) ==
    LET s1 == ListChanged(s, kind, loaded)
        cur == IF s.cy >= 0 /\ Len(oldList) > s.cy THEN oldList[s.cy + 1] ELSE -1
        prev == IF kind # "reload" /\ s.track # 0
                THEN IF Len(oldList) > 0 THEN cur
                     ELSE IF Len(newList) > 0 THEN (IF firstIsLast THEN newList[Len(newList)] ELSE newList[1]) ELSE -1
                ELSE -1
        pos == s.cy - s.offset
        count == Len(newList)
        i == IndexIn(newList, prev)
    IN IF prev < 0 THEN s1
       ELSE IF i >= 0 THEN [s1 EXCEPT !.cy = i, !.offset = i - pos]
       ELSE IF s.track = 2 THEN [s1 EXCEPT !.track = 0, !.cy = pos, !.offset = 0]
       ELSE IF s.cy > count THEN [s1 EXCEPT !.cy = count - Min2(count, maxItems) + pos]
       ELSE s1
ListChangedT(s, oldList, newList, kind, loaded(_), maxItems) == ListChangedTF(s, oldList, newList, kind, loaded, maxItems, FALSE)
(* the renderer: clamp, then track-current gives up as soon as the focus moved to another item *)
RenderT(s, e, lastFocus) ==
    LET r == ConstrainView(s, e)
    IN IF r.track = 2 /\ lastFocus >= 0 /\ Current(r, e) # lastFocus THEN [r EXCEPT !.track = 0] ELSE r

-------------------------------------------------------------------------------
(* State-level properties (C09) *)
TypeOKs(s) == /\ s.cx \in 0..Len(s.input)
              /\ s.multi >= 0
              /\ \A i, j \in 1..Len(s.sel) : i # j => s.sel[i] # s.sel[j]
SelectionWithinLimit(s) == Len(s.sel) <= s.multi
(* after the renderer ran, the cursor designates an existing result, or the list is empty *)
CursorDesignates(s, e) == IF N(e) = 0 THEN Current(s, e) = -1 ELSE Current(s, e) # -1
ViewOK(s, e) == N(e) > 0 /\ e.maxItems > 0 => /\ s.offset <= s.cy /\ s.cy < s.offset + e.maxItems
                                                /\ s.offset >= 0
================================================================================
