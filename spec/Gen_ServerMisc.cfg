INIT GInitList
NEXT GNextList
INVARIANTS EmitList RoundTripInv EmitStart EmitExec EmitBig EmitSlow
CHECK_DEADLOCK FALSE
