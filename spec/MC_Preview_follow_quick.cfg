CONSTANTS
  MaxUI = 2
  Kinds = {"finite", "endless"}
  ShowBumpsVersion = TRUE
  TemplateHasQ = TRUE
  H = 2
  LensKind = "mixed"
  WithReload = FALSE
  ReloadBumpsVersion = TRUE
  WithHideKeep = FALSE
  Follow = TRUE
  WithScroll = FALSE
  DelayedSetsVersion <- TreeDelayedSetsVersion
SPECIFICATION Spec
INVARIANTS TypeOK OneAlive ShownIsStarted Convergence ShowFixed ReloadFixed DelayedFixed RowsOfOneRequest ExitClean
CHECK_DEADLOCK FALSE
