---------------------------- MODULE Judge_Walker ----------------------------
(* J binding of C19: every record is a random tree built by the Go harness, the options / skip patterns / roots it   *)
(* was walked with, and what the real walker delivered.  The record is explained iff the delivered multiset is        *)
(* FzfWalker!Expected for that tree.  Trees may contain link cycles: Expected is finite for them too.  A record whose  *)
(* walk the harness had to stop (cut = "cap": more than r.cap items delivered; "deadline": not finished within the    *)
(* wall-clock limit) is never explained - provided the budget really exceeded what the specification expects.         *)
EXTENDS FzfWalker, Json, IOUtils
TraceLog == ndJsonDeserialize(IOEnv.TRACE)
Shards == 16
VARIABLE l
NodesOf(r) == {[path |-> r.nodes[i].path, kind |-> r.nodes[i].kind, target |-> r.nodes[i].target] : i \in DOMAIN r.nodes}
JInit == /\ l \in 1..(IF Len(TraceLog) < Shards THEN Len(TraceLog) ELSE Shards)
         /\ tree = NodesOf(TraceLog[l])
JNext == /\ l + Shards <= Len(TraceLog) /\ l' = l + Shards
         /\ tree' = NodesOf(TraceLog[l'])

SkipsOf(r) == {r.skips[i] : i \in DOMAIN r.skips}
BagOfList(s) == [x \in Range(s) |-> Cardinality({i \in DOMAIN s : s[i] = x})]
(* the harness generated something the specification can speak about *)
Valid(r) == /\ TypeOK
            /\ \A n \in tree : \A i \in DOMAIN n.path : n.path[i] \in KnownNames
            /\ \A i \in DOMAIN r.roots : RootOK(r.roots[i])
            /\ Cardinality(tree) = Len(r.nodes)
Explained(r)      == BagOfList(r.out) = OutBag(Expected(r.roots, r.o, SkipsOf(r)))
ExplainedByDev(r) == BagOfList(r.out) = OutBag(ExpectedDev(r.roots, r.o, SkipsOf(r)))     \* LinkDirAsFile (F14)
JInv == LET r == TraceLog[l] IN
        IF ~Valid(r) THEN PrintT(<<"INVALID", l>>)
        ELSE IF r.cut # "" THEN (IF Len(Expected(r.roots, r.o, SkipsOf(r))) < r.cap
                                   THEN PrintT(<<"MISMATCH", l, "runaway">>)
                                   ELSE PrintT(<<"INVALID", l>>))
        ELSE IF Explained(r) THEN TRUE
        ELSE IF ExplainedByDev(r) THEN PrintT(<<"MISMATCH", l, "LinkDirAsFile">>)
        ELSE PrintT(<<"MISMATCH", l, "unexplained">>)
=============================================================================
