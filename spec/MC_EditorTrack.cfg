CONSTANTS
  Alphabet = {"a"}
  MaxLen = 0
  Items = {1, 2, 3}
  Lists <- MCListsT
  MaxItemsC = 2
  CycleC = TRUE
  LayoutC = "default"
  ScrollOffC = 1
  InputlessC = FALSE
  Multis = {0}
  Tracks = {1, 2}
  ActFilter = "list"
INIT Init
NEXT Next
CONSTRAINT Bound
INVARIANTS InvType InvLimit InvNoMulti InvRendered InvToggleInvolution InvAllLocal InvDeselectAll InvSurvive InvTrackFollows
CHECK_DEADLOCK FALSE
