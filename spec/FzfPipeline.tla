------------------------------ MODULE FzfPipeline ------------------------------
(* Reader -> coordinator -> matcher -> terminal pipeline of interactive fzf (src/core.go event loop,            *)
(* src/matcher.go Loop/scan/Reset, src/cache.go, src/chunklist.go Snapshot, src/terminal.go UpdateList/Input).   *)
(* One action per critical section:                                                                              *)
(*   reader      RdPush, RdFin                 (ChunkList.Push under its mutex; EvtReadNew / EvtReadFin)          *)
(*   coordinator CoWake                        (one eventBox.Wait callback: all pending events, in ANY order -     *)
(*                                              Go map iteration - each handler atomically, then events.Clear())   *)
(*   matcher     MaPick, MaChunk, MaSeeReset, MaPublish   (reqBox.Wait; one chunk of scan; Peek(reqReset))         *)
(*   terminal    TeEdit, TeToggleSort          (query edit / toggle-sort -> EvtSearchNew)                          *)
(* Items are 1..pushed; Holds(q, i) tabulates which items satisfy which query of a small lattice that satisfies   *)
(* NarrowingSound (FzfQuery): Filter("ab") is a subset of Filter("a") and Filter("b").                            *)
EXTENDS Integers, Sequences, FiniteSets, TLC

CONSTANTS MaxItems,       \* items the reader will push
          ChunkSize,
          QueryCacheMax,  \* a chunk result longer than this is not cached
          MaxEdits,       \* bound on terminal actions
          Queries,        \* e.g. {"", "a", "b", "ab"}
          AllowOlder      \* TRUE: model the deviation that MaPick may serve the older of two pending requests

None == [none |-> TRUE]

(* item i carries letter "a" iff i is odd... a fixed table with all four combinations *)
Has(i, c) == IF c = "a" THEN i % 2 = 1 \/ i % 5 = 0 ELSE i % 3 # 1
Holds(q, i) == CASE q = "" -> TRUE [] q = "a" -> Has(i, "a") [] q = "b" -> Has(i, "b") [] q = "ab" -> Has(i, "a") /\ Has(i, "b")
Filter(q, n) == {i \in 1..n : Holds(q, i)}
FilterD(q, n, d) == Filter(q, n) \ d
(* proper prefixes / suffixes of the cache key that ChunkCache.Search tries *)
Narrower(q) == IF q = "ab" THEN {"a", "b"} ELSE {}

NumChunks(n) == (n + ChunkSize - 1) \div ChunkSize
ChunkItems(c, n) == {i \in 1..n : (i - 1) \div ChunkSize + 1 = c}
(* a chunk of a snapshot can serve / feed the chunk cache iff it is full and is not the snapshot's last chunk      *)
(* (Snapshot hands out a private copy of the last chunk, so its identity is never seen again)                      *)
Cacheable(c, n) == c < NumChunks(n) /\ Cardinality(ChunkItems(c, n)) = ChunkSize

VARIABLES pushed, rdFin,
          ebox,        \* [readNew, readFin, searchNew : BOOLEAN, searchFin : merger or None]
          reading, snapCount, cq, csort,                         \* coordinator
          rbox, reqNo,                                            \* matcher request box: [retry, reset : request or None]
          mst, mreq, mdone, macc, msort, prevCount, mcache,       \* matcher
          ccache,      \* chunk cache: set of [c, key, items]
          tinput, tsort, tlist, edits,                            \* terminal
          dev,         \* deviation labels that fired
          deny,        \* coordinator: excluded items (denylist); requests carry a copy
          gen,         \* coordinator: exclusion generation (minor revision), bumped by every exclusion it applies
          mgen,        \* matcher: generation of the last request served (a change clears the merger cache)
          wanted       \* ghost: items the user has excluded
vars == <<pushed, rdFin, ebox, reading, snapCount, cq, csort, rbox, reqNo, mst, mreq, mdone, macc, msort, prevCount,
          mcache, ccache, tinput, tsort, tlist, edits, dev, deny, gen, mgen, wanted>>

Init == /\ pushed = 0 /\ rdFin = FALSE
        /\ ebox = [readNew |-> FALSE, readFin |-> FALSE, searchNew |-> None, searchFin |-> None]
        /\ reading = TRUE /\ snapCount = 0 /\ cq = "" /\ csort = TRUE
        /\ rbox = [retry |-> None, reset |-> None] /\ reqNo = 0
        /\ mst = "idle" /\ mreq = None /\ mdone = {} /\ macc = {} /\ msort = TRUE /\ prevCount = 0
        /\ mcache = [q \in Queries |-> None] /\ ccache = {}
        /\ tinput = "" /\ tsort = TRUE /\ tlist = None /\ edits = 0 /\ dev = {}
        /\ deny = {} /\ gen = 0 /\ mgen = 0 /\ wanted = {}

-------------------------------------------------------------------------------
(* Reader *)
RdPush == /\ ~rdFin /\ pushed < MaxItems
          /\ pushed' = pushed + 1
          /\ ebox' = [ebox EXCEPT !.readNew = TRUE]
          /\ UNCHANGED <<rdFin, reading, snapCount, cq, csort, rbox, reqNo, mst, mreq, mdone, macc, msort, prevCount, mcache,
                         ccache, tinput, tsort, tlist, edits, dev, deny, gen, mgen, wanted>>
RdFin == /\ ~rdFin /\ rdFin' = TRUE
         /\ ebox' = [ebox EXCEPT !.readFin = TRUE]
         /\ UNCHANGED <<pushed, reading, snapCount, cq, csort, rbox, reqNo, mst, mreq, mdone, macc, msort, prevCount, mcache,
                        ccache, tinput, tsort, tlist, edits, dev, deny, gen, mgen, wanted>>

-------------------------------------------------------------------------------
(* Coordinator: the handlers, as functions on a record of the variables they touch *)
Req(q, n, final, sort, no, cancel, d, g) == [q |-> q, count |-> n, final |-> final, sort |-> sort, no |-> no, cancel |-> cancel,
                                            deny |-> d, gen |-> g]
CoState == [reading |-> reading, snapCount |-> snapCount, cq |-> cq, csort |-> csort, rbox |-> rbox, reqNo |-> reqNo, tlist |-> tlist,
            deny |-> deny, gen |-> gen, ccache |-> ccache]

HRead(s, fin) ==      \* EvtReadNew / EvtReadFin: snapshot, UpdateCount, matcher.Reset(..., cancel = false)
    LET rd == s.reading /\ ~fin
        no == s.reqNo + 1
    IN [s EXCEPT !.reading = rd, !.snapCount = pushed, !.cq = tinput, !.reqNo = no,
                 !.rbox.retry = Req(tinput, pushed, ~rd, s.csort, no, FALSE, s.deny, s.gen)]
HSearchNew(s) ==      \* EvtSearchNew: apply exclusions (clear caches, bump the generation), fresh snapshot, Reset(cancel)
    LET no == s.reqNo + 1
        add == ebox.searchNew.deny
        d2 == s.deny \cup add
        g2 == IF add # {} THEN s.gen + 1 ELSE s.gen
    IN [s EXCEPT !.csort = ebox.searchNew.sort, !.snapCount = pushed, !.cq = tinput, !.reqNo = no, !.deny = d2, !.gen = g2,
                 !.ccache = IF add # {} THEN {} ELSE s.ccache,
                 !.rbox.reset = Req(tinput, pushed, ~s.reading, ebox.searchNew.sort, no, TRUE, d2, g2)]
HSearchFin(s) == [s EXCEPT !.tlist = ebox.searchFin]      \* terminal.UpdateList

Pending == (IF ebox.readFin THEN {"readFin"} ELSE IF ebox.readNew THEN {"readNew"} ELSE {})   \* ReadFin deletes ReadNew
           \cup (IF ebox.searchNew # None THEN {"searchNew"} ELSE {}) \cup (IF ebox.searchFin # None THEN {"searchFin"} ELSE {})
Handle(s, e) == CASE e = "readNew" -> HRead(s, FALSE) [] e = "readFin" -> HRead(s, TRUE)
                  [] e = "searchNew" -> HSearchNew(s) [] e = "searchFin" -> HSearchFin(s)
RECURSIVE HandleAll(_, _)
HandleAll(s, order) == IF order = <<>> THEN s ELSE HandleAll(Handle(s, Head(order)), Tail(order))
Perms(S) == {f \in [1..Cardinality(S) -> S] : \A i, j \in 1..Cardinality(S) : i # j => f[i] # f[j]}

CoWake == /\ Pending # {}
          /\ \E order \in Perms(Pending) :
               LET s == HandleAll(CoState, order)
               IN /\ reading' = s.reading /\ snapCount' = s.snapCount /\ cq' = s.cq /\ csort' = s.csort
                  /\ rbox' = s.rbox /\ reqNo' = s.reqNo /\ tlist' = s.tlist
                  /\ deny' = s.deny /\ gen' = s.gen /\ ccache' = s.ccache
          /\ ebox' = [readNew |-> FALSE, readFin |-> FALSE, searchNew |-> None, searchFin |-> None]
          /\ UNCHANGED <<pushed, rdFin, mst, mreq, mdone, macc, msort, prevCount, mcache, tinput, tsort, edits, dev, mgen, wanted>>

-------------------------------------------------------------------------------
(* Matcher *)
Merger(r, items) == [q |-> r.q, count |-> r.count, final |-> r.final, sort |-> r.sort, items |-> items, no |-> r.no, deny |-> r.deny]
Slots == {k \in {"retry", "reset"} : rbox[k] # None}
Newest == CHOOSE k \in Slots : \A j \in Slots : rbox[j].no <= rbox[k].no

(* after picking request r: cache decisions of Matcher.Loop; either publish at once or start scanning *)
PickCont(r) ==
    LET cleared == r.sort # msort \/ r.gen # mgen
        hit == ~cleared /\ r.count = prevCount /\ mcache[r.q] # None /\ mcache[r.q].final = r.final
        mc1 == IF cleared \/ r.count # prevCount THEN [q \in Queries |-> None] ELSE mcache
        immediate == r.count = 0 \/ (r.q = "" /\ r.deny = {})   \* EmptyMerger / PassMerger: no scan (a pattern with exclusions is never "empty")
        m == IF hit THEN [mcache[r.q] EXCEPT !.final = r.final, !.no = r.no] ELSE Merger(r, FilterD("", r.count, r.deny))
    IN /\ msort' = r.sort /\ mgen' = r.gen
       /\ prevCount' = IF ~cleared /\ r.count # prevCount THEN r.count ELSE prevCount
       /\ IF hit \/ immediate
          THEN /\ ebox' = [ebox EXCEPT !.searchFin = m]
               /\ mcache' = [mc1 EXCEPT ![r.q] = m]
               /\ mst' = "idle" /\ mreq' = None /\ mdone' = {} /\ macc' = {}
          ELSE /\ mst' = "scanning" /\ mreq' = r /\ mdone' = {} /\ macc' = {} /\ mcache' = mc1 /\ UNCHANGED ebox

MaPick == /\ mst = "idle" /\ Slots # {}
          /\ \E k \in Slots :
               /\ (k = Newest \/ AllowOlder)
               /\ dev' = IF k # Newest THEN dev \cup {"ServeOlderSlot"} ELSE dev
               /\ PickCont(rbox[k])
          /\ rbox' = [retry |-> None, reset |-> None]
          /\ UNCHANGED <<pushed, rdFin, reading, snapCount, cq, csort, reqNo, ccache, tinput, tsort, tlist, edits, deny, gen, wanted>>

CEntry(c, key) == {e \in ccache : e.c = c /\ e.key = key}
(* The chunk cache is keyed by (chunk, cache key) only; entries are tagged here with the exclusion generation they   *)
(* were computed under (ghost).  An exact hit on an entry of another generation is the deviation StaleChunkCache     *)
(* (finding F17): the coordinator clears the cache when it applies an exclusion, but a request of the older          *)
(* generation that is served afterwards puts entries back.                                                           *)
MaChunk(c) ==
    /\ mst = "scanning" /\ c \in 1..NumChunks(mreq.count) /\ c \notin mdone
    /\ LET n == mreq.count
           key == mreq.q
           usable == Cacheable(c, n) /\ key # ""
           exact == IF usable THEN CEntry(c, key) ELSE {}
           narrow == IF usable THEN UNION {CEntry(c, k2) : k2 \in Narrower(key)} ELSE {}
       IN \E hit \in (IF exact # {} THEN exact ELSE {None}) :
          \E space \in (IF hit # None THEN {hit.items}
                        ELSE IF narrow # {} THEN {e.items : e \in narrow} ELSE {ChunkItems(c, n)}) :
            LET matches == IF hit # None THEN space ELSE {i \in space : Holds(key, i) /\ i \notin mreq.deny}
            IN /\ macc' = macc \cup matches
               /\ ccache' = IF usable /\ hit = None /\ Cardinality(matches) <= QueryCacheMax
                            THEN ccache \cup {[c |-> c, key |-> key, items |-> matches, gen |-> mreq.gen]} ELSE ccache
               /\ dev' = IF hit # None /\ hit.gen # mreq.gen THEN dev \cup {"StaleChunkCache"} ELSE dev
    /\ mdone' = mdone \cup {c}
    /\ UNCHANGED <<pushed, rdFin, ebox, reading, snapCount, cq, csort, rbox, reqNo, mst, mreq, msort, prevCount, mcache,
                   tinput, tsort, tlist, edits, deny, gen, mgen, wanted>>

(* the scan loop peeks at the request box between chunks; only a cancelling request interrupts *)
MaSeeReset == /\ mst = "scanning" /\ rbox.reset # None /\ mdone # {} /\ mdone # 1..NumChunks(mreq.count)
              /\ mst' = "idle" /\ mreq' = None /\ mdone' = {} /\ macc' = {}
              /\ UNCHANGED <<pushed, rdFin, ebox, reading, snapCount, cq, csort, rbox, reqNo, msort, prevCount, mcache, ccache,
                             tinput, tsort, tlist, edits, dev, deny, gen, mgen, wanted>>
MaPublish == /\ mst = "scanning" /\ mdone = 1..NumChunks(mreq.count)
             /\ LET m == Merger(mreq, macc)
                IN /\ ebox' = [ebox EXCEPT !.searchFin = m]
                   /\ mcache' = [mcache EXCEPT ![mreq.q] = m]
             /\ mst' = "idle" /\ mreq' = None /\ mdone' = {} /\ macc' = {}
             /\ UNCHANGED <<pushed, rdFin, reading, snapCount, cq, csort, rbox, reqNo, msort, prevCount, ccache,
                            tinput, tsort, tlist, edits, dev, deny, gen, mgen, wanted>>

-------------------------------------------------------------------------------
(* Terminal *)
(* EvtSearchNew is a one-slot box: a new request overwrites a pending one.  The terminal builds every request from    *)
(* scratch, so an exclusion list carried by a pending request is lost when the next query-changing action arrives     *)
(* before the coordinator took it - deviation LostExclusion (finding F21).                                            *)
SearchNewVal(d) == [sort |-> tsort', deny |-> d]
Overwrites == ebox.searchNew # None /\ ebox.searchNew.deny # {}
TeEdit(q) == /\ edits < MaxEdits /\ q # tinput
             /\ tinput' = q /\ edits' = edits + 1 /\ tsort' = tsort
             /\ ebox' = [ebox EXCEPT !.searchNew = SearchNewVal({})]
             /\ dev' = IF Overwrites THEN dev \cup {"LostExclusion"} ELSE dev
             /\ UNCHANGED <<pushed, rdFin, reading, snapCount, cq, csort, rbox, reqNo, mst, mreq, mdone, macc, msort, prevCount,
                            mcache, ccache, tlist, deny, gen, mgen, wanted>>
TeToggleSort == /\ edits < MaxEdits
                /\ tsort' = ~tsort /\ edits' = edits + 1
                /\ ebox' = [ebox EXCEPT !.searchNew = SearchNewVal({})]
                /\ dev' = IF Overwrites THEN dev \cup {"LostExclusion"} ELSE dev
                /\ UNCHANGED <<pushed, rdFin, reading, snapCount, cq, csort, rbox, reqNo, mst, mreq, mdone, macc, msort,
                               prevCount, mcache, ccache, tinput, tlist, deny, gen, mgen, wanted>>
(* exclude: the item under the cursor - any item of the list on display *)
TeExclude(i) == /\ edits < MaxEdits /\ tlist # None /\ i \in tlist.items
                /\ edits' = edits + 1 /\ wanted' = wanted \cup {i} /\ tsort' = tsort
                /\ ebox' = [ebox EXCEPT !.searchNew = SearchNewVal({i})]
                /\ dev' = IF Overwrites THEN dev \cup {"LostExclusion"} ELSE dev
                /\ UNCHANGED <<pushed, rdFin, reading, snapCount, cq, csort, rbox, reqNo, mst, mreq, mdone, macc, msort,
                               prevCount, mcache, ccache, tinput, tlist, deny, gen, mgen>>

System == RdPush \/ RdFin \/ CoWake \/ MaPick \/ (\E c \in 1..NumChunks(MaxItems) : MaChunk(c)) \/ MaSeeReset \/ MaPublish
User == (\E q \in Queries : TeEdit(q)) \/ TeToggleSort \/ (\E i \in 1..MaxItems : TeExclude(i))
Next == System \/ User
Spec == Init /\ [][Next]_vars /\ WF_vars(System)

-------------------------------------------------------------------------------
(* Properties (C08, C13) *)
IsFilter(m) == m.items = FilterD(m.q, m.count, m.deny)
(* every result handed to the coordinator is the sequential filter of the snapshot it was asked for - never partial *)
PublishedIsFilter == (ebox.searchFin # None /\ "StaleChunkCache" \notin dev) => IsFilter(ebox.searchFin)
ShownIsFilter == (tlist # None /\ "StaleChunkCache" \notin dev) => IsFilter(tlist)
MergerCacheSound == "StaleChunkCache" \notin dev => \A q \in Queries : mcache[q] # None => IsFilter(mcache[q]) /\ mcache[q].q = q
(* chunk cache entries exist only for full, shared chunks and hold exactly that chunk's matches *)
ChunkCacheSound == \A e \in ccache : /\ Cardinality(ChunkItems(e.c, pushed)) = ChunkSize
                                     /\ (e.gen = gen /\ "StaleChunkCache" \notin dev => e.items = {i \in ChunkItems(e.c, pushed) : Holds(e.key, i) /\ i \notin deny})
                                     /\ Cardinality(e.items) <= QueryCacheMax
Quiescent == ~ENABLED System
Converged == /\ tlist # None /\ tlist.q = tinput /\ tlist.count = pushed /\ tlist.final /\ tlist.sort = tsort
             /\ tlist.items = FilterD(tinput, pushed, wanted)
(* once input has ended and nothing is pending, the list is the fresh filter of the current query (C08) *)
Convergence == (Quiescent /\ dev = {}) => Converged
NeverStale == "StaleChunkCache" \notin dev      \* violated: the model reproduces finding F17
NeverLost == "LostExclusion" \notin dev        \* violated: the model reproduces finding F21
ConvergenceStrict == Quiescent => Converged     \* violated when AllowOlder (deviation ServeOlderSlot, finding F5)
Liveness == <>[](~ENABLED System)
================================================================================
