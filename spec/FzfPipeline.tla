------------------------------ MODULE FzfPipeline ------------------------------
(* Reader -> coordinator -> matcher -> terminal pipeline of interactive fzf (src/core.go event loop,            *)
(* src/matcher.go Loop/scan/Reset, src/cache.go, src/chunklist.go Snapshot, src/terminal.go UpdateList/Input).   *)
(* One action per critical section:                                                                              *)
(*   reader      RdPush, RdFin                 (ChunkList.Push under its mutex; EvtReadNew / EvtReadFin)          *)
(*   coordinator CoWake                        (one eventBox.Wait callback: all pending events, in ANY order -     *)
(*                                              Go map iteration - each handler atomically, then events.Clear())   *)
(*   matcher     MaPick, MaChunk, MaSeeReset, MaPublish   (reqBox.Wait; one chunk of scan; Peek(reqReset))         *)
(*   terminal    TeEdit, TeToggleSort, TeExclude, TeReload   (query edit / toggle-sort / exclude / reload -> EvtSearchNew) *)
(* Items are 1..pushed; Holds(q, i) tabulates which items satisfy which query of a small lattice that satisfies   *)
(* NarrowingSound (FzfQuery): Filter("ab") is a subset of Filter("a") and Filter("b").                            *)
EXTENDS Integers, Sequences, FiniteSets, TLC

CONSTANTS MaxItems,       \* items the reader will push
          ChunkSize,
          QueryCacheMax,  \* a chunk result longer than this is not cached
          MaxEdits,       \* bound on terminal actions
          Queries,        \* e.g. {"", "a", "b", "ab"}
          AllowOlder,     \* TRUE: model the deviation that MaPick may serve the older of two pending requests
          MaxReloads,     \* bound on reload actions
          TailN,           \* --tail N: only the last N items stay searchable (0 = option absent)
          BumpOnTrim,     \* TRUE = the code: a snapshot that trimmed the list bumps the minor revision (FALSE: deviation)
          StalePrevCount  \* FALSE = the code since fix F26 (TRUE: the matcher keeps the old count across a cache reset)

None == [none |-> TRUE]

(* item i carries letter "a" iff i is odd... a fixed table with all four combinations *)
Has(i, c) == IF c = "a" THEN i % 2 = 1 \/ i % 5 = 0 ELSE i % 3 # 1
Holds(q, i) == CASE q = "" -> TRUE [] q = "a" -> Has(i, "a") [] q = "b" -> Has(i, "b") [] q = "ab" -> Has(i, "a") /\ Has(i, "b")
(* A chunk is <<lo, n>>: the items lo+1 .. lo+n.  The chunk list is a sequence of chunks; a snapshot is a copy of it. *)
CItems(ch) == (ch[1] + 1)..(ch[1] + ch[2])
RECURSIVE CountOf(_)
CountOf(chs) == IF chs = <<>> THEN 0 ELSE Head(chs)[2] + CountOf(Tail(chs))
Window(chs) == UNION {CItems(chs[k]) : k \in 1..Len(chs)}
FilterD(q, chs, d) == {i \in Window(chs) : Holds(q, i)} \ d
(* ChunkList.Snapshot(tail): when more than `tail` items are held, keep the shortest suffix of chunks that covers the  *)
(* last `tail` items and replace its first chunk by a trimmed COPY (a new chunk object: new identity)                  *)
RECURSIVE Suffix(_, _)
Suffix(chs, need) == IF chs = <<>> \/ need <= 0 THEN <<>>
                     ELSE Append(Suffix(SubSeq(chs, 1, Len(chs) - 1), need - chs[Len(chs)][2]), chs[Len(chs)])
Trimmed(chs) == LET sfx == Suffix(chs, TailN)
                    extra == CountOf(sfx) - TailN
                IN IF extra > 0 THEN <<(<<sfx[1][1] + extra, sfx[1][2] - extra>>)>> \o SubSeq(sfx, 2, Len(sfx)) ELSE sfx
Trims(chs) == TailN > 0 /\ CountOf(chs) > TailN
SnapOf(chs) == IF Trims(chs) THEN Trimmed(chs) ELSE chs
(* proper prefixes / suffixes of the cache key that ChunkCache.Search tries *)
Narrower(q) == IF q = "ab" THEN {"a", "b"} ELSE {}

(* a chunk of a snapshot can serve / feed the chunk cache iff it is full and is not the snapshot's last chunk      *)
(* (Snapshot hands out a private copy of the last chunk - and, under --tail, of the first one - so its identity is   *)
(* never seen again).  Within one input generation a chunk object is identified by lo: a trimmed copy starts later.  *)
Cacheable(c, snap) == /\ c < Len(snap) /\ snap[c][2] = ChunkSize
                      /\ ~(TailN > 0 /\ Len(snap) > 1 /\ c = 1)
MaxChunks == MaxItems      \* bound for the chunk index quantifier

VARIABLES pushed, rdFin,
          chunks,      \* the chunk list (reader appends; a snapshot under --tail trims it)
          snap,        \* coordinator: the snapshot it holds (chunk sequence)
          trims,       \* coordinator: minor-revision bumps caused by trimming snapshots (part of inputRevision.minor)
          rdKilled,    \* the coordinator terminated the running input command (reload while loading); the reader will finish
          ebox,        \* [readNew, readFin : BOOLEAN, searchNew : request record or None, searchFin : merger or None]
          reading, snapCount, snapMajor, cq, csort,              \* coordinator
          major,       \* coordinator: input generation (inputRevision.major), bumped by every restart
          nextCmd,     \* coordinator: a reload waits for the terminated reader to finish
          rbox, reqNo,                                            \* matcher request box: [retry, reset : request or None]
          mst, mreq, mdone, macc, msort, prevCount, mcache,       \* matcher
          ccache,      \* chunk cache: set of [major, c, key, items, gen]
          tinput, tsort, tlist, edits, reloads,                   \* terminal
          dev,         \* deviation labels that fired
          deny,        \* coordinator: excluded items (denylist); requests carry a copy
          gen,         \* coordinator: exclusion generation (minor revision), bumped by every exclusion it applies
          mgen,        \* matcher: <<major, gen>> of the last request served (a change clears the merger cache)
          wanted,      \* ghost: items of the current input the user has excluded
          wantedMajor  \* ghost: number of reloads the user has asked for
vars == <<pushed, rdFin, chunks, snap, trims, rdKilled, ebox, reading, snapCount, snapMajor, cq, csort, major, nextCmd, rbox, reqNo, mst, mreq, mdone, macc,
          msort, prevCount, mcache, ccache, tinput, tsort, tlist, edits, reloads, dev, deny, gen, mgen, wanted, wantedMajor>>
readerVars == <<pushed, rdFin, rdKilled, chunks>>
coordVars == <<reading, snapCount, snapMajor, cq, csort, major, nextCmd, deny, gen, snap, trims>>
matcherVars == <<mst, mreq, mdone, macc, msort, prevCount, mcache, mgen>>
termVars == <<tinput, tsort, edits, reloads>>

Init == /\ pushed = 0 /\ rdFin = FALSE /\ rdKilled = FALSE /\ chunks = <<>> /\ snap = <<>> /\ trims = 0
        /\ ebox = [readNew |-> FALSE, readFin |-> FALSE, searchNew |-> None, searchFin |-> None]
        /\ reading = TRUE /\ snapCount = 0 /\ snapMajor = 0 /\ cq = "" /\ csort = TRUE /\ major = 0 /\ nextCmd = FALSE
        /\ rbox = [retry |-> None, reset |-> None] /\ reqNo = 0
        /\ mst = "idle" /\ mreq = None /\ mdone = {} /\ macc = {} /\ msort = TRUE /\ prevCount = 0
        /\ mcache = [q \in Queries |-> None] /\ ccache = {}
        /\ tinput = "" /\ tsort = TRUE /\ tlist = None /\ edits = 0 /\ reloads = 0 /\ dev = {}
        /\ deny = {} /\ gen = 0 /\ mgen = <<0, 0, 0>> /\ wanted = {} /\ wantedMajor = 0

-------------------------------------------------------------------------------
(* Reader (one input command at a time; a reload starts the next generation) *)
RdPush == /\ ~rdFin /\ ~rdKilled /\ pushed < MaxItems
          /\ pushed' = pushed + 1
          /\ chunks' = IF chunks = <<>> \/ chunks[Len(chunks)][2] = ChunkSize
                       THEN Append(chunks, <<pushed, 1>>)          \* item pushed+1 opens a new chunk
                       ELSE [chunks EXCEPT ![Len(chunks)] = <<@[1], @[2] + 1>>]
          /\ ebox' = [ebox EXCEPT !.readNew = TRUE]
          /\ UNCHANGED <<rdFin, rdKilled, coordVars, rbox, reqNo, matcherVars, ccache, termVars, tlist, dev, wanted, wantedMajor>>
RdFin == /\ ~rdFin /\ rdFin' = TRUE
         /\ ebox' = [ebox EXCEPT !.readFin = TRUE]
         /\ UNCHANGED <<pushed, chunks, rdKilled, coordVars, rbox, reqNo, matcherVars, ccache, termVars, tlist, dev, wanted, wantedMajor>>

-------------------------------------------------------------------------------
(* Coordinator: the handlers, as functions on a record of the variables they touch *)
Req(q, mj, sn, final, sort, no, cancel, d, g, tr) == [q |-> q, major |-> mj, snap |-> sn, count |-> CountOf(sn), final |-> final, sort |-> sort,
                                                      no |-> no, cancel |-> cancel, deny |-> d, gen |-> g, trims |-> tr]
CoState == [reading |-> reading, snapCount |-> snapCount, snapMajor |-> snapMajor, cq |-> cq, csort |-> csort, rbox |-> rbox,
            reqNo |-> reqNo, tlist |-> tlist, deny |-> deny, gen |-> gen, ccache |-> ccache, major |-> major, nextCmd |-> nextCmd,
            pushed |-> pushed, rdFin |-> rdFin, rdKilled |-> rdKilled, wanted |-> wanted, chunks |-> chunks, snap |-> snap,
            trims |-> trims]
(* chunkList.Snapshot(opts.TailN) + `if changed { inputRevision.bumpMinor() }` *)
TakeSnap(s) == [s EXCEPT !.chunks = SnapOf(s.chunks),
                         !.trims = IF Trims(s.chunks) /\ BumpOnTrim THEN s.trims + 1 ELSE s.trims]

(* restart(): forget the exclusions, clear the chunk list, next input generation, start the reader again *)
Restart(s) == [s EXCEPT !.deny = {}, !.wanted = {}, !.reading = TRUE, !.pushed = 0, !.major = @ + 1, !.gen = 0, !.trims = 0,
                        !.rdFin = FALSE, !.rdKilled = FALSE, !.chunks = <<>>]

HRead(s, fin) ==      \* EvtReadNew / EvtReadFin
    IF fin /\ s.nextCmd
    THEN [Restart(s) EXCEPT !.nextCmd = FALSE]                    \* the terminated command has ended: run the pending reload
    ELSE LET rd == s.reading /\ ~fin                              \* snapshot, UpdateCount, matcher.Reset(..., cancel = false)
             no == s.reqNo + 1
             t == TakeSnap(s)
         IN [t EXCEPT !.reading = rd, !.snap = t.chunks, !.snapCount = CountOf(t.chunks), !.snapMajor = s.major, !.cq = tinput, !.reqNo = no,
                      !.rbox.retry = Req(tinput, s.major, t.chunks, ~rd, s.csort, no, FALSE, s.deny, s.gen, t.trims)]
HSearchNew(s) ==      \* EvtSearchNew: exclusions (clear caches, bump the generation), reload, fresh snapshot, Reset(cancel)
    LET v == ebox.searchNew
        add == IF v.major = s.major THEN v.deny ELSE {}      \* exclusions of a list of another input generation are ignored
        d2 == s.deny \cup add
        g2 == IF add # {} THEN s.gen + 1 ELSE s.gen
        s1 == [s EXCEPT !.csort = v.sort, !.deny = d2, !.gen = g2, !.ccache = IF add # {} THEN {} ELSE s.ccache]
        s2 == IF ~v.reload THEN s1
              ELSE IF s1.reading THEN [s1 EXCEPT !.rdKilled = TRUE, !.nextCmd = TRUE]     \* reader.terminate(); restart at ReadFin
              ELSE Restart(s1)
        no == s2.reqNo + 1
        s3 == TakeSnap(s2)                                        \* newSnapshot, newCount, changed := Snapshot(tail); bump if changed
        (* "we want to avoid showing an empty list when reload is triggered and the query is changed at the same time" *)
        take == ~v.reload \/ s3.pushed > 0
        sn == IF take THEN s3.chunks ELSE s3.snap
        sm == IF take THEN s3.major ELSE s3.snapMajor
        tr == IF take THEN s3.trims ELSE 0                         \* snapshotRevision stays that of the old snapshot
    IN IF ~v.changed THEN s2
       ELSE [s3 EXCEPT !.snap = sn, !.snapCount = CountOf(sn), !.snapMajor = sm, !.cq = tinput, !.reqNo = no,
                       !.rbox.reset = Req(tinput, sm, sn, ~s3.reading, v.sort, no, TRUE, s3.deny, s3.gen, tr)]
HSearchFin(s) == [s EXCEPT !.tlist = ebox.searchFin]      \* terminal.UpdateList

Pending == (IF ebox.readFin THEN {"readFin"} ELSE IF ebox.readNew THEN {"readNew"} ELSE {})   \* ReadFin deletes ReadNew
           \cup (IF ebox.searchNew # None THEN {"searchNew"} ELSE {}) \cup (IF ebox.searchFin # None THEN {"searchFin"} ELSE {})
Handle(s, e) == CASE e = "readNew" -> HRead(s, FALSE) [] e = "readFin" -> HRead(s, TRUE)
                  [] e = "searchNew" -> HSearchNew(s) [] e = "searchFin" -> HSearchFin(s)
RECURSIVE HandleAll(_, _)
HandleAll(s, order) == IF order = <<>> THEN s ELSE HandleAll(Handle(s, Head(order)), Tail(order))
Perms(S) == {f \in [1..Cardinality(S) -> S] : \A i, j \in 1..Cardinality(S) : i # j => f[i] # f[j]}

CoWake == /\ Pending # {}
          /\ \E order \in Perms(Pending) :
               LET s == HandleAll(CoState, order)
               IN /\ reading' = s.reading /\ snapCount' = s.snapCount /\ snapMajor' = s.snapMajor /\ cq' = s.cq /\ csort' = s.csort
                  /\ rbox' = s.rbox /\ reqNo' = s.reqNo /\ tlist' = s.tlist
                  /\ deny' = s.deny /\ gen' = s.gen /\ ccache' = s.ccache /\ major' = s.major /\ nextCmd' = s.nextCmd
                  /\ pushed' = s.pushed /\ rdFin' = s.rdFin /\ rdKilled' = s.rdKilled /\ wanted' = s.wanted
                  /\ chunks' = s.chunks /\ snap' = s.snap /\ trims' = s.trims
          /\ ebox' = [readNew |-> FALSE, readFin |-> FALSE, searchNew |-> None, searchFin |-> None]
          /\ UNCHANGED <<matcherVars, termVars, dev, wantedMajor>>

-------------------------------------------------------------------------------
(* Matcher *)
Merger(r, items) == [q |-> r.q, major |-> r.major, snap |-> r.snap, count |-> r.count, final |-> r.final, sort |-> r.sort, items |-> items,
                     no |-> r.no, deny |-> r.deny]
Slots == {k \in {"retry", "reset"} : rbox[k] # None}
Newest == CHOOSE k \in Slots : \A j \in Slots : rbox[j].no <= rbox[k].no

(* after picking request r: cache decisions of Matcher.Loop; either publish at once or start scanning *)
PickCont(r) ==
    LET cleared == r.sort # msort \/ <<r.major, r.gen, r.trims>> # mgen
        hit == ~cleared /\ r.count = prevCount /\ mcache[r.q] # None /\ mcache[r.q].final = r.final
        mc1 == IF cleared \/ r.count # prevCount THEN [q \in Queries |-> None] ELSE mcache
        immediate == r.count = 0 \/ (r.q = "" /\ r.deny = {})   \* EmptyMerger / PassMerger: no scan (a pattern with exclusions is never "empty")
        m == IF hit THEN [mcache[r.q] EXCEPT !.final = r.final, !.no = r.no, !.snap = r.snap]     \* handed out as the answer to r
             ELSE Merger(r, FilterD("", r.snap, r.deny))
    IN /\ msort' = r.sort /\ mgen' = <<r.major, r.gen, r.trims>>
       (* the count the merger cache is valid for; before fix F26 it was not updated when the cache was cleared for a new    *)
       (* revision, so a later request of the new revision whose count happened to equal the OLD count got a cached result    *)
       (* computed for another snapshot (found by TLC on this model: MC_Pipeline_dev_prevcount.cfg)                            *)
       /\ prevCount' = IF cleared /\ StalePrevCount THEN prevCount ELSE r.count
       /\ IF hit \/ immediate
          THEN /\ ebox' = [ebox EXCEPT !.searchFin = m]
               /\ mcache' = [mc1 EXCEPT ![r.q] = m]
               /\ mst' = "idle" /\ mreq' = None /\ mdone' = {} /\ macc' = {}
          ELSE /\ mst' = "scanning" /\ mreq' = r /\ mdone' = {} /\ macc' = {} /\ mcache' = mc1 /\ UNCHANGED ebox

MaPick == /\ mst = "idle" /\ Slots # {}
          /\ \E k \in Slots :
               /\ (k = Newest \/ AllowOlder)
               /\ dev' = IF k # Newest THEN dev \cup {"ServeOlderSlot"} ELSE dev
               /\ PickCont(rbox[k])
          /\ rbox' = [retry |-> None, reset |-> None]
          /\ UNCHANGED <<readerVars, coordVars, reqNo, ccache, termVars, tlist, wanted, wantedMajor>>

(* chunks are objects of one input generation: entries of another generation are unreachable *)
CEntry(c, key) == {e \in ccache : e.major = mreq.major /\ e.lo = mreq.snap[c][1] /\ e.key = key}
(* The chunk cache is keyed by (chunk, cache key) only; entries are tagged here with the exclusion generation they   *)
(* were computed under (ghost).  An exact hit on an entry of another generation is the deviation StaleChunkCache     *)
(* (finding F17): the coordinator clears the cache when it applies an exclusion, but a request of the older          *)
(* generation that is served afterwards puts entries back.                                                           *)
MaChunk(c) ==
    /\ mst = "scanning" /\ c \in 1..Len(mreq.snap) /\ c \notin mdone
    /\ LET key == mreq.q
           usable == Cacheable(c, mreq.snap) /\ key # ""
           exact == IF usable THEN CEntry(c, key) ELSE {}
           narrow == IF usable THEN UNION {CEntry(c, k2) : k2 \in Narrower(key)} ELSE {}
       IN \E hit \in (IF exact # {} THEN exact ELSE {None}) :
          \E space \in (IF hit # None THEN {hit.items}
                        ELSE IF narrow # {} THEN {e.items : e \in narrow} ELSE {CItems(mreq.snap[c])}) :
            LET matches == IF hit # None THEN space ELSE {i \in space : Holds(key, i) /\ i \notin mreq.deny}
            IN /\ macc' = macc \cup matches
               /\ ccache' = IF usable /\ hit = None /\ Cardinality(matches) <= QueryCacheMax
                            THEN ccache \cup {[major |-> mreq.major, lo |-> mreq.snap[c][1], key |-> key, items |-> matches, gen |-> mreq.gen]} ELSE ccache
               /\ dev' = IF hit # None /\ hit.gen # mreq.gen THEN dev \cup {"StaleChunkCache"} ELSE dev
    /\ mdone' = mdone \cup {c}
    /\ UNCHANGED <<readerVars, ebox, coordVars, rbox, reqNo, mst, mreq, msort, prevCount, mcache, mgen, termVars, tlist, wanted, wantedMajor>>

(* the scan loop peeks at the request box between chunks; only a cancelling request interrupts *)
MaSeeReset == /\ mst = "scanning" /\ rbox.reset # None /\ mdone # {} /\ mdone # 1..Len(mreq.snap)
              /\ mst' = "idle" /\ mreq' = None /\ mdone' = {} /\ macc' = {}
              /\ UNCHANGED <<readerVars, ebox, coordVars, rbox, reqNo, msort, prevCount, mcache, mgen, ccache, termVars, tlist, dev, wanted,
                             wantedMajor>>
MaPublish == /\ mst = "scanning" /\ mdone = 1..Len(mreq.snap)
             /\ LET m == Merger(mreq, macc)
                IN /\ ebox' = [ebox EXCEPT !.searchFin = m]
                   /\ mcache' = [mcache EXCEPT ![mreq.q] = m]
             /\ mst' = "idle" /\ mreq' = None /\ mdone' = {} /\ macc' = {}
             /\ UNCHANGED <<readerVars, coordVars, rbox, reqNo, msort, prevCount, mgen, ccache, termVars, tlist, dev, wanted, wantedMajor>>

-------------------------------------------------------------------------------
(* Terminal *)
(* EvtSearchNew is a one-slot box: a new request overwrites a pending one.  The terminal builds every request from    *)
(* scratch, so an exclusion list (or a reload command) carried by a pending request is lost when the next             *)
(* query-changing action arrives before the coordinator took it - deviation LostExclusion (finding F21).              *)
SearchNewVal(d, rl, ch) == [sort |-> tsort', deny |-> d, reload |-> rl, changed |-> ch,
                            major |-> IF tlist = None THEN 0 ELSE tlist.major]   \* revision of the list on display
Overwrites == ebox.searchNew # None /\ (ebox.searchNew.deny # {} \/ ebox.searchNew.reload)
TeEdit(q) == /\ edits < MaxEdits /\ q # tinput
             /\ tinput' = q /\ edits' = edits + 1 /\ tsort' = tsort
             /\ ebox' = [ebox EXCEPT !.searchNew = SearchNewVal({}, FALSE, TRUE)]
             /\ dev' = IF Overwrites THEN dev \cup {"LostExclusion"} ELSE dev
             /\ UNCHANGED <<readerVars, coordVars, rbox, reqNo, matcherVars, ccache, tlist, reloads, wanted, wantedMajor>>
TeToggleSort == /\ edits < MaxEdits
                /\ tsort' = ~tsort /\ edits' = edits + 1 /\ tinput' = tinput
                /\ ebox' = [ebox EXCEPT !.searchNew = SearchNewVal({}, FALSE, TRUE)]
                /\ dev' = IF Overwrites THEN dev \cup {"LostExclusion"} ELSE dev
                /\ UNCHANGED <<readerVars, coordVars, rbox, reqNo, matcherVars, ccache, tlist, reloads, wanted, wantedMajor>>
(* exclude: the item under the cursor - any item of the list on display, if it shows the current input *)
TeExclude(i) == /\ edits < MaxEdits /\ tlist # None /\ i \in tlist.items /\ tlist.major = major
                /\ edits' = edits + 1 /\ wanted' = wanted \cup {i} /\ tsort' = tsort /\ tinput' = tinput
                /\ ebox' = [ebox EXCEPT !.searchNew = SearchNewVal({i}, FALSE, TRUE)]
                /\ dev' = IF Overwrites THEN dev \cup {"LostExclusion"} ELSE dev
                /\ UNCHANGED <<readerVars, coordVars, rbox, reqNo, matcherVars, ccache, tlist, reloads, wantedMajor>>
(* reload: a new input command; the request does not by itself start a search (changed = FALSE) *)
TeReload == /\ edits < MaxEdits /\ reloads < MaxReloads
            /\ edits' = edits + 1 /\ reloads' = reloads + 1 /\ wantedMajor' = wantedMajor + 1 /\ tsort' = tsort /\ tinput' = tinput
            /\ ebox' = [ebox EXCEPT !.searchNew = SearchNewVal({}, TRUE, FALSE)]
            /\ dev' = IF Overwrites THEN dev \cup {"LostExclusion"} ELSE dev
            /\ UNCHANGED <<readerVars, coordVars, rbox, reqNo, matcherVars, ccache, tlist, wanted>>

System == RdPush \/ RdFin \/ CoWake \/ MaPick \/ (\E c \in 1..MaxChunks : MaChunk(c)) \/ MaSeeReset \/ MaPublish
User == (\E q \in Queries : TeEdit(q)) \/ TeToggleSort \/ (\E i \in 1..MaxItems : TeExclude(i)) \/ TeReload
Next == System \/ User
Spec == Init /\ [][Next]_vars /\ WF_vars(System)

-------------------------------------------------------------------------------
(* Properties (C08, C13) *)
IsFilter(m) == m.items = FilterD(m.q, m.snap, m.deny) /\ m.count = CountOf(m.snap)
(* C13 / C06: a snapshot is the whole input read so far, or exactly its last TailN items *)
IsWindow(sn, upto) == /\ Window(sn) \subseteq 1..upto
                      /\ (TailN = 0 => Window(sn) = 1..CountOf(sn))
                      /\ (TailN > 0 => CountOf(sn) <= TailN /\ \E hi \in 0..upto : Window(sn) = {i \in 1..hi : i > hi - TailN})
(* the chunk list itself is a contiguous suffix of everything pushed (pushes extend it; only snapshots trim it) *)
SnapshotIsWindow == /\ CountOf(chunks) = Cardinality(Window(chunks))
                    /\ \E lo \in 0..pushed : Window(chunks) = (lo + 1)..pushed
                    /\ (TailN = 0 => CountOf(chunks) = pushed)
                    /\ \A k \in {"retry", "reset"} : (rbox[k] # None /\ rbox[k].major = major) => IsWindow(rbox[k].snap, pushed)
(* every result handed to the coordinator is the sequential filter of the snapshot it was asked for - never partial *)
PublishedIsFilter == (ebox.searchFin # None /\ "StaleChunkCache" \notin dev) => IsFilter(ebox.searchFin)
ShownIsFilter == (tlist # None /\ "StaleChunkCache" \notin dev) => IsFilter(tlist)
MergerCacheSound == "StaleChunkCache" \notin dev => \A q \in Queries : mcache[q] # None => IsFilter(mcache[q]) /\ mcache[q].q = q
(* chunk cache entries exist only for full, shared chunks and hold exactly that chunk's matches *)
ChunkCacheSound == \A e \in ccache : e.major = major =>
                       /\ e.lo + ChunkSize <= pushed              \* a full chunk: its items are e.lo+1 .. e.lo+ChunkSize for ever
                       /\ (e.gen = gen /\ "StaleChunkCache" \notin dev =>
                              e.items = {i \in (e.lo + 1)..(e.lo + ChunkSize) : Holds(e.key, i) /\ i \notin deny})
                       /\ Cardinality(e.items) <= QueryCacheMax
Quiescent == ~ENABLED System
FinalWindow == IF TailN > 0 /\ pushed > TailN THEN <<(<<pushed - TailN, TailN>>)>> ELSE <<(<<0, pushed>>)>>
Converged == /\ tlist # None /\ tlist.q = tinput /\ tlist.major = major /\ Window(tlist.snap) = Window(FinalWindow) /\ tlist.final
             /\ tlist.sort = tsort /\ tlist.count = CountOf(FinalWindow)
             /\ tlist.items = FilterD(tinput, FinalWindow, wanted)
             /\ major = wantedMajor
(* once input has ended and nothing is pending, the list is the fresh filter of the current query over the current   *)
(* input (C08)                                                                                                        *)
Convergence == (Quiescent /\ dev = {}) => Converged
NeverStale == "StaleChunkCache" \notin dev      \* violated: the model reproduces finding F17
NeverLost == "LostExclusion" \notin dev        \* violated: the model reproduces finding F21
ConvergenceStrict == Quiescent => Converged     \* violated when AllowOlder (deviation ServeOlderSlot, finding F5)
Liveness == <>[](~ENABLED System)
================================================================================
