------------------------------ MODULE FzfPipeline ------------------------------
(* Reader -> coordinator -> matcher -> terminal pipeline of interactive fzf (src/core.go event loop,            *)
(* src/matcher.go Loop/scan/Reset, src/cache.go, src/chunklist.go Snapshot, src/terminal.go UpdateList/Input).   *)
(* One action per critical section:                                                                              *)
(*   reader      RdPush, RdFin                 (ChunkList.Push under its mutex; EvtReadNew / EvtReadFin)          *)
(*   coordinator CoWake                        (one eventBox.Wait callback: all pending events, in ANY order -     *)
(*                                              Go map iteration - each handler atomically, then events.Clear())   *)
(*   matcher     MaPick, MaChunk, MaSeeReset, MaPublish   (reqBox.Wait; one chunk of scan; Peek(reqReset))         *)
(*   terminal    TeEdit, TeToggleSort          (query edit / toggle-sort -> EvtSearchNew)                          *)
(* Items are 1..pushed; Holds(q, i) tabulates which items satisfy which query of a small lattice that satisfies   *)
(* NarrowingSound (FzfQuery): Filter("ab") is a subset of Filter("a") and Filter("b").                            *)
EXTENDS Integers, Sequences, FiniteSets, TLC

CONSTANTS MaxItems,       \* items the reader will push
          ChunkSize,
          QueryCacheMax,  \* a chunk result longer than this is not cached
          MaxEdits,       \* bound on terminal actions
          Queries,        \* e.g. {"", "a", "b", "ab"}
          AllowOlder      \* TRUE: model the deviation that MaPick may serve the older of two pending requests

None == [none |-> TRUE]

(* item i carries letter "a" iff i is odd... a fixed table with all four combinations *)
Has(i, c) == IF c = "a" THEN i % 2 = 1 \/ i % 5 = 0 ELSE i % 3 # 1
Holds(q, i) == CASE q = "" -> TRUE [] q = "a" -> Has(i, "a") [] q = "b" -> Has(i, "b") [] q = "ab" -> Has(i, "a") /\ Has(i, "b")
Filter(q, n) == {i \in 1..n : Holds(q, i)}
(* proper prefixes / suffixes of the cache key that ChunkCache.Search tries *)
Narrower(q) == IF q = "ab" THEN {"a", "b"} ELSE {}

NumChunks(n) == (n + ChunkSize - 1) \div ChunkSize
ChunkItems(c, n) == {i \in 1..n : (i - 1) \div ChunkSize + 1 = c}
(* a chunk of a snapshot can serve / feed the chunk cache iff it is full and is not the snapshot's last chunk      *)
(* (Snapshot hands out a private copy of the last chunk, so its identity is never seen again)                      *)
Cacheable(c, n) == c < NumChunks(n) /\ Cardinality(ChunkItems(c, n)) = ChunkSize

VARIABLES pushed, rdFin,
          ebox,        \* [readNew, readFin, searchNew : BOOLEAN, searchFin : merger or None]
          reading, snapCount, cq, csort,                         \* coordinator
          rbox, reqNo,                                            \* matcher request box: [retry, reset : request or None]
          mst, mreq, mdone, macc, msort, prevCount, mcache,       \* matcher
          ccache,      \* chunk cache: set of [c, key, items]
          tinput, tsort, tlist, edits,                            \* terminal
          dev          \* deviation labels that fired
vars == <<pushed, rdFin, ebox, reading, snapCount, cq, csort, rbox, reqNo, mst, mreq, mdone, macc, msort, prevCount,
          mcache, ccache, tinput, tsort, tlist, edits, dev>>

Init == /\ pushed = 0 /\ rdFin = FALSE
        /\ ebox = [readNew |-> FALSE, readFin |-> FALSE, searchNew |-> FALSE, searchFin |-> None]
        /\ reading = TRUE /\ snapCount = 0 /\ cq = "" /\ csort = TRUE
        /\ rbox = [retry |-> None, reset |-> None] /\ reqNo = 0
        /\ mst = "idle" /\ mreq = None /\ mdone = {} /\ macc = {} /\ msort = TRUE /\ prevCount = 0
        /\ mcache = [q \in Queries |-> None] /\ ccache = {}
        /\ tinput = "" /\ tsort = TRUE /\ tlist = None /\ edits = 0 /\ dev = {}

-------------------------------------------------------------------------------
(* Reader *)
RdPush == /\ ~rdFin /\ pushed < MaxItems
          /\ pushed' = pushed + 1
          /\ ebox' = [ebox EXCEPT !.readNew = TRUE]
          /\ UNCHANGED <<rdFin, reading, snapCount, cq, csort, rbox, reqNo, mst, mreq, mdone, macc, msort, prevCount, mcache,
                         ccache, tinput, tsort, tlist, edits, dev>>
RdFin == /\ ~rdFin /\ rdFin' = TRUE
         /\ ebox' = [ebox EXCEPT !.readFin = TRUE]
         /\ UNCHANGED <<pushed, reading, snapCount, cq, csort, rbox, reqNo, mst, mreq, mdone, macc, msort, prevCount, mcache,
                        ccache, tinput, tsort, tlist, edits, dev>>

-------------------------------------------------------------------------------
(* Coordinator: the handlers, as functions on a record of the variables they touch *)
Req(q, n, final, sort, no, cancel) == [q |-> q, count |-> n, final |-> final, sort |-> sort, no |-> no, cancel |-> cancel]
CoState == [reading |-> reading, snapCount |-> snapCount, cq |-> cq, csort |-> csort, rbox |-> rbox, reqNo |-> reqNo, tlist |-> tlist]

HRead(s, fin) ==      \* EvtReadNew / EvtReadFin: snapshot, UpdateCount, matcher.Reset(..., cancel = false)
    LET rd == s.reading /\ ~fin
        no == s.reqNo + 1
    IN [s EXCEPT !.reading = rd, !.snapCount = pushed, !.cq = tinput, !.reqNo = no,
                 !.rbox.retry = Req(tinput, pushed, ~rd, s.csort, no, FALSE)]
HSearchNew(s) ==      \* EvtSearchNew: fresh snapshot, matcher.Reset(..., cancel = true)
    LET no == s.reqNo + 1
    IN [s EXCEPT !.csort = tsort, !.snapCount = pushed, !.cq = tinput, !.reqNo = no,
                 !.rbox.reset = Req(tinput, pushed, ~s.reading, tsort, no, TRUE)]
HSearchFin(s) == [s EXCEPT !.tlist = ebox.searchFin]      \* terminal.UpdateList

Pending == (IF ebox.readFin THEN {"readFin"} ELSE IF ebox.readNew THEN {"readNew"} ELSE {})   \* ReadFin deletes ReadNew
           \cup (IF ebox.searchNew THEN {"searchNew"} ELSE {}) \cup (IF ebox.searchFin # None THEN {"searchFin"} ELSE {})
Handle(s, e) == CASE e = "readNew" -> HRead(s, FALSE) [] e = "readFin" -> HRead(s, TRUE)
                  [] e = "searchNew" -> HSearchNew(s) [] e = "searchFin" -> HSearchFin(s)
RECURSIVE HandleAll(_, _)
HandleAll(s, order) == IF order = <<>> THEN s ELSE HandleAll(Handle(s, Head(order)), Tail(order))
Perms(S) == {f \in [1..Cardinality(S) -> S] : \A i, j \in 1..Cardinality(S) : i # j => f[i] # f[j]}

CoWake == /\ Pending # {}
          /\ \E order \in Perms(Pending) :
               LET s == HandleAll(CoState, order)
               IN /\ reading' = s.reading /\ snapCount' = s.snapCount /\ cq' = s.cq /\ csort' = s.csort
                  /\ rbox' = s.rbox /\ reqNo' = s.reqNo /\ tlist' = s.tlist
          /\ ebox' = [readNew |-> FALSE, readFin |-> FALSE, searchNew |-> FALSE, searchFin |-> None]
          /\ UNCHANGED <<pushed, rdFin, mst, mreq, mdone, macc, msort, prevCount, mcache, ccache, tinput, tsort, edits, dev>>

-------------------------------------------------------------------------------
(* Matcher *)
Merger(r, items) == [q |-> r.q, count |-> r.count, final |-> r.final, sort |-> r.sort, items |-> items, no |-> r.no]
Slots == {k \in {"retry", "reset"} : rbox[k] # None}
Newest == CHOOSE k \in Slots : \A j \in Slots : rbox[j].no <= rbox[k].no

(* after picking request r: cache decisions of Matcher.Loop; either publish at once or start scanning *)
PickCont(r) ==
    LET cleared == r.sort # msort
        hit == ~cleared /\ r.count = prevCount /\ mcache[r.q] # None /\ mcache[r.q].final = r.final
        mc1 == IF cleared \/ r.count # prevCount THEN [q \in Queries |-> None] ELSE mcache
        immediate == r.count = 0 \/ r.q = ""           \* EmptyMerger / PassMerger: no scan
        m == IF hit THEN [mcache[r.q] EXCEPT !.final = r.final, !.no = r.no] ELSE Merger(r, Filter("", r.count))
    IN /\ msort' = r.sort
       /\ prevCount' = IF ~cleared /\ r.count # prevCount THEN r.count ELSE prevCount
       /\ IF hit \/ immediate
          THEN /\ ebox' = [ebox EXCEPT !.searchFin = m]
               /\ mcache' = [mc1 EXCEPT ![r.q] = m]
               /\ mst' = "idle" /\ mreq' = None /\ mdone' = {} /\ macc' = {}
          ELSE /\ mst' = "scanning" /\ mreq' = r /\ mdone' = {} /\ macc' = {} /\ mcache' = mc1 /\ UNCHANGED ebox

MaPick == /\ mst = "idle" /\ Slots # {}
          /\ \E k \in Slots :
               /\ (k = Newest \/ AllowOlder)
               /\ dev' = IF k # Newest THEN dev \cup {"ServeOlderSlot"} ELSE dev
               /\ PickCont(rbox[k])
          /\ rbox' = [retry |-> None, reset |-> None]
          /\ UNCHANGED <<pushed, rdFin, reading, snapCount, cq, csort, reqNo, ccache, tinput, tsort, tlist, edits>>

CEntry(c, key) == {e \in ccache : e.c = c /\ e.key = key}
MaChunk(c) ==
    /\ mst = "scanning" /\ c \in 1..NumChunks(mreq.count) /\ c \notin mdone
    /\ LET n == mreq.count
           key == mreq.q
           usable == Cacheable(c, n)
           exact == IF usable THEN CEntry(c, key) ELSE {}
           narrow == IF usable THEN UNION {CEntry(c, k2) : k2 \in Narrower(key)} ELSE {}
       IN \E space \in (IF exact # {} THEN {(CHOOSE e \in exact : TRUE).items}
                        ELSE IF narrow # {} THEN {e.items : e \in narrow} ELSE {ChunkItems(c, n)}) :
            LET matches == IF exact # {} THEN space ELSE {i \in space : Holds(key, i)}
            IN /\ macc' = macc \cup matches
               /\ ccache' = IF usable /\ exact = {} /\ Cardinality(matches) <= QueryCacheMax
                            THEN ccache \cup {[c |-> c, key |-> key, items |-> matches]} ELSE ccache
    /\ mdone' = mdone \cup {c}
    /\ UNCHANGED <<pushed, rdFin, ebox, reading, snapCount, cq, csort, rbox, reqNo, mst, mreq, msort, prevCount, mcache,
                   tinput, tsort, tlist, edits, dev>>

(* the scan loop peeks at the request box between chunks; only a cancelling request interrupts *)
MaSeeReset == /\ mst = "scanning" /\ rbox.reset # None /\ mdone # {} /\ mdone # 1..NumChunks(mreq.count)
              /\ mst' = "idle" /\ mreq' = None /\ mdone' = {} /\ macc' = {}
              /\ UNCHANGED <<pushed, rdFin, ebox, reading, snapCount, cq, csort, rbox, reqNo, msort, prevCount, mcache, ccache,
                             tinput, tsort, tlist, edits, dev>>
MaPublish == /\ mst = "scanning" /\ mdone = 1..NumChunks(mreq.count)
             /\ LET m == Merger(mreq, macc)
                IN /\ ebox' = [ebox EXCEPT !.searchFin = m]
                   /\ mcache' = [mcache EXCEPT ![mreq.q] = m]
             /\ mst' = "idle" /\ mreq' = None /\ mdone' = {} /\ macc' = {}
             /\ UNCHANGED <<pushed, rdFin, reading, snapCount, cq, csort, rbox, reqNo, msort, prevCount, ccache,
                            tinput, tsort, tlist, edits, dev>>

-------------------------------------------------------------------------------
(* Terminal *)
TeEdit(q) == /\ edits < MaxEdits /\ q # tinput
             /\ tinput' = q /\ edits' = edits + 1
             /\ ebox' = [ebox EXCEPT !.searchNew = TRUE]
             /\ UNCHANGED <<pushed, rdFin, reading, snapCount, cq, csort, rbox, reqNo, mst, mreq, mdone, macc, msort, prevCount,
                            mcache, ccache, tsort, tlist, dev>>
TeToggleSort == /\ edits < MaxEdits
                /\ tsort' = ~tsort /\ edits' = edits + 1
                /\ ebox' = [ebox EXCEPT !.searchNew = TRUE]
                /\ UNCHANGED <<pushed, rdFin, reading, snapCount, cq, csort, rbox, reqNo, mst, mreq, mdone, macc, msort,
                               prevCount, mcache, ccache, tinput, tlist, dev>>

System == RdPush \/ RdFin \/ CoWake \/ MaPick \/ (\E c \in 1..NumChunks(MaxItems) : MaChunk(c)) \/ MaSeeReset \/ MaPublish
User == (\E q \in Queries : TeEdit(q)) \/ TeToggleSort
Next == System \/ User
Spec == Init /\ [][Next]_vars /\ WF_vars(System)

-------------------------------------------------------------------------------
(* Properties (C08, C13) *)
IsFilter(m) == m.items = Filter(m.q, m.count)
(* every result handed to the coordinator is the sequential filter of the snapshot it was asked for - never partial *)
PublishedIsFilter == ebox.searchFin # None => IsFilter(ebox.searchFin)
ShownIsFilter == tlist # None => IsFilter(tlist)
MergerCacheSound == \A q \in Queries : mcache[q] # None => IsFilter(mcache[q]) /\ mcache[q].q = q
(* chunk cache entries exist only for full, shared chunks and hold exactly that chunk's matches *)
ChunkCacheSound == \A e \in ccache : /\ Cardinality(ChunkItems(e.c, pushed)) = ChunkSize
                                     /\ e.items = {i \in ChunkItems(e.c, pushed) : Holds(e.key, i)}
                                     /\ Cardinality(e.items) <= QueryCacheMax
Quiescent == ~ENABLED System
Converged == /\ tlist # None /\ tlist.q = tinput /\ tlist.count = pushed /\ tlist.final /\ tlist.sort = tsort
             /\ tlist.items = Filter(tinput, pushed)
(* once input has ended and nothing is pending, the list is the fresh filter of the current query (C08) *)
Convergence == (Quiescent /\ dev = {}) => Converged
ConvergenceStrict == Quiescent => Converged     \* violated when AllowOlder (deviation ServeOlderSlot, finding F5)
Liveness == <>[](~ENABLED System)
================================================================================
