CONSTANTS
  Alphabet <- LineAlphabet
  MaxLen = 4
  DelimSet <- AllDelims
INIT Init
NEXT Next
INVARIANTS EmitMenu EmitLine
CHECK_DEADLOCK FALSE
