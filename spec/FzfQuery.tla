------------------------------- MODULE FzfQuery -------------------------------
(* The search syntax of fzf: which lines satisfy a query.  (src/pattern.go, the match/no-match bit of src/algo)   *)
(*                                                                                                                  *)
(* A query and a line are sequences of SYMBOLS (FzfChars).  Options that change the reading of a query:             *)
(*    opts.fuzzy      FALSE under --exact                 opts.extended   FALSE under --no-extended (+x)            *)
(*    opts.case       "smart" (default) | "ignore" (-i) | "respect" (+i)                                            *)
(*    opts.normalize  FALSE under --literal                                                                         *)
(* --algo, the scan direction (--tiebreak=end, --scheme=path), --no-sort and whether positions are computed are     *)
(* NOT parameters of anything below: the property is that they never change the set of matching lines.              *)
(*                                                                                                                  *)
(* Sources.  DOCUMENTED = man/man1/fzf.1 (SEARCH options, "EXTENDED SEARCH MODE"), README "Search syntax",          *)
(* CHANGELOG 0.10.0 (^pattern$), 0.9.11 (smart case per term), 0.16.0 (normalisation, --literal), 0.22.0 ("an      *)
(* accented character will only match accented characters ... similar to smart-case"), 0.55.0 (boundary match).    *)
(* Everything the documentation does not fix is marked  \* CODE-DERIVED  and mirrors parseTerms / the algo          *)
(* functions (DESIGN Appendix D).                                                                                   *)
EXTENDS FzfChars, FiniteSets, TLC

CaseModes == {"smart", "ignore", "respect"}
Kinds     == {"fuzzy", "exact", "boundary", "prefix", "suffix", "equal"}
OptsSpace == [fuzzy : BOOLEAN, extended : BOOLEAN, case : CaseModes, normalize : BOOLEAN]

(* Named deviations of the implementation from this specification (DESIGN 3, 9).  `Matches` is the specification;  *)
(* `MatchesUnder(.., devs)` says what a build that has the listed defects reports.  They are used only to classify  *)
(* a disagreement as an already known finding, never to accept one.                                                 *)
(*   "F1"    a boundary term 't' with more than one character never holds (backward scan: exactMatchNaive sets      *)
(*           `bonus` only at pattern index 0, which is the last step when scanning from the end)                    *)
(*   "TABQ"  a TAB typed in an extended-mode query is read as a blank inside its term (parseTerms uses \t as the    *)
(*           stand-in for an escaped blank and turns every \t back into a blank)                                    *)
Deviations == {"F1", "TABQ"}

-------------------------------------------------------------------------------
(* Small helpers *)
Last(s)  == s[Len(s)]
Front(s) == SubSeq(s, 1, Len(s) - 1)
MinOf(S) == CHOOSE x \in S : \A y \in S : x <= y
MaxOf(S) == CHOOSE x \in S : \A y \in S : x >= y
HasUpper(s)  == \E i \in 1..Len(s) : Lower(s[i]) # s[i]
HasAccents(s) == \E i \in 1..Len(s) : HasAccent(s[i])
(* number of leading / trailing white-space characters *)
LeadWS(s)  == LET nz == {i \in 1..Len(s) : ~IsSpace(s[i])} IN IF nz = {} THEN Len(s) ELSE MinOf(nz) - 1
TrailWS(s) == LET nz == {i \in 1..Len(s) : ~IsSpace(s[i])} IN IF nz = {} THEN Len(s) ELSE Len(s) - MaxOf(nz)

-------------------------------------------------------------------------------
(* 1. Tokens.  DOCUMENTED: "multiple patterns delimited by spaces"; "prepend a backslash to a space to match a     *)
(* literal space character".  A token is a maximal run of characters other than an unescaped blank; `\ ` stands    *)
(* for a blank inside the token.  (Leading/trailing/repeated blanks separate nothing: there are no empty tokens.)  *)
(* A backslash that is not followed by a blank is an ordinary character.  \* CODE-DERIVED (no other escapes)        *)
RECURSIVE Tok(_, _, _, _)
Tok(q, cur, out, devs) ==
    IF q = <<>> THEN (IF cur = <<>> THEN out ELSE Append(out, cur))
    ELSE IF Len(q) >= 2 /\ q[1] = "\\" /\ q[2] = " " THEN Tok(SubSeq(q, 3, Len(q)), Append(cur, " "), out, devs)
    ELSE IF q[1] = " " THEN Tok(Tail(q), <<>>, IF cur = <<>> THEN out ELSE Append(out, cur), devs)
    ELSE Tok(Tail(q), Append(cur, IF q[1] = "TAB" /\ "TABQ" \in devs THEN " " ELSE q[1]), out, devs)
TokensUnder(q, devs) == Tok(q, <<>>, <<>>, devs)
Tokens(q) == TokensUnder(q, {})

-------------------------------------------------------------------------------
(* 2. Terms.  A term is [inv, kind, text, cs, norm].                                                                *)
(* DOCUMENTED: smart case is decided per term ("the search is case-insensitive by default, but it becomes          *)
(* case-sensitive if the query contains any uppercase letters"; CHANGELOG: "Smart-case for each term in            *)
(* extended-search mode"); -i / +i force it.  Latin letters are normalised unless --literal or the term itself     *)
(* carries an accent.  Both are decided on the token as typed.                                                      *)
CaseSensitive(tok, opts) == opts.case = "respect" \/ (opts.case = "smart" /\ HasUpper(tok))
Normalizes(tok, opts)    == opts.normalize /\ ~HasAccents(tok)
FoldPattern(tok, cs)     == IF cs THEN tok ELSE LowerSeq(tok)

(* DOCUMENTED table (README "Search syntax", man "EXTENDED SEARCH MODE"), for a body without operator characters:  *)
(*     body  fuzzy      'body  exact      'body'  boundary      ^body  prefix      body$  suffix      ^body$ equal  *)
(*     !...  the negation of the term; "in this case fzf performs exact match by default", so !body is exact       *)
(*     and !'body is fuzzy;  --exact: plain terms are exact and "'-prefix unquotes the term".                      *)
DocShapes == {<<"", "">>, <<"'", "">>, <<"'", "'">>, <<"^", "">>, <<"", "$">>, <<"^", "$">>}
Sym(x) == IF x = "" THEN <<>> ELSE <<x>>
DocToken(inv, shape, body) == (IF inv THEN <<"!">> ELSE <<>>) \o Sym(shape[1]) \o body \o Sym(shape[2])
DocKind(inv, shape, opts) ==
    LET plainFuzzy == opts.fuzzy /\ ~inv IN
    CASE shape = <<"", "">>   -> IF plainFuzzy THEN "fuzzy" ELSE "exact"
      [] shape = <<"'", "">>  -> IF plainFuzzy THEN "exact" ELSE "fuzzy"
      [] shape = <<"'", "'">> -> "boundary"
      [] shape = <<"^", "">>  -> "prefix"
      [] shape = <<"", "$">>  -> "suffix"
      [] shape = <<"^", "$">> -> "equal"
DocTerm(inv, shape, body, opts) ==
    LET tok == DocToken(inv, shape, body) IN
    [inv |-> inv, kind |-> DocKind(inv, shape, opts), text |-> FoldPattern(body, CaseSensitive(tok, opts)),
     cs |-> CaseSensitive(tok, opts), norm |-> Normalizes(tok, opts)]

(* Classify: the total reading of any token (parseTerms).  It coincides with the documented table on every token   *)
(* of a documented shape (theorem DocAgree, checked in MC_Query); the remaining branches are corners.              *)
Classify(tok, opts) ==
    LET cs     == CaseSensitive(tok, opts)
        t0     == FoldPattern(tok, cs)
        inv    == t0 # <<>> /\ t0[1] = "!"                      \* only one `!` is an operator   \* CODE-DERIVED
        t1     == IF inv THEN Tail(t0) ELSE t0
        dollar == Len(t1) >= 2 /\ Last(t1) = "$"                \* a lone `$` is text            \* CODE-DERIVED
        t2     == IF dollar THEN Front(t1) ELSE t1
        quoted == t2 # <<>> /\ t2[1] = "'"
        bound  == quoted /\ Len(t2) > 2 /\ Last(t2) = "'"       \* `''` is exact `'`             \* CODE-DERIVED
        caret  == ~quoted /\ t2 # <<>> /\ t2[1] = "^"           \* `'^a` is exact `^a`           \* CODE-DERIVED
        plainFuzzy == opts.fuzzy /\ ~inv
        kind   == IF bound THEN "boundary"                      \* `'a'$` = boundary a           \* CODE-DERIVED
                  ELSE IF quoted THEN (IF plainFuzzy THEN "exact" ELSE "fuzzy")   \* `'a$`: the anchor is lost  \* CODE-DERIVED
                  ELSE IF caret THEN (IF dollar THEN "equal" ELSE "prefix")
                  ELSE IF dollar THEN "suffix"
                  ELSE IF plainFuzzy THEN "fuzzy" ELSE "exact"
        text   == IF bound THEN SubSeq(t2, 2, Len(t2) - 1) ELSE IF quoted \/ caret THEN Tail(t2) ELSE t2
    IN [inv |-> inv, kind |-> kind, text |-> text, cs |-> cs, norm |-> Normalizes(tok, opts)]

(* 3. Groups.  DOCUMENTED: terms are AND-ed; "a single bar character term acts as an OR operator".                  *)
(* A pattern is a sequence of groups, a group a non-empty sequence of terms.  A token that is empty after its      *)
(* operators were removed is no term.                                                         \* CODE-DERIVED       *)
(* A bar is an operator only after a term and not directly after another bar; a trailing bar is dropped; an empty  *)
(* token after a bar keeps the group open.                                                    \* CODE-DERIVED       *)
RECURSIVE Grp(_, _, _, _, _, _)
Grp(toks, opts, sets, set, switch, afterBar) ==
    IF toks = <<>> THEN (IF set = <<>> THEN sets ELSE Append(sets, set))
    ELSE LET tok == Head(toks)  rest == Tail(toks)  term == Classify(tok, opts) IN
         IF set # <<>> /\ ~afterBar /\ tok = <<"|">> THEN Grp(rest, opts, sets, set, FALSE, TRUE)
         ELSE IF term.text = <<>> THEN Grp(rest, opts, sets, set, switch, FALSE)
         ELSE IF switch THEN Grp(rest, opts, Append(sets, set), <<term>>, TRUE, FALSE)
         ELSE Grp(rest, opts, sets, Append(set, term), TRUE, FALSE)
Groups(toks, opts) == Grp(toks, opts, <<>>, <<>>, FALSE, FALSE)

(* --no-extended: the whole query, blanks and operator characters included, is one fuzzy (or, with --exact, one    *)
(* exact) term; smart case and normalisation are decided on the whole query.                                       *)
BasicTerm(q, opts) == [inv |-> FALSE, kind |-> IF opts.fuzzy THEN "fuzzy" ELSE "exact",
                       text |-> FoldPattern(q, CaseSensitive(q, opts)), cs |-> CaseSensitive(q, opts),
                       norm |-> Normalizes(q, opts)]

ParseUnder(q, opts, devs) == IF opts.extended THEN Groups(TokensUnder(q, devs), opts) ELSE << <<BasicTerm(q, opts)>> >>
Parse(q, opts) == ParseUnder(q, opts, {})

-------------------------------------------------------------------------------
(* 4. When a term holds on a line - declaratively: there EXISTS an embedding / occurrence.                          *)
(* A line character c agrees with a pattern character p iff Fold(c) = p: lower-cased unless the term is case-      *)
(* sensitive, accent-folded if the term normalises.                                                                 *)
Fold(c, t) == LET l == IF t.cs THEN c ELSE Lower(c) IN IF t.norm THEN Norm(l) ELSE l
FoldLine(line, t) == [i \in 1..Len(line) |-> Fold(line[i], t)]

(* fuzzy: the pattern is a subsequence.  Definition: *)
Embeddings(m, n) == {f \in [1..m -> 1..n] : \A k \in 1..m - 1 : f[k] < f[k + 1]}
EmbedsDecl(pat, L) == \E f \in Embeddings(Len(pat), Len(L)) : \A k \in 1..Len(pat) : L[f[k]] = pat[k]
(* ... evaluated by the leftmost-greedy scan (theorem GreedyIsDecl in MC_Query: the two are equal) *)
RECURSIVE SubseqFrom(_, _, _, _)
SubseqFrom(pat, k, L, i) == IF k > Len(pat) THEN TRUE ELSE IF i > Len(L) THEN FALSE
                            ELSE IF L[i] = pat[k] THEN SubseqFrom(pat, k + 1, L, i + 1) ELSE SubseqFrom(pat, k, L, i + 1)
Embeds(pat, L) == SubseqFrom(pat, 1, L, 1)

(* the pattern occurs in L right after the first s characters *)
OccursAt(pat, L, s) == s >= 0 /\ s + Len(pat) <= Len(L) /\ \A k \in 1..Len(pat) : L[s + k] = pat[k]

(* 'body': "both ends at the word boundaries ... this also sees an underscore as a word boundary": the characters  *)
(* next to the occurrence are not word characters (letters, digits), or the line ends there.                        *)
(* For a body that itself begins/ends with a non-word character the same rule is used.        \* CODE-DERIVED       *)
OutsideWord(line, i) == i < 1 \/ i > Len(line) \/ ~IsWordClass(Class(line[i], "default"))

(* ^body / body$ / ^body$: "lines that start with or end with the given string".  White space at that end of the   *)
(* line is skipped unless the body itself begins (ends) with white space.                      \* CODE-DERIVED      *)
TermHolds(t, line, devs) ==
    LET L == FoldLine(line, t)   pat == t.text   m == Len(t.text)   n == Len(line)
        lead  == IF IsSpace(pat[1]) THEN 0 ELSE LeadWS(line)
        trail == IF IsSpace(pat[m]) THEN 0 ELSE TrailWS(line)
    IN CASE t.kind = "fuzzy"    -> Embeds(pat, L)
         [] t.kind = "exact"    -> \E s \in 0..(n - m) : OccursAt(pat, L, s)
         [] t.kind = "boundary" -> IF "F1" \in devs /\ m > 1 THEN FALSE
                                   ELSE \E s \in 0..(n - m) : /\ OccursAt(pat, L, s)
                                                              /\ OutsideWord(line, s) /\ OutsideWord(line, s + m + 1)
         [] t.kind = "prefix"   -> OccursAt(pat, L, lead)
         [] t.kind = "suffix"   -> OccursAt(pat, L, n - trail - m)
         [] t.kind = "equal"    -> n - lead - trail = m /\ OccursAt(pat, L, lead)

(* 5. The property.  A line satisfies a pattern iff every group has a term whose truth differs from its negation. *)
GroupHolds(g, line, devs) == \E i \in 1..Len(g) : TermHolds(g[i], line, devs) # g[i].inv
PatMatches(p, line, devs) == \A j \in 1..Len(p) : GroupHolds(p[j], line, devs)

Matches(q, line, opts) == PatMatches(Parse(q, opts), line, {})
MatchesUnder(q, line, opts, devs) == PatMatches(ParseUnder(q, opts, devs), line, devs)
(* filter mode (--filter): exit status 0 iff something matched, else 1 *)
FilterExit(matchSet) == IF matchSet = {} THEN 1 ELSE 0

-------------------------------------------------------------------------------
(* 6. What the result caches rely on (pattern.go: cacheable / buildCacheKey / sortable, cache.go).  \* CODE-DERIVED *)
(* Used by FzfPipeline (C08).  A result list stored under CacheKey(P) for a cacheable P may be used as the search  *)
(* space of any Q whose key has CacheKey(P) as a proper prefix or suffix (theorem NarrowingSound in MC_Query).     *)
PlainKind(opts) == IF opts.fuzzy THEN "fuzzy" ELSE "exact"
Cacheable(q, opts) == ~opts.extended \/
    LET p == Parse(q, opts) IN \A j \in 1..Len(p) : Len(p[j]) = 1 /\ ~p[j][1].inv /\ p[j][1].kind = PlainKind(opts)
RECURSIVE JoinTab(_)
JoinTab(ts) == IF ts = <<>> THEN <<>> ELSE IF Len(ts) = 1 THEN ts[1] ELSE ts[1] \o <<"TAB">> \o JoinTab(Tail(ts))
CacheKey(q, opts) ==
    IF ~opts.extended THEN BasicTerm(q, opts).text
    ELSE LET p == Parse(q, opts)
             keep == SelectSeq(p, LAMBDA g : Len(g) = 1 /\ ~g[1].inv /\ (opts.fuzzy \/ g[1].kind = "exact"))
         IN JoinTab([j \in 1..Len(keep) |-> keep[j][1].text])
(* results are ranked only if some term is positive *)
Sortable(q, opts) == ~opts.extended \/ LET p == Parse(q, opts) IN \E j \in 1..Len(p) : \E i \in 1..Len(p[j]) : ~p[j][i].inv
ProperPrefix(s, t) == Len(s) < Len(t) /\ SubSeq(t, 1, Len(s)) = s
ProperSuffix(s, t) == Len(s) < Len(t) /\ SubSeq(t, Len(t) - Len(s) + 1, Len(t)) = s
================================================================================
