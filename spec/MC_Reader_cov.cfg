CONSTANTS
  BufferSize = 3
  SlabSize = 6
  MaxRecords = 3
  RecLens <- MCLens
  Exhaustive = TRUE
INIT GInit
NEXT GNextMC
INVARIANTS TypeOK EmittedIsPrefix EmittedIsTimely CompleteAtEof LeftoverIsPending CursorIsPos AliasFaithful
           NoRegionLentTwice LentIsWhatItemsHold LentBelowCursor
PROPERTIES NoOverwrite ItemsImmutable
CHECK_DEADLOCK FALSE
