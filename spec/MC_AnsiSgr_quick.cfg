CONSTANTS
  AlphaSeq <- AlphaFull
  Prefix <- PrefNone
  MaxLen = 2
  Pres = {0, 1}
  Depth = 0
INIT SInit
NEXT SNext
INVARIANTS SWellFormed SDevLocal SInvisible
CHECK_DEADLOCK FALSE
