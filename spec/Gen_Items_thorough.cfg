CONSTANTS
  Thorough = TRUE
  Part = "content"
INIT GInit
NEXT GNext
INVARIANTS Emit
CHECK_DEADLOCK FALSE
