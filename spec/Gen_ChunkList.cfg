CONSTANTS
  ChunkSize = 100
  HeaderChoices = {0, 1, 3}
  TailChoices <- GenTails
  PushSizes <- GenPush
  MaxPushed = 100000
  MaxSnaps = 100
INIT GInit
NEXT GNext
INVARIANTS Emit
CONSTRAINT GBound
CHECK_DEADLOCK FALSE
