CONSTANTS
  Thorough = TRUE
  Part = "presentation"
INIT GInit
NEXT GNext
INVARIANTS Emit
CHECK_DEADLOCK FALSE
