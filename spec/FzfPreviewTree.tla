--------------------------- MODULE FzfPreviewTree ---------------------------
(* THE ONE SWITCH that says which previewer the checked tree has (read by every MC_Preview*.cfg that does not pin   *)
(* the constant on purpose, and by Trace_Preview.cfg, through `DelayedSetsVersion <- TreeDelayedSetsVersion`).        *)
(*                                                                                                                    *)
(*   TRUE   src/terminal.go handles reqPreviewDelayed with `t.previewer.version = value.(int64)` (the pinned tree):  *)
(*          the deviation StaleRows of FzfPreview (finding F24) is possible; sessions it explains are reported with   *)
(*          the finding's signature                                                                                    *)
(*   FALSE  the repaired tree (the version is handed to printPreviewDelayed instead): StaleRows is impossible - in    *)
(*          FzfPreview by invariant DelayedFixed, in Trace_Preview because the reading "t.previewer.version may be    *)
(*          the running command's version already" is not offered; a tree that still behaves the old way is rejected  *)
(*                                                                                                                    *)
(* The environment variable VERIF_C20_DELAYED_SETS_VERSION (1 / 0) overrides the default for one run (scratch trees). *)
EXTENDS IOUtils

TreeDefault == FALSE

TreeDelayedSetsVersion == IF "VERIF_C20_DELAYED_SETS_VERSION" \in DOMAIN IOEnv
                          THEN IOEnv.VERIF_C20_DELAYED_SETS_VERSION = "1"
                          ELSE TreeDefault
=============================================================================
