CONSTANTS
  AlphaOf <- ExprAlpha
  MaxLenOf <- Len4
  DelimSet <- AwkOnly
INIT Init
NEXT Next
INVARIANTS EmitParse
CHECK_DEADLOCK FALSE
