CONSTANTS
  Universe <- DocUniverse
  Bodies <- DocBodies
  OptSet <- ExtOpts
  MaxTerms = 1
  RawAlpha <- DocAlpha
  MaxSyms = 0
INIT Init
NEXT Next
INVARIANT Emit
CHECK_DEADLOCK FALSE
