CONSTANTS
  MaxItems = 4
  ChunkSize = 2
  QueryCacheMax = 1
  MaxEdits = 2
  Queries = {"", "a", "b", "ab"}
  MaxReloads = 1
  TailN = 0
  BumpOnTrim = TRUE
  StalePrevCount = FALSE
  AllowOlder = TRUE
SPECIFICATION Spec
INVARIANTS PublishedIsFilter ShownIsFilter MergerCacheSound ChunkCacheSound ConvergenceStrict
CHECK_DEADLOCK FALSE
