------------------------------ MODULE MC_Query ------------------------------
(* FzfQuery on bounded spaces:                                                                                   *)
(*   MC_Query*.cfg        sanity theorems of the specification itself (a query typed term by term)               *)
(*   Gen_Query*.cfg       export: per (query, options) the ids of the lines of a fixed universe that match,       *)
(*                        replayed on the real BuildPattern/MatchItem and on the real binary in filter mode       *)
EXTENDS FzfQuery, Json, IOUtils

CONSTANTS Universe,     \* sequence of lines; a line id is an index into it
          Bodies,       \* set of term bodies as typed (symbol sequences; `\ ` = escaped blank)
          OptSet,       \* set of option records
          MaxTerms,     \* bound on the number of typed terms
          RawAlpha,     \* symbols typed one at a time by the raw generators (corner / non-extended classes)
          MaxSyms       \* bound on the length of a raw query

-----------------------------------------------------------------------------
(* universes: all strings up to a length over an alphabet, shortest first, then in alphabet order *)
RECURSIVE Pow(_, _), WordsUpTo(_, _)
Pow(b, e) == IF e = 0 THEN 1 ELSE b * Pow(b, e - 1)
WordsOf(alpha, n) == LET b == Len(alpha) IN
    [k \in 1..Pow(b, n) |-> [j \in 1..n |-> alpha[(((k - 1) \div Pow(b, n - j)) % b) + 1]]]
WordsUpTo(alpha, n) == IF n = 0 THEN WordsOf(alpha, 0) ELSE WordsUpTo(alpha, n - 1) \o WordsOf(alpha, n)
SeqToSet(s) == {s[i] : i \in 1..Len(s)}

DocAlpha    == <<"a", "A", "b", "a~", " ", "-">>
DocUniverse == WordsUpTo(DocAlpha, 4)                                  \* 1555 lines
CornerAlphaAll == <<"a", "'", "$", "^", "!", "|", "\\", " ">>
CornerUniverse == WordsUpTo(CornerAlphaAll, 3)                         \* 585 lines
MCUniverse  == WordsUpTo(<<"a", "A", "b", "a~", " ">>, 3)              \* 156 lines (model checking of the theorems)

ExtOpts   == [fuzzy : BOOLEAN, extended : {TRUE}, case : CaseModes, normalize : BOOLEAN]
BasicOpts == [fuzzy : BOOLEAN, extended : {FALSE}, case : CaseModes, normalize : BOOLEAN]
AllOpts   == ExtOpts \cup BasicOpts
CornerOpts == [fuzzy : BOOLEAN, extended : BOOLEAN, case : {"smart"}, normalize : {TRUE}]

Letters1 == {<<"a">>, <<"b">>, <<"A">>, <<"a~">>}
Letters2 == {x \o y : x \in Letters1, y \in Letters1}
DocBodies == Letters1 \cup Letters2 \cup {<<"a", "\\", " ", "b">>, <<"\\", " ", "a">>, <<"a", "\\", " ">>, <<"-", "a">>}
MCBodies  == {<<"a">>, <<"A">>, <<"a~">>, <<"a", "b">>, <<"b", "A">>, <<"a", "\\", " ">>}
MCBodiesQ == {<<"a">>, <<"A">>, <<"a~">>, <<"a", "b">>}
MCQuickOpts == {o \in ExtOpts : o.case # "respect" /\ (o.normalize \/ (o.fuzzy /\ o.case = "smart"))}   \* 5 of 12

-----------------------------------------------------------------------------
(* The model: a query typed term by term.  terms[k] = [conn, inv, shape, body]; conn says how it was attached:  *)
(* "and" (after a blank), "or" (after ` | `), or "raw" (body is one symbol appended as is: raw generators).        *)
VARIABLES opt, terms
vars == <<opt, terms>>

TokOf(t) == DocToken(t.inv, t.shape, t.body)
RECURSIVE QueryOf(_)
QueryOf(ts) == IF ts = <<>> THEN <<>>
               ELSE IF Len(ts) = 1 \/ Last(ts).conn = "raw" THEN QueryOf(Front(ts)) \o TokOf(Last(ts))
               ELSE QueryOf(Front(ts)) \o (IF Last(ts).conn = "or" THEN <<" ", "|", " ">> ELSE <<" ">>) \o TokOf(Last(ts))
q == QueryOf(terms)

TermSpace == [inv : BOOLEAN, shape : DocShapes, body : Bodies]
Init == opt \in OptSet /\ terms = <<>>
Attach(conn, t) == terms' = Append(terms, [conn |-> conn, inv |-> t.inv, shape |-> t.shape, body |-> t.body])
TypeAnd(t) == Len(terms) < MaxTerms /\ Attach("and", t) /\ UNCHANGED opt
TypeOr(t)  == terms # <<>> /\ Len(terms) < MaxTerms /\ Attach("or", t) /\ UNCHANGED opt
Next == \E t \in TermSpace : TypeAnd(t) \/ TypeOr(t)
(* raw typing, one symbol at a time: dangling operators, bars, backslashes and blanks anywhere *)
TypeRaw(c) == Len(terms) < MaxSyms /\ Attach("raw", [inv |-> FALSE, shape |-> <<"", "">>, body |-> <<c>>]) /\ UNCHANGED opt
RawNext == \E c \in SeqToSet(RawAlpha) : TypeRaw(c)

(* (TLC re-evaluates an overridden constant at every use: bind it once per evaluation) *)
MSof(p, U, devs) == {i \in 1..Len(U) : PatMatches(p, U[i], devs)}
MS(query, o, devs) == LET p == ParseUnder(query, o, devs)  U == Universe IN MSof(p, U, devs)
All == 1..Len(Universe)

-----------------------------------------------------------------------------
(* Theorems checked by TLC (MC_Query*.cfg) *)
(* the total classifier agrees with the documented table on every token of a documented shape, and such a token *)
(* alone is a one-term pattern                                                                                    *)
DocAgree == terms = <<>> =>
    \A t \in TermSpace : LET tok == Tokens(TokOf(t))[1]  body == Tokens(t.body)[1] IN
        /\ Tokens(TokOf(t)) = <<tok>>
        /\ Classify(tok, opt) = DocTerm(t.inv, t.shape, body, opt)
        /\ Classify(tok, opt).cs = (opt.case = "respect" \/ (opt.case = "smart" /\ HasUpper(body)))
        /\ Classify(tok, opt).norm = (opt.normalize /\ ~HasAccents(body))
        /\ Groups(<<tok>>, opt) = << <<Classify(tok, opt)>> >>
(* the greedy scan decides the existence of an embedding *)
SmallPats  == SeqToSet(WordsUpTo(<<"a", "b">>, 3))
SmallLines == SeqToSet(WordsUpTo(<<"a", "b", "c">>, 4))
GreedyIsDecl == (terms = <<>> /\ opt.fuzzy /\ opt.case = "smart" /\ opt.normalize) =>
    \A pat \in SmallPats : \A L \in SmallLines : Embeds(pat, L) = EmbedsDecl(pat, L)
(* the empty query matches everything; every line gets a verdict *)
EmptyMatchesAll == terms = <<>> => MS(q, opt, {}) = All
(* `!t` complements `t` (the term with the same reading: ! makes a plain term exact and a quoted one fuzzy) *)
NegTok(t) == IF t.shape = <<"", "">> /\ opt.extended /\ opt.fuzzy THEN DocToken(TRUE, <<"'", "">>, t.body)
             ELSE IF t.shape = <<"'", "">> /\ opt.extended /\ opt.fuzzy THEN DocToken(TRUE, <<"", "">>, t.body)
             ELSE DocToken(TRUE, t.shape, t.body)
NegComplements == (Len(terms) = 1 /\ ~terms[1].inv) => MS(NegTok(terms[1]), opt, {}) = All \ MS(q, opt, {})
(* typing a further AND term intersects the match set with that term's; typing a further OR alternative only    *)
(* adds lines, and only lines of that alternative (stated on the state reached by TypeAnd / TypeOr)               *)
AndIntersects == (Len(terms) >= 2 /\ Last(terms).conn = "and") =>
    MS(q, opt, {}) = MS(QueryOf(Front(terms)), opt, {}) \cap MS(TokOf(Last(terms)), opt, {})
OrWidens == (Len(terms) >= 2 /\ Last(terms).conn = "or") =>
    LET S == MS(q, opt, {})  Sprev == MS(QueryOf(Front(terms)), opt, {})  Slast == MS(TokOf(Last(terms)), opt, {})
    IN Sprev \subseteq S /\ S \subseteq Sprev \cup Slast /\ (Len(terms) = 2 => S = Sprev \cup Slast)
(* what the chunk cache relies on (cache.go Lookup / Search): a list cached under CacheKey(P) of a cacheable P     *)
(* is a sound search space for every Q whose key properly starts or ends with it, and the answer for an equal key *)
PlainToks == {DocToken(FALSE, <<"", "">>, b) : b \in Bodies}
PSet == PlainToks \cup {x \o <<" ">> \o y : x \in PlainToks, y \in PlainToks}
NarrowingSound == LET kq == CacheKey(q, opt) IN \A P \in PSet : LET kp == CacheKey(P, opt) IN
    (Cacheable(P, opt) /\ kp # <<>> /\ (ProperPrefix(kp, kq) \/ ProperSuffix(kp, kq)))
      => (PrintT(<<"NARROW", 1>>) /\ MS(q, opt, {}) \subseteq MS(P, opt, {}))       \* the print counts non-vacuous instances
LookupSound == Cacheable(q, opt) => LET kq == CacheKey(q, opt) IN \A P \in PSet :
    (Cacheable(P, opt) /\ kq # <<>> /\ CacheKey(P, opt) = kq) => (PrintT(<<"LOOKUP", 1>>) /\ MS(q, opt, {}) = MS(P, opt, {}))
(* the F1 deviation only ever removes lines from a positive long boundary term *)
F1OnlyRemoves == (Len(terms) = 1 /\ terms[1].shape = <<"'", "'">> /\ ~terms[1].inv) =>
    /\ MS(q, opt, {"F1"}) \subseteq MS(q, opt, {})
    /\ (Len(Tokens(terms[1].body)[1]) > 1 => MS(q, opt, {"F1"}) = {})

-----------------------------------------------------------------------------
(* Export (Gen_Query*.cfg).  The smaller of the match set and its complement is printed. *)
Compact(S, n) == IF 2 * Cardinality(S) > n THEN [neg |-> TRUE, ids |-> (1..n) \ S] ELSE [neg |-> FALSE, ids |-> S]
HasLongBoundary(p) == \E j \in 1..Len(p) : \E i \in 1..Len(p[j]) : p[j][i].kind = "boundary" /\ Len(p[j][i].text) > 1
CaseRec(cls, query, o) ==
    LET p == Parse(query, o)
        U == Universe
        S == MSof(p, U, {})
    IN [cls |-> cls, q |-> query, o |-> o, m |-> Compact(S, Len(U)), exit |-> FilterExit(S), nterms |-> Len(p),
        ckey |-> CacheKey(query, o), cacheable |-> Cacheable(query, o), sortable |-> Sortable(query, o),
        hasf1 |-> HasLongBoundary(p),           \* the F1 deviation applies: f1 = what a build with that defect reports
        f1 |-> IF HasLongBoundary(p) THEN Compact(MSof(p, U, {"F1"}), Len(U)) ELSE [neg |-> FALSE, ids |-> {}],
        f1exit |-> IF HasLongBoundary(p) THEN FilterExit(MSof(p, U, {"F1"})) ELSE 1]
ASSUME PrintT(<<"UNIV", ToJson(Universe)>>)
(* the symbol tables this module relies on, bound to unicode.* / algo by TestVerifQueryChars *)
CharTable == [s \in AllSymbols |-> [lower |-> Lower(s), norm |-> Norm(s), space |-> IsSpace(s),
                                     word |-> IsWordClass(Class(s, "default"))]]
ASSUME PrintT(<<"CHARS", ToJson(CharTable)>>)

GenClass == IOEnv.GEN_CLASS
Emit == PrintT(<<"CASE", ToJson(CaseRec(GenClass, q, opt))>>)
EmitNonEmpty == terms # <<>> => Emit            \* for -simulate: the empty query is exported by the exhaustive runs
=============================================================================
