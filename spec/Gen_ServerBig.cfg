INIT GInitBig
NEXT GNextNone
INVARIANT EmitBig
CHECK_DEADLOCK FALSE
