\* E binding, thorough, lines with TABs: window width x tabstop x configuration x pattern with the predicted rows
CONSTANTS
  Widths = {20, 21, 22, 23, 24, 25, 26, 27, 28, 29, 30, 31, 32, 43}
  Heights = {8, 11}
  Layouts = {"default", "reverse"}
  Infos = {"default"}
  Seps = {TRUE}
  Headers <- MCHeadersC0
  Hlines <- MCHlinesC0
  HeaderFirsts = {FALSE}
  Inputless = {FALSE}
  Pointers <- MCPointers
  Markers <- MCMarkers
  Ellipses <- MCEllipses
  Lists <- MCListsT
  Multis = {0}
  Queries <- MCQueriesC
  MaxCount = 8
  Tracks = {0}
  Hscrolls = {TRUE, FALSE}
  HscrollOffs = {0, 10}
  KeepRights = {TRUE, FALSE}
  Scrollbars <- MCScrollbars
  Borders = {TRUE, FALSE}
  Tabstops = {1, 3, 4, 8}
  Patterns <- MCPatternsNone
  Acts = {}
INIT GenInitT
NEXT GenNextT
INVARIANTS GenCaseT InvClaims InvFrame InvTextRoom InvGenTDetermined
CHECK_DEADLOCK FALSE
