------------------------------- MODULE AlgoEnum -------------------------------
(* Variable-free enumeration of matcher inputs: index -> (text, pattern, cs, norm, scheme) over class-covering   *)
(* alphabets, shared by MC_Algo (exhaustive walk) and MC_AlgoSlab (random call histories).                       *)
EXTENDS FzfAlgoV2
CONSTANTS MaxT,       \* longest text
          MaxP        \* longest pattern

(* text alphabet / pattern alphabet pairs; together they cover every character class, both cases, accents,       *)
(* scheme-dependent delimiters, the underscore rule and blanks at the edges                                      *)
(* xt / xp: how much longer than MaxT / MaxP the texts / patterns over this alphabet may be                     *)
Alphas == << [t |-> <<"a", "b", "A", " ", "-">>,      p |-> <<"a", "b", "A", " ">>,      xt |-> 0, xp |-> 0],
             [t |-> <<"a", "B", "1", "/", ",">>,      p |-> <<"a", "b", "1", "/">>,      xt |-> 0, xp |-> 0],
             [t |-> <<"a", "a~", "A~", "_", "han">>,  p |-> <<"a", "a~", "A~", "han">>,  xt |-> 0, xp |-> 0],
             [t |-> <<"a", "b", "_", "TAB", "e~">>,   p |-> <<"a", "b", "_", "e">>,      xt |-> 0, xp |-> 0],
             [t |-> <<"a", "A", "b", "B", "1", " ">>, p |-> <<"a", "b", "B">>,           xt |-> 0, xp |-> 0],
             [t |-> <<"a", "b">>,                     p |-> <<"a", "b">>,                xt |-> 3, xp |-> 1] >>

RECURSIVE Pow(_, _), NumStr(_, _), StrOf(_, _)
Pow(k, n) == IF n = 0 THEN 1 ELSE k * Pow(k, n - 1)
NumStr(k, l) == IF l = 0 THEN 1 ELSE Pow(k, l) + NumStr(k, l - 1)        \* strings of length <= l over k symbols
StrOf(alpha, n) == IF n = 0 THEN <<>>                                    \* bijective base-k numeration
                   ELSE Append(StrOf(alpha, (n - 1) \div Len(alpha)), alpha[((n - 1) % Len(alpha)) + 1])

NT(a) == NumStr(Len(Alphas[a].t), MaxT + Alphas[a].xt)
NP(a) == NumStr(Len(Alphas[a].p), MaxP + Alphas[a].xp)
NFlags == 12
Total(a) == NT(a) * NP(a) * NFlags

Dirs == <<TRUE, FALSE>>
HasAccents(a) == \E i \in 1..Len(Alphas[a].t) : HasAccent(Alphas[a].t[i])
CaseArgs(a, i) ==
    LET t == StrOf(Alphas[a].t, i % NT(a))
        p == StrOf(Alphas[a].p, (i \div NT(a)) % NP(a))
        fl == i \div (NT(a) * NP(a))
        cs == fl % 2 = 1
        nrm == (fl \div 2) % 2 = 1
        (* cases outside the contract of the matchers are skipped; normalisation is only crossed where an accent exists *)
    IN [t |-> t, p |-> p, cs |-> cs, norm |-> nrm, sch |-> Schemes[(fl \div 4) + 1],
        live |-> Admissible(p, cs, nrm) /\ (nrm => HasAccents(a))]
(* the case with the result of every matcher in both directions (no slab) *)
CaseOf(a, i) ==
    LET c == CaseArgs(a, i) IN
    [t |-> c.t, p |-> c.p, cs |-> c.cs, norm |-> c.norm, sch |-> c.sch, live |-> c.live,
     r |-> IF ~c.live THEN <<>>
           ELSE [n \in 1..(2 * Len(Kinds)) |-> F(Kinds[(n + 1) \div 2], c.t, c.p, c.cs, c.norm, Dirs[2 - (n % 2)], c.sch, -1)]]
================================================================================
