CONSTANTS
  Sample = 1
  SimDepth = 0
INIT Init
NEXT Next
INVARIANTS TypeOK ConcatLaw LastWins LaterWins ErrorsStick Emit EmitSpecials
CHECK_DEADLOCK FALSE
