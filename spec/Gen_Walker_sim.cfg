CONSTANTS
  Names <- MCNames
  MaxNodes = 5
  AllowDangling = FALSE
  CheckSkips = {1}
  FullUpTo = 0
  MinNodes = 4
INIT Init
NEXT Next
INVARIANTS Emit
CHECK_DEADLOCK FALSE
