CONSTANTS
  Universe <- DocUniverse
  Bodies <- DocBodies
  OptSet <- BasicOpts
  MaxTerms = 0
  RawAlpha <- DocAlpha
  MaxSyms = 3
INIT Init
NEXT RawNext
INVARIANT Emit
CHECK_DEADLOCK FALSE
