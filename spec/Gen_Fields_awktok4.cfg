CONSTANTS
  AlphaOf <- AwkTokAlpha
  MaxLenOf <- Len4
  DelimSet <- AwkUOnly
INIT Init
NEXT Next
INVARIANTS InvPartition EmitTok
CHECK_DEADLOCK FALSE
