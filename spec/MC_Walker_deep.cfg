CONSTANTS
  Names <- MCNames3
  MaxNodes = 4
  AllowDangling = TRUE
  CheckSkips = {1, 2, 3, 4, 5, 6, 7, 8}
  FullUpTo = 0
  MinNodes = 99
INIT Init
NEXT Next
INVARIANTS TypeOK Acyclic InvDesign InvAlgebra InvUnderRoot
CHECK_DEADLOCK FALSE
