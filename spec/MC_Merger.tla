------------------------------ MODULE MC_Merger ------------------------------
(* Exhaustive configurations and case export for FzfMerger. *)
EXTENDS FzfMerger, Json, TLC

(* keys for the exhaustive configurations: two criteria with two values each / three with two *)
MCKeys2 == {<<a, b, 0, 0>> : a \in {0, 1}, b \in {0, 1}} \ {<<1, 1, 0, 0>>}
MCKeys3 == {<<a, b, c, 0>> : a \in {0, 1}, b \in {0, 1}, c \in {0, 1}}
(* keys for the exported behaviours: every slot used, byte-order sensitive values, extremes *)
GenKeys == {<<0, 0, 0, 0>>, <<0, 0, 0, 1>>, <<0, 0, 1, 0>>, <<0, 1, 0, 0>>, <<1, 0, 0, 0>>,
            <<0, 256, 0, 0>>, <<0, 255, 65535, 0>>, <<65535, 0, 0, 0>>}

VARIABLES hist,   \* export only: the probes so far with the value the model returned
          fn      \* function-shaped cases (pass-through arithmetic, partitioning) or "none"

-------------------------------------------------------------------------------
(* (1) the merger state machine, exhaustively *)
MInit == Init /\ hist = <<>> /\ fn = [kind |-> "none"]
MAddMatch == (\E k \in KeySpace, p \in Parts : AddMatch(k, p)) /\ UNCHANGED <<hist, fn>>
MAddMiss == AddMiss /\ UNCHANGED <<hist, fn>>
MStart == Start /\ UNCHANGED <<hist, fn>>
MGet == (\E i \in 0..(MaxLines - 1) : Get(i)) /\ UNCHANGED <<hist, fn>>
MNext == MAddMatch \/ MAddMiss \/ MStart \/ MGet

-------------------------------------------------------------------------------
(* (2) function-shaped parts, exhaustively on small chunk sizes *)
CONSTANTS FnChunkSizes, FnMaxChunks, FnMaxN, FnParts
Layouts(C, maxChunks) ==
    {<<f>> : f \in 1..C} \cup
    UNION {{[i \in 1..k |-> IF i = 1 THEN f ELSE IF i = k THEN g ELSE C] : f \in 1..C, g \in 1..C} : k \in 2..maxChunks}
MergerIdle == /\ lists = [p \in Parts |-> <<>>] /\ cursors = [p \in Parts |-> 0] /\ merged = <<>>
              /\ sorted = FALSE /\ tac = FALSE /\ started = FALSE /\ nlines = 0 /\ lastIdx = -1 /\ last = NoItem
FInit == /\ MergerIdle /\ hist = <<>>
         /\ \/ \E C \in FnChunkSizes : \E c \in Layouts(C, FnMaxChunks) : \E t \in BOOLEAN :
                   fn = [kind |-> "pass", C |-> C, counts |-> c, tac |-> t]
            \/ \E n \in 0..FnMaxN, P \in FnParts : fn = [kind |-> "part", n |-> n, P |-> P]
FNext == UNCHANGED <<vars, hist, fn>>
FnCorrect == CASE fn.kind = "none" -> TRUE
               [] fn.kind = "pass" -> /\ ValidLayout(fn.counts, fn.C)
                                      /\ PassCorrect(fn.counts, fn.C, fn.tac)
                                      /\ CountItems(fn.counts, fn.C) = SumSeq(fn.counts)
               [] fn.kind = "part" -> PartitionOK(fn.n, fn.P)

-------------------------------------------------------------------------------
(* (3) export: merger behaviours (TLC -simulate): partitioned runs, a probe sequence, what each probe returns, *)
(* and the whole ranked list *)
CONSTANT GenProbes
ItemJ(it) == [key |-> it.key, index |-> it.index]
GInit == Init /\ hist = <<>> /\ \E n \in 0..MaxLines : fn = [kind |-> "gen", target |-> n]
GNext == \/ nlines < fn.target /\ (\E k \in KeySpace, p \in Parts : AddMatch(k, p)) /\ UNCHANGED <<hist, fn>>
         \/ nlines < fn.target /\ AddMiss /\ UNCHANGED <<hist, fn>>
         \/ nlines = fn.target /\ Start /\ UNCHANGED <<hist, fn>>
         \/ \E i \in 0..(MaxLines - 1) : Get(i) /\ hist' = Append(hist, [i |-> i, exp |-> last'.index,
                                                                         merged |-> Len(merged')])
                                          /\ UNCHANGED fn
GEmit == Len(hist) = GenProbes =>
           PrintT(<<"CASE", ToJson([sorted |-> sorted, tac |-> tac,
                                    lists |-> [p \in Parts |-> [j \in 1..Len(lists[p]) |-> ItemJ(lists[p][j])]],
                                    probes |-> hist,
                                    ranked |-> [j \in 1..Len(Expected) |-> Expected[j].index]])>>)
GBound == Len(hist) <= GenProbes

(* export: pass-through and partition cases at the real chunk size *)
RealChunk == 100          \* constants.go chunkSize
PassFirsts == {1, 37, 99, 100}
PassLasts == {1, 50, 100}
PassMaxChunks == 4
PartNs == 0..70 \cup {96, 97, 100, 223, 224, 225, 300}
PartPs == {1, 2, 3, 7, 8, 16, 32}
PassLayouts == {<<f>> : f \in PassFirsts} \cup
               UNION {{[i \in 1..k |-> IF i = 1 THEN f ELSE IF i = k THEN g ELSE RealChunk] :
                            f \in PassFirsts, g \in PassLasts} : k \in 2..PassMaxChunks}
XInit == /\ MergerIdle /\ hist = <<>>
         /\ \/ \E c \in PassLayouts : \E t \in BOOLEAN : fn = [kind |-> "pass", C |-> RealChunk, counts |-> c, tac |-> t]
            \/ \E n \in PartNs, P \in PartPs : fn = [kind |-> "part", n |-> n, P |-> P]
XEmit == PrintT(<<"FCASE", ToJson(
            IF fn.kind = "pass"
              THEN [kind |-> "pass", counts |-> fn.counts, tac |-> fn.tac, count |-> CountItems(fn.counts, fn.C),
                    exp |-> [j \in 1..SumSeq(fn.counts) |->
                               SlotPosition(fn.counts, PassLocate(fn.counts, fn.C, fn.tac, j - 1))]]
              ELSE [kind |-> "part", n |-> fn.n, P |-> fn.P, exp |-> Partition(fn.n, fn.P)])>>)
================================================================================
