CONSTANTS
  MaxItems = 5
  ChunkSize = 2
  QueryCacheMax = 1
  MaxEdits = 2
  Queries = {"", "a", "b", "ab"}
  MaxReloads = 0
  TailN = 3
  BumpOnTrim = TRUE
  StalePrevCount = FALSE
  AllowOlder = FALSE
SPECIFICATION Spec
INVARIANTS PublishedIsFilter ShownIsFilter MergerCacheSound ChunkCacheSound Convergence SnapshotIsWindow
PROPERTY Liveness
CHECK_DEADLOCK FALSE
