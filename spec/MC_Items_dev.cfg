CONSTANTS
  Alpha <- AlphaSmall
  MaxLen = 2
  MaxRecs = 1
  Variants <- VarDev
  Dev = "KeepOrigIfDiffers"
INIT Init
NEXT Next
INVARIANTS InvContent
CHECK_DEADLOCK FALSE
