CONSTANTS
  Queries <- GenQueries
  InitFiles <- GenInitFiles
  MaxSizes <- MCMax
  MaxSessions = 0
INIT GInit
NEXT GNext
INVARIANTS Emit TypeOK
CONSTRAINT GBound
CHECK_DEADLOCK FALSE
