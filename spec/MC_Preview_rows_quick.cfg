CONSTANTS
  MaxUI = 2
  Kinds = {"finite", "endless"}
  ShowBumpsVersion = TRUE
  TemplateHasQ = TRUE
  H = 2
  LensKind = "mixed"
  WithScroll = TRUE
  DelayedSetsVersion <- TreeDelayedSetsVersion
SPECIFICATION Spec
INVARIANTS TypeOK OneAlive ShownIsStarted Convergence ShowFixed DelayedFixed RowsOfOneRequest ExitClean
CHECK_DEADLOCK FALSE
