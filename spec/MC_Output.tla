---------------------------- MODULE MC_Output ----------------------------
(* A session as a small state machine (selection history, print queue, cursor) ended at any moment in any way:    *)
(* framing properties of FzfOutput checked in every state for every way of ending.                                *)
EXTENDS FzfOutput

Items == << <<[t |-> "txt", s |-> "a"]>>,
            <<[t |-> "txt", s |-> " b "], [t |-> "delim", s |-> ","], [t |-> "sgr", s |-> "{ESC}[1m"], [t |-> "txt", s |-> "z"]>>,
            <<>>,
            <<[t |-> "txt", s |-> "c"], [t |-> "delim", s |-> ","], [t |-> "txt", s |-> "d"], [t |-> "delim", s |-> ","]>> >>
Opts == [printQuery : BOOLEAN, expect : BOOLEAN, print0 : {FALSE}, ansi : BOOLEAN, acceptNth : {0, 1, -1, 3}, withNth : {0}, multi : {TRUE}]

VARIABLES o, sel, cur, pq
vars == <<o, sel, cur, pq>>
Init == o \in Opts /\ sel = <<>> /\ cur \in {-1, 0, 1, 2, 3} /\ pq = <<>>
Toggle(i) == /\ sel' = IF \E k \in 1..Len(sel) : sel[k] = i THEN SelectSeq(sel, LAMBDA x : x # i) ELSE Append(sel, i)
             /\ UNCHANGED <<o, cur, pq>>
Move(i) == cur' = i /\ UNCHANGED <<o, sel, pq>>
PrintAct(x) == Len(pq) < 2 /\ pq' = Append(pq, x) /\ UNCHANGED <<o, sel, cur>>
Next == (\E i \in 0..3 : Toggle(i) \/ Move(i)) \/ (\E x \in {"p", ""} : PrintAct(x))

FinNow(how) == [how |-> how, query |-> "q", sel |-> sel, current |-> cur, printQueue |-> pq, pressed |-> "ctrl-x"]
L(how) == Lines(o, FinNow(how), Items)
Prefix == (IF o.printQuery THEN 1 ELSE 0) + (IF o.expect THEN 1 ELSE 0) + Len(pq)
(* accept: query line, expect line, print queue, then the selection in selection order - each selected item once - *)
(* or else the current line; status 0 iff an item line was printed                                                 *)
InvClose == /\ Len(L("close")) = Prefix + (IF sel # <<>> THEN Len(sel) ELSE IF cur # -1 THEN 1 ELSE 0)
            /\ \A k \in 1..Len(sel) : L("close")[Prefix + k] = Printed(Items[sel[k] + 1], o)
            /\ (o.printQuery => L("close")[1] = "q")
            /\ (Status(o, FinNow("close")) = 0) = (Len(L("close")) > Prefix)
            /\ Status(o, FinNow("close")) \in {0, 1}
InvQuit == L("quit") = <<>> /\ Status(o, FinNow("quit")) = 130
InvPrintQuery == L("printquery") = <<"q">> /\ Status(o, FinNow("printquery")) = 0
(* the printed form without --accept-nth is the record itself, minus escape sequences under --ansi *)
InvOriginal == \A i \in 1..Len(Items) : /\ Shown(Items[i], FALSE) = Rec(Items[i])
                                          /\ Shown(Items[i], TRUE) = Plain(Items[i])
                                          /\ (\A k \in 1..Len(Items[i]) : Items[i][k].t # "sgr") => Plain(Items[i]) = Rec(Items[i])
=============================================================================
