CONSTANTS
  AlphaSeq <- AlphaFull
  Prefix <- PrefNone
  MaxLen = 4
  Pres = {0, 1}
  Depth = 0
INIT BInit
NEXT BNext
INVARIANTS BFixedPoint BOnlyRemoves BCornerIsLocal BColourShape BCarryThrough BPreLineSets
CHECK_DEADLOCK FALSE
