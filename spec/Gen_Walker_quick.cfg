CONSTANTS
  Names <- MCNames
  MaxNodes = 3
  AllowDangling = FALSE
  CheckSkips = {1}
  FullUpTo = 2
  MinNodes = 0
INIT Init
NEXT Next
INVARIANTS Emit
CHECK_DEADLOCK FALSE
