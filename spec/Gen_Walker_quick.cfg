CONSTANTS
  Names <- MCNames
  MaxNodes = 3
  AllowDangling = FALSE
  AllowCycles = TRUE
  CheckSkips = {1}
  FullUpTo = 2
  OnlyCyclic = FALSE
  MinNodes = 0
INIT Init
NEXT Next
INVARIANTS Emit
CHECK_DEADLOCK FALSE
