INIT JInit
NEXT JNext
INVARIANT JInv
CHECK_DEADLOCK FALSE
