------------------------------- MODULE FzfScreen -------------------------------
(* What the finder draws, as a function of its state: Render(s, g, c) = the rows of the terminal, top to bottom, *)
(* for the comparable configuration  --no-color --no-unicode, no margin / padding / preview, single-line items,   *)
(* full screen in a g.w x g.h terminal, optionally inside --border (src/terminal.go printPrompt, printInfoImpl,    *)
(* printHeaderImpl, printList, printItem, printHighlighted, printBar, move, promptLine, maxItems, resizeWindows).  *)
(*                                                                                                                 *)
(* A text is a sequence of CELLS; a cell is a string holding one character.  Rows are texts without trailing      *)
(* blanks (a terminal cannot tell a blank from nothing); inside a border rows are framed and keep their width.    *)
(*   g = [w, h, wide, zero]      terminal size; the sets of cells that are two columns wide / zero columns wide   *)
(*   c = [layout, info, sep, header, hlines, headerFirst, inputless, prompt, pointer, marker, ellipsis,           *)
(*        hscroll, hscrollOff, keepRight, scrollbar, border, tabstop]                                              *)
(*        layout in {"default","reverse","reverse-list"}; info in {"default","inline","hidden","right",           *)
(*        "inline-right"}; sep: a separator is drawn (FALSE = --no-separator); header: the lines of --header;     *)
(*        hlines: the --header-lines=N rows: the first N input records (CODE-DERIVED: N rows stay reserved, blank, *)
(*        when the input has fewer records); prompt/pointer/marker/ellipsis: texts; inputless: --no-input given;  *)
(*        hscroll (FALSE = --no-hscroll), hscrollOff (--hscroll-off, default 10), keepRight (--keep-right);       *)
(*        scrollbar: the scrollbar character as a text (<<>> = --no-scrollbar); border: --border (a box);         *)
(*        tabstop: --tabstop (default 8): the distance of the tab stops a TAB character in a line advances to     *)
(*   s = [input, cx, xoffset, list, texts, sel, multi, cy, offset, count, track, showHeader, hideInput, pattern]  *)
(*        list: result ids in rank order, texts[i] the line of list[i]; sel: selected ids; multi: limit (0 = off) *)
(*        cy: index of the current result; offset: index of the first displayed result; count: items loaded       *)
(*        track: 0 off, 1 --track, 2 tracking the current line (actions toggle-track / track-current)              *)
(*        xoffset: number of leading query characters scrolled out of the prompt line (0 unless a query was too long) *)
(*        showHeader / hideInput: the header section (--header and --header-lines) is shown / the input section   *)
(*        (prompt and info line) is hidden; they start as TRUE / c.inputless and are changed by the actions       *)
(*        toggle-header, show-header, hide-header, toggle-input, show-input, hide-input (VisStep).  The layout is *)
(*        a function of the CURRENT flags: Eff(s, c) is the configuration in effect, and every operator below     *)
(*        that takes a configuration is applied to it - so a row that changed its role shows exactly the content  *)
(*        of its new role and nothing of the old one, whatever the history was.                                    *)
(*        pattern: the search pattern the displayed result list was computed with (<<>> = none: empty query or    *)
(*        search disabled); it decides which part of a line that is too long is displayed (Window).               *)
(*                                                                                                                 *)
(* Two layers are kept apart:                                                                                      *)
(*   DOCUMENTED  - placement (--layout, --header, --header-lines, --header-first, --info, --border), what a row   *)
(*                 says (query; matched/total/selected counts; result line complete, or a part of it with the     *)
(*                 ellipsis wherever something was cut, never wider than the room for the text, with the right    *)
(*                 end of the match and --hscroll-off columns after it visible / the right end of the line with   *)
(*                 --keep-right and no pattern; pointer / marker columns; the scrollbar column): operators Place, *)
(*                 Claims*.                                                                                        *)
(*   CODE-DERIVED - the exact text of the info line, the column reserved at the right edge, how the ellipsis is   *)
(*                 fitted, which part exactly is displayed (Window), where exactly the scrollbar sits, clipping   *)
(*                 when the window is too short: operator Render (regression oracle).                             *)
(* MC_Screen proves  Claims(Render(x), x)  on small constants, i.e. the two layers agree.                          *)
EXTENDS Integers, Sequences, FiniteSets, TLC

MaxMulti == 2147483647
Min2(a, b) == IF a < b THEN a ELSE b
Max2(a, b) == IF a > b THEN a ELSE b
Constrain(v, lo, hi) == IF v < lo THEN lo ELSE IF v > hi THEN hi ELSE v
Range(q) == {q[i] : i \in 1..Len(q)}
Sub(t, a, b) == IF a > b THEN <<>> ELSE SubSeq(t, a, b)
Rev(t) == [i \in 1..Len(t) |-> t[Len(t) + 1 - i]]
Rep(cell, n) == [i \in 1..Max2(n, 0) |-> cell]
Spaces(n) == Rep(" ", n)

-------------------------------------------------------------------------------
(* Widths *)
CW(cell, g) == IF cell \in g.wide THEN 2 ELSE IF cell \in g.zero THEN 0 ELSE 1
RECURSIVE TWFrom(_, _, _)
TWFrom(t, i, g) == IF i > Len(t) THEN 0 ELSE CW(t[i], g) + TWFrom(t, i + 1, g)
TWRec(t, g) == TWFrom(t, 1, g)                                        \* display width of a text: the sum of its cells' widths
(* the same without recursion (lines of hundreds of cells; MC_Screen checks the two agree) *)
TW(t, g) == Len(t) + Cardinality({i \in 1..Len(t) : t[i] \in g.wide}) - Cardinality({i \in 1..Len(t) : t[i] \in g.zero /\ t[i] \notin g.wide})

(* util.RunesWidth / trimRight / util.Truncate: the longest prefix that is at most lim columns wide *)
RECURSIVE CutAt(_, _, _, _, _)
CutAt(t, i, acc, lim, g) == IF i > Len(t) THEN Len(t)
                            ELSE IF acc + CW(t[i], g) > lim THEN i - 1
                            ELSE CutAt(t, i + 1, acc + CW(t[i], g), lim, g)
TakeW(t, lim, g) == IF lim < 0 THEN <<>> ELSE Sub(t, 1, CutAt(t, 1, 0, lim, g))
(* the same, declaratively (MC_Screen checks the two agree) *)
TakeWDecl(t, lim, g) ==
    LET I == {k \in 0..Len(t) : TW(Sub(t, 1, k), g) <= lim}
    IN IF I = {} THEN <<>> ELSE Sub(t, 1, CHOOSE k \in I : \A j \in I : j <= k)

RECURSIVE LastNonBlank(_, _)
LastNonBlank(t, i) == IF i = 0 THEN 0 ELSE IF t[i] # " " THEN i ELSE LastNonBlank(t, i - 1)
RTrim(t) == Sub(t, 1, LastNonBlank(t, Len(t)))

Digit(d) == CASE d = 0 -> "0" [] d = 1 -> "1" [] d = 2 -> "2" [] d = 3 -> "3" [] d = 4 -> "4"
              [] d = 5 -> "5" [] d = 6 -> "6" [] d = 7 -> "7" [] d = 8 -> "8" [] d = 9 -> "9"
RECURSIVE Digits(_)
Digits(n) == IF n < 10 THEN <<Digit(n)>> ELSE Digits(n \div 10) \o <<Digit(n % 10)>>

IsPrefix(p, t) == Len(p) <= Len(t) /\ Sub(t, 1, Len(p)) = p
Contains(t, p) == \E i \in 0..(Len(t) - Len(p)) : Sub(t, i + 1, i + Len(p)) = p
(* trimLeft: the longest suffix within lim columns = the mirror image of TakeW (MC_Screen checks the two agree) *)
RECURSIVE CutBack(_, _, _, _, _)
CutBack(t, i, acc, lim, g) == IF i < 1 THEN 1
                              ELSE IF acc + CW(t[i], g) > lim THEN i + 1
                              ELSE CutBack(t, i - 1, acc + CW(t[i], g), lim, g)
TakeRightW(t, lim, g) == IF lim < 0 THEN <<>> ELSE Sub(t, CutBack(t, Len(t), 0, lim, g), Len(t))
TakeRightWMirror(t, lim, g) == Rev(TakeW(Rev(t), lim, g))
PadTo(t, n, g) == t \o Spaces(n - TW(t, g))                             \* t followed by blanks up to column n
SetMax(S) == CHOOSE x \in S : \A y \in S : y <= x

-------------------------------------------------------------------------------
(* TAB characters in lines.  The cell "TAB" stands for the character U+0009 of a line (no other cell has more     *)
(* than one character, so it cannot be mistaken); a terminal has no TAB cells: what is drawn are blanks.          *)
(* DOCUMENTED (man fzf): --tabstop=SPACES "Number of spaces for a tab character (default: 8)" - i.e. tab stops    *)
(*   every SPACES columns: a TAB is drawn as the blanks up to the next tab stop.                                   *)
(* CODE-DERIVED (util.RunesWidth, Terminal.processTabs): the tab stops are counted from the START OF THE LINE'S    *)
(*   TEXT (column 0 = its first cell, wherever pointer / marker / border put it on the screen), a TAB that sits    *)
(*   on a stop advances a whole tabstop (never zero blanks), the columns of the cells before it are their display  *)
(*   widths; and - the point of this section - NOTHING ELSE matters: not which cells are highlighted (query),      *)
(*   not how the text is coloured (--ansi).  The drawn row of a line with TABs is a function of (line, tabstop,    *)
(*   room) alone.  When a line is cut, a TAB is kept or dropped as a whole (trimRight cuts between characters).    *)
Tab == "TAB"
HasTab(t) == \E i \in 1..Len(t) : t[i] = Tab
TabW(col, ts) == ts - (col % ts)                                        \* blanks drawn for a TAB that starts in column col
CWAt(cell, col, ts, g) == IF cell = Tab THEN TabW(col, ts) ELSE CW(cell, g)
RECURSIVE ExpandFrom(_, _, _, _, _)
ExpandFrom(t, i, col, ts, g) ==                                         \* the cells drawn for t[i..], t[i] starting in column col
    IF i > Len(t) THEN <<>>
    ELSE IF t[i] = Tab THEN Spaces(TabW(col, ts)) \o ExpandFrom(t, i + 1, col + TabW(col, ts), ts, g)
    ELSE <<t[i]>> \o ExpandFrom(t, i + 1, col + CW(t[i], g), ts, g)
ExpandAt(t, col0, ts, g) == IF HasTab(t) THEN ExpandFrom(t, 1, col0, ts, g) ELSE t
ExpandT(t, ts, g) == ExpandAt(t, 0, ts, g)                              \* what is drawn for the text t
RECURSIVE EndCol(_, _, _, _, _)
EndCol(t, i, col, ts, g) == IF i > Len(t) THEN col ELSE EndCol(t, i + 1, col + CWAt(t[i], col, ts, g), ts, g)
TWAt(t, col0, ts, g) == IF HasTab(t) THEN EndCol(t, 1, col0, ts, g) - col0 ELSE TW(t, g)   \* columns t takes when it starts in column col0
TWT(t, ts, g) == TWAt(t, 0, ts, g)                                      \* display width of a text with TABs (= TW(ExpandT(t)), MC_Screen)
(* the longest prefix that is at most lim columns wide; a TAB is never split *)
RECURSIVE CutAtT(_, _, _, _, _, _)
CutAtT(t, i, col, lim, ts, g) == IF i > Len(t) THEN Len(t)
                                 ELSE IF col + CWAt(t[i], col, ts, g) > lim THEN i - 1
                                 ELSE CutAtT(t, i + 1, col + CWAt(t[i], col, ts, g), lim, ts, g)
TakeWT(t, lim, ts, g) == IF ~HasTab(t) THEN TakeW(t, lim, g)
                         ELSE IF lim < 0 THEN <<>> ELSE Sub(t, 1, CutAtT(t, 1, 0, lim, ts, g))
TakeWTDecl(t, lim, ts, g) ==
    LET I == {k \in 0..Len(t) : TW(ExpandT(Sub(t, 1, k), ts, g), g) <= lim}
    IN IF I = {} THEN <<>> ELSE Sub(t, 1, CHOOSE k \in I : \A j \in I : j <= k)
(* trimLeft on a text with TABs, CODE-DERIVED: at least one cell is dropped in front (the caller has found the text *)
(* too wide), then cells are dropped until what remains is at most lim columns wide WHEN IT STARTS IN COLUMN pre:   *)
(* it will be drawn behind the leading ellipsis, so pre should be the width of that ellipsis.                        *)
RECURSIVE DropUntilFits(_, _, _, _, _, _)
DropUntilFits(t, k, lim, pre, ts, g) == IF k > Len(t) THEN <<>>
                                        ELSE IF TWAt(Sub(t, k, Len(t)), pre, ts, g) <= lim THEN Sub(t, k, Len(t))
                                        ELSE DropUntilFits(t, k + 1, lim, pre, ts, g)
TakeRightWT(t, lim, pre, ts, g) == IF ~HasTab(t) THEN TakeRightW(t, lim, g)
                                   ELSE IF lim < 0 THEN <<>>
                                   ELSE IF TWT(t, ts, g) <= lim THEN t
                                   ELSE DropUntilFits(t, 2, lim, pre, ts, g)

-------
(* Sections that are shown / hidden during a session.                                                             *)
(* DOCUMENTED (man fzf, AVAILABLE ACTIONS): toggle-header, show-header, hide-header, toggle-input, show-input,     *)
(* hide-input.  The header section is --header and --header-lines together; the input section is the prompt and   *)
(* the info / separator line.  A hidden section takes no rows: the list gets them.                                *)
VisActs == {"toggle-header", "show-header", "hide-header", "toggle-input", "show-input", "hide-input"}
VisStep(s, a) ==
    CASE a = "toggle-header" -> [s EXCEPT !.showHeader = ~@]
      [] a = "show-header" -> [s EXCEPT !.showHeader = TRUE]
      [] a = "hide-header" -> [s EXCEPT !.showHeader = FALSE]
      [] a = "toggle-input" -> [s EXCEPT !.hideInput = ~@]
      [] a = "show-input" -> [s EXCEPT !.hideInput = FALSE]
      [] a = "hide-input" -> [s EXCEPT !.hideInput = TRUE]
      [] OTHER -> s
RECURSIVE VisAfter(_, _, _)
VisAfter(s, acts, i) == IF i > Len(acts) THEN s ELSE VisAfter(VisStep(s, acts[i]), acts, i + 1)
VisInit(c) == [showHeader |-> TRUE, hideInput |-> c.inputless]
(* the configuration in effect: a hidden header section has no lines, a hidden input section is --no-input *)
Eff(s, c) == [c EXCEPT !.header = IF s.showHeader THEN @ ELSE <<>>,
                       !.hlines = IF s.showHeader THEN @ ELSE <<>>,
                       !.inputless = s.hideInput]
(* --border: a box of one cell.  CODE-DERIVED: one blank column inside on the left; on the right the finder's area *)
(* reaches the border ("put scrollbar closer to the right border"): its reserved column is the margin.             *)
Inner(g, c) == IF c.border THEN [g EXCEPT !.w = g.w - 3, !.h = g.h - 2] ELSE g

-------------------------------------------------------------------------------
(* Where the search pattern matches a line.  Matching itself is FzfQuery's / FzfAlgo's subject; here only the     *)
(* position of the last matched character is needed, and only where it does not depend on the algorithm:          *)
(* the pattern consists of plain terms (letters and digits, separated by blanks), every character of a term       *)
(* occurs exactly once in the line (smart case: a term with an upper-case letter is case-sensitive, DOCUMENTED),   *)
(* in the order of the term - then every matcher must report exactly these positions.  Lines are restricted to    *)
(* printable ASCII and wide (East Asian) cells so that no other character folds to a letter or digit.             *)
UpperSeq == <<"A", "B", "C", "D", "E", "F", "G", "H", "I", "J", "K", "L", "M", "N", "O", "P", "Q", "R", "S", "T", "U", "V", "W", "X", "Y", "Z">>
LowerSeq == <<"a", "b", "c", "d", "e", "f", "g", "h", "i", "j", "k", "l", "m", "n", "o", "p", "q", "r", "s", "t", "u", "v", "w", "x", "y", "z">>
DigitSet == {"0", "1", "2", "3", "4", "5", "6", "7", "8", "9"}
UpperSet == Range(UpperSeq)
PlainCells == UpperSet \cup Range(LowerSeq) \cup DigitSet
AsciiCells == PlainCells \cup {" ", "!", "\"", "#", "$", "%", "&", "'", "(", ")", "*", "+", ",", "-", ".", "/", ":", ";", "<", "=", ">",
                               "?", "@", "[", "\\", "]", "^", "_", "`", "{", "|", "}", "~"}
LowerOf(x) == IF x \in UpperSet THEN LowerSeq[CHOOSE i \in 1..26 : UpperSeq[i] = x] ELSE x
RECURSIVE TermsFrom(_, _, _)
TermsFrom(p, i, cur) ==
    IF i > Len(p) THEN (IF cur = <<>> THEN <<>> ELSE <<cur>>)
    ELSE IF p[i] = " " THEN (IF cur = <<>> THEN <<>> ELSE <<cur>>) \o TermsFrom(p, i + 1, <<>>)
    ELSE TermsFrom(p, i + 1, Append(cur, p[i]))
Terms(p) == TermsFrom(p, 1, <<>>)                                      \* the blank-separated terms of a pattern
CaseSens(term) == \E i \in 1..Len(term) : term[i] \in UpperSet
Hits(t, term, i) == IF CaseSens(term) THEN {j \in 1..Len(t) : t[j] = term[i]}
                    ELSE {j \in 1..Len(t) : LowerOf(t[j]) = term[i]}
TermDetermined(t, term) ==
    /\ \A i \in 1..Len(term) : term[i] \in PlainCells /\ Cardinality(Hits(t, term, i)) = 1
    /\ \A i \in 1..(Len(term) - 1) : SetMax(Hits(t, term, i)) < SetMax(Hits(t, term, i + 1))
Determined(t, p, g) ==
    /\ \A j \in 1..Len(t) : t[j] \in AsciiCells \/ t[j] \in g.wide \/ t[j] = "TAB"
    /\ \A k \in 1..Len(Terms(p)) : TermDetermined(t, Terms(p)[k])
(* index of the last matched cell (0: no pattern); meaningful where Determined *)
TermEnd(t, term) == LET H == Hits(t, term, Len(term)) IN IF H = {} THEN 0 ELSE SetMax(H)
MatchEnd(t, p) == LET T == Terms(p) IN
                  IF T = <<>> THEN 0 ELSE SetMax({TermEnd(t, T[k]) : k \in 1..Len(T)})

-------------------------------------------------------------------------------
(* Geometry of the regions *)
N(s) == Len(s.list)
PLen(c, g) == TW(c.pointer, g)
MLen(c, g) == TW(c.marker, g)
Indent(c, g) == PLen(c, g) + MLen(c, g)

(* the info / separator does not get a line of its own (options.go noSeparatorLine) *)
NoSepLine(c) == \/ c.inputless
                \/ c.info = "inline"
                \/ (c.info \in {"hidden", "inline-right"} /\ ~c.sep)
PromptLines(c) == IF c.inputless THEN 0 ELSE IF NoSepLine(c) THEN 1 ELSE 2
NHeader(c) == Len(c.header) + Len(c.hlines)
MaxItems(g, c) == Max2(g.h - PromptLines(c) - NHeader(c), 0)

(* --layout=reverse-list shows the --header-lines above the list and --header next to the prompt (options.go     *)
(* postProcessOptions: "header lines should be at the top, while ordinary header should be at the bottom")       *)
Split(c) == c.layout = "reverse-list" /\ Len(c.hlines) > 0

(* The prompt, the info line and the header lines form a stack that grows from the edge the layout is anchored   *)
(* to (bottom: default, reverse-list; top: reverse).  HdrStack lists the header lines in stack order.            *)
(* DOCUMENTED: the lines of --header are displayed from top to bottom regardless of --layout; header lines of    *)
(* the input continue the list direction.                                                                         *)
HdrStack(c) == IF c.layout = "reverse" THEN c.header \o c.hlines
               ELSE Rev(c.header) \o (IF Split(c) THEN <<>> ELSE c.hlines)
(* header lines of the input shown above the list in the split arrangement; CODE-DERIVED clipping *)
HlTop(g, c) == IF Split(c)
               THEN Min2(Len(c.hlines), Max2(g.h - PromptLines(c) - Min2(Len(c.header), g.h - PromptLines(c)), 0))
               ELSE 0

(* Stack line y (0 = nearest to the anchored edge) -> slot.  CODE-DERIVED: what is dropped when the window is    *)
(* too short (printHeaderImpl `line >= max`, promptLine).                                                        *)
Blank == [kind |-> "blank", ix |-> 0]
PromptY(g, c) == IF c.headerFirst THEN Min2(Len(HdrStack(c)), Max2(g.h - PromptLines(c), 0)) ELSE 0
StackAt(y, g, c) ==
    LET pl == PromptLines(c)
        nh == Len(HdrStack(c))
        py == PromptY(g, c)
        hy == IF c.headerFirst THEN y ELSE y - pl                      \* index into HdrStack
        hmax == IF c.headerFirst THEN g.h - pl ELSE g.h
        k == y - pl - nh                                               \* list row
    IN IF pl >= 1 /\ y = py THEN [kind |-> "prompt", ix |-> 0]
       ELSE IF pl = 2 /\ y = py + 1 THEN [kind |-> "info", ix |-> 0]
       ELSE IF hy >= 0 /\ hy < nh /\ y < hmax THEN [kind |-> "header", ix |-> hy + 1]
       ELSE IF k >= 0 /\ k < MaxItems(g, c) /\ c.layout # "reverse-list" THEN [kind |-> "item", ix |-> k]
       ELSE Blank

(* Screen row r (0 = top) -> slot *)
SlotAt(r, g, c) ==
    CASE c.layout = "default" -> StackAt(g.h - 1 - r, g, c)
      [] c.layout = "reverse" -> StackAt(r, g, c)
      [] c.layout = "reverse-list" ->
           IF r < HlTop(g, c) THEN [kind |-> "hline", ix |-> r + 1]
           ELSE IF r - HlTop(g, c) < MaxItems(g, c) THEN [kind |-> "item", ix |-> r - HlTop(g, c)]
           ELSE IF g.h - 1 - r < PromptLines(c) + Len(HdrStack(c)) THEN StackAt(g.h - 1 - r, g, c)
           ELSE Blank
Place(g, c) == [r \in 1..g.h |-> SlotAt(r - 1, g, c)]

-------------------------------------------------------------------------------
(* Row contents *)
(* CODE-DERIVED: one column at the right edge is reserved (the scrollbar column, even with --no-scrollbar); a      *)
(* longer text is cut so that the ellipsis (itself cut to half the room) still fits.  Fit cuts on the right.      *)
Fit(t, maxw, c, g) ==
    IF maxw <= 0 THEN <<>>
    ELSE IF TW(t, g) <= maxw THEN t
    ELSE LET el == TakeW(c.ellipsis, maxw \div 2, g)
         IN TakeW(t, maxw - TW(el, g), g) \o el
TextRoom(g, c) == g.w - (Indent(c, g) + 1)

(* The displayed part of a line that is wider than the room (printHighlighted).                                    *)
(* DOCUMENTED (man fzf): --no-hscroll "Disable horizontal scroll": the line is cut on the right;                   *)
(*   --hscroll-off=COLS "Number of screen columns to keep to the right of the highlighted substring (default: 10). *)
(*   Setting it to a large value will cause the text to be positioned on the center of the screen";                 *)
(*   --keep-right "Keep the right end of the line visible when it's too long.  Effective only when the query        *)
(*   string is empty"; --ellipsis "Ellipsis to show when line is truncated".                                        *)
(* CODE-DERIVED: the arithmetic.  me0 = index of the last matched cell (0 = none), nopat = no pattern in effect.    *)
(*   el  = the ellipsis cut to half the room; lim = room - width(el)                                                *)
(*   me  = me0 + min(room/2 - width(el), hscrollOff) cells, at most the length of the line                         *)
(*   --keep-right and no pattern (also header lines): el, then the longest tail within lim                         *)
(*   the head up to me fits in lim: the longest head within lim, then el                  ("Stri..")               *)
(*   otherwise: what follows me is replaced by el when it is wider than el; of the result the longest tail within  *)
(*   lim is shown after a leading el                                                       ("..ri.." / "..ring")    *)
(*   so the leading ellipsis always has its room, whether or not a trailing one is shown.                           *)
Window(t, me0, nopat, room, c, g) ==
    IF room <= 0 THEN <<>>
    ELSE IF TW(t, g) <= room THEN t
    ELSE LET el == TakeW(c.ellipsis, room \div 2, g)
             ew == TW(el, g)
             lim == room - ew
             me == Constrain(me0 + Min2(room \div 2 - ew, c.hscrollOff), 0, Len(t))
         IN IF ~c.hscroll THEN TakeW(t, lim, g) \o el
            ELSE IF c.keepRight /\ nopat THEN el \o TakeRightW(t, lim, g)
            ELSE IF TW(Sub(t, 1, me), g) <= lim THEN TakeW(t, lim, g) \o el
            ELSE LET cutR == TW(Sub(t, me + 1, Len(t)), g) > ew
                     t2 == IF cutR THEN Sub(t, 1, me) \o el ELSE t
                 IN el \o TakeRightW(t2, lim, g)

(* The same for a line with TABs: the rule is applied to the EXPANDED text - the line fits iff its expansion fits, *)
(* and what is drawn is the expansion of the part that is kept.  CODE-DERIVED: the cut falls between characters     *)
(* (a TAB is kept or dropped whole); a part that is cut in front (horizontal scrolling) is expanded anew: its tab   *)
(* stops are counted from the start of what is displayed, the leading ellipsis included, and it is cut so that it   *)
(* fits there (TakeRightWT with pre = the width of the ellipsis).  pre2: the NAMED DEVIATION below (pre = 2).        *)
WindowTP(t, me0, nopat, room, c, g, pre2) ==
    IF ~HasTab(t) THEN Window(t, me0, nopat, room, c, g)
    ELSE IF room <= 0 THEN <<>>
    ELSE IF TWT(t, c.tabstop, g) <= room THEN ExpandT(t, c.tabstop, g)
    ELSE LET ts == c.tabstop
             el == TakeW(c.ellipsis, room \div 2, g)
             ew == TW(el, g)
             pre == IF pre2 THEN 2 ELSE ew
             lim == room - ew
             me == Constrain(me0 + Min2(room \div 2 - ew, c.hscrollOff), 0, Len(t))
         IN IF ~c.hscroll THEN ExpandT(TakeWT(t, lim, ts, g), ts, g) \o el
            ELSE IF c.keepRight /\ nopat THEN ExpandT(el \o TakeRightWT(t, lim, pre, ts, g), ts, g)
            ELSE IF TWT(Sub(t, 1, me), ts, g) <= lim THEN ExpandT(TakeWT(t, lim, ts, g), ts, g) \o el
            ELSE LET cutR == TWT(Sub(t, me + 1, Len(t)), ts, g) > ew
                     t2 == IF cutR THEN Sub(t, 1, me) \o el ELSE t
                 IN ExpandT(el \o TakeRightWT(t2, lim, pre, ts, g), ts, g)
WindowT(t, me0, nopat, room, c, g) == WindowTP(t, me0, nopat, room, c, g, FALSE)

(* The scrollbar (getScrollbar, printBar).  DOCUMENTED: a scrollbar is displayed unless --no-scrollbar; CODE-DERIVED: *)
(* it occupies the reserved column of `len` consecutive list rows starting `start` rows from the first one, and     *)
(* only when there are more results than list rows.                                                                  *)
Bar(s, g, c) ==
    LET total == N(s)
        height == MaxItems(g, c)
    IN IF total = 0 \/ height = 0 \/ total <= height THEN <<0, 0>>
       ELSE LET len == Max2(1, (height * height) \div total)
            IN <<len, Min2(height - len, ((height - len) * s.offset) \div (total - height))>>
BarOn(k, s, g, c) == c.scrollbar # <<>> /\ k >= Bar(s, g, c)[2] /\ k < Bar(s, g, c)[2] + Bar(s, g, c)[1]

Selected(id, s) == \E i \in 1..Len(s.sel) : s.sel[i] = id
ItemRowP(k, s, g, c, pre2) ==                               \* pre2: see WindowTP (FALSE in Render)
    LET i == s.offset + k + 1 IN
    IF i > N(s) THEN <<>>
    ELSE LET row == (IF s.offset + k = s.cy THEN c.pointer ELSE Spaces(PLen(c, g)))
                    \o (IF Selected(s.list[i], s) THEN c.marker ELSE Spaces(MLen(c, g)))
                    \o WindowTP(s.texts[i], MatchEnd(s.texts[i], s.pattern), s.pattern = <<>>, TextRoom(g, c), c, g, pre2)
         IN IF BarOn(k, s, g, c) THEN PadTo(row, g.w - 1, g) \o c.scrollbar ELSE row
ItemRow(k, s, g, c) == ItemRowP(k, s, g, c, FALSE)
(* header lines are never matched: they are displayed like lines without a pattern *)
HeaderRow(t, g, c) == Spaces(Indent(c, g)) \o WindowT(t, 0, TRUE, TextRoom(g, c), c, g)

(* CODE-DERIVED: exact text of the finder info (printInfoImpl); DOCUMENTED: it shows matched/total and the        *)
(* number of selected lines (with the limit when --multi has one) *)
InfoText(s) ==
    Digits(N(s)) \o <<"/">> \o Digits(Max2(N(s), s.count))
    \o (CASE s.track = 1 -> <<" ", "+", "T">> [] s.track = 2 -> <<" ", "+", "t">> [] OTHER -> <<>>)
    \o (IF s.multi > 0
        THEN IF s.multi = MaxMulti THEN <<" ", "(">> \o Digits(Len(s.sel)) \o <<")">>
             ELSE <<" ", "(">> \o Digits(Len(s.sel)) \o <<"/">> \o Digits(s.multi) \o <<")">>
        ELSE <<>>)
TrimMsg(m, maxw, g) == IF Len(m) <= maxw THEN m ELSE TakeW(m, maxw - 2, g) \o Rep(".", Constrain(maxw, 0, 2))
SepFill(n, c) == IF c.sep THEN Rep("-", n) ELSE <<>>

(* The part of the query shown on the prompt line.  CODE-DERIVED (updatePromptOffset): the query scrolls            *)
(* horizontally by s.xoffset characters; what precedes the cursor is cut on the left, what follows on the right.    *)
PromptRoom(g, c) == Max2(1, g.w - TW(c.prompt, g) - 1)
QueryFits(s, g, c) == TW(s.input, g) <= PromptRoom(g, c)
QBefore(s, g, c) == TakeRightW(Sub(s.input, s.xoffset + 1, s.cx), PromptRoom(g, c), g)
QAfter(s, g, c) == TakeW(Sub(s.input, s.cx + 1, Len(s.input)), PromptRoom(g, c) - TW(QBefore(s, g, c), g), g)
QShown(s, g, c) == QBefore(s, g, c) \o QAfter(s, g, c)
(* the offset updatePromptOffset leaves behind, given the previous one (used by MC_Screen to walk through scrolled prompts) *)
PromptOffset(s, g, c) ==
    LET m == PromptRoom(g, c)
        b == Sub(s.input, 1, s.cx)
        mn == Len(b) - Len(TakeRightW(b, m, g))
        mx == mn + (m - Max2(0, m - s.cx)) \div 2
    IN Constrain(s.xoffset, mn, mx)
PromptPart(c, g) == Fit(c.prompt, g.w - 2, c, g)

InfoLineRow(s, g, c) ==                                    \* the line below/above the prompt
    LET out == InfoText(s) IN
    CASE c.info = "default" ->
           LET maxw == g.w - 3
               fill == maxw - Len(out) - 1
           IN <<" ", " ">> \o TrimMsg(out, maxw, g) \o (IF fill > 0 THEN <<" ">> \o SepFill(fill, c) ELSE <<>>)
      [] c.info = "right" ->
           LET o2 == TrimMsg(out, g.w - 1, g)
               fill == g.w - Len(o2) - 2
           IN (IF fill >= 0 THEN (IF c.sep THEN Rep("-", fill) \o <<" ">> ELSE Spaces(fill + 1)) ELSE <<>>) \o o2
      [] OTHER -> SepFill(g.w - 1, c)                      \* hidden / inline-right: only the separator
PromptRow(q, s, g, c) ==                                   \* q: the displayed part of the query
    LET out == InfoText(s)
        base == PromptPart(c, g) \o q
        pos0 == TW(c.prompt, g) + TW(q, g) + 1
    IN CASE c.info = "inline" ->
              LET prefix == <<" ", "<", " ">>
                  pos == pos0 + 3
                  maxw == g.w - pos - 1
                  fill == maxw - Len(out) - 1
              IN base \o <<" ">> \o prefix \o TrimMsg(out, maxw, g) \o (IF fill > 0 THEN <<" ">> \o SepFill(fill, c) ELSE <<>>)
         [] c.info = "inline-right" ->
              LET np == Max2(pos0, g.w - Len(out) - 3)
                  p1 == IF np < g.w THEN np + 1 ELSE np
                  p2 == IF p1 < g.w - 1 THEN p1 + 1 ELSE p1
              IN base \o Spaces(p2 - (pos0 - 1)) \o TrimMsg(out, g.w - p2 - 1, g)
         [] OTHER -> base

SlotRow(sl, s, g, c) ==
    CASE sl.kind = "prompt" -> PromptRow(QShown(s, g, c), s, g, c)
      [] sl.kind = "info" -> InfoLineRow(s, g, c)
      [] sl.kind = "header" -> HeaderRow(HdrStack(c)[sl.ix], g, c)
      [] sl.kind = "hline" -> HeaderRow(c.hlines[sl.ix], g, c)
      [] sl.kind = "item" -> ItemRow(sl.ix, s, g, c)
      [] OTHER -> <<>>

(* the rows of the finder's area: g = the area (inside the border), c = the configuration in effect *)
RenderArea(s, g, c) == [r \in 1..g.h |-> RTrim(SlotRow(SlotAt(r - 1, g, c), s, g, c))]
(* --border: the area framed by a box (--no-unicode: + - |), rows padded to the width of the area *)
FrameEdge(g) == <<"+">> \o Rep("-", g.w - 2) \o <<"+">>
FrameRow(x, g) == <<"|", " ">> \o PadTo(x, g.w - 3, g) \o <<"|">>
Frame(area, g) == [r \in 1..g.h |-> IF r = 1 \/ r = g.h THEN FrameEdge(g) ELSE FrameRow(area[r - 1], g)]
(* THE SCREEN: g = the terminal, c = the configuration given on the command line, s = the current state *)
Render(s, g, c) == IF c.border THEN Frame(RenderArea(s, Inner(g, c), Eff(s, c)), g)
                   ELSE RenderArea(s, g, Eff(s, c))

-------------------------------------------------------------------------------
(* DOCUMENTED claims, stated on an observed screen `rows` (captured or rendered).  Pointer, marker and prompt    *)
(* are narrow (one column per cell) in the comparable configuration.  The Claim* operators below speak about the  *)
(* finder's area (g = the area, c = the configuration in effect); Claims / FailedClaims at the end apply them to   *)
(* a whole screen (border removed, visibility flags applied).                                                      *)
RowsOf(kind, g, c) == {r \in 1..g.h : SlotAt(r - 1, g, c).kind = kind}

ClaimHeight(rows, g) == Len(rows) = g.h
ClaimWidth(rows, g) == \A r \in 1..Len(rows) : TW(rows[r], g) <= g.w

(* room for the info text where the style puts it, given the displayed part q of the query (CODE-DERIVED) *)
InfoRoom(q, s, g, c) ==
    LET pos0 == TW(c.prompt, g) + TW(q, g) + 1 IN
    CASE c.info = "default" -> g.w - 3
      [] c.info = "right" -> g.w - 2
      [] c.info = "inline" -> g.w - (pos0 + 3) - 1
      [] c.info = "inline-right" -> g.w - (pos0 + 2) - 1
      [] OTHER -> g.w
InfoFits(q, s, g, c) == Len(InfoText(s)) <= InfoRoom(q, s, g, c)

(* "the prompt line shows the current query": the prompt, then the query - or, when the query is longer than the *)
(* line, a contiguous part of it that contains the cursor position *)
InlineInfo(c) == c.info \in {"inline", "inline-right"}
ShowsPart(row, q, g, c) ==
    LET p == PromptPart(c, g) IN
    row = RTrim(p \o q) \/ (InlineInfo(c) /\ IsPrefix(p \o q \o <<" ">>, row))        \* the info may follow
(* A query that is wider than the prompt area (PromptRoom: what the prompt leaves of the line, less the last      *)
(* column) is shown in part.  CODE-DERIVED (updatePromptOffset, printPrompt): what is shown is before \o after,      *)
(*   before = the longest tail of input[xoffset+1 .. cx] that is at most PromptRoom COLUMNS wide (wide characters    *)
(*            count two), after = the longest head of input[cx+1 ..] within the columns `before` leaves;              *)
(*   the scroll offset is kept from one rendition to the next, constrained to [mn, mn + (room - max(0, room-cx))/2]   *)
(*   with mn = the least offset for which before needs no cut (PromptOffset); beginning-of-line resets it to 0;      *)
(*   NO ELLIPSIS is drawn on this line.                                                                               *)
(* CLAIMED of every rendition (the documented part: the line shows the query; the rest follows from "the screen is  *)
(* the state" and "never wider than the window"): the characters shown are a contiguous part input[i..j] of the     *)
(* query that contains the cursor position (i - 1 <= cx <= j) - a real part, not a token one -, at most PromptRoom  *)
(* columns wide, so that the cursor column lies inside the area and the last column (inside --border: the column    *)
(* next to the frame) stays free; it is cut behind only where the next character has no room.                        *)
(* xoffset > 0 with a query that fits: an earlier query was longer than the line; the prompt may then stay scrolled  *)
(* horizontally (CODE-DERIVED: updatePromptOffset keeps its offset within [0, cx/2] once it has become positive)     *)
CursorCol(i, s, g, c) == TW(c.prompt, g) + TW(Sub(s.input, i, s.cx), g)      \* 0-based column of the cursor when input[i] is the first character shown
ShowsQuery(row, s, g, c) ==
    IF QueryFits(s, g, c) /\ s.xoffset = 0 THEN ShowsPart(row, s.input, g, c)
    ELSE \E i \in 1..(Len(s.input) + 1) : \E j \in (i - 1)..Len(s.input) :
            /\ i - 1 <= s.cx /\ s.cx <= j
            /\ 2 * (j - i + 1) >= Min2(Len(s.input), (PromptRoom(g, c) - 3) \div 2)    \* a real part, not a token one
            /\ TW(Sub(s.input, i, j), g) <= PromptRoom(g, c)                           \* in display columns
            /\ CursorCol(i, s, g, c) < g.w
            /\ (j < Len(s.input) => TW(Sub(s.input, i, j + 1), g) > PromptRoom(g, c))
            /\ ShowsPart(row, Sub(s.input, i, j), g, c)
ClaimPrompt(rows, s, g, c) == \A r \in RowsOf("prompt", g, c) : ShowsQuery(rows[r], s, g, c)

(* "the info line shows matched/total (and selected) counts" (wherever --info puts it, when there is room) *)
InfoShown(s) == Digits(N(s)) \o <<"/">> \o Digits(Max2(N(s), s.count))
SelShown(s) == IF s.multi = 0 THEN <<>>
               ELSE IF s.multi = MaxMulti THEN <<"(">> \o Digits(Len(s.sel)) \o <<")">>
               ELSE <<"(">> \o Digits(Len(s.sel)) \o <<"/">> \o Digits(s.multi) \o <<")">>
InfoRowIx(g, c) == IF InlineInfo(c) THEN RowsOf("prompt", g, c) ELSE RowsOf("info", g, c)
ClaimInfo(rows, s, g, c) ==
    (c.info # "hidden" /\ ~c.inputless /\ InfoFits(QShown(s, g, c), s, g, c)) =>
        \A r \in InfoRowIx(g, c) : Contains(rows[r], InfoShown(s)) /\ Contains(rows[r], SelShown(s))

(* "each list row shows the corresponding result line - complete when it fits, otherwise truncated with the      *)
(* ellipsis and never wider than the window"; "the pointer on the current line and a marker on exactly the       *)
(* selected lines".  A line that does not fit beside the reserved column is shown as a contiguous part t[i..j]    *)
(* with the ellipsis in front iff something was cut in front (only with horizontal scrolling) and the ellipsis    *)
(* behind iff something was cut behind; the whole is at most `room` columns wide.                                 *)
(*   must > 0: the cell t[must] (the last matched one) is part of what is shown, with `ctx` cells after it (or    *)
(*   up to the end of the line);  tail: the end of the line is shown (--keep-right without a pattern)             *)
ShowsLine(body, t, must, ctx, tail, room, c, g) ==
    LET ts == c.tabstop IN                                              \* (TABs: the line's width is that of its expansion)
    \/ TWT(t, ts, g) <= room /\ body = RTrim(ExpandT(t, ts, g))
    \/ /\ TWT(t, ts, g) > room                                          \* does not fit beside the reserved column
       /\ TW(body, g) <= room
       /\ \E i \in 1..(Len(t) + 1) :
            LET lead == IF i > 1 THEN c.ellipsis ELSE <<>> IN
            /\ (i > 1 => c.hscroll)
            /\ (must > 0 => i <= must)
            /\ IsPrefix(RTrim(lead), body)
            /\ (i <= Len(t) /\ Len(body) > Len(lead) /\ lead = RTrim(lead) =>          \* (a cheap filter on i, implied by the next conjunct)
                   body[Len(lead) + 1] = t[i] \/ t[i] = Tab \/ (c.ellipsis # <<>> /\ body[Len(lead) + 1] = c.ellipsis[1]))
            /\ \E j \in (i - 1)..Min2(Len(t), i + room + Cardinality({k \in 1..Len(t) : t[k] \in g.zero})) :
                 \* TABs: cut behind only (i = 1), the tab stops are those of the line; cut in front: CODE-DERIVED, see WindowT
                 LET shown == ExpandT(lead \o Sub(t, i, j) \o (IF j < Len(t) THEN c.ellipsis ELSE <<>>), ts, g) IN
                 /\ (i > 1 \/ j < Len(t))
                 /\ body = RTrim(shown) /\ TW(shown, g) <= room
                 /\ (must > 0 => j >= Min2(Len(t), must + ctx))
                 /\ (tail => j = Len(t))
(* what the documentation promises about the part shown of s.texts[i] *)
Narrow(t, g) == \A j \in 1..Len(t) : CW(t[j], g) = 1 /\ t[j] # Tab
MustShow(t, s, room, c, g) ==
    IF c.hscroll /\ s.pattern # <<>> /\ Determined(t, s.pattern, g) /\ Narrow(t, g) /\ TW(c.ellipsis, g) < room \div 2
    THEN MatchEnd(t, s.pattern) ELSE 0
Context(room, c, g) == Min2(c.hscrollOff, room \div 2 - TW(c.ellipsis, g))
KeepsTail(s, c) == c.hscroll /\ c.keepRight /\ s.pattern = <<>>
ItemShown(row, k, s, g, c) ==
    LET i == s.offset + k + 1
        pl == Len(c.pointer)
        ml == Len(c.marker)
        main == TakeW(row, g.w - 1, g)                                 \* the columns left of the reserved one
        rest == Sub(row, Len(main) + 1, Len(row))
        padded == main \o Spaces(pl + ml)                              \* blank pointer/marker columns may have been trimmed
        room == TextRoom(g, c)
    IN /\ rest = (IF BarOn(k, s, g, c) THEN c.scrollbar ELSE <<>>)     \* the reserved column: scrollbar or nothing
       /\ (rest # <<>> => TW(main, g) = g.w - 1)
       /\ Sub(padded, 1, pl) = (IF s.offset + k = s.cy THEN c.pointer ELSE Spaces(pl))
       /\ Sub(padded, pl + 1, pl + ml) = (IF Selected(s.list[i], s) THEN c.marker ELSE Spaces(ml))
       /\ ShowsLine(RTrim(Sub(padded, pl + ml + 1, Len(padded))), s.texts[i], MustShow(s.texts[i], s, room, c, g),
                    Context(room, c, g), KeepsTail(s, c), room, c, g)
ClaimList(rows, s, g, c) ==
    \A r \in RowsOf("item", g, c) :
        LET k == SlotAt(r - 1, g, c).ix IN
        IF s.offset + k < N(s) THEN ItemShown(rows[r], k, s, g, c) ELSE rows[r] = <<>>
(* the scrollbar: none when every result has a row; otherwise at least one row has it, and the rows that have it  *)
(* are consecutive (implied by ItemShown through BarOn; stated on its own for the design check)                   *)
BarRows(rows, g, c) == {r \in RowsOf("item", g, c) : TW(rows[r], g) = g.w /\ Sub(rows[r], Len(rows[r]) - Len(c.scrollbar) + 1, Len(rows[r])) = c.scrollbar}
ClaimBar(rows, s, g, c) ==
    IF c.scrollbar = <<>> THEN TRUE
    ELSE IF N(s) <= MaxItems(g, c) \/ MaxItems(g, c) = 0 THEN BarRows(rows, g, c) = {}
    ELSE /\ BarRows(rows, g, c) # {}
         /\ \A r1, r2 \in BarRows(rows, g, c) : \A r \in r1..r2 : r \in BarRows(rows, g, c)

(* "Header lines appear where the layout puts them and are never part of the list" *)
HeaderShown(row, t, g, c) ==
    LET ind == Indent(c, g)
        padded == row \o Spaces(ind)
    IN Sub(padded, 1, ind) = Spaces(ind)
       /\ ShowsLine(RTrim(Sub(padded, ind + 1, Len(padded))), t, 0, 0, c.hscroll /\ c.keepRight, TextRoom(g, c), c, g)
ClaimHeader(rows, g, c) ==
    /\ \A r \in RowsOf("header", g, c) : HeaderShown(rows[r], HdrStack(c)[SlotAt(r - 1, g, c).ix], g, c)
    /\ \A r \in RowsOf("hline", g, c) : HeaderShown(rows[r], c.hlines[SlotAt(r - 1, g, c).ix], g, c)
ClaimBlank(rows, g, c) == \A r \in RowsOf("blank", g, c) : rows[r] = <<>>

ClaimsArea(rows, s, g, c) ==
    /\ ClaimHeight(rows, g)
    /\ ClaimWidth(rows, g)
    /\ ClaimPrompt(rows, s, g, c)
    /\ ClaimInfo(rows, s, g, c)
    /\ ClaimList(rows, s, g, c)
    /\ ClaimBar(rows, s, g, c)
    /\ ClaimHeader(rows, g, c)
    /\ ClaimBlank(rows, g, c)
FailedClaimsArea(rows, s, g, c) ==
    IF ~ClaimHeight(rows, g) THEN "height"
    ELSE (IF ClaimWidth(rows, g) THEN "" ELSE "width ")
         \o (IF ClaimPrompt(rows, s, g, c) THEN "" ELSE "prompt ")
         \o (IF ClaimInfo(rows, s, g, c) THEN "" ELSE "info ")
         \o (IF ClaimList(rows, s, g, c) THEN "" ELSE "list ")
         \o (IF ClaimBar(rows, s, g, c) THEN "" ELSE "scrollbar ")
         \o (IF ClaimHeader(rows, g, c) THEN "" ELSE "header ")
         \o (IF ClaimBlank(rows, g, c) THEN "" ELSE "blank ")

(* "--border: draw border around the finder": the first and the last row are the edges of the box, every row in  *)
(* between starts with the left edge and ends with the right edge in the last column; nothing is drawn over them  *)
ClaimFrame(rows, g) ==
    /\ Len(rows) = g.h /\ g.h >= 2 /\ g.w >= 4
    /\ rows[1] = FrameEdge(g) /\ rows[g.h] = FrameEdge(g)
    /\ \A r \in 2..(g.h - 1) :
          /\ TW(rows[r], g) = g.w
          /\ Sub(rows[r], 1, 2) = <<"|", " ">>
          /\ rows[r][Len(rows[r])] = "|"
Unframe(rows, g) == [r \in 1..(g.h - 2) |-> RTrim(Sub(rows[r + 1], 3, Len(rows[r + 1]) - 1))]

(* the claims about a whole screen: g = the terminal, c = the command-line configuration *)
Claims(rows, s, g, c) ==
    IF c.border THEN ClaimFrame(rows, g) /\ ClaimsArea(Unframe(rows, g), s, Inner(g, c), Eff(s, c))
    ELSE ClaimsArea(rows, s, g, Eff(s, c))
FailedClaims(rows, s, g, c) ==
    IF c.border THEN (IF ClaimFrame(rows, g) THEN FailedClaimsArea(Unframe(rows, g), s, Inner(g, c), Eff(s, c)) ELSE "border")
    ELSE FailedClaimsArea(rows, s, g, Eff(s, c))

-------------------------------------------------------------------------------
(* NAMED DEVIATION (finding "info-tail-not-cleared", src/terminal.go printInfoImpl).  With a separator configured  *)
(* the info text is repainted without clearing the rest of its line; the separator that follows normally           *)
(* overwrites what was there - but when the text ends exactly one column short of its room (fill = 0) nothing is   *)
(* drawn after it, and the cell next to it keeps the character an earlier, different rendition left there (a       *)
(* separator dash, or the last character of a longer info text: "10/10 (9))").  The screen then is the exact       *)
(* rendition plus one stale cell at the end of the info text.  Not part of Render; the judge names it.             *)
InfoFill(s, g, c) == InfoRoom(QShown(s, g, c), s, g, c) - Len(InfoText(s)) - 1
DevInfoTail(rows, s, g, c0) ==
    LET c == Eff(s, c0) IN
    /\ ~c.border
    /\ c.sep /\ ~c.inputless /\ c.info \in {"default", "inline"}
    /\ InfoFill(s, g, c) = 0
    /\ Len(rows) = g.h
    /\ LET R == Render(s, g, c0) IN
       \E r \in InfoRowIx(g, c) :
          /\ \A i \in 1..g.h : i # r => rows[i] = R[i]
          /\ Len(rows[r]) = Len(R[r]) + 1 /\ IsPrefix(R[r], rows[r])

-------------------------------------------------------------------------------
(* NAMED DEVIATION (finding "header-lines-window-not-hidden", src/terminal.go resizeIfNeeded).  With               *)
(* --layout=reverse-list the --header-lines rows live in a window of their own above the list.  Whether that       *)
(* window has to be rebuilt is decided by comparing its height with the NUMBER OF HEADER LINES, not with the        *)
(* number of VISIBLE header lines: without a --header (whose window does notice), hide-header / toggle-header      *)
(* change nothing - the rows stay, the list keeps its size - until something else rebuilds the windows (a resize).  *)
(* The screen then is the exact rendition of the same state with the header section shown.                          *)
(* Not part of Render; the judge names it.                                                                           *)
DevHeaderLinesStayApplies(s, c) == c.layout = "reverse-list" /\ Len(c.hlines) > 0 /\ c.header = <<>> /\ ~s.showHeader
DevHeaderLinesStayState(s) == [s EXCEPT !.showHeader = TRUE]

(* NAMED DEVIATION (finding "header-lines-reversed-after-show-input", src/terminal.go resizeIfNeeded / move).       *)
(* With --layout=reverse-list and --header-lines the prompt has a window of its own - but only as long as the        *)
(* windows are built while the input section is shown.  hide-input rebuilds them without it; show-input (or          *)
(* toggle-input) does NOT rebuild them (resizeIfNeeded only asks whether --input-border is set), so from then on     *)
(* the prompt and the info line are drawn inside the list window, until something else rebuilds the windows          *)
(* (a resize).  Two things follow:                                                                                    *)
(*   - `move` takes "the input lines are in this window" as the sign to count rows from the bottom, also in the       *)
(*     header-lines window: the --header-lines appear in REVERSE order;                                               *)
(*   - the window of the --header lines, built without an input window below it, is the bottom-most: the header       *)
(*     lines appear BELOW the prompt instead of between the list and the info line.                                   *)
(* Everything else is in place.  Not part of Render; the judge names it.  vis: the show / hide / toggle actions of    *)
(* the session so far.  g, c in DevInputWindowLostArea: the finder's area and the configuration in effect.            *)
DevHeaderLinesReversedApplies(s, c, vis) ==
    /\ c.layout = "reverse-list" /\ Len(c.hlines) >= 1
    /\ \/ \E i \in 1..Len(vis) : vis[i] \in {"hide-input", "toggle-input"}  \* (it stays so when the input is hidden again)
       \/ c.inputless /\ vis # <<>>                                          \* started with --no-input: show-input is enough
DevInputWindowLostArea(s, g, c, swap) ==
    LET A == RenderArea(s, g, c)
        n == HlTop(g, c)
        pl == PromptLines(c)
        H == Len(HdrStack(c))                                   \* the --header lines below the list
        lo == g.h - pl - H                                      \* below row lo: the header lines, then the input section
        A1 == [i \in 1..g.h |-> IF i <= n THEN A[n + 1 - i] ELSE A[i]]
    IN IF swap /\ pl > 0 /\ H > 0 /\ lo >= n
       THEN [i \in 1..g.h |-> IF i <= lo THEN A1[i] ELSE IF i <= lo + pl THEN A1[i + H] ELSE A1[i - pl]]
       ELSE A1
DevInputWindowLostScreen(s, g, c0, swap) ==
    LET area == DevInputWindowLostArea(s, Inner(g, c0), Eff(s, c0), swap)
    IN IF c0.border THEN Frame(area, g) ELSE area

(* NAMED DEVIATION (finding "rows-not-cleared-after-header-toggle-reverse-list", src/terminal.go printList /        *)
(* printItem / move).  Which rows need repainting is remembered per LINE of the list window (prevLines), and with    *)
(* --layout=reverse-list the screen row of a list line depends on the number of header lines below the list (move:   *)
(* y -= header lines + input lines).  toggle-header / hide-header / show-header change that number without           *)
(* invalidating the memory (toggle-input does invalidate it): every list row moves, rows "known to be empty" are     *)
(* not cleared, rows "known to be n columns wide" are blanked up to n only.  What the header (or a longer list row)  *)
(* had written stays visible to the right of the new content, or on rows that should now be empty.  Applies when     *)
(* the --header lines live in the list window (no --header-lines: those get windows of their own, and the windows   *)
(* are rebuilt).  The screen then is the exact rendition, except that list / header / empty rows of the area may     *)
(* carry extra cells after their content.  Not part of Render; the judge names it.                                    *)
DevStaleRowsApplies(c, vis) ==
    /\ c.layout = "reverse-list" /\ Len(c.hlines) = 0 /\ Len(c.header) > 0
    /\ \E i \in 1..Len(vis) : vis[i] \in {"toggle-header", "hide-header", "show-header"}
DevStaleRows(rows, s, g, c, open) ==            \* open: screen rows whose exact content the specification leaves open
    LET gi == Inner(g, c)
        ce == Eff(s, c)
        area == IF c.border THEN Unframe(rows, g) ELSE rows
        RA == RenderArea(s, gi, ce)
    IN /\ Len(rows) = g.h /\ (c.border => ClaimFrame(rows, g))
       /\ \A i \in 1..gi.h :
            \/ area[i] = RA[i] \/ (i + (IF c.border THEN 1 ELSE 0)) \in open
            \/ /\ SlotAt(i - 1, gi, ce).kind \in {"item", "blank", "header"}
               \* the content is there; after it - and in the scrollbar column - anything may have stayed (or be missing)
               /\ IsPrefix(RTrim(TakeW(RA[i], gi.w - 1, gi)), area[i]) /\ TW(area[i], gi) <= gi.w

(* NAMED DEVIATION (finding "keep-right-lost-after-exclude", src/terminal.go printHighlighted).  --keep-right is     *)
(* "effective only when the query string is empty" (man fzf).  The code asks instead whether the matcher reported    *)
(* positions (`pos == nil`), i.e. whether the displayed list came from an unfiltered pass.  After `exclude` the list  *)
(* is filtered by a pattern that has no terms but a deny list: the query is still empty, positions are reported (none),*)
(* and too long lines are cut on the right again.  The screen then is the exact rendition without --keep-right.       *)
(* filtered: the displayed list came from a filtering pass (term.list: not `pass`).  Not part of Render.              *)
DevKeepRightLostApplies(s, c, filtered) == c.hscroll /\ c.keepRight /\ s.pattern = <<>> /\ filtered
DevKeepRightLostCfg(c) == [c EXCEPT !.keepRight = FALSE]

(* NAMED DEVIATION (finding "missing-header-lines-not-cleared", src/terminal.go printHeaderImpl).  --header-lines=N   *)
(* reserves N rows even when the input has fewer records (CODE-DERIVED, see c.hlines); the rows of the missing        *)
(* records are never drawn - nor cleared.  When the layout shifts without a full redraw (hide-input, toggle-header, *)
(* ...) they keep whatever the rows showed before.  The screen then is the exact rendition except on those rows.       *)
(* missing: the number of reserved rows without a record (the last `missing` of c.hlines).                             *)
MissingHeaderRows(g, c, missing) ==
    {r \in 1..g.h : LET sl == SlotAt(r - 1, g, c) IN
        \/ sl.kind = "hline" /\ sl.ix > Len(c.hlines) - missing
        \/ sl.kind = "header" /\ ~Split(c) /\ sl.ix > Len(c.header) + Len(c.hlines) - missing}

(* NAMED DEVIATION (finding "tab-stops-assume-two-column-ellipsis", src/terminal.go trimLeft / printHighlighted).    *)
(* When horizontal scrolling cuts a line in front, trimLeft measures what it keeps with the tab stops of a text that  *)
(* starts in column 2 (`displayWidthWithLimit(runes, 2, width)`: the width of the DEFAULT ellipsis), but the text is   *)
(* then drawn behind the ellipsis that is configured.  With --ellipsis of another width (none, one column such as the  *)
(* popular single-character ellipsis, three dots) the TABs of the drawn text fall on other stops than the measured    *)
(* ones and the row comes out narrower - or WIDER, by up to 2 columns for a narrower ellipsis and up to tabstop - 1    *)
(* columns for a wider one: the text runs into the reserved column and over the edge of the window (inside --border:   *)
(* over the frame), the end of the line is lost without an ellipsis, --keep-right no longer shows the right end.       *)
(* The screen then is the exact rendition except on the list rows of lines with TABs that are cut in front: such a    *)
(* row is the pre = 2 rendition (WindowTP), complete if that has room and otherwise at least as much of it as the      *)
(* list window has columns for.  MC_Screen (MC_Screen_dev_tabpre.cfg) exhibits the overflow as a counterexample to     *)
(* InvTabPre2Room.  Not part of Render; the judge names it.  open: rows the specification leaves open.                 *)
EllipsisW(g, c) == TW(TakeW(c.ellipsis, TextRoom(g, c) \div 2, g), g)
DevTabStopsApplies(s, g, c0) ==
    LET gi == Inner(g, c0) ce == Eff(s, c0) IN
    ce.hscroll /\ EllipsisW(gi, ce) # 2 /\ \E i \in 1..N(s) : HasTab(s.texts[i]) /\ TWT(s.texts[i], ce.tabstop, gi) > TextRoom(gi, ce)
DevTabStops(rows, s, g, c0, open) ==
    LET gi == Inner(g, c0)
        ce == Eff(s, c0)
        d == IF c0.border THEN 1 ELSE 0
        R == Render(s, g, c0)
    IN /\ DevTabStopsApplies(s, g, c0) /\ Len(rows) = g.h
       /\ \A r \in 1..g.h :
            \/ rows[r] = R[r] \/ r \in open
            \/ /\ r - d \in 1..gi.h /\ SlotAt(r - d - 1, gi, ce).kind = "item"
               /\ LET k == SlotAt(r - d - 1, gi, ce).ix
                      i == s.offset + k + 1
                  IN /\ i <= N(s) /\ HasTab(s.texts[i]) /\ TWT(s.texts[i], ce.tabstop, gi) > TextRoom(gi, ce)
                     /\ LET dev == ItemRowP(k, s, gi, ce, TRUE) IN
                        IF TW(dev, gi) <= gi.w - 1
                        THEN rows[r] = (IF c0.border THEN FrameRow(RTrim(dev), g) ELSE RTrim(dev))
                        ELSE IsPrefix((IF c0.border THEN <<"|", " ">> ELSE <<>>) \o TakeW(dev, gi.w - 1, gi), rows[r])

-------------------------------------------------------------------------------
(* Properties of the placement (checked by MC_Screen on all small geometries and configurations) *)
HeaderStackIx(i, c) == IF c.layout = "reverse" THEN i ELSE Len(c.header) + 1 - i      \* where c.header[i] is in HdrStack
HeaderRowsOf(i, g, c) == {r \in 1..g.h : SlotAt(r - 1, g, c) = [kind |-> "header", ix |-> HeaderStackIx(i, c)]}
HlineRowsOf(j, g, c) == {r \in 1..g.h : \/ SlotAt(r - 1, g, c) = [kind |-> "hline", ix |-> j]
                                        \/ (~Split(c) /\ SlotAt(r - 1, g, c) = [kind |-> "header", ix |-> Len(c.header) + j])}
PlaceOK(g, c) ==
    LET P == Place(g, c)
        items == RowsOf("item", g, c)
        hdrs == RowsOf("header", g, c) \cup RowsOf("hline", g, c)
        roomy == g.h >= PromptLines(c) + NHeader(c)
    IN /\ Len(P) = g.h
       \* every list row exactly once, MaxItems of them, contiguous
       /\ Cardinality(items) = MaxItems(g, c)
       /\ \A k \in 0..(MaxItems(g, c) - 1) : Cardinality({r \in items : P[r].ix = k}) = 1
       /\ \A r1, r2 \in items : \A r \in r1..r2 : r \in items
       \* direction dictated by --layout
       /\ \A r1, r2 \in items : r1 < r2 => IF c.layout = "default" THEN P[r1].ix > P[r2].ix ELSE P[r1].ix < P[r2].ix
       \* prompt exactly once (unless --no-input), info/separator line as configured
       /\ Cardinality(RowsOf("prompt", g, c)) = (IF c.inputless THEN 0 ELSE 1)
       /\ Cardinality(RowsOf("info", g, c)) = (IF PromptLines(c) = 2 THEN 1 ELSE 0)
       \* header lines: each at most once, all of them when there is room, never inside the list
       /\ \A r1, r2 \in hdrs : (r1 # r2 => P[r1] # P[r2])
       /\ (roomy => Cardinality(hdrs) = NHeader(c))
       /\ \A r \in hdrs : \A r1, r2 \in items : ~(r1 < r /\ r < r2)
       \* the lines of --header read top to bottom in every layout
       /\ \A i1, i2 \in 1..Len(c.header) : i1 < i2 =>
            \A r1 \in HeaderRowsOf(i1, g, c), r2 \in HeaderRowsOf(i2, g, c) : r1 < r2
       \* the header lines of the input continue in the direction of the list
       /\ \A j1, j2 \in 1..Len(c.hlines) : j1 < j2 =>
            \A r1 \in HlineRowsOf(j1, g, c), r2 \in HlineRowsOf(j2, g, c) :
               IF c.layout = "default" THEN r1 > r2 ELSE r1 < r2
       \* the prompt sits at the edge the layout names (the header beyond it with --header-first)
       /\ (roomy /\ ~c.inputless /\ ~c.headerFirst =>
             IF c.layout = "reverse" THEN P[1].kind = "prompt" ELSE P[g.h].kind = "prompt")
       /\ (roomy /\ c.headerFirst /\ Len(HdrStack(c)) > 0 =>
             IF c.layout = "reverse" THEN P[1].kind = "header" ELSE P[g.h].kind = "header")
       \* the info / separator line lies between the prompt and the list
       /\ \A ri \in RowsOf("info", g, c), rp \in RowsOf("prompt", g, c) :
             IF c.layout = "reverse" THEN ri = rp + 1 ELSE ri = rp - 1
=============================================================================
