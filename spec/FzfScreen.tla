------------------------------- MODULE FzfScreen -------------------------------
(* What the finder draws, as a function of its state: Render(s, g, c) = the rows of the terminal, top to bottom, *)
(* for the comparable configuration  --no-color --no-unicode --no-hscroll --no-scrollbar, no borders / margin /   *)
(* preview, single-line items, full screen in a g.w x g.h terminal  (src/terminal.go printPrompt, printInfoImpl,  *)
(* printHeaderImpl, printList, printItem, printHighlighted, move, promptLine, maxItems, resizeWindows).            *)
(*                                                                                                                 *)
(* A text is a sequence of CELLS; a cell is a string holding one character.  Rows are texts without trailing      *)
(* blanks (a terminal cannot tell a blank from nothing).                                                          *)
(*   g = [w, h, wide, zero]      terminal size; the sets of cells that are two columns wide / zero columns wide   *)
(*   c = [layout, info, sep, header, hlines, headerFirst, inputless, prompt, pointer, marker, ellipsis]           *)
(*        layout in {"default","reverse","reverse-list"}; info in {"default","inline","hidden","right",           *)
(*        "inline-right"}; sep: a separator is drawn (FALSE = --no-separator); header: the lines of --header;     *)
(*        hlines: the --header-lines=N rows: the first N input records (CODE-DERIVED: N rows stay reserved, blank, *)
(*        when the input has fewer records); prompt/pointer/marker/ellipsis: texts                                 *)
(*   s = [input, cx, xoffset, list, texts, sel, multi, cy, offset, count, track]                                   *)
(*        list: result ids in rank order, texts[i] the line of list[i]; sel: selected ids; multi: limit (0 = off) *)
(*        cy: index of the current result; offset: index of the first displayed result; count: items loaded       *)
(*        track: 0 off, 1 --track, 2 tracking the current line (actions toggle-track / track-current)              *)
(*        xoffset: number of leading query characters scrolled out of the prompt line (0 unless a query was too long) *)
(*                                                                                                                 *)
(* Two layers are kept apart:                                                                                      *)
(*   DOCUMENTED  - placement (--layout, --header, --header-lines, --header-first, --info), what a row says        *)
(*                 (query; matched/total/selected counts; result line complete or truncated with the ellipsis;    *)
(*                 pointer / marker columns), the width bound: operators Place, Claims*.                           *)
(*   CODE-DERIVED - the exact text of the info line, the column reserved at the right edge, how the ellipsis is   *)
(*                 fitted, clipping when the window is too short: operator Render (regression oracle).            *)
(* MC_Screen proves  Claims(Render(x), x)  on small constants, i.e. the two layers agree.                          *)
EXTENDS Integers, Sequences, FiniteSets, TLC

MaxMulti == 2147483647
Min2(a, b) == IF a < b THEN a ELSE b
Max2(a, b) == IF a > b THEN a ELSE b
Constrain(v, lo, hi) == IF v < lo THEN lo ELSE IF v > hi THEN hi ELSE v
Range(q) == {q[i] : i \in 1..Len(q)}
Sub(t, a, b) == IF a > b THEN <<>> ELSE SubSeq(t, a, b)
Rev(t) == [i \in 1..Len(t) |-> t[Len(t) + 1 - i]]
Rep(cell, n) == [i \in 1..Max2(n, 0) |-> cell]
Spaces(n) == Rep(" ", n)

-------------------------------------------------------------------------------
(* Widths *)
CW(cell, g) == IF cell \in g.wide THEN 2 ELSE IF cell \in g.zero THEN 0 ELSE 1
RECURSIVE TWFrom(_, _, _)
TWFrom(t, i, g) == IF i > Len(t) THEN 0 ELSE CW(t[i], g) + TWFrom(t, i + 1, g)
TW(t, g) == TWFrom(t, 1, g)                                           \* display width of a text

(* util.RunesWidth / trimRight / util.Truncate: the longest prefix that is at most lim columns wide *)
RECURSIVE CutAt(_, _, _, _, _)
CutAt(t, i, acc, lim, g) == IF i > Len(t) THEN Len(t)
                            ELSE IF acc + CW(t[i], g) > lim THEN i - 1
                            ELSE CutAt(t, i + 1, acc + CW(t[i], g), lim, g)
TakeW(t, lim, g) == IF lim < 0 THEN <<>> ELSE Sub(t, 1, CutAt(t, 1, 0, lim, g))
(* the same, declaratively (MC_Screen checks the two agree) *)
TakeWDecl(t, lim, g) ==
    LET I == {k \in 0..Len(t) : TW(Sub(t, 1, k), g) <= lim}
    IN IF I = {} THEN <<>> ELSE Sub(t, 1, CHOOSE k \in I : \A j \in I : j <= k)

RECURSIVE LastNonBlank(_, _)
LastNonBlank(t, i) == IF i = 0 THEN 0 ELSE IF t[i] # " " THEN i ELSE LastNonBlank(t, i - 1)
RTrim(t) == Sub(t, 1, LastNonBlank(t, Len(t)))

Digit(d) == CASE d = 0 -> "0" [] d = 1 -> "1" [] d = 2 -> "2" [] d = 3 -> "3" [] d = 4 -> "4"
              [] d = 5 -> "5" [] d = 6 -> "6" [] d = 7 -> "7" [] d = 8 -> "8" [] d = 9 -> "9"
RECURSIVE Digits(_)
Digits(n) == IF n < 10 THEN <<Digit(n)>> ELSE Digits(n \div 10) \o <<Digit(n % 10)>>

IsPrefix(p, t) == Len(p) <= Len(t) /\ Sub(t, 1, Len(p)) = p
Contains(t, p) == \E i \in 0..(Len(t) - Len(p)) : Sub(t, i + 1, i + Len(p)) = p

-------------------------------------------------------------------------------
(* Geometry of the regions *)
N(s) == Len(s.list)
PLen(c, g) == TW(c.pointer, g)
MLen(c, g) == TW(c.marker, g)
Indent(c, g) == PLen(c, g) + MLen(c, g)

(* the info / separator does not get a line of its own (options.go noSeparatorLine) *)
NoSepLine(c) == \/ c.inputless
                \/ c.info = "inline"
                \/ (c.info \in {"hidden", "inline-right"} /\ ~c.sep)
PromptLines(c) == IF c.inputless THEN 0 ELSE IF NoSepLine(c) THEN 1 ELSE 2
NHeader(c) == Len(c.header) + Len(c.hlines)
MaxItems(g, c) == Max2(g.h - PromptLines(c) - NHeader(c), 0)

(* --layout=reverse-list shows the --header-lines above the list and --header next to the prompt (options.go     *)
(* postProcessOptions: "header lines should be at the top, while ordinary header should be at the bottom")       *)
Split(c) == c.layout = "reverse-list" /\ Len(c.hlines) > 0

(* The prompt, the info line and the header lines form a stack that grows from the edge the layout is anchored   *)
(* to (bottom: default, reverse-list; top: reverse).  HdrStack lists the header lines in stack order.            *)
(* DOCUMENTED: the lines of --header are displayed from top to bottom regardless of --layout; header lines of    *)
(* the input continue the list direction.                                                                         *)
HdrStack(c) == IF c.layout = "reverse" THEN c.header \o c.hlines
               ELSE Rev(c.header) \o (IF Split(c) THEN <<>> ELSE c.hlines)
(* header lines of the input shown above the list in the split arrangement; CODE-DERIVED clipping *)
HlTop(g, c) == IF Split(c)
               THEN Min2(Len(c.hlines), Max2(g.h - PromptLines(c) - Min2(Len(c.header), g.h - PromptLines(c)), 0))
               ELSE 0

(* Stack line y (0 = nearest to the anchored edge) -> slot.  CODE-DERIVED: what is dropped when the window is    *)
(* too short (printHeaderImpl `line >= max`, promptLine).                                                        *)
Blank == [kind |-> "blank", ix |-> 0]
PromptY(g, c) == IF c.headerFirst THEN Min2(Len(HdrStack(c)), Max2(g.h - PromptLines(c), 0)) ELSE 0
StackAt(y, g, c) ==
    LET pl == PromptLines(c)
        nh == Len(HdrStack(c))
        py == PromptY(g, c)
        hy == IF c.headerFirst THEN y ELSE y - pl                      \* index into HdrStack
        hmax == IF c.headerFirst THEN g.h - pl ELSE g.h
        k == y - pl - nh                                               \* list row
    IN IF pl >= 1 /\ y = py THEN [kind |-> "prompt", ix |-> 0]
       ELSE IF pl = 2 /\ y = py + 1 THEN [kind |-> "info", ix |-> 0]
       ELSE IF hy >= 0 /\ hy < nh /\ y < hmax THEN [kind |-> "header", ix |-> hy + 1]
       ELSE IF k >= 0 /\ k < MaxItems(g, c) /\ c.layout # "reverse-list" THEN [kind |-> "item", ix |-> k]
       ELSE Blank

(* Screen row r (0 = top) -> slot *)
SlotAt(r, g, c) ==
    CASE c.layout = "default" -> StackAt(g.h - 1 - r, g, c)
      [] c.layout = "reverse" -> StackAt(r, g, c)
      [] c.layout = "reverse-list" ->
           IF r < HlTop(g, c) THEN [kind |-> "hline", ix |-> r + 1]
           ELSE IF r - HlTop(g, c) < MaxItems(g, c) THEN [kind |-> "item", ix |-> r - HlTop(g, c)]
           ELSE IF g.h - 1 - r < PromptLines(c) + Len(HdrStack(c)) THEN StackAt(g.h - 1 - r, g, c)
           ELSE Blank
Place(g, c) == [r \in 1..g.h |-> SlotAt(r - 1, g, c)]

-------------------------------------------------------------------------------
(* Row contents *)
(* CODE-DERIVED: one column at the right edge is reserved (scrollbar column, even with --no-scrollbar); a longer  *)
(* text is cut so that the ellipsis (itself cut to half the room) still fits (printHighlighted, --no-hscroll).    *)
Fit(t, maxw, c, g) ==
    IF maxw <= 0 THEN <<>>
    ELSE IF TW(t, g) <= maxw THEN t
    ELSE LET el == TakeW(c.ellipsis, maxw \div 2, g)
         IN TakeW(t, maxw - TW(el, g), g) \o el
TextRoom(g, c) == g.w - (Indent(c, g) + 1)

Selected(id, s) == \E i \in 1..Len(s.sel) : s.sel[i] = id
ItemRow(k, s, g, c) ==
    LET i == s.offset + k + 1 IN
    IF i > N(s) THEN <<>>
    ELSE (IF s.offset + k = s.cy THEN c.pointer ELSE Spaces(PLen(c, g)))
         \o (IF Selected(s.list[i], s) THEN c.marker ELSE Spaces(MLen(c, g)))
         \o Fit(s.texts[i], TextRoom(g, c), c, g)
HeaderRow(t, g, c) == Spaces(Indent(c, g)) \o Fit(t, TextRoom(g, c), c, g)

(* CODE-DERIVED: exact text of the finder info (printInfoImpl); DOCUMENTED: it shows matched/total and the        *)
(* number of selected lines (with the limit when --multi has one) *)
InfoText(s) ==
    Digits(N(s)) \o <<"/">> \o Digits(Max2(N(s), s.count))
    \o (CASE s.track = 1 -> <<" ", "+", "T">> [] s.track = 2 -> <<" ", "+", "t">> [] OTHER -> <<>>)
    \o (IF s.multi > 0
        THEN IF s.multi = MaxMulti THEN <<" ", "(">> \o Digits(Len(s.sel)) \o <<")">>
             ELSE <<" ", "(">> \o Digits(Len(s.sel)) \o <<"/">> \o Digits(s.multi) \o <<")">>
        ELSE <<>>)
TrimMsg(m, maxw, g) == IF Len(m) <= maxw THEN m ELSE TakeW(m, maxw - 2, g) \o Rep(".", Constrain(maxw, 0, 2))
SepFill(n, c) == IF c.sep THEN Rep("-", n) ELSE <<>>

(* The part of the query shown on the prompt line.  CODE-DERIVED (updatePromptOffset): the query scrolls            *)
(* horizontally by s.xoffset characters; what precedes the cursor is cut on the left, what follows on the right.    *)
PromptRoom(g, c) == Max2(1, g.w - TW(c.prompt, g) - 1)
QueryFits(s, g, c) == TW(s.input, g) <= PromptRoom(g, c)
TakeRightW(t, lim, g) == Rev(TakeW(Rev(t), lim, g))                     \* trimLeft: the longest suffix within lim columns
QBefore(s, g, c) == TakeRightW(Sub(s.input, s.xoffset + 1, s.cx), PromptRoom(g, c), g)
QAfter(s, g, c) == TakeW(Sub(s.input, s.cx + 1, Len(s.input)), PromptRoom(g, c) - TW(QBefore(s, g, c), g), g)
QShown(s, g, c) == QBefore(s, g, c) \o QAfter(s, g, c)
(* the offset updatePromptOffset leaves behind, given the previous one (used by MC_Screen to walk through scrolled prompts) *)
PromptOffset(s, g, c) ==
    LET m == PromptRoom(g, c)
        b == Sub(s.input, 1, s.cx)
        mn == Len(b) - Len(TakeRightW(b, m, g))
        mx == mn + (m - Max2(0, m - s.cx)) \div 2
    IN Constrain(s.xoffset, mn, mx)
PromptPart(c, g) == Fit(c.prompt, g.w - 2, c, g)

InfoLineRow(s, g, c) ==                                    \* the line below/above the prompt
    LET out == InfoText(s) IN
    CASE c.info = "default" ->
           LET maxw == g.w - 3
               fill == maxw - Len(out) - 1
           IN <<" ", " ">> \o TrimMsg(out, maxw, g) \o (IF fill > 0 THEN <<" ">> \o SepFill(fill, c) ELSE <<>>)
      [] c.info = "right" ->
           LET o2 == TrimMsg(out, g.w - 1, g)
               fill == g.w - Len(o2) - 2
           IN (IF fill >= 0 THEN (IF c.sep THEN Rep("-", fill) \o <<" ">> ELSE Spaces(fill + 1)) ELSE <<>>) \o o2
      [] OTHER -> SepFill(g.w - 1, c)                      \* hidden / inline-right: only the separator
PromptRow(q, s, g, c) ==                                   \* q: the displayed part of the query
    LET out == InfoText(s)
        base == PromptPart(c, g) \o q
        pos0 == TW(c.prompt, g) + TW(q, g) + 1
    IN CASE c.info = "inline" ->
              LET prefix == <<" ", "<", " ">>
                  pos == pos0 + 3
                  maxw == g.w - pos - 1
                  fill == maxw - Len(out) - 1
              IN base \o <<" ">> \o prefix \o TrimMsg(out, maxw, g) \o (IF fill > 0 THEN <<" ">> \o SepFill(fill, c) ELSE <<>>)
         [] c.info = "inline-right" ->
              LET np == Max2(pos0, g.w - Len(out) - 3)
                  p1 == IF np < g.w THEN np + 1 ELSE np
                  p2 == IF p1 < g.w - 1 THEN p1 + 1 ELSE p1
              IN base \o Spaces(p2 - (pos0 - 1)) \o TrimMsg(out, g.w - p2 - 1, g)
         [] OTHER -> base

SlotRow(sl, s, g, c) ==
    CASE sl.kind = "prompt" -> PromptRow(QShown(s, g, c), s, g, c)
      [] sl.kind = "info" -> InfoLineRow(s, g, c)
      [] sl.kind = "header" -> HeaderRow(HdrStack(c)[sl.ix], g, c)
      [] sl.kind = "hline" -> HeaderRow(c.hlines[sl.ix], g, c)
      [] sl.kind = "item" -> ItemRow(sl.ix, s, g, c)
      [] OTHER -> <<>>

Render(s, g, c) == [r \in 1..g.h |-> RTrim(SlotRow(SlotAt(r - 1, g, c), s, g, c))]

-------------------------------------------------------------------------------
(* DOCUMENTED claims, stated on an observed screen `rows` (captured or rendered).  Pointer, marker and prompt    *)
(* are narrow (one column per cell) in the comparable configuration.                                              *)
RowsOf(kind, g, c) == {r \in 1..g.h : SlotAt(r - 1, g, c).kind = kind}

ClaimHeight(rows, g) == Len(rows) = g.h
ClaimWidth(rows, g) == \A r \in 1..Len(rows) : TW(rows[r], g) <= g.w

(* room for the info text where the style puts it, given the displayed part q of the query (CODE-DERIVED) *)
InfoRoom(q, s, g, c) ==
    LET pos0 == TW(c.prompt, g) + TW(q, g) + 1 IN
    CASE c.info = "default" -> g.w - 3
      [] c.info = "right" -> g.w - 2
      [] c.info = "inline" -> g.w - (pos0 + 3) - 1
      [] c.info = "inline-right" -> g.w - (pos0 + 2) - 1
      [] OTHER -> g.w
InfoFits(q, s, g, c) == Len(InfoText(s)) <= InfoRoom(q, s, g, c)

(* "the prompt line shows the current query": the prompt, then the query - or, when the query is longer than the *)
(* line, a contiguous part of it that contains the cursor position *)
InlineInfo(c) == c.info \in {"inline", "inline-right"}
ShowsPart(row, q, g, c) ==
    LET p == PromptPart(c, g) IN
    row = RTrim(p \o q) \/ (InlineInfo(c) /\ IsPrefix(p \o q \o <<" ">>, row))        \* the info may follow
(* xoffset > 0: an earlier query was longer than the line; the prompt may then stay scrolled horizontally         *)
(* (CODE-DERIVED: updatePromptOffset keeps its offset within [0, cx/2] once it has become positive)                *)
ShowsQuery(row, s, g, c) ==
    IF QueryFits(s, g, c) /\ s.xoffset = 0 THEN ShowsPart(row, s.input, g, c)
    ELSE \E i \in 1..(Len(s.input) + 1) : \E j \in (i - 1)..Len(s.input) :
            /\ i - 1 <= s.cx /\ s.cx <= j
            /\ 2 * (j - i + 1) >= Min2(Len(s.input), (PromptRoom(g, c) - 3) \div 2)    \* a real part, not a token one
            /\ ShowsPart(row, Sub(s.input, i, j), g, c)
ClaimPrompt(rows, s, g, c) == \A r \in RowsOf("prompt", g, c) : ShowsQuery(rows[r], s, g, c)

(* "the info line shows matched/total (and selected) counts" (wherever --info puts it, when there is room) *)
InfoShown(s) == Digits(N(s)) \o <<"/">> \o Digits(Max2(N(s), s.count))
SelShown(s) == IF s.multi = 0 THEN <<>>
               ELSE IF s.multi = MaxMulti THEN <<"(">> \o Digits(Len(s.sel)) \o <<")">>
               ELSE <<"(">> \o Digits(Len(s.sel)) \o <<"/">> \o Digits(s.multi) \o <<")">>
InfoRowIx(g, c) == IF InlineInfo(c) THEN RowsOf("prompt", g, c) ELSE RowsOf("info", g, c)
ClaimInfo(rows, s, g, c) ==
    (c.info # "hidden" /\ ~c.inputless /\ InfoFits(QShown(s, g, c), s, g, c)) =>
        \A r \in InfoRowIx(g, c) : Contains(rows[r], InfoShown(s)) /\ Contains(rows[r], SelShown(s))

(* "each list row shows the corresponding result line - complete when it fits, otherwise truncated with the      *)
(* ellipsis"; "the pointer on the current line and a marker on exactly the selected lines" *)
ShowsLine(body, t, g, c) ==
    \/ body = RTrim(t)
    \/ /\ TW(t, g) > TextRoom(g, c)                                    \* does not fit beside the reserved column
       /\ \E k \in 0..(Len(t) - 1) : body = RTrim(Sub(t, 1, k) \o c.ellipsis)
ItemShown(row, k, s, g, c) ==
    LET i == s.offset + k + 1
        pl == Len(c.pointer)
        ml == Len(c.marker)
        padded == row \o Spaces(pl + ml)                               \* blank pointer/marker columns may have been trimmed
    IN /\ Sub(padded, 1, pl) = (IF s.offset + k = s.cy THEN c.pointer ELSE Spaces(pl))
       /\ Sub(padded, pl + 1, pl + ml) = (IF Selected(s.list[i], s) THEN c.marker ELSE Spaces(ml))
       /\ ShowsLine(RTrim(Sub(padded, pl + ml + 1, Len(padded))), s.texts[i], g, c)
ClaimList(rows, s, g, c) ==
    \A r \in RowsOf("item", g, c) :
        LET k == SlotAt(r - 1, g, c).ix IN
        IF s.offset + k < N(s) THEN ItemShown(rows[r], k, s, g, c) ELSE rows[r] = <<>>

(* "Header lines appear where the layout puts them and are never part of the list" *)
HeaderShown(row, t, g, c) ==
    LET ind == Indent(c, g)
        padded == row \o Spaces(ind)
    IN Sub(padded, 1, ind) = Spaces(ind) /\ ShowsLine(RTrim(Sub(padded, ind + 1, Len(padded))), t, g, c)
ClaimHeader(rows, g, c) ==
    /\ \A r \in RowsOf("header", g, c) : HeaderShown(rows[r], HdrStack(c)[SlotAt(r - 1, g, c).ix], g, c)
    /\ \A r \in RowsOf("hline", g, c) : HeaderShown(rows[r], c.hlines[SlotAt(r - 1, g, c).ix], g, c)
ClaimBlank(rows, g, c) == \A r \in RowsOf("blank", g, c) : rows[r] = <<>>

Claims(rows, s, g, c) ==
    /\ ClaimHeight(rows, g)
    /\ ClaimWidth(rows, g)
    /\ ClaimPrompt(rows, s, g, c)
    /\ ClaimInfo(rows, s, g, c)
    /\ ClaimList(rows, s, g, c)
    /\ ClaimHeader(rows, g, c)
    /\ ClaimBlank(rows, g, c)
FailedClaims(rows, s, g, c) ==
    IF ~ClaimHeight(rows, g) THEN "height"
    ELSE (IF ClaimWidth(rows, g) THEN "" ELSE "width ")
         \o (IF ClaimPrompt(rows, s, g, c) THEN "" ELSE "prompt ")
         \o (IF ClaimInfo(rows, s, g, c) THEN "" ELSE "info ")
         \o (IF ClaimList(rows, s, g, c) THEN "" ELSE "list ")
         \o (IF ClaimHeader(rows, g, c) THEN "" ELSE "header ")
         \o (IF ClaimBlank(rows, g, c) THEN "" ELSE "blank ")

-------------------------------------------------------------------------------
(* NAMED DEVIATION (finding "info-tail-not-cleared", src/terminal.go printInfoImpl).  With a separator configured  *)
(* the info text is repainted without clearing the rest of its line; the separator that follows normally           *)
(* overwrites what was there - but when the text ends exactly one column short of its room (fill = 0) nothing is   *)
(* drawn after it, and the cell next to it keeps the character an earlier, different rendition left there (a       *)
(* separator dash, or the last character of a longer info text: "10/10 (9))").  The screen then is the exact       *)
(* rendition plus one stale cell at the end of the info text.  Not part of Render; the judge names it.             *)
InfoFill(s, g, c) == InfoRoom(QShown(s, g, c), s, g, c) - Len(InfoText(s)) - 1
DevInfoTail(rows, s, g, c) ==
    /\ c.sep /\ ~c.inputless /\ c.info \in {"default", "inline"}
    /\ InfoFill(s, g, c) = 0
    /\ Len(rows) = g.h
    /\ LET R == Render(s, g, c) IN
       \E r \in InfoRowIx(g, c) :
          /\ \A i \in 1..g.h : i # r => rows[i] = R[i]
          /\ Len(rows[r]) = Len(R[r]) + 1 /\ IsPrefix(R[r], rows[r])

-------------------------------------------------------------------------------
(* Properties of the placement (checked by MC_Screen on all small geometries and configurations) *)
HeaderStackIx(i, c) == IF c.layout = "reverse" THEN i ELSE Len(c.header) + 1 - i      \* where c.header[i] is in HdrStack
HeaderRowsOf(i, g, c) == {r \in 1..g.h : SlotAt(r - 1, g, c) = [kind |-> "header", ix |-> HeaderStackIx(i, c)]}
HlineRowsOf(j, g, c) == {r \in 1..g.h : \/ SlotAt(r - 1, g, c) = [kind |-> "hline", ix |-> j]
                                        \/ (~Split(c) /\ SlotAt(r - 1, g, c) = [kind |-> "header", ix |-> Len(c.header) + j])}
PlaceOK(g, c) ==
    LET P == Place(g, c)
        items == RowsOf("item", g, c)
        hdrs == RowsOf("header", g, c) \cup RowsOf("hline", g, c)
        roomy == g.h >= PromptLines(c) + NHeader(c)
    IN /\ Len(P) = g.h
       \* every list row exactly once, MaxItems of them, contiguous
       /\ Cardinality(items) = MaxItems(g, c)
       /\ \A k \in 0..(MaxItems(g, c) - 1) : Cardinality({r \in items : P[r].ix = k}) = 1
       /\ \A r1, r2 \in items : \A r \in r1..r2 : r \in items
       \* direction dictated by --layout
       /\ \A r1, r2 \in items : r1 < r2 => IF c.layout = "default" THEN P[r1].ix > P[r2].ix ELSE P[r1].ix < P[r2].ix
       \* prompt exactly once (unless --no-input), info/separator line as configured
       /\ Cardinality(RowsOf("prompt", g, c)) = (IF c.inputless THEN 0 ELSE 1)
       /\ Cardinality(RowsOf("info", g, c)) = (IF PromptLines(c) = 2 THEN 1 ELSE 0)
       \* header lines: each at most once, all of them when there is room, never inside the list
       /\ \A r1, r2 \in hdrs : (r1 # r2 => P[r1] # P[r2])
       /\ (roomy => Cardinality(hdrs) = NHeader(c))
       /\ \A r \in hdrs : \A r1, r2 \in items : ~(r1 < r /\ r < r2)
       \* the lines of --header read top to bottom in every layout
       /\ \A i1, i2 \in 1..Len(c.header) : i1 < i2 =>
            \A r1 \in HeaderRowsOf(i1, g, c), r2 \in HeaderRowsOf(i2, g, c) : r1 < r2
       \* the header lines of the input continue in the direction of the list
       /\ \A j1, j2 \in 1..Len(c.hlines) : j1 < j2 =>
            \A r1 \in HlineRowsOf(j1, g, c), r2 \in HlineRowsOf(j2, g, c) :
               IF c.layout = "default" THEN r1 > r2 ELSE r1 < r2
       \* the prompt sits at the edge the layout names (the header beyond it with --header-first)
       /\ (roomy /\ ~c.inputless /\ ~c.headerFirst =>
             IF c.layout = "reverse" THEN P[1].kind = "prompt" ELSE P[g.h].kind = "prompt")
       /\ (roomy /\ c.headerFirst /\ Len(HdrStack(c)) > 0 =>
             IF c.layout = "reverse" THEN P[1].kind = "header" ELSE P[g.h].kind = "header")
       \* the info / separator line lies between the prompt and the list
       /\ \A ri \in RowsOf("info", g, c), rp \in RowsOf("prompt", g, c) :
             IF c.layout = "reverse" THEN ri = rp + 1 ELSE ri = rp - 1
=============================================================================
