INIT GInitShape
NEXT GNextShape
INVARIANT EmitShape
CHECK_DEADLOCK FALSE
