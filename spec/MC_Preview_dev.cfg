CONSTANTS
  MaxUI = 2
  Kinds = {"finite", "endless"}
  ShowBumpsVersion = TRUE
  TemplateHasQ = TRUE
SPECIFICATION Spec
INVARIANTS TypeOK OneAlive ConvergenceLostCancel
CHECK_DEADLOCK FALSE
