CONSTANTS
  MaxUI = 2
  Kinds = {"finite", "endless"}
  TemplateHasQ = TRUE
SPECIFICATION Spec
INVARIANTS TypeOK OneAlive ConvergenceStrict
CHECK_DEADLOCK FALSE
