CONSTANTS
  Alphabet <- EnvAlphabet
  MaxLen = 4
INIT Init
NEXT Next
INVARIANTS InvScriptSafe InvEnvValueReadsBack InvNotExportedIsAbsent EmitEnv
CHECK_DEADLOCK FALSE
