CONSTANTS
  Alphabet = {"a", "b", " ", "-", "/", "a~", "han", "A", "1"}
  MaxLen = 10
  Items = {0}
  Lists <- GenLists
  MaxItemsC = 4
  CycleC = TRUE
  LayoutC = "default"
  ScrollOffC = 1
  InputlessC = FALSE
  Multis = {0, 3, 2147483647}
  Tracks = {0, 1, 2}
  ActFilter = "all"
INIT Init
NEXT GNext
INVARIANTS Emit
CONSTRAINT GBound
CHECK_DEADLOCK FALSE
