---------------------------- MODULE FzfLifecycle ----------------------------
(* C14 - resource life cycle of the interactive finder: what fzf changes in its environment and must undo on      *)
(* every exit path.                                                                                                *)
(*                                                                                                                  *)
(* Resources                                                                                                        *)
(*   tio        line discipline of the terminal: "cooked" (as found) / "raw" (term.MakeRaw)                         *)
(*   scr        DEC private modes of the terminal as the terminal sees them: alternate screen (?1049), mouse       *)
(*              reporting (?1000 ?1002 ?1006), bracketed paste (?2004), cursor visibility (?25), autowrap (?7)     *)
(*   queued     mode changes the renderer has queued but not yet written (LightRenderer.queued; written by flush)   *)
(*   listener   the --listen socket                                                                                 *)
(*   children   commands fzf started and that are still alive: "preview" and "reload" (own process groups),        *)
(*              "execute" (foreground, owns the terminal), "silent" (execute-silent / transform)                    *)
(*   temps      temporary files of {f} / {+f} placeholders, each owned by the command it was created for            *)
(*                                                                                                                  *)
(* Documented semantics (man fzf: execute / execute-silent / become / --no-clear / --height / --no-mouse / EXIT     *)
(* STATUS; CHANGELOG "graceful exit on SIGTERM") and the property statement: after ANY exit the terminal is as it   *)
(* was found, nothing fzf started is still running, nothing it created is left.  The per-call lists of mode changes *)
(* (InitOps, PauseOps ...) follow src/tui/light.go and are the vocabulary shared with Trace_Lifecycle, which         *)
(* validates the byte stream of real executions against the same actions.                                          *)
(* \* CODE-DERIVED marks corners the documentation does not fix.                                                    *)
EXTENDS Integers, Sequences, FiniteSets, TLC

CONSTANTS MaxChildren,     \* commands alive at once
          MaxTemps,        \* temp files existing at once
          QMax,            \* bound on the renderer's queue (model bound only)
          MaxPending,      \* bound on simultaneously pending exit requests (model bound only)
          CfgSet,          \* option combinations explored: a subset of Cfgs
          Hows             \* ways of exiting explored: a subset of ExitHows

Tracked == {"alt", "m1000", "m1002", "m1006", "paste"}          \* modes fzf sets for the whole session
Modes == Tracked \cup {"cursor", "wrap"}                          \* + modes toggled around every write
Kinds == {"preview", "reload", "execute", "silent"}
Signals == {"SIGINT", "SIGTERM"}                                  \* the signals fzf handles (signal.Notify in Terminal.Loop)
ExitHows == {"accept", "abort", "print-query", "become", "error", "key"} \cup Signals
     \* "key": typed bytes that made fzf exit, accept or abort (the robustness driver does not interpret them)
Phases == {"start", "running", "fg", "bg", "bgpaused", "stopped", "exited"}
Executing == {"fg", "bg", "bgpaused"}

Op(m, on) == [m |-> m, on |-> on]
Draw == Op("draw", TRUE)                                          \* any output that is not a mode change
InitScr == [alt |-> FALSE, m1000 |-> FALSE, m1002 |-> FALSE, m1006 |-> FALSE, paste |-> FALSE, cursor |-> TRUE, wrap |-> TRUE]
Cfgs == [full : BOOLEAN, mouse : BOOLEAN, clear : BOOLEAN, listen : BOOLEAN]
     \* full: no --height; mouse: no --no-mouse; clear: no --no-clear; listen: --listen

ApplyOp(s, op) == IF op.m \in Modes THEN [s EXCEPT ![op.m] = op.on] ELSE s
RECURSIVE ApplyOps(_, _)
ApplyOps(s, ops) == IF ops = <<>> THEN s ELSE ApplyOps(ApplyOp(s, Head(ops)), Tail(ops))
IsTracked(op) == op.m \in Tracked
TrackedOf(ops) == SelectSeq(ops, IsTracked)

(* ---- what the renderer calls write (src/tui/light.go) ---- *)
MouseOps(on) == <<Op("m1000", on), Op("m1002", on), Op("m1006", on)>>
EnableOps(m) == (IF m THEN MouseOps(TRUE) ELSE <<>>) \o <<Op("paste", TRUE)>>          \* enableModes
DisableOps(m) == (IF m THEN MouseOps(FALSE) ELSE <<>>) \o <<Op("paste", FALSE)>>       \* disableModes
(* flush(): nothing if the queue is empty, else ?7l ?25l <queue> [?25h if the cursor is to be shown] ?7h *)
FlushOps(q, show) == IF q = <<>> THEN <<>>
                     ELSE <<Op("wrap", FALSE), Op("cursor", FALSE)>> \o q \o (IF show THEN <<Op("cursor", TRUE)>> ELSE <<>>) \o <<Op("wrap", TRUE)>>
(* Pause(clear) / Resume(clear): execute leaves (fullscreen) or enters (--height) the alternate screen for the command *)
PauseWritten(c, q, m, show, clear) == IF clear THEN FlushOps(q \o DisableOps(m), show) \o <<Op("alt", ~c.full)>> ELSE <<>>
PauseQueued(c, q, m, clear) == IF clear THEN <<>> ELSE q \o DisableOps(m)
ResumeWritten(c, q, m, show) == FlushOps(q, show) \o <<Op("alt", c.full)>> \o FlushOps(EnableOps(m), show)
(* Close(): leave the alternate screen (unless --no-clear: documented), show the cursor, disable the modes, flush *)
CloseWritten(c, q, m, show) ==
    LET first == IF c.clear /\ c.full THEN FlushOps(q, show) \o <<Op("alt", FALSE)>> ELSE <<>>
        q1 == IF c.clear /\ c.full THEN <<>> ELSE Append(q, Draw)
        q2 == q1 \o (IF show THEN <<>> ELSE <<Op("cursor", TRUE)>>) \o DisableOps(m)
    IN first \o FlushOps(q2, show)

(* the terminal state every exit must leave behind: as found; --no-clear in full screen documents that the         *)
(* alternate screen is not left                                                                                     *)
RestoredScr(s, c) == s = InitScr \/ (c.full /\ ~c.clear /\ s = [InitScr EXCEPT !.alt = TRUE])

(* documented exit statuses (man fzf, EXIT STATUS) *)
AllowedStatus(h) == CASE h \in {"accept", "print-query"} -> {0, 1}
                      [] h \in {"abort"} \cup Signals -> {130}
                      [] h = "error" -> {2}
                      [] h = "key" -> {0, 1, 130}
                      [] OTHER -> 0..255                        \* become: the status of the command

VARIABLES cfg, phase, tio, scr, queued, mouseOn, showCursor, listener, children, temps, pending, how, dev,
          out          \* tracked mode changes written by the last step, in order (what a terminal would have received)
vars == <<cfg, phase, tio, scr, queued, mouseOn, showCursor, listener, children, temps, pending, how, dev, out>>
NoOut == <<cfg, phase, tio, scr, queued, mouseOn, showCursor, listener, children, temps, pending, how, dev>>   \* VIEW of the safety configurations

TempIds == 1..MaxTemps
TypeOK == /\ cfg \in Cfgs /\ phase \in Phases /\ tio \in {"cooked", "raw"} /\ DOMAIN scr = DOMAIN InitScr
          /\ mouseOn \in BOOLEAN /\ showCursor \in BOOLEAN /\ listener \in BOOLEAN
          /\ children \subseteq Kinds /\ temps \subseteq [id : TempIds, owner : Kinds]
          /\ pending \subseteq ExitHows /\ how \in ExitHows \cup {"none"} /\ dev \subseteq {"PreviewLeft", "ReloadTempsLeft"}

StartState(c) == /\ cfg = c /\ phase = "start" /\ tio = "cooked" /\ scr = InitScr /\ queued = <<>> /\ mouseOn = FALSE
                 /\ showCursor = TRUE /\ listener = c.listen /\ children = {} /\ temps = {} /\ pending = {}
                 /\ how = "none" /\ dev = {} /\ out = <<>>
Init == \E c \in CfgSet : StartState(c)

Write(ops) == scr' = ApplyOps(scr, ops) /\ out' = TrackedOf(ops)

(* LightRenderer.Init: raw mode, alternate screen at once when full screen; the modes are queued.  With --height    *)
(* the mouse is used only if the terminal answered the cursor position query.                                       *)
RInit == /\ phase = "start" /\ phase' = "running" /\ tio' = "raw"
         /\ \E m \in (IF cfg.full THEN {cfg.mouse} ELSE {cfg.mouse, FALSE}) :
               mouseOn' = m /\ queued' = Append(EnableOps(m), Draw)
         /\ Write(IF cfg.full THEN <<Op("alt", TRUE)>> ELSE <<>>)
         /\ UNCHANGED <<cfg, showCursor, listener, children, temps, pending, how, dev>>

Flush == /\ phase = "running" /\ queued # <<>>
         /\ Write(FlushOps(queued, showCursor)) /\ queued' = <<>>
         /\ UNCHANGED <<cfg, phase, tio, mouseOn, showCursor, listener, children, temps, pending, how, dev>>

ToggleCursor == /\ phase = "running" /\ Len(queued) < QMax          \* hide-input / show-input / --no-input
                /\ \A i \in 1..Len(queued) : queued[i].m # "cursor"  \* (model bound: one pending toggle)
                /\ showCursor' = ~showCursor /\ queued' = Append(queued, Op("cursor", ~showCursor)) /\ out' = <<>>
                /\ UNCHANGED <<cfg, phase, tio, scr, mouseOn, listener, children, temps, pending, how, dev>>

(* n temp files for the placeholders of a command started now *)
FreeTemps == {i \in TempIds : \A t \in temps : t.id # i}
(* the n smallest free ids (which id a file gets is immaterial) *)
MakeTemps(k, n) == LET ids == {i \in FreeTemps : Cardinality({j \in FreeTemps : j < i}) < n}
                   IN temps' = temps \cup {[id |-> i, owner |-> k] : i \in ids}

StartChild(k, n) ==
    /\ k \notin children /\ Cardinality(children) < MaxChildren /\ n <= Cardinality(FreeTemps)
    /\ children' = children \cup {k} /\ MakeTemps(k, n)
    /\ CASE k = "execute" ->        \* Pause(true); cmd.Run()
              /\ phase = "running" /\ phase' = "fg" /\ tio' = "cooked" /\ queued' = <<>>
              /\ Write(PauseWritten(cfg, queued, mouseOn, showCursor, TRUE))
         [] k = "silent" ->         \* uiMutex held, nothing written yet
              /\ phase = "running" /\ phase' = "bg" /\ out' = <<>> /\ UNCHANGED <<tio, queued, scr>>
         [] k = "reload" ->
              /\ phase = "running" /\ out' = <<>> /\ UNCHANGED <<phase, tio, queued, scr>>
         [] OTHER ->                \* the previewer runs beside the terminal loop
              /\ phase \in {"running"} \cup Executing /\ out' = <<>> /\ UNCHANGED <<phase, tio, queued, scr>>
    /\ UNCHANGED <<cfg, mouseOn, showCursor, listener, pending, how, dev>>

(* execute-silent running longer than blockDuration: Pause(false) - cooked, modes queued for disabling *)
BgPause == /\ phase = "bg" /\ phase' = "bgpaused" /\ tio' = "cooked" /\ Len(queued) + 4 <= QMax
           /\ queued' = PauseQueued(cfg, queued, mouseOn, FALSE) /\ out' = <<>>
           /\ UNCHANGED <<cfg, scr, mouseOn, showCursor, listener, children, temps, pending, how, dev>>

ChildExit(k) ==
    /\ k \in children /\ children' = children \ {k}
    /\ CASE k = "execute" ->        \* Resume(true); full redraw
              /\ phase = "fg" /\ phase' = "running" /\ tio' = "raw" /\ queued' = <<Draw>>
              /\ Write(ResumeWritten(cfg, queued, mouseOn, showCursor))
         [] k = "silent" ->         \* Resume(false): raw again; \* CODE-DERIVED: the queued disabling is not taken back
              /\ phase \in {"bg", "bgpaused"} /\ phase' = "running" /\ tio' = "raw" /\ out' = <<>> /\ UNCHANGED <<queued, scr>>
         [] OTHER -> out' = <<>> /\ UNCHANGED <<phase, tio, queued, scr>>
    /\ UNCHANGED <<cfg, mouseOn, showCursor, listener, temps, pending, how, dev>>

(* removeFiles after the command has completed *)
RemoveTemp(t) == /\ t \in temps /\ t.owner \notin children /\ phase # "exited" /\ temps' = temps \ {t} /\ out' = <<>>
                 /\ UNCHANGED <<cfg, phase, tio, scr, queued, mouseOn, showCursor, listener, children, pending, how, dev>>

(* ctrl-z: Clear, Pause(fullscreen), SIGSTOP; on SIGCONT Resume(fullscreen, sigcont) *)
Suspend == /\ phase = "running" /\ pending = {} /\ phase' = "stopped" /\ tio' = "cooked"
           /\ Len(queued) + 5 <= QMax
           /\ LET q == Append(queued, Draw)
              IN /\ Write(FlushOps(q, showCursor) \o PauseWritten(cfg, <<>>, mouseOn, showCursor, cfg.full))
                 /\ queued' = PauseQueued(cfg, <<>>, mouseOn, cfg.full)
           /\ UNCHANGED <<cfg, mouseOn, showCursor, listener, children, temps, pending, how, dev>>
Continue == /\ phase = "stopped" /\ phase' = "running" /\ tio' = "raw"
            /\ IF cfg.full
               THEN /\ Write(ResumeWritten(cfg, queued, mouseOn, showCursor)) /\ queued' = <<Draw>> /\ UNCHANGED mouseOn
               ELSE \* CODE-DERIVED: with --height the mouse offset is stale: mouse is given up, paste stays queued off
                    /\ out' = <<>> /\ UNCHANGED scr /\ mouseOn' = FALSE
                    /\ queued' = queued \o (IF mouseOn THEN MouseOps(FALSE) ELSE <<>>)
            /\ UNCHANGED <<cfg, showCursor, listener, children, temps, pending, how, dev>>

(* an exit can be asked for in EVERY state that is not yet the end: keys and POSTed actions (accept, abort,         *)
(* print-query, become), signals, errors.  \* CODE-DERIVED: SIGINT that arrives while a command executes is meant  *)
(* for the command and is dropped (the check of `executing` races with the command's end: either outcome).          *)
RequestExit(h) == /\ phase # "exited" /\ h \in ExitHows
                  /\ \/ pending' = pending \cup {h}
                     \/ h = "SIGINT" /\ phase \in Executing /\ pending' = pending
                  /\ out' = <<>>
                  /\ UNCHANGED <<cfg, phase, tio, scr, queued, mouseOn, showCursor, listener, children, temps, how, dev>>

(* ExitVia(h): performed by the render loop as soon as no command owns the terminal (uiMutex): Close() the          *)
(* renderer, close the listener, kill what is running, remove what was created.  `left` = kinds that survive,      *)
(* `files` = kinds whose temp files stay although the command is killed: both {} in the required design.            *)
Exit(h, left, files) ==
    /\ h \in pending /\ phase \in {"start", "running"} /\ phase' = "exited" /\ how' = h
    /\ IF phase = "start" THEN out' = <<>> /\ UNCHANGED <<scr, queued, tio>>
       ELSE Write(CloseWritten(cfg, queued, mouseOn, showCursor)) /\ queued' = <<>> /\ tio' = "cooked"
    /\ listener' = FALSE
    /\ children' = children \cap left
    /\ temps' = {t \in temps : t.owner \in children \cap (left \cup files)}
    /\ UNCHANGED <<cfg, mouseOn, showCursor, pending>>
ExitVia(h) == Exit(h, {}, {}) /\ UNCHANGED dev

(* Deviations (known findings), kept apart from the design and flagged in `dev`:                                    *)
(*  PreviewLeft      a preview command still running at exit is not killed (killPreview is a non-blocking send      *)
(*                   after EvtQuit; the process exits first) - or the kill wins but the files of its placeholders   *)
(*                   stay (they are removed by the previewer goroutine only after the command has been waited for)  *)
(*  ReloadTempsLeft  the reload command running at exit is killed, but the files of its placeholders stay           *)
(*                   (removeFiles runs in the reader goroutine after the kill; the process exits first)             *)
ExitDev(h, left, files) ==
    /\ left \subseteq {"preview"} /\ files \subseteq {"preview", "reload"} /\ left \subseteq files /\ files # {}
    /\ files \subseteq children
    /\ Exit(h, left, files)
    /\ dev' = dev \cup (IF "preview" \in files THEN {"PreviewLeft"} ELSE {}) \cup (IF "reload" \in files THEN {"ReloadTempsLeft"} ELSE {})
ExitLeavingPreview(h) == \E left \in SUBSET {"preview"} : ExitDev(h, left, {"preview"})
ExitLeavingReloadTemps(h) == \E left \in SUBSET {"preview"}, files \in {{"reload"}, {"reload", "preview"}} : ExitDev(h, left, files)

TempCounts == 0..2
Design == \/ RInit \/ Flush \/ ToggleCursor \/ BgPause \/ Suspend \/ Continue
          \/ \E k \in Kinds, n \in TempCounts : StartChild(k, n)
          \/ \E k \in Kinds : ChildExit(k)
          \/ \E t \in temps : RemoveTemp(t)
          \/ \E h \in Hows : RequestExit(h) \/ ExitVia(h)
Next == Design \/ \E h \in Hows : ExitLeavingPreview(h) \/ ExitLeavingReloadTemps(h)

(* the environment eventually ends a command that owns the terminal, and continues a stopped fzf; the render loop  *)
(* gets its turn between two commands (strong fairness: a command started in between only postpones the exit)       *)
Fairness == /\ SF_vars(\E h \in Hows : ExitVia(h)) /\ WF_vars(ChildExit("execute")) /\ WF_vars(ChildExit("silent"))
            /\ WF_vars(Continue) /\ WF_vars(RInit)
Spec == Init /\ [][Design]_vars /\ Fairness
SpecDev == Init /\ [][Next]_vars

(* ------------------------------------------------------------------ properties *)
(* C14: after the exit everything is as it was found *)
Clean == /\ RestoredScr(scr, cfg) /\ tio = "cooked" /\ ~listener /\ children = {} /\ temps = {} /\ queued = <<>>
Restored == phase = "exited" /\ dev = {} => Clean
(* the known deviation leaves exactly the preview command and its own files, nothing else *)
DevBounded == phase = "exited" /\ dev # {} =>
                 /\ RestoredScr(scr, cfg) /\ tio = "cooked" /\ ~listener
                 /\ children \subseteq (IF "PreviewLeft" \in dev THEN {"preview"} ELSE {})
                 /\ \A t \in temps : (t.owner = "preview" /\ "PreviewLeft" \in dev) \/ (t.owner = "reload" /\ "ReloadTempsLeft" \in dev)
(* exit-at-any-moment: in every state before the end every way of exiting can be asked for *)
ExitAlwaysPossible == phase # "exited" => \A h \in Hows : ENABLED RequestExit(h)
(* a command that owns the terminal finds it usable: cooked, no mouse reports / paste brackets, its own screen *)
CommandOwnsTerminal == phase = "fg" => /\ tio = "cooked" /\ ~scr.paste /\ ~scr.m1000 /\ ~scr.m1002 /\ ~scr.m1006
                                       /\ scr.alt = ~cfg.full /\ scr.wrap
RawOnlyWhileReading == tio = "raw" => phase \in {"running", "bg"}
OnlyConfigured == /\ (scr.m1000 \/ scr.m1002 \/ scr.m1006) => cfg.mouse
                  /\ scr.alt => (cfg.full \/ phase = "fg")
TempsOwned == \A t \in temps : phase = "exited" \/ t.owner \in Kinds
(* no hang: once asked to exit, fzf exits (as soon as the command that owns the terminal has ended) *)
ExitCompletes == (pending # {}) ~> (phase = "exited")
QBound == Len(queued) <= QMax
PendingBound == Cardinality(pending) <= MaxPending       \* model bound (CONSTRAINT) on simultaneous exit requests
=============================================================================
