CONSTANTS
  MaxUI = 1
  Kinds = {"finite", "endless", "closed"}
  ShowBumpsVersion = TRUE
  TemplateHasQ = TRUE
  H = 2
  LensKind = "mixed"
  WithReload = TRUE
  ReloadBumpsVersion = TRUE
  WithHideKeep = TRUE
  Follow = FALSE
  WithScroll = TRUE
  DelayedSetsVersion <- TreeDelayedSetsVersion
SPECIFICATION Spec
INVARIANTS TypeOK OneAlive ShownIsStarted Convergence ShowFixed ReloadFixed DelayedFixed RowsOfOneRequest ExitClean
CHECK_DEADLOCK FALSE
