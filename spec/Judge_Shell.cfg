INIT JInit
NEXT JNext
INVARIANTS JInv JStat
CHECK_DEADLOCK FALSE
