---------------------------- MODULE MC_Walker ----------------------------
(* Exhaustive configuration + case export for FzfWalker (C19). *)
EXTENDS FzfWalker, Json

MCNames == {"a", ".h", "skip", "b c", "n\nl"}
MCNames3 == {"a", ".h", "skip"}

(* skip lists: a sequence so that a case can name its list by position *)
SkipLists == <<
    {},                                                                   \* 1 nothing
    {Pat(<<"skip">>)},                                                    \* 2 by base name
    {Pat(<<"a", "skip">>)},                                               \* 3 by path / by path suffix
    {Pat(<<"skip", "a">>)},                                               \* 4 the same, other way round
    {Pat(<<".h">>), Pat(<<"b c">>)},                                      \* 5 dotted / spaced base names
    {Pat(<<"n\nl">>), Pat(<<"a", "a">>)},                                 \* 6 newline name; repeated component
    {Pat(<<"c", "skip">>), Pat(<<"skip", "b">>), Pat(<<"ki">>), Pat(<<"h">>), Pat(<<"b">>), Pat(<<"l">>),
     Pat(<<"kip">>), Pat(<<"a", "ski">>)},                                \* 7 near misses: names nothing
    {PatA(<<"skip">>)},                                                   \* 8 CODE-DERIVED: anchored pattern
    {Pat(<<".git">>), Pat(<<"node_modules">>)}                            \* 9 the default list
>>

(* root sets; TMP stands for the absolute path of the working directory (substituted by the harness) *)
RootSets == <<
    <<Root(".", <<>>, <<>>)>>,                                            \* 1 default
    <<Root("a", <<"a">>, <<"a">>)>>,                                      \* 2 nested root
    <<Root("./a", <<"a">>, <<"a">>)>>,                                    \* 3 leading ./ is not printed
    <<Root("a", <<"a">>, <<"a">>), Root("skip", <<"skip">>, <<"skip">>)>>,\* 4 several roots
    <<Root("TMP", <<>>, <<"TMP">>)>>,                                     \* 5 absolute root
    <<Root("a/b c", <<"a", "b c">>, <<"a", "b c">>)>>,                    \* 6 two components
    <<Root(".h", <<".h">>, <<".h">>)>>,                                   \* 7 CODE-DERIVED: hidden root is pruned
    <<Root("a/", <<"a">>, <<"a">>)>>,                                     \* 8 CODE-DERIVED: trailing separator
    <<Root("./", <<>>, <<>>)>>,                                           \* 9 CODE-DERIVED: "./" is "."
    <<RootVia("a/..", <<>>, <<"a", "..">>, <<"a">>)>>,                    \* 10 the working directory through a/..: ".." is not hidden
    <<RootVia("a/skip/..", <<"a">>, <<"a", "skip", "..">>, <<"a", "skip">>)>>,  \* 11 a nested directory through its child
    <<Root(".", <<>>, <<>>), Root("a", <<"a">>, <<"a">>)>>,               \* 12 overlapping roots: independent walks, what lies under both is offered once per root
    <<Root("a", <<"a">>, <<"a">>), Root("./a", <<"a">>, <<"a">>)>>        \* 13 the same root twice (two spellings)
>>
RootsOK(rs) == \A i \in DOMAIN rs : RootOK(rs[i])

-----------------------------------------------------------------------------
(* model checking: every property for every option set and skip list, in every reachable tree *)
CONSTANTS CheckSkips     \* indices of SkipLists used by the invariants
InvDesign    == \A o \in Opts : LET ap == AccessPaths(o) IN
                    NothingBeyondBound(ap, o) /\ \A s \in CheckSkips : DesignOKFrom(ap, o, SkipLists[s])
InvAlgebra   == \A o \in Opts, s \in CheckSkips : Algebra(o, SkipLists[s])
InvUnderRoot == \A o \in {o \in Opts : o.file /\ o.dir}, s \in CheckSkips \cap {1, 3}, r \in 2..Len(RootSets) :
                   RootsOK(RootSets[r]) => \A i \in DOMAIN RootSets[r] : UnderRoot(RootSets[r][i], o, SkipLists[s])

-----------------------------------------------------------------------------
(* case export: one CASE per tree; every run carries the multiset (as a list, order meaningless) the specification *)
(* predicts.  exp = documented; dev = with the named deviation LinkDirAsFile, present only where it differs.         *)
(* s / r index SkipLists / RootSets; the strings are in the TABLE printed once (from the empty tree).                *)
CONSTANTS FullUpTo,      \* trees with at most this many entries get every (options, skip list, root set) combination
          MinNodes,      \* only trees with at least this many entries are exported
          OnlyCyclic     \* export only trees with a link cycle (the acyclic ones come from another configuration)
NodeJson(n) == [path |-> n.path, kind |-> n.kind, target |-> n.target]
Strs(es) == [i \in DOMAIN es |-> Out(es[i])]
HasDirLink == \E n \in tree : n.kind = "ldir"
RunJson(o, s, r) ==
    LET e == Expected(RootSets[r], o, SkipLists[s])
        base == [file |-> o.file, dir |-> o.dir, follow |-> o.follow, hidden |-> o.hidden, s |-> s, r |-> r,
                 exp |-> Strs(e)]
    IN  IF o.follow /\ HasDirLink
          THEN LET d == ExpectedDev(RootSets[r], o, SkipLists[s]) IN
               IF OutBag(d) = OutBag(e) THEN base ELSE base @@ [dev |-> Strs(d)]
          ELSE base
Table == [skips |-> [s \in DOMAIN SkipLists |-> SetToSeq({PatStr(p) : p \in SkipLists[s]})],
          roots |-> [r \in DOMAIN RootSets |-> [i \in DOMAIN RootSets[r] |-> RootSets[r][i].arg]]]

(* Which combinations a tree is run with.  Small trees (<= FullUpTo entries): the full product of the 16 option sets, *)
(* the skip lists and the root sets that exist in the tree.  Bigger trees: all option sets that list anything with    *)
(* the plain configuration, and the skip lists that name an entry / the root sets that exist with the option sets     *)
(* that list both classes.                                                                                             *)
LastComps(s) == {Last(p.comps) : p \in SkipLists[s]}
SkipRelevant(s) == s \in {1, 7} \/ (LastComps(s) \cap UsedNames # {})
O12 == {o \in Opts : o.file \/ o.dir}
O4  == {o \in Opts : o.file /\ o.dir}
O2  == {o \in O4 : o.follow = o.hidden}
BigCombos == (O12 \X {1, 2} \X {1}) \cup (O4 \X (3..Len(SkipLists)) \X {1})
             \cup (O4 \X {1, 3} \X {2}) \cup (O4 \X {1, 2} \X {4}) \cup (O4 \X {1, 5} \X {7})
             \cup (O2 \X {1, 3} \X {6}) \cup (O2 \X {1} \X {3, 5, 8, 9}) \cup (O4 \X {1, 3} \X {10, 11}) \cup (O2 \X {1} \X {12, 13})
Combos == { c \in IF Cardinality(tree) <= FullUpTo THEN Opts \X (1..Len(SkipLists)) \X (1..Len(RootSets))
                                                   ELSE BigCombos :
              RootsOK(RootSets[c[3]]) /\ SkipRelevant(c[2]) }
(* cyc: the tree has a link cycle, so that RefuseRootAndLexicalAncestors decides some run (the orchestrator counts) *)
Emit == /\ tree = {} => PrintT(<<"TABLE", ToJson(Table)>>)
        /\ (Cardinality(tree) >= MinNodes /\ (OnlyCyclic => ~Acyclic)) =>
             PrintT(<<"CASE", ToJson([nodes |-> SetToSeq({NodeJson(n) : n \in tree}),
                                      cyc   |-> ~Acyclic,
                                      runs  |-> SetToSeq({RunJson(c[1], c[2], c[3]) : c \in Combos})])>>)
=============================================================================
