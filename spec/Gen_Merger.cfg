CONSTANTS
  KeySpace <- GenKeys
  MaxLines = 14
  MaxParts = 4
  AnyPartition = TRUE
  FnChunkSizes = {1}
  FnMaxChunks = 1
  FnMaxN = 0
  FnParts = {1}
  GenProbes = 6
INIT GInit
NEXT GNext
INVARIANTS GEmit TypeOK
CONSTRAINT GBound
CHECK_DEADLOCK FALSE
