---------------------------- MODULE FzfChunkList ----------------------------
(* The item layer behind the reader (src/chunklist.go + the item builder closures of src/core.go):                  *)
(*   Push(record)   - the builder diverts the first H records to the header, every other record becomes an item     *)
(*                    with the next running index, appended IN PLACE to the last chunk (a new one if it is full);    *)
(*   Snapshot(tail) - with tail > 0 first trims the list to its last `tail` items (whole chunks dropped, the         *)
(*                    overshooting chunk replaced by a shortened copy), then returns the chunk pointers with the     *)
(*                    last (and, under tail, the first) chunk duplicated, so that later pushes cannot be seen.        *)
(* Chunks are objects on a heap (cid -> items) because sharing is the point: a snapshot that shares a chunk the       *)
(* list still appends to would change after it was taken.                                                             *)
EXTENDS FzfRecords, FiniteSets, TLC

CONSTANTS ChunkSize,       \* chunkSize (100 in the real code)
          HeaderChoices,   \* values of --header-lines
          TailChoices,     \* values of --tail (0 = off)
          PushSizes,       \* how many records one Push step may add (1 in the exhaustive configuration)
          MaxPushed, MaxSnaps

VARIABLES H, tail,
          heap,        \* cid -> sequence of items [rec, index] (count = Len)
          chunks,      \* the list: sequence of cids
          nextCid,
          header,      \* records diverted to the header
          nextIndex,   \* itemIndex of core.go
          pushed,      \* number of records offered so far; records are 1, 2, 3, ...
          snaps        \* ghost: every snapshot handed out: [cids, frozen, seen, count, changed, kept]
vars == <<H, tail, heap, chunks, nextCid, header, nextIndex, pushed, snaps>>

Item(r, i) == [rec |-> r, index |-> i]
RECURSIVE FlatH(_, _)
FlatH(h, cids) == IF cids = <<>> THEN <<>> ELSE h[Head(cids)] \o FlatH(h, Tail(cids))
RECURSIVE FlatSeq(_)
FlatSeq(ss) == IF ss = <<>> THEN <<>> ELSE Head(ss) \o FlatSeq(Tail(ss))
Last(s) == s[Len(s)]

(* CountItems of chunklist.go: assumes only the first and the last chunk can be partial *)
CountItems(h, cs) == IF cs = <<>> THEN 0
                     ELSE IF Len(cs) = 1 THEN Len(h[cs[1]])
                     ELSE Len(h[cs[1]]) + ChunkSize * (Len(cs) - 2) + Len(h[Last(cs)])

-----------------------------------------------------------------------------
(* step functions on a state record, so that one export step can push many records *)
Cur == [heap |-> heap, chunks |-> chunks, nextCid |-> nextCid, header |-> header, nextIndex |-> nextIndex,
        pushed |-> pushed]

PushOne(st, hl) ==
    LET r == st.pushed + 1
        needNew == st.chunks = <<>> \/ Len(st.heap[Last(st.chunks)]) = ChunkSize
        chunks1 == IF needNew THEN Append(st.chunks, st.nextCid) ELSE st.chunks
        heap1 == IF needNew THEN st.heap @@ (st.nextCid :> <<>>) ELSE st.heap
        cid1 == IF needNew THEN st.nextCid + 1 ELSE st.nextCid
        last == Last(chunks1)
    IN  IF Len(st.header) < hl
          THEN [st EXCEPT !.pushed = r, !.chunks = chunks1, !.heap = heap1, !.nextCid = cid1,
                          !.header = Append(@, r)]                              \* builder says no: nothing is added
          ELSE [st EXCEPT !.pushed = r, !.chunks = chunks1, !.nextCid = cid1, !.nextIndex = @ + 1,
                          !.heap = [heap1 EXCEPT ![last] = Append(@, Item(r, st.nextIndex))]]
RECURSIVE PushK(_, _, _)
PushK(st, hl, k) == IF k = 0 THEN st ELSE PushK(PushOne(st, hl), hl, k - 1)

(* tail trimming of Snapshot *)
RECURSIVE Keep(_, _, _, _)
Keep(st, left, i, n) == IF left > 0 /\ i >= 1 THEN Keep(st, left - Len(st.heap[st.chunks[i]]), i - 1, n + 1) ELSE n
RECURSIVE TrimAt(_, _, _, _)
(* scanning ret from the end: index of the chunk to shorten and how many items it keeps; <<0, 0>> if none *)
TrimAt(st, ret, left, i) == IF i < 1 THEN <<0, 0>>
                            ELSE IF Len(st.heap[ret[i]]) > left THEN <<i, left>>
                            ELSE TrimAt(st, ret, left - Len(st.heap[ret[i]]), i - 1)
Trim(st, t) ==
    IF ~(t > 0 /\ CountItems(st.heap, st.chunks) > t) THEN [st |-> st, changed |-> FALSE]
    ELSE LET n == Keep(st, t, Len(st.chunks), 0)
             ret == SubSeq(st.chunks, Len(st.chunks) - n + 1, Len(st.chunks))
             at == TrimAt(st, ret, t, Len(ret))
         IN  IF at[1] = 0 THEN [st |-> [st EXCEPT !.chunks = ret], changed |-> TRUE]
             ELSE [st |-> [st EXCEPT !.chunks = [ret EXCEPT ![at[1]] = st.nextCid],
                                     !.heap = @ @@ (st.nextCid :> LastN(st.heap[ret[at[1]]], at[2])),
                                     !.nextCid = @ + 1],
                   changed |-> TRUE]
(* the slice handed out: first (under tail, if more than one chunk) and last chunk duplicated *)
HandOut(st, t) ==
    LET cs == st.chunks
        n == Len(cs)
        dupFirst == t > 0 /\ n > 1
        c1 == st.nextCid
        c2 == IF dupFirst THEN st.nextCid + 1 ELSE st.nextCid
        res == IF n = 0 THEN <<>>
               ELSE [i \in 1..n |-> IF i = n THEN c2 ELSE IF i = 1 /\ dupFirst THEN c1 ELSE cs[i]]
        heap1 == IF n = 0 THEN st.heap
                 ELSE (IF dupFirst THEN (c1 :> st.heap[cs[1]]) ELSE <<>>) @@ (c2 :> st.heap[cs[n]]) @@ st.heap
    IN  [st |-> [st EXCEPT !.heap = heap1, !.nextCid = IF n = 0 THEN @ ELSE c2 + 1], res |-> res]

SetSt(st) == /\ heap' = st.heap /\ chunks' = st.chunks /\ nextCid' = st.nextCid /\ header' = st.header
             /\ nextIndex' = st.nextIndex /\ pushed' = st.pushed

-----------------------------------------------------------------------------
Init == /\ H \in HeaderChoices /\ tail \in TailChoices
        /\ heap = <<>> /\ chunks = <<>> /\ nextCid = 1 /\ header = <<>> /\ nextIndex = 0 /\ pushed = 0 /\ snaps = <<>>

Push(k) == /\ pushed + k <= MaxPushed
           /\ SetSt(PushK(Cur, H, k)) /\ UNCHANGED <<H, tail, snaps>>
Snapshot == /\ Len(snaps) < MaxSnaps
            /\ LET tr == Trim(Cur, tail)
                   ho == HandOut(tr.st, tail)
               IN  /\ SetSt(ho.st)
                   /\ snaps' = Append(snaps, [cids |-> ho.res,
                                              frozen |-> [i \in 1..Len(ho.res) |-> ho.st.heap[ho.res[i]]],
                                              seen |-> pushed, count |-> CountItems(ho.st.heap, ho.res),
                                              changed |-> tr.changed,
                                              kept |-> Len(FlatH(ho.st.heap, ho.st.chunks))])
            /\ UNCHANGED <<H, tail>>
Next == (\E k \in PushSizes : Push(k)) \/ Snapshot
Spec == Init /\ [][Next]_vars

-----------------------------------------------------------------------------
(* Properties.  Documented reference: Searchable(n, H, T) of FzfRecords. *)
Want(n) == LET w == Searchable(n, H, tail) IN [i \in 1..Len(w) |-> Item(w[i].ord, w[i].index)]
WantAll(n) == LET w == Searchable(n, H, 0) IN [i \in 1..Len(w) |-> Item(w[i].ord, w[i].index)]

(* a snapshot holds exactly the last `tail` non-header records seen so far, with their stream-wide indices ...     *)
SnapshotIsTail == \A i \in 1..Len(snaps) : /\ FlatSeq(snaps[i].frozen) = Want(snaps[i].seen)
                                           /\ snaps[i].count = Len(Want(snaps[i].seen))
(* ... and never changes afterwards, whatever is pushed or trimmed later                                            *)
SnapshotFrozen == \A i \in 1..Len(snaps) : [j \in 1..Len(snaps[i].cids) |-> heap[snaps[i].cids[j]]] = snaps[i].frozen
(* --tail: "maximum number of items to keep in memory" *)
MemoryBound == \A i \in 1..Len(snaps) : tail > 0 => snaps[i].kept <= tail
(* the list itself is always a suffix of the non-header records that contains the wanted tail *)
ListIsSuffix == LET now == FlatH(heap, chunks) IN
                /\ now = LastN(WantAll(pushed), Len(now))
                /\ Len(now) >= Len(Want(pushed))
                /\ tail = 0 => now = WantAll(pushed)
CountAgrees == CountItems(heap, chunks) = Len(FlatH(heap, chunks))
HeaderIsFirstH == header = HeaderOrds(pushed, H)
IndexKeepsCounting == nextIndex = Len(WantAll(pushed))
OnlyEndsPartial == \A i \in 2..(Len(chunks) - 1) : Len(heap[chunks[i]]) = ChunkSize
=============================================================================
