CONSTANTS
  MaxT = 6
  MaxP = 3
  Depth = 6
  SlabCaps = {8, 24, 100, 102400}
  Fills <- MCFills
  ArgSpace <- MCArgSpace
INIT HInit
NEXT HNext
INVARIANT HEmit
CHECK_DEADLOCK FALSE
