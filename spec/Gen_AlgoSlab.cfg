CONSTANTS
  MaxT = 6
  MaxP = 2
  Depth = 6
  SlabCaps = {8, 24, 100, 102400}
  Fills <- MCFills
  ArgSpace <- NoArgs
INIT HInit
NEXT HNext
INVARIANT HEmit
CHECK_DEADLOCK FALSE
