\* thorough: lines with TABs: tab stops, the cut that never splits a TAB, horizontal scrolling, with and without a pattern
CONSTANTS
  Widths = {12, 13, 14, 16, 17, 20, 21}
  Heights = {6}
  Layouts = {"default", "reverse"}
  Infos = {"hidden"}
  Seps = {TRUE}
  Headers <- MCHeadersT
  Hlines <- MCHlinesC0
  HeaderFirsts = {FALSE}
  Inputless = {FALSE}
  Pointers <- MCPointers
  Markers <- MCMarkers
  Ellipses <- MCEllipses2
  Lists <- MCListsTab
  Multis = {1}
  Queries <- MCQueriesC
  MaxCount = 12
  Tracks = {0}
  Hscrolls = {TRUE, FALSE}
  HscrollOffs = {0, 10}
  KeepRights = {TRUE, FALSE}
  Scrollbars <- MCNoScrollbar
  Borders = {TRUE, FALSE}
  Tabstops = {1, 3, 4, 8}
  Patterns <- MCPatternsTab
  Acts = {"move", "pattern"}
INIT Init
NEXT Next
INVARIANTS InvFrame InvRowCount InvWidth InvClaims InvTextRoom InvOnePointer InvMarkers InvRTrim InvTab InvTabNoPattern
CHECK_DEADLOCK FALSE
