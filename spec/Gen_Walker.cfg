CONSTANTS
  Names <- MCNames
  MaxNodes = 4
  AllowDangling = FALSE
  CheckSkips = {1}
  FullUpTo = 3
  MinNodes = 0
INIT Init
NEXT Next
INVARIANTS Emit
CHECK_DEADLOCK FALSE
