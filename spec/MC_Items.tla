------------------------------- MODULE MC_Items -------------------------------
(* Exhaustive design check of FzfItems: for every option variant, every stream of up to MaxRecs records of up to     *)
(* MaxLen symbols over Alpha is pushed through the builder as the code has it (PushRec); in every state the           *)
(* representation must deliver the content clause (ContentUnaltered), agree with the closed form the bindings use     *)
(* (ItemsOf / FilterOut), and the record being composed must satisfy the per-record laws.                             *)
EXTENDS ItemsMenu

CONSTANTS Alpha,      \* symbols records are composed of
          MaxLen,     \* longest record
          MaxRecs,    \* longest stream
          Variants,   \* option variants (tail and tac play no role in the builder: see FilterAgrees)
          Dev         \* "none", or the deviation to demonstrate

VARIABLES o, stream, cur, b
vars == <<o, stream, cur, b>>

Init == o \in Variants /\ stream = <<>> /\ cur = <<>> /\ b = B0
Extend(c) == /\ Len(cur) < MaxLen /\ (Len(stream) < MaxRecs \/ MaxRecs = 0)      \* the last record is not followed by a draft
             /\ cur' = Append(cur, c) /\ UNCHANGED <<o, stream, b>>
Push == /\ Len(stream) < MaxRecs
        /\ stream' = Append(stream, cur) /\ b' = PushRec(b, cur, o, Dev) /\ cur' = <<>> /\ UNCHANGED o
Next == (\E c \in Alpha : Extend(c)) \/ Push

-------------------------------------------------------------------------------
InvContent == ContentUnaltered(b, stream, o)
InvBuilt == BuiltMatchesSpec(b, stream, o)
InvStepwise == b = Build(B0, stream, o, Dev)
(* Snapshot(tail) hands the last T items to the filter; printing them gives what FilterOut says *)
InvFilterAgrees == \A T \in {0, 1, 2} :
                      [i \in 1..Len(LastN(b.items, IF T = 0 THEN Len(b.items) ELSE T)) |->
                            AsString(LastN(b.items, IF T = 0 THEN Len(b.items) ELSE T)[i], o.ansi)]
                      = FilterOut(stream, [o EXCEPT !.tail = T], EmptyQ)
InvRecord == /\ PresentationLaws(cur, o, b.next)
             /\ RenderAgreesWithFields(cur, o, b.next)
             /\ OutputText(cur, o) = (IF o.ansi THEN SelectSeq(cur, LAMBDA c : c \notin SgrSyms) ELSE cur)
(* searching sees the presentation, not the record: a term that only occurs in a field --with-nth hides is not found,  *)
(* yet whatever is found is printed whole                                                                              *)
InvSearch == \A qi \in 2..4 :
                LET q == QMenu[qi]
                    lst == Listed(stream, o, q) IN
                /\ \A i \in 1..Len(lst) : Holds("exact", q.term, lst[i].text) /\ lst[i].out = OutputText(stream[lst[i].ord], o)
                /\ \A i \in 1..(Len(lst) - 1) : lst[i].ord < lst[i + 1].ord
                /\ FilterOut(stream, o, q) = Outs(lst) /\ FilterIdx(stream, o, q) = Indices(lst)      \* ListedAgree
                /\ FilterOut(stream, [o EXCEPT !.tac = TRUE], q) = RevSeq(Outs(lst))

-------------------------------------------------------------------------------
AlphaSmall == {"a", " ", ",", "SGR1"}
AlphaRec == {"a", "b", " ", "TAB", ",", "SGR1"}
AlphaRecT == {"a", " ", "TAB", ",", ":", "SGR1", "LF", "CR"}
WithVariants(specs, delims, headers) ==
    {Opts(TRUE, specs[si], delims[di], an, h, 0, FALSE) : si \in DOMAIN specs, di \in DOMAIN delims, an \in BOOLEAN, h \in headers}
    \cup {Opts(FALSE, NoSpec, AwkD, an, h, 0, FALSE) : an \in BOOLEAN, h \in headers}
VarStream == WithVariants(SpecMenuSmall, SubSeq(DelimMenu, 1, 2), {0, 1})
StreamSpecsQuick == << SpecMenu[1], SpecMenu[3], SpecMenu[7], SpecMenu[11] >>
VarStreamQuick == WithVariants(StreamSpecsQuick, SubSeq(DelimMenu, 1, 2), {0, 1})
VarRec == WithVariants(SpecMenu, SubSeq(DelimMenu, 1, 4), {0})
VarRecT == WithVariants(SpecMenu, DelimMenu, {0})
VarDev == WithVariants(SubSeq(SpecMenu, 1, 2), SubSeq(DelimMenu, 1, 1), {0})
================================================================================
