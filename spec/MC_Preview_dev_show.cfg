CONSTANTS
  MaxUI = 4
  Kinds = {"finite"}
  ShowBumpsVersion = FALSE
  TemplateHasQ = FALSE
  H = 2
  LensKind = "one"
  WithReload = FALSE
  ReloadBumpsVersion = TRUE
  WithHideKeep = FALSE
  Follow = FALSE
  WithScroll = FALSE
  DelayedSetsVersion <- TreeDelayedSetsVersion
SPECIFICATION Spec
INVARIANTS TypeOK OneAlive ConvergenceStaleAfterShow
CHECK_DEADLOCK FALSE
