CONSTANTS
  MaxUI = 4
  Kinds = {"finite"}
  ShowBumpsVersion = FALSE
  TemplateHasQ = FALSE
SPECIFICATION Spec
INVARIANTS TypeOK OneAlive ConvergenceStaleAfterShow
CHECK_DEADLOCK FALSE
