CONSTANTS
  MaxUI = 4
  Kinds = {"finite"}
  TemplateHasQ = FALSE
SPECIFICATION Spec
INVARIANTS TypeOK OneAlive ConvergenceStaleAfterShow
CHECK_DEADLOCK FALSE
