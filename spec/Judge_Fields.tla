---------------------------- MODULE Judge_Fields ----------------------------
(* J binding for C10: every record is an input plus what the real code returned (harness TestVerifFieldsRecord,   *)
(* and the undetermined-offset matches of TestVerifFieldsLine); the record is explained iff FzfFields' operators   *)
(* allow it.                                                                                                        *)
EXTENDS FzfFields, Json, IOUtils

TraceLog == ndJsonDeserialize(IOEnv.TRACE)
Shards == 16
VARIABLE l
JInit == l \in 1..(IF Len(TraceLog) < Shards THEN Len(TraceLog) ELSE Shards)
JNext == l + Shards <= Len(TraceLog) /\ l' = l + Shards

TokOk(r) == LET toks == Tokenize(r.line, r.d) IN
            /\ Len(r.toks) = Len(toks)
            /\ \A i \in 1..Len(toks) : r.toks[i].t = toks[i].t /\ r.toks[i].p = toks[i].p
            /\ Partition(r.line, r.d) /\ OffsetsExact(r.line, r.d) /\ CutsRight(r.line, r.d)
SelOk(r) == LET pr == ParseRange(r.e) IN
            /\ r.ok = pr.ok
            /\ pr.ok => LET x == Select(Tokenize(r.line, r.d), pr) IN
                        /\ r.t = x.t
                        /\ x.t # <<>> => r.p = x.p          \* the offset of an empty selection is unobservable
MatchOk(r) == LET nth == ParseNth(r.nth) IN
              /\ \A k \in 1..Len(nth) : nth[k].ok
              /\ ObservedOk(r.line, r.d, nth, r.kind, r.term, r.matched, r.s, r.e, r.pos)
WnOk(r) == /\ r.raw = RenderRaw(r.line, r.d, r.spec, r.index)
           /\ r.shown = WithNthText(r.line, r.d, r.spec, r.index)
           /\ r.acc = AcceptText(r.line, r.d, r.spec, r.index)
PhOk(r) == r.out = Placeholder(r.line, r.d, ParseNth(r.nth), r.keep)

Explained(r) == CASE r.op = "tok"   -> TokOk(r)
                  [] r.op = "sel"   -> SelOk(r)
                  [] r.op = "match" -> MatchOk(r)
                  [] r.op = "wn"    -> WnOk(r)
                  [] r.op = "ph"    -> PhOk(r)
                  [] OTHER          -> FALSE
JInv == Explained(TraceLog[l]) \/ PrintT(<<"MISMATCH", l>>)
=============================================================================
