CONSTANTS
  MaxT = 4
  MaxP = 3
  Shards = 64
  AlphaSel = {1, 2, 3, 4}
INIT EInit
NEXT ENext
INVARIANT TheoremsWitness
CHECK_DEADLOCK FALSE
