CONSTANTS
  MaxChildren = 2
  MaxTemps = 1
  QMax = 10
  MaxPending = 1
  CfgSet <- FewCfgs
  Hows <- FewHows
SPECIFICATION Spec
INVARIANTS TypeOK Restored
PROPERTY ExitCompletes
CONSTRAINT PendingBound
CHECK_DEADLOCK FALSE
