CONSTANTS
  AlphaOf <- ShapeAlpha
  MaxLenOf <- ShapeLen
  DelimSet <- LineDelims
INIT Init
NEXT Next
INVARIANTS InvPartition InvSelection EmitMenu EmitSel
CHECK_DEADLOCK FALSE
