CONSTANTS
  AlphaOf <- ShapeAlpha
  MaxLenOf <- ShapeLen
  DelimSet <- AllDelims
INIT Init
NEXT Next
INVARIANTS InvPartition InvSelection EmitMenu EmitSel
CHECK_DEADLOCK FALSE
