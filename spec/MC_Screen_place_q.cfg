\* quick: placement for every configuration at two heights (one too short for prompt + headers)
CONSTANTS
  Widths = {22}
  Heights = {4, 8}
  Layouts = {"default", "reverse", "reverse-list"}
  Infos = {"default", "inline", "hidden", "right", "inline-right"}
  Seps = {TRUE, FALSE}
  Headers <- MCHeadersQ
  Hlines <- MCHlinesQ
  HeaderFirsts = {TRUE, FALSE}
  Inputless = {FALSE, TRUE}
  Pointers <- MCPointers
  Markers <- MCMarkers
  Ellipses <- MCEllipses
  Lists <- MCListsP
  Multis = {0}
  Queries <- MCQueriesQ
  MaxCount = 12
  Tracks = {0}
  Acts = {"move"}
INIT Init
NEXT Next
INVARIANTS InvPlace InvRowCount InvClaims InvOnePointer InvPointerOnCurrent InvHeaderOutsideList
CHECK_DEADLOCK FALSE
