\* quick: placement for every configuration x shown / hidden sections at two heights (one too short for prompt + headers); --no-input = the input section hidden from the start
CONSTANTS
  Widths = {22}
  Heights = {4, 8}
  Layouts = {"default", "reverse", "reverse-list"}
  Infos = {"default", "inline", "hidden", "right", "inline-right"}
  Seps = {TRUE, FALSE}
  Headers <- MCHeadersQ
  Hlines <- MCHlinesQ
  HeaderFirsts = {TRUE, FALSE}
  Inputless = {FALSE}
  Pointers <- MCPointers
  Markers <- MCMarkers
  Ellipses <- MCEllipses
  Lists <- MCListsP
  Multis = {0}
  Queries <- MCQueriesQ
  MaxCount = 12
  Tracks = {0}
  Hscrolls = {FALSE}
  HscrollOffs = {10}
  KeepRights = {FALSE}
  Scrollbars <- MCNoScrollbar
  Borders = {FALSE}
  Tabstops = {8}
  Patterns <- MCPatternsNone
  Acts = {"move", "vis"}
INIT Init
NEXT Next
INVARIANTS InvHidden InvPlace InvRowCount InvClaims InvOnePointer InvPointerOnCurrent InvHeaderOutsideList
CHECK_DEADLOCK FALSE
