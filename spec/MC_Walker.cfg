CONSTANTS
  Names <- MCNames
  MaxNodes = 3
  AllowDangling = TRUE
  AllowCycles = TRUE
  CheckSkips = {1, 2, 3, 4, 5, 6, 7, 8}
  FullUpTo = 0
  OnlyCyclic = FALSE
  MinNodes = 99
INIT Init
NEXT Next
INVARIANTS TypeOK AcyclicUnlessAllowed InvDesign InvAlgebra InvUnderRoot
CHECK_DEADLOCK FALSE
