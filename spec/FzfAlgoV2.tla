------------------------------ MODULE FzfAlgoV2 ------------------------------
(* FuzzyMatchV2: the documented dynamic programme ("modified Smith-Waterman, no omission"), evaluated plainly    *)
(* over the WHOLE line - no ASCII window, no column clipping, no scratch-memory layout, no single-character      *)
(* fast path.  H[i][j] = best score of an alignment of P[1..i] that ends at or before column j (gaps after the   *)
(* last match charged), C[i][j] = length of the consecutive run ending at (i, j).  Row i starts at F[i], the      *)
(* first column at which P[1..i] can be embedded at all; cells left of it are 0.                                 *)
EXTENDS FzfAlgo

Max3(a, b, c) == Max2(Max2(a, b), c)

(* ---- row 1: a matching cell always starts an alignment: 16 + 2 * bonus *)
RECURSIVE Row1(_, _, _, _, _, _, _, _)
Row1(T, p, B, j, prevH, inGap, accH, accC) ==
    IF j > Len(T) THEN [h |-> accH, c |-> accC]
    ELSE IF T[j] = p
      THEN Row1(T, p, B, j + 1, ScoreMatch + FirstMult * B[j], FALSE, Append(accH, ScoreMatch + FirstMult * B[j]), Append(accC, 1))
      ELSE LET h == Max2(prevH + (IF inGap THEN GapExt ELSE GapStart), 0)
           IN Row1(T, p, B, j + 1, h, TRUE, Append(accH, h), Append(accC, 0))

(* ---- row i >= 2, from column f = F[i]; Hp / Cp = previous row *)
RECURSIVE RowI(_, _, _, _, _, _, _, _, _, _, _)
RowI(T, p, B, Hp, Cp, f, j, left, inGap, accH, accC) ==
    IF j > Len(T) THEN [h |-> accH, c |-> accC]
    ELSE IF j < f THEN RowI(T, p, B, Hp, Cp, f, j + 1, 0, FALSE, Append(accH, 0), Append(accC, 0))
    ELSE LET s2 == left + (IF inGap THEN GapExt ELSE GapStart)
             isM == T[j] = p
             c0 == Cp[j - 1] + 1
             fb == IF c0 > 1 THEN B[j - c0 + 1] ELSE 0
             brk == c0 > 1 /\ B[j] >= BonusBoundary /\ B[j] > fb          \* a stronger boundary breaks the run
             b == IF c0 > 1 /\ ~brk THEN Max3(B[j], BonusConsecutive, fb) ELSE B[j]
             c1 == IF brk THEN 1 ELSE c0
             d == Hp[j - 1] + ScoreMatch
             worse == d + b < s2                                          \* continuing the gap beats the run bonus
             s1 == IF ~isM THEN 0 ELSE IF worse THEN d + B[j] ELSE d + b
             c == IF ~isM THEN 0 ELSE IF worse THEN 0 ELSE c1
             h == Max3(s1, s2, 0)
         IN RowI(T, p, B, Hp, Cp, f, j + 1, h, s1 < s2, Append(accH, h), Append(accC, c))

RECURSIVE Rows(_, _, _, _, _, _)
Rows(T, P, B, F, i, acc) ==       \* acc = rows 1..i-1
    IF i > Len(P) THEN acc
    ELSE Rows(T, P, B, F, i + 1,
              Append(acc, IF i = 1 THEN Row1(T, P[1], B, 1, 0, FALSE, <<>>, <<>>)
                          ELSE RowI(T, P[i], B, acc[i - 1].h, acc[i - 1].c, F[i], 1, 0, FALSE, <<>>, <<>>)))

(* first (forward) / last (backward) column holding the maximum of the last row *)
ArgMax(row, fwd) == LET m == SetMax({row[j] : j \in 1..Len(row)})
                        js == {j \in 1..Len(row) : row[j] = m}
                    IN IF fwd THEN MinOf(js) ELSE MaxOf(js)

(* ---- back-trace that picks the highlighted alignment among equal scores    \* CODE-DERIVED *)
RECURSIVE BackTrace(_, _, _, _, _, _)
BackTrace(R, F, i, j, prefer, acc) ==      \* acc: 1-based positions found so far, ascending
    IF j < 1 THEN <<0>>
    ELSE LET s == R[i].h[j]
             s1 == IF i > 1 /\ j >= F[i] THEN R[i - 1].h[j - 1] ELSE 0
             s2 == IF j > F[i] THEN R[i].h[j - 1] ELSE 0
             take == s > s1 /\ (s > s2 \/ (s = s2 /\ prefer))
             pf == R[i].c[j] > 1 \/ (i < Len(R) /\ j < Len(R[i].c) /\ R[i + 1].c[j + 1] > 0)
         IN IF take /\ i = 1 THEN <<j>> \o acc
            ELSE BackTrace(R, F, IF take THEN i - 1 ELSE i, j - 1, pf, IF take THEN <<j>> \o acc ELSE acc)

V2Matrix(t, P, cs, norm, scheme) ==
    LET T == FoldSeq(t, cs, norm) IN Rows(T, P, BonusSeq(t, scheme), GreedyEmb(T, P, 1, 1), 1, <<>>)
V2Score(t, P, cs, norm, scheme) ==
    LET h == V2Matrix(t, P, cs, norm, scheme)[Len(P)].h IN SetMax({h[j] : j \in 1..Len(h)})
V2Result(t, P, cs, norm, fwd, scheme) ==
    LET T == FoldSeq(t, cs, norm)
        F == GreedyEmb(T, P, 1, 1)
    IN IF F = <<0>> THEN NoMatch
       ELSE LET R == Rows(T, P, BonusSeq(t, scheme), F, 1, <<>>)
                jm == ArgMax(R[Len(P)].h, fwd)
                bt == BackTrace(R, F, Len(P), jm, TRUE, <<>>)
            IN [s |-> bt[1] - 1, e |-> jm, sc |-> R[Len(P)].h[jm], pos |-> ZeroBased(bt)]

(* ---------------------------------------------------------------- the matcher as a function of its arguments *)
(* cap16 = capacity of the scratch slab's int16 area, -1 = no slab.  The only documented influence of the slab:  *)
(* V2 falls back to V1 when N*M exceeds it ("too expensive for large input").                                    *)
UsesV1(kind, t, P, cap16) == kind = "v1" \/ (kind = "v2" /\ cap16 >= 0 /\ Len(t) * Len(P) > cap16)
F(kind, t, P, cs, norm, fwd, scheme, cap16) ==
    IF P = <<>> THEN EmptyResult(kind, t)
    ELSE IF Len(P) > Len(t) /\ kind # "v1" THEN NoMatch
    ELSE CASE UsesV1(kind, t, P, cap16) -> V1Result(t, P, cs, norm, fwd, scheme)
           [] kind = "v2" /\ ~UsesV1(kind, t, P, cap16) -> V2Result(t, P, cs, norm, fwd, scheme)
           [] kind = "exact" -> ExactResult(t, P, cs, norm, fwd, scheme)
           [] kind = "boundary" -> BoundaryResult(t, P, cs, norm, fwd, scheme)
           [] OTHER -> AnchoredResult(kind, t, P, cs, norm, scheme)
================================================================================
