------------------------------ MODULE FzfPreview ------------------------------
(* The previewer of interactive fzf (src/terminal.go Loop(): previewer goroutine, its reader / ticker / watcher     *)
(* goroutines per command, refreshPreview, cancelPreview / killPreview, the render loop's reqList,                   *)
(* reqPreviewDisplay / reqPreviewRefresh / reqPreviewDelayed handling, printPreview / renderPreviewArea, the exit    *)
(* path; src/util/util_unix.go KillCommand = SIGKILL to the process group).                                          *)
(*                                                                                                                    *)
(* One action per critical section / channel operation:                                                              *)
(*   user        Move, EditQuery, Toggle, TogglePreview, Scroll, Rewrap, Reload, Exit   (one iteration of the action  *)
(*               loop, under t.mutex)                                                                                 *)
(*   coordinator UpdateList: the list of a NEW INPUT GENERATION is handed to the terminal (Terminal.UpdateList on a   *)
(*               revision that is not compatible with the one on display: after reload / reload-sync)                 *)
(*   render loop Render (reqList: focus or t.version changed -> refreshPreview), RefreshSet, Display (DisplayFull /   *)
(*               DisplayAppend), Repaint (reqPreviewRefresh), Loading (reqPreviewDelayed)                             *)
(*               refreshPreview = TRY-SEND `cancel` on the unbuffered killChan, THEN overwrite the one-slot           *)
(*               previewBox: two steps (the previewer and the watcher do not take t.mutex, so they interleave)        *)
(*   exit path   Exit (previewBox.Set(reqQuit); EvtQuit), ExitKill (TRY-SEND `kill`), ExitCtx (cancel()),             *)
(*               ProcExit (the coordinator returns, the process image and all goroutines disappear)                   *)
(*   previewer   Pick (previewBox.Wait; version++), Start (cmd.Start; spawns reader, ticker, watcher),                *)
(*               Eof (reader saw EOF, cmd.Wait, final display, finishChan <- true), Reaped (both reapChan received)   *)
(*   ticker      TickDisplay (partial output rendered while the command runs; sets `rendered`)                        *)
(*   watcher     WatchEnter (reaches its select), the receiving half of a try-send (cancel: kill at once if output    *)
(*               was rendered, else wait previewCancelWait; kill: at once), WatchTimer (delay over), WatchKill        *)
(*               (util.KillCommand), WatchFinish, WatchCtx (ctx.Done: leaves WITHOUT killing), WatchDelayed (the      *)
(*               previewDelayed timer fires while it sits in its select: reqBox.Set(reqPreviewDelayed, version))      *)
(*   command     CmdOutput (one more LINE), CmdExit (finite commands only); dies at once when the group is SIGKILLed  *)
(*                                                                                                                    *)
(* WHAT THE WINDOW SHOWS.  The output of the command for request r is the sequence of lines <<r,1>> .. <<r,N(r)>>    *)
(* (N: shorter than, equal to, taller than the window of H rows - constant Lens).  `screen` is the sequence of the    *)
(* H rows of the preview window.  t.previewer.{version, lines, offset} = shown.ver, the first shown.n lines of        *)
(* shown.req, poff; t.previewed.{version, numLines, offset, filled} = pd (pd.req: ghost - whose lines rows 2..H were *)
(* painted from).  printPreview (Paint) does what the code does:                                                      *)
(*   DisplayFull    every row is replaced by the window [poff+1 .. poff+H] of the lines; rows beyond the output are   *)
(*                  cleared (FinishFill); filled := the lines reach the last row                                      *)
(*   DisplayAppend  the optimisation `unchanged` = (filled \/ same number of lines) /\ same version /\ same offset:   *)
(*                  only the FIRST row is repainted (it carries the spinner / scroll indicator); lines a running      *)
(*                  command appended since land below the fold of a full window, or there are none                   *)
(* The offset is reset by the FIRST result of a version only (result.offset >= 0; later ones carry -1); the result    *)
(* box has one slot, a later result of the same command overwrites an unhandled earlier one.                          *)
(*                                                                                                                    *)
(* The try-send is modelled exactly: it is taken iff the watcher is in its select (wst = "selecting"), otherwise it   *)
(* is DROPPED.  A drop that matters is a named deviation recorded in `dev` (finding F6):                              *)
(*   LostCancel      cancel dropped while a command is about to be started or its watcher has not reached the select  *)
(*                   (also: the previewer takes the older request between the terminal's try-send and its Set)        *)
(*   LostKillAtExit  kill dropped at exit in those states or while the watcher sits in its previewCancelWait delay    *)
(*   ExitBeforeKill  the process exits (EvtQuit is set BEFORE killPreview()) before the kill was attempted, or after  *)
(*                   the watcher took it but before it got to call KillCommand (nothing waits for the watcher)        *)
(*   StaleAfterShow  toggle-preview (show) enqueues from the action itself without telling the render loop which      *)
(*                   focus it previewed; the render loop later finds "focus unchanged" (against what IT recorded      *)
(*                   while the window was hidden) and does not refresh: move away, show, move back (found by TLC      *)
(*                   with 4 user actions, reproduced on the real binary with `up+toggle-preview+down`; finding F18,  *)
(*                   fixed in /repo by bumping t.version in that branch: ShowBumpsVersion = TRUE)                    *)
(*   StaleRows       DisplayAppend taken although rows 2..H hold lines of ANOTHER request: reqPreviewDelayed assigns  *)
(*                   the new command's version to t.previewer.version while t.previewer.lines are still the old       *)
(*                   ones; a Repaint in that state (scroll there and back, toggle-preview-wrap) records the new       *)
(*                   version in t.previewed together with filled = TRUE of the OLD lines; the new command's result    *)
(*                   then counts as `unchanged` (found by TLC on this module, MC_Preview_dev_rows.cfg; reproduced on  *)
(*                   the real binary: finding F24).  DelayedSetsVersion = FALSE is the code without that assignment.  *)
(*   LateLoading     a reqPreviewDelayed request is handled only after a result of a NEWER command was taken over   *)
(*                   (the render loop would have to sleep through a kill, a reap and a start): the version goes back  *)
(*   LostOffsetReset the first result of a command (the only one that resets the scroll offset) is overwritten in     *)
(*                   the one-slot box by a later result of the same command before the render loop saw it             *)
(*   StaleAfterReload the list was replaced by the one of a new input generation - another LINE is under the cursor,  *)
(*                   although its item index (and position) may be what it was - and nothing told the render loop:    *)
(*                   focusedIndex = currentIndex and t.version unchanged, no refreshPreview.  Impossible in the code  *)
(*                   as it is (UpdateList bumps t.version whenever the revision changes: ReloadBumpsVersion = TRUE);  *)
(*                   ReloadBumpsVersion = FALSE is "bump only if a selection was cleared" (MC_Preview_dev_reload.cfg)  *)
(*   StaleAfterShowKeep the same through change-preview-window: hidden with change-preview-window(hidden), move away, show with *)
(*                   change-preview-window(SPEC) (which announces from the action and does NOT bump t.version), move back    *)
(*                   before the render loop ran (4 user actions)                                                            *)
(* TWO WAYS OF HIDING.  toggle-preview drops t.previewer.lines; change-preview-window(hidden) KEEPS them (HideKeep).  THE    *)
(* RULE for both: becoming visible again restarts the preview for the line under the cursor at that moment (ShowKeep:        *)
(* refreshPreview from the action), whatever lines are still held - held lines are never a reason not to run the command.    *)
(* FOLLOW (--preview-window follow; constant Follow, configs without scrolling: following stays enabled).  CODE-DERIVED: a   *)
(* result of another version than t.previewer.version restarts the offset from 0; with a window, every result moves the     *)
(* offset to Max(offset, lines - H): the last H lines of the output; all of an output shorter than the window from 0.        *)
(* END OF OUTPUT IS NOT END OF PROCESS (kind "closed": the command closes stdout / stderr and goes on for ever).  EofOpen: the *)
(* reader sees EOF, the final result is displayed, the previewer sits in cmd.Wait (pst = "waitproc"); finishChan is signalled *)
(* only after Wait returned (Waited), so the watcher stays in its select, the command stays cancellable and stays in `alive`  *)
(* until it is killed: OneAlive and the quiescence clauses cover it like any running command.                                 *)
(* THE LIST IS A FUNCTION OF THE INPUT GENERATION.  `gen` = the generation on display (t.revision.major); the line     *)
(* under the cursor is LineAt(gen, focus): a CONTENT, not an index.  Requests, outputs and rows name the line.          *)
(* The properties are proved on the behaviours in which no deviation fired (dev = {}); MC_Preview_dev*.cfg check the *)
(* strict versions and keeps TLC's counterexamples.                                                                   *)
EXTENDS Integers, Sequences, FiniteSets, TLC, FzfPreviewTree

CONSTANTS MaxUI,          \* bound on user actions
          Kinds,          \* what a preview command may be: subset of {"finite", "endless"}
          TemplateHasQ,   \* the preview template contains {q} (query edits then refresh the preview)
          ShowBumpsVersion, \* toggle-preview bumps t.version (fix 525f2ed for finding F18); FALSE = the code before the fix
          H,              \* rows of the preview window
          LensKind,       \* "mixed": outputs shorter than, equal to and taller than the window; "one": one line each
          WithScroll,     \* the user may scroll the preview (preview-up / preview-down) and toggle its wrap mode
          WithReload,     \* the user may replace the input (reload / reload-sync)
          ReloadBumpsVersion, \* Terminal.UpdateList bumps t.version whenever the list revision changed (the code); FALSE = only
                              \* when the reload had a selection to clear (deviation StaleAfterReload)
          WithHideKeep,   \* the user may hide with change-preview-window(hidden) (lines kept) and show again with change-preview-window(SPEC)
          Follow,         \* --preview-window follow (only in configs without scrolling)
          DelayedSetsVersion  \* reqPreviewDelayed assigns t.previewer.version (finding F24); FALSE = the version is handed to
                              \* printPreviewDelayed instead.  The cfgs take it from FzfPreviewTree (`<- TreeDelayedSetsVersion`, the one
                              \* switch that says which previewer the checked tree has) unless they pin it on purpose

None == [none |-> TRUE]
(* the content of the line with item index i in input generation g: the same index in another generation is ANOTHER  *)
(* line (a reload that brings back the very same lines needs no new preview: not the case of interest)               *)
LineAt(g, i) == <<g, i>>
IndexOf(line) == line[2]
(* Lens[index + 2 * q] = number of lines the command for that line / query prints *)
Lens == IF LensKind = "mixed" THEN <<3, 1, 2, 3>> ELSE <<1, 1, 1, 1>>
Blank == <<None, 0>>                              \* an empty row

ASSUME ~(Follow /\ WithScroll)
VARIABLES focus, q, sel, tver, visible, acts,     \* terminal state (t.cy's item, t.input, t.selected, t.version, preview window)
          hk,                                     \* "hidden": the window is hidden by change-preview-window(hidden); "shown": it came back that way last; "no"
          gen, rl,                                \* input generation of the list on display (t.revision.major); a newer one is on its way
          dirty, rfocus, rver,                    \* render loop: reqList pending; focusedIndex / version it last acted on
          uipc, ureq,                             \* continuation of a critical section: idle | set | quit2 | quit3 | quit4
          pbox, pquit,                            \* previewBox: the pending request (or None), reqQuit
          pst, pver, preq,                        \* previewer: wait | picked | running | reaping | stopped
          wst, dtimer,                            \* watcher: none | starting | selecting | delaying | killing | done; its previewDelayed timer armed
          cst, ckind, cout, rendered, ticked, fin, \* command: none | running | exited | killed; lines written; ticker: rendered / lines it sent last; finishChan
          dbox, refbox, delbox,                   \* reqBox[reqPreviewDisplay] (one slot: [ver, req, n, off]), [reqPreviewRefresh], [reqPreviewDelayed] (a version, 0 = empty)
          shown, poff,                            \* t.previewer: version + lines (the first n lines of the output for req), scroll offset
          pd, screen,                             \* t.previewed: [ver, n, off, filled] (+ ghost req); the rows of the window
          quitting, ctxDone, procExited,
          alive, lastStarted, lastEnq, dev        \* ghosts: versions whose process group is alive; request started / announced last
vars == <<focus, q, sel, tver, visible, acts, hk, gen, rl, dirty, rfocus, rver, uipc, ureq, pbox, pquit, pst, pver, preq, wst, dtimer, cst, ckind,
          cout, rendered, ticked, fin, dbox, refbox, delbox, shown, poff, pd, screen, quitting, ctxDone, procExited, alive,
          lastStarted, lastEnq, dev>>

listVars == <<gen, rl, hk>>
uiVars   == <<focus, q, sel, tver, visible, acts, gen, rl, hk>>
rendVars == <<dirty, rfocus, rver>>
pvVars   == <<pst, pver, preq>>
cmdVars  == <<cst, ckind, cout, rendered, ticked, fin>>
endVars  == <<quitting, ctxDone, procExited>>
winVars  == <<shown, poff, pd, screen>>            \* what the render loop knows and painted
boxVars  == <<dbox, refbox, delbox>>

(* the request for the present terminal state: what {} {n} {f}, {q}, {+} {+n} {+f} would be substituted with *)
CurLine == LineAt(gen, focus)
CurReq == [line |-> CurLine, q |-> IF TemplateHasQ THEN q ELSE 0, sel |-> sel]
(* how many lines the command for a request prints *)
NLines(r) == Lens[IndexOf(r.line) + 2 * r.q]
NoLines == [ver |-> 0, req |-> None, n |-> 0]

Init == /\ focus = 1 /\ q = 0 /\ sel = 0 /\ tver = 0 /\ visible = TRUE /\ acts = 0 /\ hk = "no" /\ gen = 0 /\ rl = FALSE
        /\ dirty = TRUE /\ rfocus = 0 /\ rver = -1
        /\ uipc = "idle" /\ ureq = None /\ pbox = None /\ pquit = FALSE
        /\ pst = "wait" /\ pver = 0 /\ preq = None /\ wst = "none" /\ dtimer = FALSE
        /\ cst = "none" /\ ckind = "finite" /\ cout = 0 /\ rendered = FALSE /\ ticked = 0 /\ fin = FALSE
        /\ dbox = None /\ refbox = FALSE /\ delbox = 0
        /\ shown = NoLines /\ poff = 0
        /\ pd = [ver |-> 0, n |-> 0, off |-> 0, filled |-> FALSE, req |-> None] /\ screen = [r \in 1..H |-> Blank]
        /\ quitting = FALSE /\ ctxDone = FALSE /\ procExited = FALSE
        /\ alive = {} /\ lastStarted = None /\ lastEnq = None /\ dev = {}

-------------------------------------------------------------------------------
(* The non-blocking send on the unbuffered killChan.  The receiving watcher goes on to call util.KillCommand        *)
(* (SIGKILL to the process group: the command is dead at once) in a step of its own (WatchKill).                     *)
InFlightForCancel == pst = "picked" \/ wst = "starting"
InFlightForKill   == pst = "picked" \/ wst \in {"starting", "delaying"}
Killed == /\ cst' = (IF cst \in {"running", "closed"} THEN "killed" ELSE cst) /\ alive' = {} /\ wst' = "done"

TrySendDev(immediately) ==
    IF wst = "selecting" THEN {}
    ELSE IF immediately THEN (IF InFlightForKill THEN {"LostKillAtExit"} ELSE {})
                        ELSE (IF InFlightForCancel THEN {"LostCancel"} ELSE {})
(* the part of the try-send that concerns the watcher and the command (dev is assigned by the caller) *)
TrySendW(immediately) ==
    IF wst = "selecting"
    THEN /\ wst' = (IF immediately \/ rendered THEN "killing" ELSE "delaying")
         /\ UNCHANGED <<cst, alive>>
    ELSE UNCHANGED <<wst, cst, alive>>              \* dropped
TrySend(immediately) == TrySendW(immediately) /\ dev' = dev \cup TrySendDev(immediately)

-------------------------------------------------------------------------------
(* printPreview / renderPreviewArea / renderPreviewText for lines = the first n lines of the output for req.        *)
(* One iteration of the render loop handles ALL pending requests in the order of their keys (reqPreviewDisplay <      *)
(* reqPreviewRefresh < reqPreviewDelayed) under t.mutex: the handlers are functions on the window state              *)
Window(req, n, off) == [r \in 1..H |-> IF off + r <= n THEN <<req, off + r>> ELSE Blank]
FirstRow(req, n, off) == IF off < n THEN <<req, off + 1>> ELSE Blank
WS == [shown |-> shown, poff |-> poff, pd |-> pd, screen |-> screen, dev |-> dev]
UnchangedIn(s, v, n, off) == (s.pd.filled \/ n = s.pd.n) /\ v = s.pd.ver /\ off = s.pd.off
PaintS(s, v, req, n, off) ==
    IF ~visible THEN s                                                              \* no window: printPreview returns
    ELSE IF UnchangedIn(s, v, n, off)
    THEN [s EXCEPT !.screen = [s.screen EXCEPT ![1] = FirstRow(req, n, off)],       \* DisplayAppend: only the first row
                   !.pd = [s.pd EXCEPT !.n = n],
                   !.dev = s.dev \cup (IF s.pd.req # req THEN {"StaleRows"} ELSE {})]
    ELSE [s EXCEPT !.screen = Window(req, n, off),                                  \* DisplayFull: every row
                   !.pd = [ver |-> v, n |-> n, off |-> off, filled |-> (n - off >= H), req |-> req]]
(* reqPreviewDisplay: take over version and lines; the first result of a command resets the offset; printPreview *)
Max2(a, b) == IF a > b THEN a ELSE b
FollowBase(s) == IF Follow /\ s.shown.ver # dbox.ver THEN 0 ELSE s.poff      \* CODE-DERIVED: new version + following: offset = 0 first
DisplayOff(s) == IF Follow /\ visible THEN Max2(FollowBase(s), dbox.n - H)    \* follow: the end of the output in the last row
                 ELSE IF dbox.off >= 0 THEN 0 ELSE FollowBase(s)              \* util.Constrain(0, 0, n - 1) = 0
DisplayS(s) == IF dbox = None THEN s
               ELSE PaintS([s EXCEPT !.shown = [ver |-> dbox.ver, req |-> dbox.req, n |-> dbox.n], !.poff = DisplayOff(s)],
                           dbox.ver, dbox.req, dbox.n, DisplayOff(s))
(* reqPreviewRefresh: printPreview on what t.previewer holds *)
RepaintS(s) == IF ~refbox THEN s ELSE PaintS(s, s.shown.ver, s.shown.req, s.shown.n, s.poff)
(* reqPreviewDelayed: t.previewer.version = the version of the command that has been running for previewDelayed;    *)
(* printPreviewDelayed: unless that version's lines are on display already, the first row is repainted (from the    *)
(* lines the previewer still holds) to carry "Loading .."                                                             *)
LoadingS(s) ==
    IF delbox = 0 THEN s
    ELSE LET s1 == [s EXCEPT !.shown = (IF DelayedSetsVersion THEN [s.shown EXCEPT !.ver = delbox] ELSE s.shown),
                             !.dev = s.dev \cup (IF s.shown.ver > delbox THEN {"LateLoading"} ELSE {})]
         IN IF visible /\ ~(s.shown.n > 0 /\ s.pd.ver = delbox)
            THEN [s1 EXCEPT !.screen = [s.screen EXCEPT ![1] = FirstRow(s.shown.req, s.shown.n, s.poff)]]
            ELSE s1

-------------------------------------------------------------------------------
(* User: one iteration of the action loop; it holds t.mutex, so it excludes the render loop's critical sections *)
CanAct == uipc = "idle" /\ acts < MaxUI /\ ~quitting /\ ~procExited
Move == /\ CanAct /\ focus' = 3 - focus /\ dirty' = TRUE /\ acts' = acts + 1
        /\ UNCHANGED <<q, sel, tver, visible, listVars, rfocus, rver, uipc, ureq, pbox, pquit, pvVars, wst, dtimer, cmdVars, boxVars, winVars, endVars,
                       alive, lastStarted, lastEnq, dev>>
EditQuery == /\ CanAct /\ q' = 1 - q /\ tver' = (IF TemplateHasQ THEN tver + 1 ELSE tver) /\ dirty' = TRUE /\ acts' = acts + 1
             /\ UNCHANGED <<focus, sel, visible, listVars, rfocus, rver, uipc, ureq, pbox, pquit, pvVars, wst, dtimer, cmdVars, boxVars, winVars, endVars,
                            alive, lastStarted, lastEnq, dev>>
Toggle == /\ CanAct /\ sel' = 1 - sel /\ tver' = tver + 1 /\ dirty' = TRUE /\ acts' = acts + 1
          /\ UNCHANGED <<focus, q, visible, listVars, rfocus, rver, uipc, ureq, pbox, pquit, pvVars, wst, dtimer, cmdVars, boxVars, winVars, endVars,
                         alive, lastStarted, lastEnq, dev>>
(* toggle-preview: hiding cancels the running command and drops the lines; showing cancels and enqueues from the     *)
(* action itself.  Either way the windows are laid out again: empty window, t.previewed.version = 0                  *)
TogglePreview == /\ CanAct /\ hk # "hidden" /\ hk' = "no" /\ visible' = ~visible /\ acts' = acts + 1
                 /\ dirty' = TRUE /\ tver' = (IF ShowBumpsVersion THEN tver + 1 ELSE tver)      \* updatePreviewWindow: reqList
                 /\ TrySend(FALSE)
                 /\ IF visible THEN UNCHANGED <<uipc, ureq, lastEnq>> ELSE (uipc' = "set" /\ ureq' = CurReq /\ lastEnq' = CurReq)
                 /\ shown' = (IF visible THEN [shown EXCEPT !.n = 0, !.req = None] ELSE shown)
                 /\ screen' = [r \in 1..H |-> Blank] /\ pd' = [pd EXCEPT !.ver = 0]
                 /\ UNCHANGED <<focus, q, sel, gen, rl, rfocus, rver, pbox, pquit, pvVars, dtimer, ckind, cout, rendered, ticked, fin, boxVars, poff,
                                endVars, lastStarted>>
(* change-preview-window(hidden): the window goes away (updatePreviewWindow: laid out again, reqList), the running    *)
(* command is cancelled, t.previewer.lines are KEPT.  change-preview-window(SPEC) while hidden that way: the window is *)
(* back, empty, and the action itself restarts the preview for the line under the cursor (refreshPreview: try-send,    *)
(* then Set); t.version is not touched                                                                                 *)
HideKeep == /\ WithHideKeep /\ CanAct /\ visible /\ visible' = FALSE /\ hk' = "hidden" /\ acts' = acts + 1
            /\ dirty' = TRUE /\ TrySend(FALSE)
            /\ screen' = [r \in 1..H |-> Blank] /\ pd' = [pd EXCEPT !.ver = 0]
            /\ UNCHANGED <<focus, q, sel, tver, gen, rl, rfocus, rver, uipc, ureq, pbox, pquit, pvVars, dtimer, ckind, cout, rendered, ticked, fin, boxVars,
                           shown, poff, endVars, lastStarted, lastEnq>>
ShowKeep == /\ WithHideKeep /\ CanAct /\ ~visible /\ hk = "hidden" /\ visible' = TRUE /\ hk' = "shown" /\ acts' = acts + 1
            /\ dirty' = TRUE /\ TrySend(FALSE)
            /\ uipc' = "set" /\ ureq' = CurReq /\ lastEnq' = CurReq
            /\ screen' = [r \in 1..H |-> Blank] /\ pd' = [pd EXCEPT !.ver = 0]
            /\ UNCHANGED <<focus, q, sel, tver, gen, rl, rfocus, rver, pbox, pquit, pvVars, dtimer, ckind, cout, rendered, ticked, fin, boxVars,
                           shown, poff, endVars, lastStarted>>
(* preview-up / preview-down: scrollPreviewTo, then reqPreviewRefresh.  (t.previewer.scrollable is over-approximated:  *)
(* any output of two lines or more may be scrolled - the code allows it after a repeated display of the same lines)   *)
Scroll == /\ WithScroll /\ CanAct /\ visible /\ shown.n >= 2
          /\ \E o \in {poff - 1, poff + 1} : o >= 0 /\ o <= shown.n - 1 /\ poff' = o
          /\ refbox' = TRUE /\ acts' = acts + 1
          /\ UNCHANGED <<focus, q, sel, tver, visible, listVars, rendVars, uipc, ureq, pbox, pquit, pvVars, wst, dtimer, cmdVars, dbox, delbox, shown, pd, screen,
                         endVars, alive, lastStarted, lastEnq, dev>>
(* toggle-preview-wrap: t.previewed.version = 0 ("so that full redraw occurs"), then reqPreviewRefresh *)
Rewrap == /\ WithScroll /\ CanAct /\ visible
          /\ pd' = [pd EXCEPT !.ver = 0] /\ refbox' = TRUE /\ acts' = acts + 1
          /\ UNCHANGED <<focus, q, sel, tver, visible, listVars, rendVars, uipc, ureq, pbox, pquit, pvVars, wst, dtimer, cmdVars, dbox, delbox, shown, poff, screen,
                         endVars, alive, lastStarted, lastEnq, dev>>
(* reload(CMD) / reload-sync(CMD): the reader is restarted on another command; the list on display stays (reload:     *)
(* until the first lines of the new input have been matched, reload-sync: until the new input is complete - the same *)
(* in an untimed model) and every action still works on it; then UpdateList below replaces it                        *)
Reload == /\ WithReload /\ CanAct /\ ~rl /\ rl' = TRUE /\ acts' = acts + 1
          /\ UNCHANGED <<focus, q, sel, tver, visible, gen, hk, rendVars, uipc, ureq, pbox, pquit, pvVars, wst, dtimer, cmdVars, boxVars, winVars,
                         endVars, alive, lastStarted, lastEnq, dev>>
(* any way of leaving (accept, abort, SIGTERM): exit() sets reqQuit on the previewBox, then EvtQuit is set *)
Exit == /\ CanAct /\ acts' = acts + 1
        /\ pquit' = TRUE /\ quitting' = TRUE /\ uipc' = "quit2"
        /\ UNCHANGED <<focus, q, sel, tver, visible, listVars, rendVars, ureq, pbox, pvVars, wst, dtimer, cmdVars, boxVars, winVars, ctxDone, procExited,
                       alive, lastStarted, lastEnq, dev>>

-------------------------------------------------------------------------------
(* Coordinator -> terminal: Terminal.UpdateList(merger) with a merger of a revision that is NOT compatible with     *)
(* t.revision (the input was restarted), under t.mutex.  The items are replaced: the line under the cursor is now      *)
(* another LINE although the cursor position - and, without a query, the item index - is what it was (a shorter list   *)
(* may also pull the cursor up); the selection is cleared; t.version++ so that the render loop, which compares item    *)
(* INDEXES, refreshes the preview all the same; reqList.                                                               *)
UpdateList == /\ rl /\ uipc = "idle" /\ ~quitting /\ ~procExited
              /\ rl' = FALSE /\ gen' = gen + 1 /\ sel' = 0
              /\ \E f \in {focus, 1} : focus' = f
              /\ tver' = (IF ReloadBumpsVersion \/ sel # 0 THEN tver + 1 ELSE tver)
              /\ dirty' = TRUE
              /\ UNCHANGED <<q, visible, acts, hk, rfocus, rver, uipc, ureq, pbox, pquit, pvVars, wst, dtimer, cmdVars, boxVars, winVars, endVars,
                             alive, lastStarted, lastEnq, dev>>

-------------------------------------------------------------------------------
(* Render loop *)
(* the render loop finds neither the focused INDEX nor t.version changed although the request it announced last is  *)
(* not the one for the present state: the line was replaced under the cursor (reload) / the window was shown again    *)
StaleCause == IF lastEnq # None /\ lastEnq.line # CurLine /\ IndexOf(lastEnq.line) = focus THEN "StaleAfterReload"
              ELSE IF hk = "shown" THEN "StaleAfterShowKeep" ELSE "StaleAfterShow"
Render == /\ dirty /\ uipc = "idle" /\ ~quitting /\ ~procExited
          /\ dirty' = FALSE
          /\ IF focus # rfocus \/ tver # rver
             THEN /\ rfocus' = focus /\ rver' = tver
                  /\ IF visible                                      \* refreshPreview: canPreview()
                     THEN TrySend(FALSE) /\ uipc' = "set" /\ ureq' = CurReq /\ lastEnq' = CurReq
                     ELSE UNCHANGED <<wst, cst, alive, dev, uipc, ureq, lastEnq>>
             ELSE /\ UNCHANGED <<rfocus, rver, wst, cst, alive, uipc, ureq, lastEnq>>
                  /\ dev' = dev \cup (IF visible /\ lastEnq # CurReq THEN {StaleCause} ELSE {})
          /\ UNCHANGED <<uiVars, pbox, pquit, pvVars, dtimer, ckind, cout, rendered, ticked, fin, boxVars, winVars, endVars, lastStarted>>
RefreshSet == /\ uipc = "set" /\ ~procExited
              /\ pbox' = ureq /\ uipc' = "idle" /\ ureq' = None
              /\ UNCHANGED <<uiVars, rendVars, pquit, pvVars, wst, dtimer, cmdVars, boxVars, winVars, endVars, alive, lastStarted, lastEnq, dev>>
CanRender == uipc = "idle" /\ ~quitting /\ ~procExited
RenderPreview ==
    /\ CanRender /\ (dbox # None \/ refbox \/ delbox # 0)
    /\ LET s == LoadingS(RepaintS(DisplayS(WS)))
       IN shown' = s.shown /\ poff' = s.poff /\ pd' = s.pd /\ screen' = s.screen /\ dev' = s.dev
    /\ dbox' = None /\ refbox' = FALSE /\ delbox' = 0
    /\ UNCHANGED <<uiVars, rendVars, uipc, ureq, pbox, pquit, pvVars, wst, dtimer, cmdVars, endVars, alive, lastStarted, lastEnq>>
(* the iterations by what they start with: a result painted in full / a result taken with the optimisation (only   *)
(* the first row is painted: the rows below already hold the lines, more were appended below the fold) / ...         *)
AppendAtDisplay == dbox # None /\ visible /\ UnchangedIn(WS, dbox.ver, dbox.n, DisplayOff(WS))
DisplayFull == dbox # None /\ ~AppendAtDisplay /\ RenderPreview
DisplayAppend == AppendAtDisplay /\ RenderPreview
Repaint == dbox = None /\ refbox /\ RenderPreview
Loading == dbox = None /\ ~refbox /\ delbox # 0 /\ RenderPreview
Display == DisplayFull \/ DisplayAppend

ExitKill == /\ uipc = "quit2" /\ ~procExited
            /\ TrySend(TRUE) /\ uipc' = "quit3"
            /\ UNCHANGED <<uiVars, rendVars, ureq, pbox, pquit, pvVars, dtimer, ckind, cout, rendered, ticked, fin, boxVars, winVars, endVars,
                           lastStarted, lastEnq>>
ExitCtx == /\ uipc = "quit3" /\ ~procExited
           /\ ctxDone' = TRUE /\ uipc' = "quit4"
           /\ UNCHANGED <<uiVars, rendVars, ureq, pbox, pquit, pvVars, wst, dtimer, cmdVars, boxVars, winVars, quitting, procExited, alive,
                          lastStarted, lastEnq, dev>>
ProcExit == /\ quitting /\ ~procExited
            /\ procExited' = TRUE
            /\ dev' = dev \cup (IF (uipc = "quit2" /\ (alive # {} \/ pst = "picked")) \/ (wst = "killing" /\ alive # {})
                               THEN {"ExitBeforeKill"} ELSE {})
            /\ UNCHANGED <<uiVars, rendVars, uipc, ureq, pbox, pquit, pvVars, wst, dtimer, cmdVars, boxVars, winVars, quitting, ctxDone, alive,
                           lastStarted, lastEnq>>

-------------------------------------------------------------------------------
(* Previewer goroutine *)
(* A request taken while the terminal sits between its try-send and its Set (uipc = "set") is superseded at birth:  *)
(* the cancel meant for it has already been attempted and dropped - LostCancel as well.                             *)
Pick == /\ pst = "wait" /\ ~procExited /\ (pbox # None \/ pquit)
        /\ IF pquit THEN pst' = "stopped" /\ UNCHANGED <<pver, preq, pbox, dev>>
                    ELSE /\ pst' = "picked" /\ pver' = pver + 1 /\ preq' = pbox /\ pbox' = None
                         /\ dev' = dev \cup (IF uipc = "set" THEN {"LostCancel"} ELSE {})
        /\ UNCHANGED <<uiVars, rendVars, uipc, ureq, pquit, wst, dtimer, cmdVars, boxVars, winVars, endVars, alive, lastStarted, lastEnq>>
Start == /\ pst = "picked" /\ ~procExited
         /\ \E k \in Kinds : ckind' = k
         /\ pst' = "running" /\ cst' = "running" /\ cout' = 0 /\ rendered' = FALSE /\ ticked' = 0 /\ fin' = FALSE
         /\ wst' = "starting" /\ dtimer' = TRUE
         /\ alive' = alive \cup {pver} /\ lastStarted' = preq
         /\ UNCHANGED <<uiVars, rendVars, uipc, ureq, pbox, pquit, pver, preq, boxVars, winVars, endVars, lastEnq, dev>>
(* a result put into the one-slot box; only the first one of a command carries the offset reset *)
Result(n) == [ver |-> pver, req |-> preq, n |-> n, off |-> IF rendered THEN -1 ELSE 0]
Overwrites == IF dbox # None /\ dbox.ver = pver /\ dbox.off >= 0 /\ rendered THEN {"LostOffsetReset"} ELSE {}
(* EOF on the pipe (every process of the group is gone), cmd.Wait, the ticker's final display, finishChan <- true *)
Eof == /\ pst = "running" /\ cst \in {"exited", "killed"} /\ ~procExited
       /\ dbox' = Result(cout) /\ dev' = dev \cup Overwrites /\ rendered' = TRUE /\ fin' = TRUE /\ pst' = "reaping"
       /\ UNCHANGED <<uiVars, rendVars, uipc, ureq, pbox, pquit, pver, preq, wst, dtimer, cst, ckind, cout, ticked, refbox, delbox, winVars,
                      endVars, alive, lastStarted, lastEnq>>
(* kind "closed": the reader saw EOF (the output is complete, final display) - the process is still there: cmd.Wait blocks *)
EofOpen == /\ pst = "running" /\ cst = "closed" /\ ~procExited
           /\ dbox' = Result(cout) /\ dev' = dev \cup Overwrites /\ rendered' = TRUE /\ pst' = "waitproc"
           /\ UNCHANGED <<uiVars, rendVars, uipc, ureq, pbox, pquit, pver, preq, wst, dtimer, cst, ckind, cout, ticked, fin, refbox, delbox, winVars,
                          endVars, alive, lastStarted, lastEnq>>
(* cmd.Wait returns once the process is gone; only THEN finishChan <- true *)
Waited == /\ pst = "waitproc" /\ cst = "killed" /\ ~procExited
          /\ fin' = TRUE /\ pst' = "reaping"
          /\ UNCHANGED <<uiVars, rendVars, uipc, ureq, pbox, pquit, pver, preq, wst, dtimer, cst, ckind, cout, rendered, ticked, boxVars, winVars,
                         endVars, alive, lastStarted, lastEnq, dev>>
Reaped == /\ pst = "reaping" /\ wst = "done" /\ ~procExited
          /\ pst' = "wait" /\ wst' = "none" /\ cst' = "none"
          /\ UNCHANGED <<uiVars, rendVars, uipc, ureq, pbox, pquit, pver, preq, dtimer, ckind, cout, rendered, ticked, fin, boxVars, winVars,
                         endVars, alive, lastStarted, lastEnq, dev>>
(* ticker goroutine: partial output of a running command is rendered (repeats with the same lines change nothing) *)
TickDisplay == /\ pst = "running" /\ cst = "running" /\ cout > ticked /\ ~procExited
               /\ dbox' = Result(cout) /\ dev' = dev \cup Overwrites /\ rendered' = TRUE /\ ticked' = cout
               /\ UNCHANGED <<uiVars, rendVars, uipc, ureq, pbox, pquit, pvVars, wst, dtimer, cst, ckind, cout, fin, refbox, delbox, winVars,
                              endVars, alive, lastStarted, lastEnq>>

(* Watcher goroutine *)
WatchEnter == /\ wst = "starting" /\ ~procExited /\ wst' = "selecting"
              /\ UNCHANGED <<uiVars, rendVars, uipc, ureq, pbox, pquit, pvVars, dtimer, cmdVars, boxVars, winVars, endVars, alive, lastStarted, lastEnq, dev>>
WatchFinish == /\ wst \in {"selecting", "delaying"} /\ fin /\ ~procExited /\ wst' = "done"
               /\ UNCHANGED <<uiVars, rendVars, uipc, ureq, pbox, pquit, pvVars, dtimer, cmdVars, boxVars, winVars, endVars, alive, lastStarted, lastEnq, dev>>
WatchTimer == /\ wst = "delaying" /\ ~procExited /\ wst' = "killing"           \* previewCancelWait elapsed
              /\ UNCHANGED <<uiVars, rendVars, uipc, ureq, pbox, pquit, pvVars, dtimer, cmdVars, boxVars, winVars, endVars, alive, lastStarted, lastEnq, dev>>
WatchKill == /\ wst = "killing" /\ ~procExited /\ Killed                       \* util.KillCommand
             /\ UNCHANGED <<uiVars, rendVars, uipc, ureq, pbox, pquit, pvVars, dtimer, ckind, cout, rendered, ticked, fin, boxVars, winVars, endVars,
                            lastStarted, lastEnq, dev>>
WatchCtx == /\ wst = "selecting" /\ ctxDone /\ ~procExited /\ wst' = "done"       \* leaves without killing
            /\ UNCHANGED <<uiVars, rendVars, uipc, ureq, pbox, pquit, pvVars, dtimer, cmdVars, boxVars, winVars, endVars, alive, lastStarted, lastEnq, dev>>
(* the previewDelayed timer (armed when the watcher starts) fires while the watcher sits in its select *)
WatchDelayed == /\ wst = "selecting" /\ dtimer /\ ~procExited
                /\ dtimer' = FALSE /\ delbox' = pver
                /\ UNCHANGED <<uiVars, rendVars, uipc, ureq, pbox, pquit, pvVars, wst, cmdVars, dbox, refbox, winVars, endVars, alive, lastStarted,
                               lastEnq, dev>>

(* The command (keeps going after fzf is gone): writes its lines one by one *)
CmdOutput == /\ cst = "running" /\ cout < NLines(preq) /\ cout' = cout + 1
             /\ UNCHANGED <<uiVars, rendVars, uipc, ureq, pbox, pquit, pvVars, wst, dtimer, cst, ckind, rendered, ticked, fin, boxVars, winVars, endVars,
                            alive, lastStarted, lastEnq, dev>>
CmdExit == /\ cst = "running" /\ ckind = "finite" /\ cout = NLines(preq)
           /\ cst' = "exited" /\ alive' = {}
           /\ UNCHANGED <<uiVars, rendVars, uipc, ureq, pbox, pquit, pvVars, wst, dtimer, ckind, cout, rendered, ticked, fin, boxVars, winVars, endVars,
                          lastStarted, lastEnq, dev>>

(* kind "closed": all lines written, stdout and stderr closed; the process goes on (and stays in `alive`) *)
CmdClose == /\ cst = "running" /\ ckind = "closed" /\ cout = NLines(preq)
            /\ cst' = "closed"
            /\ UNCHANGED <<uiVars, rendVars, uipc, ureq, pbox, pquit, pvVars, wst, dtimer, ckind, cout, rendered, ticked, fin, boxVars, winVars, endVars,
                           alive, lastStarted, lastEnq, dev>>

-------------------------------------------------------------------------------
User == HideKeep \/ ShowKeep \/ Move \/ EditQuery \/ Toggle \/ TogglePreview \/ Scroll \/ Rewrap \/ Reload \/ Exit
System == UpdateList \/ Render \/ RefreshSet \/ Display \/ Repaint \/ Loading \/ ExitKill \/ ExitCtx \/ ProcExit \/ Pick \/ Start \/ Eof \/ Reaped \/ TickDisplay
          \/ EofOpen \/ Waited \/ CmdClose
          \/ WatchEnter \/ WatchFinish \/ WatchTimer \/ WatchKill \/ WatchCtx \/ WatchDelayed \/ CmdOutput \/ CmdExit
Next == User \/ System
(* the timer need not fire (commands are usually faster): no fairness for WatchDelayed; the new input arrives *)
Fair == UpdateList \/ Render \/ RefreshSet \/ Display \/ Repaint \/ Loading \/ ExitKill \/ ExitCtx \/ ProcExit \/ Pick \/ Start \/ Eof \/ Reaped \/ TickDisplay
        \/ EofOpen \/ Waited \/ CmdClose
        \/ WatchEnter \/ WatchFinish \/ WatchTimer \/ WatchKill \/ WatchCtx \/ CmdOutput \/ CmdExit
Spec == Init /\ [][Next]_vars /\ WF_vars(Fair)

-------------------------------------------------------------------------------
(* Properties (C20) *)
Lines == {LineAt(g, i) : g \in 0..MaxUI, i \in 1..2}
Rows == {Blank} \cup {<<r, i>> : r \in [line : Lines, q : 0..1, sel : 0..1], i \in 1..4}
TypeOK == /\ uipc \in {"idle", "set", "quit2", "quit3", "quit4"}
          /\ pst \in {"wait", "picked", "running", "waitproc", "reaping", "stopped"} /\ hk \in {"no", "hidden", "shown"}
          /\ wst \in {"none", "starting", "selecting", "delaying", "killing", "done"}
          /\ cst \in {"none", "running", "closed", "exited", "killed"}
          /\ dev \subseteq {"LostCancel", "LostKillAtExit", "ExitBeforeKill", "StaleAfterShow", "StaleAfterShowKeep", "StaleAfterReload", "StaleRows", "LostOffsetReset",
                            "LateLoading"}
          /\ gen \in 0..MaxUI /\ rl \in BOOLEAN /\ focus \in 1..2
          /\ DOMAIN screen = 1..H /\ \A r \in 1..H : screen[r] \in Rows
          /\ poff >= 0 /\ cout >= 0 /\ ticked <= cout
(* superseded commands are terminated before the next one starts: at most one process group alive at any time *)
OneAlive == Cardinality(alive) <= 1 /\ (alive # {} => alive = {pver} /\ cst \in {"running", "closed"})     \* (closed: output ended, process alive)
(* the window never shows output of a command newer or other than one that was started; displays arrive in order *)
ShownIsStarted == shown.ver <= pver
(* a row never shows anything but a line of a command that was started for a request the terminal announced *)
Quiescent == ~ENABLED Fair
(* once nothing moves any more: the command started last is the one for the LINE under the cursor (CurLine: the      *)
(* content the list of the present input generation has there - not its index, not its position) with the current    *)
(* query and selection, ITS OUTPUT IS WHAT THE WINDOW SHOWS - every row: the window holds the lines from the scroll  *)
(* offset on, row by row, rows beyond the output are empty, and the offset lies inside the output - and a command   *)
(* still alive is that (never-ending) one; after the end of the session no command is alive.                         *)
(* (Nothing is claimed while the preview window is hidden.)                                                          *)
ShowsOutputOf(r) == /\ shown.req = r /\ shown.ver = pver /\ shown.n = NLines(r)
                    /\ screen = Window(r, NLines(r), poff)
                    /\ poff < NLines(r) \/ (poff = 0 /\ NLines(r) = 0)
                    /\ Follow => poff = Max2(0, NLines(r) - H)           \* follow: the last H lines; a shorter output from its first line
CaughtUp == IF procExited THEN alive = {}
            ELSE visible => /\ lastStarted = CurReq
                            /\ ShowsOutputOf(CurReq)
                            /\ pbox = None /\ dbox = None /\ ~refbox
Convergence == (Quiescent /\ dev = {}) => CaughtUp
ConvergenceStrict == Quiescent => CaughtUp                    \* violated: LostCancel (finding F6)
(* the same with exactly one kind of deviation admitted: TLC's counterexamples show what each one leads to *)
ConvergenceLostCancel == (Quiescent /\ ~procExited /\ dev \subseteq {"LostCancel"}) => CaughtUp      \* violated (F6, stale preview)
ConvergenceStaleAfterShow == (Quiescent /\ ~procExited /\ dev \subseteq {"StaleAfterShow"}) => CaughtUp  \* violated (MaxUI >= 4)
ConvergenceStaleRows == (Quiescent /\ ~procExited /\ dev \subseteq {"StaleRows"}) => CaughtUp        \* violated (F24, rows of an older preview)
ConvergenceLostOffsetReset == (Quiescent /\ ~procExited /\ dev \subseteq {"LostOffsetReset"}) => CaughtUp
ConvergenceStaleAfterShowKeep == (Quiescent /\ ~procExited /\ dev \subseteq {"StaleAfterShowKeep"}) => CaughtUp  \* violated (MaxUI >= 4)
ConvergenceStaleAfterReload == (Quiescent /\ ~procExited /\ dev \subseteq {"StaleAfterReload"}) => CaughtUp  \* violated (1 user action)
ShowFixed == ShowBumpsVersion => "StaleAfterShow" \notin dev          \* with the fix the deviation cannot happen at all
ReloadFixed == ReloadBumpsVersion => "StaleAfterReload" \notin dev    \* nor this one in the code as it is
DelayedFixed == ~DelayedSetsVersion => "StaleRows" \notin dev         \* without the assignment in reqPreviewDelayed neither can this one
(* the optimisation is sound whenever it is taken for lines of the request the rows were painted from: at every      *)
(* moment the rows 2..H are a window of the lines of ONE request - the one recorded with them                         *)
RowsOfOneRequest == (visible /\ "StaleRows" \notin dev) =>
                       \A r \in 2..H : screen[r] = Blank \/ screen[r] = <<pd.req, pd.off + r>>
ExitClean == (procExited /\ dev = {}) => alive = {}
ExitCleanLostKill == (procExited /\ dev \subseteq {"LostKillAtExit"}) => (alive = {} \/ ckind = "finite")   \* violated (F6, survivor)
ExitCleanStrict == procExited => (alive = {} \/ ckind = "finite")     \* violated: LostKillAtExit / ExitBeforeKill (finding F6)
Liveness == <>[](~ENABLED Fair)
NoSurvivor == (<>(dev # {})) \/ [](procExited => <>(alive = {}))
NoSurvivorStrict == [](procExited => <>(alive = {}))          \* violated with a never-ending command
================================================================================
