------------------------------ MODULE FzfPreview ------------------------------
(* The previewer of interactive fzf (src/terminal.go Loop(): previewer goroutine, its reader / ticker / watcher     *)
(* goroutines per command, refreshPreview, cancelPreview / killPreview, the render loop's reqList and                *)
(* reqPreviewDisplay handling, the exit path; src/util/util_unix.go KillCommand = SIGKILL to the process group).     *)
(*                                                                                                                    *)
(* One action per critical section / channel operation:                                                              *)
(*   user        Move, EditQuery, Toggle, TogglePreview, Exit      (one iteration of the action loop, under t.mutex)  *)
(*   render loop Render (reqList: focus or t.version changed -> refreshPreview), RefreshSet, Display                  *)
(*               refreshPreview = TRY-SEND `cancel` on the unbuffered killChan, THEN overwrite the one-slot           *)
(*               previewBox: two steps (the previewer and the watcher do not take t.mutex, so they interleave)        *)
(*   exit path   Exit (previewBox.Set(reqQuit); EvtQuit), ExitKill (TRY-SEND `kill`), ExitCtx (cancel()),             *)
(*               ProcExit (the coordinator returns, the process image and all goroutines disappear)                   *)
(*   previewer   Pick (previewBox.Wait; version++), Start (cmd.Start; spawns reader, ticker, watcher),                *)
(*               Eof (reader saw EOF, cmd.Wait, final display, finishChan <- true), Reaped (both reapChan received)   *)
(*   ticker      TickDisplay (partial output rendered while the command runs; sets `rendered`)                        *)
(*   watcher     WatchEnter (reaches its select), the receiving half of a try-send (cancel: kill at once if output    *)
(*               was rendered, else wait previewCancelWait; kill: at once), WatchTimer (delay over), WatchKill        *)
(*               (util.KillCommand), WatchFinish, WatchCtx (ctx.Done: leaves WITHOUT killing)                         *)
(*   command     CmdOutput, CmdExit (finite commands only); it dies at once when the group is SIGKILLed               *)
(*                                                                                                                    *)
(* The try-send is modelled exactly: it is taken iff the watcher is in its select (wst = "selecting"), otherwise it   *)
(* is DROPPED.  A drop that matters is a named deviation recorded in `dev` (finding F6):                              *)
(*   LostCancel      cancel dropped while a command is about to be started or its watcher has not reached the select  *)
(*                   (also: the previewer takes the older request between the terminal's try-send and its Set)        *)
(*   LostKillAtExit  kill dropped at exit in those states or while the watcher sits in its previewCancelWait delay    *)
(*   ExitBeforeKill  the process exits (EvtQuit is set BEFORE killPreview()) before the kill was attempted, or after  *)
(*                   the watcher took it but before it got to call KillCommand (nothing waits for the watcher)        *)
(*   StaleAfterShow  toggle-preview (show) enqueues from the action itself without telling the render loop which      *)
(*                   focus it previewed; the render loop later finds "focus unchanged" (against what IT recorded      *)
(*                   while the window was hidden) and does not refresh: move away, show, move back (found by TLC      *)
(*                   with 4 user actions, reproduced on the real binary with `up+toggle-preview+down`; finding F18,  *)
(*                   fixed in /repo by bumping t.version in that branch: ShowBumpsVersion = TRUE)                    *)
(* The properties are proved on the behaviours in which no deviation fired (dev = {}); MC_Preview_dev*.cfg check the *)
(* strict versions and keeps TLC's counterexamples.                                                                   *)
EXTENDS Integers, Sequences, FiniteSets, TLC

CONSTANTS MaxUI,          \* bound on user actions
          Kinds,          \* what a preview command may be: subset of {"finite", "endless"}
          TemplateHasQ,   \* the preview template contains {q} (query edits then refresh the preview)
          ShowBumpsVersion \* toggle-preview bumps t.version (fix 525f2ed for finding F18); FALSE = the code before the fix

None == [none |-> TRUE]

VARIABLES focus, q, sel, tver, visible, acts,     \* terminal state (t.cy's item, t.input, t.selected, t.version, preview window)
          dirty, rfocus, rver,                    \* render loop: reqList pending; focusedIndex / version it last acted on
          uipc, ureq,                             \* continuation of a critical section: idle | set | quit2 | quit3 | quit4
          pbox, pquit,                            \* previewBox: the pending request (or None), reqQuit
          pst, pver, preq,                        \* previewer: wait | picked | running | reaping | stopped
          wst,                                    \* watcher: none | starting | selecting | delaying | killing | done
          cst, ckind, cout, rendered, fin,        \* command: none | running | exited | killed; output written; finishChan
          dbox, shown,                            \* reqBox[reqPreviewDisplay] (one slot) and what the preview window holds
          quitting, ctxDone, procExited,
          alive, lastStarted, lastEnq, dev        \* ghosts: versions whose process group is alive; request started / announced last
vars == <<focus, q, sel, tver, visible, acts, dirty, rfocus, rver, uipc, ureq, pbox, pquit, pst, pver, preq, wst, cst, ckind,
          cout, rendered, fin, dbox, shown, quitting, ctxDone, procExited, alive, lastStarted, lastEnq, dev>>

uiVars   == <<focus, q, sel, tver, visible, acts>>
rendVars == <<dirty, rfocus, rver>>
pvVars   == <<pst, pver, preq>>
cmdVars  == <<cst, ckind, cout, rendered, fin>>
endVars  == <<quitting, ctxDone, procExited>>

(* the request for the present terminal state: what {} {n} {f}, {q}, {+} {+n} {+f} would be substituted with *)
CurReq == [focus |-> focus, q |-> IF TemplateHasQ THEN q ELSE 0, sel |-> sel]

Init == /\ focus = 1 /\ q = 0 /\ sel = 0 /\ tver = 0 /\ visible = TRUE /\ acts = 0
        /\ dirty = TRUE /\ rfocus = 0 /\ rver = -1
        /\ uipc = "idle" /\ ureq = None /\ pbox = None /\ pquit = FALSE
        /\ pst = "wait" /\ pver = 0 /\ preq = None /\ wst = "none"
        /\ cst = "none" /\ ckind = "finite" /\ cout = FALSE /\ rendered = FALSE /\ fin = FALSE
        /\ dbox = None /\ shown = None
        /\ quitting = FALSE /\ ctxDone = FALSE /\ procExited = FALSE
        /\ alive = {} /\ lastStarted = None /\ lastEnq = None /\ dev = {}

-------------------------------------------------------------------------------
(* The non-blocking send on the unbuffered killChan.  The receiving watcher goes on to call util.KillCommand        *)
(* (SIGKILL to the process group: the command is dead at once) in a step of its own (WatchKill).                     *)
InFlightForCancel == pst = "picked" \/ wst = "starting"
InFlightForKill   == pst = "picked" \/ wst \in {"starting", "delaying"}
Killed == /\ cst' = (IF cst = "running" THEN "killed" ELSE cst) /\ alive' = {} /\ wst' = "done"

TrySend(immediately) ==
    IF wst = "selecting"
    THEN /\ wst' = (IF immediately \/ rendered THEN "killing" ELSE "delaying")
         /\ UNCHANGED <<cst, alive, dev>>
    ELSE /\ UNCHANGED <<wst, cst, alive>>          \* dropped
         /\ dev' = dev \cup (IF immediately THEN (IF InFlightForKill THEN {"LostKillAtExit"} ELSE {})
                             ELSE (IF InFlightForCancel THEN {"LostCancel"} ELSE {}))

-------------------------------------------------------------------------------
(* User: one iteration of the action loop; it holds t.mutex, so it excludes the render loop's critical sections *)
CanAct == uipc = "idle" /\ acts < MaxUI /\ ~quitting /\ ~procExited
Move == /\ CanAct /\ focus' = 3 - focus /\ dirty' = TRUE /\ acts' = acts + 1
        /\ UNCHANGED <<q, sel, tver, visible, rfocus, rver, uipc, ureq, pbox, pquit, pvVars, wst, cmdVars, dbox, shown, endVars,
                       alive, lastStarted, lastEnq, dev>>
EditQuery == /\ CanAct /\ q' = 1 - q /\ tver' = (IF TemplateHasQ THEN tver + 1 ELSE tver) /\ dirty' = TRUE /\ acts' = acts + 1
             /\ UNCHANGED <<focus, sel, visible, rfocus, rver, uipc, ureq, pbox, pquit, pvVars, wst, cmdVars, dbox, shown, endVars,
                            alive, lastStarted, lastEnq, dev>>
Toggle == /\ CanAct /\ sel' = 1 - sel /\ tver' = tver + 1 /\ dirty' = TRUE /\ acts' = acts + 1
          /\ UNCHANGED <<focus, q, visible, rfocus, rver, uipc, ureq, pbox, pquit, pvVars, wst, cmdVars, dbox, shown, endVars,
                         alive, lastStarted, lastEnq, dev>>
(* toggle-preview: hiding cancels the running command; showing cancels and enqueues from the action itself *)
TogglePreview == /\ CanAct /\ visible' = ~visible /\ acts' = acts + 1
                 /\ dirty' = TRUE /\ tver' = (IF ShowBumpsVersion THEN tver + 1 ELSE tver)      \* updatePreviewWindow: reqList
                 /\ TrySend(FALSE)
                 /\ IF visible THEN UNCHANGED <<uipc, ureq, lastEnq>> ELSE (uipc' = "set" /\ ureq' = CurReq /\ lastEnq' = CurReq)
                 /\ UNCHANGED <<focus, q, sel, rfocus, rver, pbox, pquit, pvVars, ckind, cout, rendered, fin, dbox, shown, endVars,
                                lastStarted>>
(* any way of leaving (accept, abort, SIGTERM): exit() sets reqQuit on the previewBox, then EvtQuit is set *)
Exit == /\ CanAct /\ acts' = acts + 1
        /\ pquit' = TRUE /\ quitting' = TRUE /\ uipc' = "quit2"
        /\ UNCHANGED <<focus, q, sel, tver, visible, rendVars, ureq, pbox, pvVars, wst, cmdVars, dbox, shown, ctxDone, procExited,
                       alive, lastStarted, lastEnq, dev>>

-------------------------------------------------------------------------------
(* Render loop *)
Render == /\ dirty /\ uipc = "idle" /\ ~quitting /\ ~procExited
          /\ dirty' = FALSE
          /\ IF focus # rfocus \/ tver # rver
             THEN /\ rfocus' = focus /\ rver' = tver
                  /\ IF visible                                      \* refreshPreview: canPreview()
                     THEN TrySend(FALSE) /\ uipc' = "set" /\ ureq' = CurReq /\ lastEnq' = CurReq
                     ELSE UNCHANGED <<wst, cst, alive, dev, uipc, ureq, lastEnq>>
             ELSE /\ UNCHANGED <<rfocus, rver, wst, cst, alive, uipc, ureq, lastEnq>>
                  /\ dev' = dev \cup (IF visible /\ lastEnq # CurReq THEN {"StaleAfterShow"} ELSE {})
          /\ UNCHANGED <<uiVars, pbox, pquit, pvVars, ckind, cout, rendered, fin, dbox, shown, endVars, lastStarted>>
RefreshSet == /\ uipc = "set" /\ ~procExited
              /\ pbox' = ureq /\ uipc' = "idle" /\ ureq' = None
              /\ UNCHANGED <<uiVars, rendVars, pquit, pvVars, wst, cmdVars, dbox, shown, endVars, alive, lastStarted, lastEnq, dev>>
Display == /\ dbox # None /\ uipc = "idle" /\ ~quitting /\ ~procExited
           /\ shown' = dbox /\ dbox' = None
           /\ UNCHANGED <<uiVars, rendVars, uipc, ureq, pbox, pquit, pvVars, wst, cmdVars, endVars, alive, lastStarted, lastEnq, dev>>

ExitKill == /\ uipc = "quit2" /\ ~procExited
            /\ TrySend(TRUE) /\ uipc' = "quit3"
            /\ UNCHANGED <<uiVars, rendVars, ureq, pbox, pquit, pvVars, ckind, cout, rendered, fin, dbox, shown, endVars, lastStarted, lastEnq>>
ExitCtx == /\ uipc = "quit3" /\ ~procExited
           /\ ctxDone' = TRUE /\ uipc' = "quit4"
           /\ UNCHANGED <<uiVars, rendVars, ureq, pbox, pquit, pvVars, wst, cmdVars, dbox, shown, quitting, procExited, alive,
                          lastStarted, lastEnq, dev>>
ProcExit == /\ quitting /\ ~procExited
            /\ procExited' = TRUE
            /\ dev' = dev \cup (IF (uipc = "quit2" /\ (alive # {} \/ pst = "picked")) \/ (wst = "killing" /\ alive # {})
                               THEN {"ExitBeforeKill"} ELSE {})
            /\ UNCHANGED <<uiVars, rendVars, uipc, ureq, pbox, pquit, pvVars, wst, cmdVars, dbox, shown, quitting, ctxDone, alive,
                           lastStarted, lastEnq>>

-------------------------------------------------------------------------------
(* Previewer goroutine *)
(* A request taken while the terminal sits between its try-send and its Set (uipc = "set") is superseded at birth:  *)
(* the cancel meant for it has already been attempted and dropped - LostCancel as well.                             *)
Pick == /\ pst = "wait" /\ ~procExited /\ (pbox # None \/ pquit)
        /\ IF pquit THEN pst' = "stopped" /\ UNCHANGED <<pver, preq, pbox, dev>>
                    ELSE /\ pst' = "picked" /\ pver' = pver + 1 /\ preq' = pbox /\ pbox' = None
                         /\ dev' = dev \cup (IF uipc = "set" THEN {"LostCancel"} ELSE {})
        /\ UNCHANGED <<uiVars, rendVars, uipc, ureq, pquit, wst, cmdVars, dbox, shown, endVars, alive, lastStarted, lastEnq>>
Start == /\ pst = "picked" /\ ~procExited
         /\ \E k \in Kinds : ckind' = k
         /\ pst' = "running" /\ cst' = "running" /\ cout' = FALSE /\ rendered' = FALSE /\ fin' = FALSE /\ wst' = "starting"
         /\ alive' = alive \cup {pver} /\ lastStarted' = preq
         /\ UNCHANGED <<uiVars, rendVars, uipc, ureq, pbox, pquit, pver, preq, dbox, shown, endVars, lastEnq, dev>>
(* EOF on the pipe (every process of the group is gone), cmd.Wait, the ticker's final display, finishChan <- true *)
Eof == /\ pst = "running" /\ cst \in {"exited", "killed"} /\ ~procExited
       /\ dbox' = [ver |-> pver, req |-> preq, out |-> cout] /\ rendered' = TRUE /\ fin' = TRUE /\ pst' = "reaping"
       /\ UNCHANGED <<uiVars, rendVars, uipc, ureq, pbox, pquit, pver, preq, wst, cst, ckind, cout, shown, endVars, alive,
                      lastStarted, lastEnq, dev>>
Reaped == /\ pst = "reaping" /\ wst = "done" /\ ~procExited
          /\ pst' = "wait" /\ wst' = "none" /\ cst' = "none"
          /\ UNCHANGED <<uiVars, rendVars, uipc, ureq, pbox, pquit, pver, preq, ckind, cout, rendered, fin, dbox, shown, endVars,
                         alive, lastStarted, lastEnq, dev>>
(* ticker goroutine: partial output of a running command is rendered (idempotent afterwards) *)
TickDisplay == /\ pst = "running" /\ cst = "running" /\ cout /\ ~rendered /\ ~procExited
               /\ dbox' = [ver |-> pver, req |-> preq, out |-> TRUE] /\ rendered' = TRUE
               /\ UNCHANGED <<uiVars, rendVars, uipc, ureq, pbox, pquit, pvVars, wst, cst, ckind, cout, fin, shown, endVars, alive,
                              lastStarted, lastEnq, dev>>

(* Watcher goroutine *)
WatchEnter == /\ wst = "starting" /\ ~procExited /\ wst' = "selecting"
              /\ UNCHANGED <<uiVars, rendVars, uipc, ureq, pbox, pquit, pvVars, cmdVars, dbox, shown, endVars, alive, lastStarted, lastEnq, dev>>
WatchFinish == /\ wst \in {"selecting", "delaying"} /\ fin /\ ~procExited /\ wst' = "done"
               /\ UNCHANGED <<uiVars, rendVars, uipc, ureq, pbox, pquit, pvVars, cmdVars, dbox, shown, endVars, alive, lastStarted, lastEnq, dev>>
WatchTimer == /\ wst = "delaying" /\ ~procExited /\ wst' = "killing"           \* previewCancelWait elapsed
              /\ UNCHANGED <<uiVars, rendVars, uipc, ureq, pbox, pquit, pvVars, cmdVars, dbox, shown, endVars, alive, lastStarted, lastEnq, dev>>
WatchKill == /\ wst = "killing" /\ ~procExited /\ Killed                       \* util.KillCommand
             /\ UNCHANGED <<uiVars, rendVars, uipc, ureq, pbox, pquit, pvVars, ckind, cout, rendered, fin, dbox, shown, endVars,
                            lastStarted, lastEnq, dev>>
WatchCtx == /\ wst = "selecting" /\ ctxDone /\ ~procExited /\ wst' = "done"       \* leaves without killing
            /\ UNCHANGED <<uiVars, rendVars, uipc, ureq, pbox, pquit, pvVars, cmdVars, dbox, shown, endVars, alive, lastStarted, lastEnq, dev>>

(* The command (keeps going after fzf is gone) *)
CmdOutput == /\ cst = "running" /\ ~cout /\ cout' = TRUE
             /\ UNCHANGED <<uiVars, rendVars, uipc, ureq, pbox, pquit, pvVars, wst, cst, ckind, rendered, fin, dbox, shown, endVars,
                            alive, lastStarted, lastEnq, dev>>
CmdExit == /\ cst = "running" /\ ckind = "finite" /\ cout
           /\ cst' = "exited" /\ alive' = {}
           /\ UNCHANGED <<uiVars, rendVars, uipc, ureq, pbox, pquit, pvVars, wst, ckind, cout, rendered, fin, dbox, shown, endVars,
                          lastStarted, lastEnq, dev>>

-------------------------------------------------------------------------------
User == Move \/ EditQuery \/ Toggle \/ TogglePreview \/ Exit
System == Render \/ RefreshSet \/ Display \/ ExitKill \/ ExitCtx \/ ProcExit \/ Pick \/ Start \/ Eof \/ Reaped \/ TickDisplay
          \/ WatchEnter \/ WatchFinish \/ WatchTimer \/ WatchKill \/ WatchCtx \/ CmdOutput \/ CmdExit
Next == User \/ System
Spec == Init /\ [][Next]_vars /\ WF_vars(System)

-------------------------------------------------------------------------------
(* Properties (C20) *)
TypeOK == /\ uipc \in {"idle", "set", "quit2", "quit3", "quit4"}
          /\ pst \in {"wait", "picked", "running", "reaping", "stopped"}
          /\ wst \in {"none", "starting", "selecting", "delaying", "killing", "done"}
          /\ cst \in {"none", "running", "exited", "killed"}
          /\ dev \subseteq {"LostCancel", "LostKillAtExit", "ExitBeforeKill", "StaleAfterShow"}
(* superseded commands are terminated before the next one starts: at most one process group alive at any time *)
OneAlive == Cardinality(alive) <= 1 /\ (alive # {} => alive = {pver} /\ cst = "running")
(* the window never shows output of a command newer or other than one that was started; displays arrive in order *)
ShownIsStarted == shown # None => shown.ver <= pver
Quiescent == ~ENABLED System
(* once nothing moves any more: the command started last is the one for the line under the cursor with the current  *)
(* query and selection, its output is what the window shows, and a command still alive is that (never-ending) one;   *)
(* after the end of the session no command is alive.  (Nothing is claimed while the preview window is hidden.)        *)
CaughtUp == IF procExited THEN alive = {}
            ELSE visible => /\ lastStarted = CurReq
                            /\ shown # None /\ shown.req = CurReq /\ shown.ver = pver /\ shown.out
                            /\ pbox = None
Convergence == (Quiescent /\ dev = {}) => CaughtUp
ConvergenceStrict == Quiescent => CaughtUp                    \* violated: LostCancel (finding F6)
(* the same with exactly one kind of deviation admitted: TLC's counterexamples show what each one leads to *)
ConvergenceLostCancel == (Quiescent /\ ~procExited /\ dev \subseteq {"LostCancel"}) => CaughtUp      \* violated (F6, stale preview)
ConvergenceStaleAfterShow == (Quiescent /\ ~procExited /\ dev \subseteq {"StaleAfterShow"}) => CaughtUp  \* violated (MaxUI >= 4)
ShowFixed == ShowBumpsVersion => "StaleAfterShow" \notin dev          \* with the fix the deviation cannot happen at all
ExitClean == (procExited /\ dev = {}) => alive = {}
ExitCleanLostKill == (procExited /\ dev \subseteq {"LostKillAtExit"}) => (alive = {} \/ ckind = "finite")   \* violated (F6, survivor)
ExitCleanStrict == procExited => (alive = {} \/ ckind = "finite")     \* violated: LostKillAtExit / ExitBeforeKill (finding F6)
Liveness == <>[](~ENABLED System)
NoSurvivor == (<>(dev # {})) \/ [](procExited => <>(alive = {}))
NoSurvivorStrict == [](procExited => <>(alive = {}))          \* violated with a never-ending command
================================================================================
