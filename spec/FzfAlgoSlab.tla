------------------------------ MODULE FzfAlgoSlab ------------------------------
(* The scratch slab of the matchers as state: call histories on one slab (C05, API level). *)
EXTENDS FzfAlgoV2

(* ---------------------------------------------------------------- scratch slab as state (C05) *)
(* A worker owns one slab and reuses it for every item and query; the memory is never cleared, so before a call  *)
(* it holds arbitrary values.  `fill` abstracts the contents (what the previous calls or anybody else left       *)
(* there); the property is that the result of a call does not depend on it.                                      *)
CONSTANTS Fills,         \* abstract slab contents, e.g. {"zero", "max", "neg", "rnd1", "stale"}
          ArgSpace       \* set of argument records [kind, t, P, cs, norm, fwd, scheme, cap16] a Call may take
VARIABLES slab, result, lastArgs
avars == <<slab, result, lastArgs>>
AInit == slab \in Fills /\ result = NoMatch /\ lastArgs = <<>>
Apply(a) == F(a.kind, a.t, a.P, a.cs, a.norm, a.fwd, a.scheme, a.cap16)
Call(a) == /\ result' = Apply(a)          \* history-free: no occurrence of slab or of the previous result
           /\ lastArgs' = a
           /\ slab' \in Fills             \* whatever the call, or a neighbour, leaves behind
ANext == \E a \in ArgSpace : Call(a)
(* C05 as an action property: the result after any step is the function of that step's arguments alone *)
Pure == [][result' = Apply(lastArgs')]_avars
(* ... and as a state invariant usable with histories: *)
PureInv == lastArgs # <<>> => result = Apply(lastArgs)
================================================================================
