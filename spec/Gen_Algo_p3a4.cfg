CONSTANTS
  MaxT = 4
  MaxP = 3
  Shards = 64
  AlphaSel = {4}
INIT EInit
NEXT ENext
INVARIANT Emit
CHECK_DEADLOCK FALSE
