------------------------------ MODULE FzfRecords ------------------------------
(* Documented semantics of "input stream -> items" (C06), free of state: shared by FzfReader, FzfChunkList and    *)
(* the judges.  man fzf: input is a list of lines (records terminated by newline, or by NUL with --read0);          *)
(* --header-lines=N "the first N lines of the input are treated as the sticky header"; --tail=N "maximum number     *)
(* of items to keep in memory" (the last N of the stream); {n} "zero-based ordinal index of the line".              *)
EXTENDS Integers, Sequences

Min2(a, b) == IF a <= b THEN a ELSE b
LastN(s, n) == IF Len(s) <= n THEN s ELSE SubSeq(s, Len(s) - n + 1, Len(s))
Drop(s, n) == IF n >= Len(s) THEN <<>> ELSE SubSeq(s, n + 1, Len(s))

(* A stream s = [lens, unterm]: lens[i] content bytes of the i-th record, each followed by ONE delimiter byte,      *)
(* except the last one when unterm = TRUE.  Byte positions are 0-based; ranges are half-open.                       *)
RECURSIVE RecStart(_, _)
RecStart(s, i) == IF i = 1 THEN 0 ELSE RecStart(s, i - 1) + s.lens[i - 1] + 1
RecEnd(s, i) == RecStart(s, i) + s.lens[i]                  \* the delimiter of record i sits here, if it has one
Terminated(s, i) == i < Len(s.lens) \/ ~s.unterm
Total(s) == IF s.lens = <<>> THEN 0 ELSE RecEnd(s, Len(s.lens)) + (IF s.unterm THEN 0 ELSE 1)
(* an unterminated record of zero bytes is no record at all: "a\n" is one record, not two *)
NumRecords(s) == IF s.lens # <<>> /\ s.unterm /\ s.lens[Len(s.lens)] = 0 THEN Len(s.lens) - 1 ELSE Len(s.lens)

(* Byte strings as normalised sequences of stream ranges (exact, and arithmetic only, so the real 64K/128K          *)
(* constants can be used): <<a,b>>,<<b,c>> is always merged, anything else (a gap, a repetition) stays visible.      *)
Seg(lo, hi) == IF lo >= hi THEN <<>> ELSE << <<lo, hi>> >>
Cat(b, lo, hi) == IF lo >= hi THEN b
                  ELSE IF b # <<>> /\ b[Len(b)][2] = lo THEN [b EXCEPT ![Len(b)] = <<@[1], hi>>]
                  ELSE Append(b, <<lo, hi>>)
RECURSIVE BLen(_)
BLen(b) == IF b = <<>> THEN 0 ELSE (b[1][2] - b[1][1]) + BLen(Tail(b))

(* THE property: the items are exactly these, in this order *)
Records(s) == [i \in 1..NumRecords(s) |-> Seg(RecStart(s, i), RecEnd(s, i))]

(* Which of n records are searchable with --header-lines=H --tail=T (T = 0: no limit), and under which ordinal.     *)
(* ord = 1-based position in the stream.  index = {n}: counts the non-header records from 0 and is NOT renumbered    *)
(* by --tail.  \* CODE-DERIVED: that numbering starts after the header lines (the manual only says zero-based).       *)
Searchable(n, H, T) ==
    LET all == [k \in 1..(IF n > H THEN n - H ELSE 0) |-> [ord |-> H + k, index |-> k - 1]]
    IN  IF T = 0 THEN all ELSE LastN(all, T)
HeaderOrds(n, H) == [k \in 1..Min2(n, H) |-> k]
================================================================================
