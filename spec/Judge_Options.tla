---------------------------- MODULE Judge_Options ----------------------------
(* J binding for C17: records of real `fzf <argv> --filter x </dev/null` runs (random words from the vocabulary, *)
(* arbitrary texts as values) are judged by the specification's own Parse3.                                       *)
(* record: file / env / argv = sequences of words [k, o, v]; strs = what was actually passed (for the words the   *)
(* spec can render); exit, stderr (non-empty), crash (a Go panic trace on stderr), timeout                         *)
EXTENDS FzfOptions, Json, IOUtils
TraceLog == ndJsonDeserialize(IOEnv.TRACE)
Shards == 16
VARIABLE l
JInit == l \in 1..(IF Len(TraceLog) < Shards THEN Len(TraceLog) ELSE Shards)
JNext == l + Shards <= Len(TraceLog) /\ l' = l + Shards

Words(ws) == [n \in 1..Len(ws) |-> [k |-> ws[n].k, o |-> ws[n].o, v |-> ws[n].v]]
Opaque(w) == \E m \in 1..Len(w.v) : w.v[m] = RND
Rendered(ws, ss) == Len(ws) = Len(ss) /\ \A n \in 1..Len(ws) : Opaque(ws[n]) \/ Render(ws[n]) = ss[n]
Explained(r) ==
    LET o == Parse3(Words(r.file), Words(r.env), Words(r.argv)) IN
    /\ ~r.timeout /\ ~r.crash /\ r.exit \in {0, 1, 2}                   \* terminates, never a crash
    /\ Rendered(Words(r.file), r.strs.file) /\ Rendered(Words(r.env), r.strs.env) /\ Rendered(Words(r.argv), r.strs.argv)
    /\ (o.err <=> r.exit = 2)                                           \* rejected exactly when the spec says invalid
    /\ (r.exit = 2 => r.stderr)                                         \* with a message
    /\ (~o.err => r.exit = IF o.cfg.exit # "" THEN 0 ELSE 1)            \* --help/--version exit 0; a filter on no input 1
JInv == Explained(TraceLog[l]) \/ PrintT(<<"MISMATCH", l>>)
=============================================================================
