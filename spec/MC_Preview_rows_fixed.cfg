CONSTANTS
  MaxUI = 2
  Kinds = {"finite", "endless"}
  ShowBumpsVersion = TRUE
  TemplateHasQ = TRUE
  H = 2
  LensKind = "mixed"
  WithReload = TRUE
  ReloadBumpsVersion = TRUE
  WithHideKeep = FALSE
  Follow = FALSE
  WithScroll = TRUE
  DelayedSetsVersion = FALSE
SPECIFICATION Spec
INVARIANTS TypeOK OneAlive ShownIsStarted Convergence ShowFixed ReloadFixed DelayedFixed RowsOfOneRequest ExitClean ConvergenceStaleRows
CHECK_DEADLOCK FALSE
