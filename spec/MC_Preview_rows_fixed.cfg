CONSTANTS
  MaxUI = 2
  Kinds = {"finite", "endless"}
  ShowBumpsVersion = TRUE
  TemplateHasQ = TRUE
  H = 2
  LensKind = "mixed"
  WithScroll = TRUE
  DelayedSetsVersion = FALSE
SPECIFICATION Spec
INVARIANTS TypeOK OneAlive ShownIsStarted Convergence ShowFixed DelayedFixed RowsOfOneRequest ExitClean ConvergenceStaleRows
CHECK_DEADLOCK FALSE
