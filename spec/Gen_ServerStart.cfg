INIT GInitStart
NEXT GNextNone
INVARIANT EmitStart
CHECK_DEADLOCK FALSE
