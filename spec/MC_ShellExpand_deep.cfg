CONSTANTS
  MaxTokens = 3
  NItems = 1
  WorldIds = {1}
  TokenIds = {1,2,3,4,5,6,7,8,9,10,11,12,13,14,15,16,17,18,19,20,21,22,23,24,25,26,27,28,29,30,31}
  QueryIds = {1,2,3}
  DelimIds = {1}
  SepSet = {"LF"}
INIT Init
NEXT Next
INVARIANTS InvExpansionReadsBack InvEscapedStayLiteral InvPlusCoversSelection InvOrdinals InvNeverHazard InvFilesReadBack InvPlusFileCoversSelection InvQueryWordsIgnoreDelimiter InvAwkFieldsAgree Emit
CHECK_DEADLOCK FALSE
