CONSTANTS
  MaxTokens = 3
  NItems = 1
  WorldIds = {1}
INIT Init
NEXT Next
INVARIANTS InvExpansionReadsBack InvEscapedStayLiteral InvPlusCoversSelection InvOrdinals InvNeverHazard Emit
CHECK_DEADLOCK FALSE
