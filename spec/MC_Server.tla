------------------------------ MODULE MC_Server ------------------------------
(* The connection state machine of FzfServer over the request shapes: exhaustive checking.                     *)
EXTENDS MC_ServerShapes

-------------------------------------------------------------------------------
(* EXHAUSTIVE CHECKING: every way of cutting the stream into reads, every point of closing it early *)
VARIABLES si, key, env, upto, s, plain     \* si: index of the request shape; upto: atoms the client sends before it closes
vars == <<si, key, env, upto, s, plain>>
MCSet == IF "MC_SET" \in DOMAIN IOEnv THEN IOEnv.MC_SET ELSE "small"
MCShapes == IF MCSet = "all" THEN AllShapes
            ELSE IF MCSet = "small" THEN SmallShapes
            ELSE {sh \in SmallShapes : sh.tags.key \in {"absent", "exact", "prefix", "padded"} /\ sh.tags.cl \in {"ok", "plus1", "alpha"}}
MCSeq == SetToSeq(MCShapes)
MCW == [i \in 1..Len(MCSeq) |-> Prep(Wire(MCSeq[i].req))]               \* tables, computed once
MCDeserved == [i \in 1..Len(MCSeq) |-> [k \in Keys |-> [e \in {"ok", "uiBusy", "chanFull"} |-> Respond(MCSeq[i].req, k, e)]]]
shape == MCSeq[si]
W == MCW[si]
Deserved == MCDeserved[si][key][env]
EnvsFor(sh) == IF sh.tags.m = "GET" THEN {"ok", "uiBusy"}
               ELSE IF sh.tags.body = "up" /\ sh.tags.cl = "ok" THEN {"ok", "chanFull"} ELSE {"ok"}

(* a read boundary after p atoms that cannot matter: at a line end of the head, or anywhere in the body *)
HeadLen(req) == Len(req.start) + 2 + Len(JoinLines(req.hdrs)) + (IF req.blank > 0 THEN 2 ELSE 0)
SafeCut(req, wire, p) == p >= Len(wire) \/ (p >= 2 /\ wire[p - 1] = CR /\ wire[p] = LF /\ p <= HeadLen(req))
                         \/ (req.blank > 0 /\ p >= HeadLen(req))

MInit == /\ si \in 1..Len(MCSeq) /\ key \in Keys /\ env \in EnvsFor(MCSeq[si])
         /\ upto = Len(MCW[si].a) /\ s = S0 /\ plain = TRUE
MArrive == /\ NeedsInput(W, s)
           /\ \E k \in 1..(upto - s.sent) :
                 /\ s' = [s EXCEPT !.sent = s.sent + k]
                 /\ plain' = (plain /\ SafeCut(shape.req, W.a, s.sent + k))
           /\ UNCHANGED <<si, key, env, upto>>
MCloseEarly == /\ NeedsInput(W, s) /\ s.sent < upto
               /\ upto' = s.sent /\ plain' = FALSE
               /\ UNCHANGED <<si, key, env, s>>
MSeeEOF == /\ NeedsInput(W, s) /\ s.sent = upto
           /\ s' = [s EXCEPT !.eof = TRUE, !.waits = TRUE]
           /\ UNCHANGED <<si, key, env, upto, plain>>
MScan == /\ CanScan(W, s) /\ s' = Scan(W, s) /\ UNCHANGED <<si, key, env, upto, plain>>
MFinish == /\ ~s.ans /\ s.sd /\ s' = Finish(W, s, key, env) /\ UNCHANGED <<si, key, env, upto, plain>>
MDone == s.ans /\ UNCHANGED vars
MNext == MArrive \/ MCloseEarly \/ MSeeEOF \/ MScan \/ MFinish \/ MDone

TypeOK == /\ s.cons <= s.sent /\ s.sent <= upto /\ upto <= Len(W.a) /\ s.sec \in 0..2
          /\ s.ans => s.resp.st \in Statuses
(* C16: without the exact key nothing is accepted and nothing revealed *)
KeyEnforced == (s.ans /\ key # "" /\ ~shape.presents) => (s.resp.dl = <<>> /\ ~s.resp.rv /\ s.resp.gets = <<>>)
(* C16: GET never changes state; only GET reveals state; a request that is neither is refused *)
GetIsReadOnly == (s.ans /\ shape.tags.m # "POST") => s.resp.dl = <<>>
OnlyGetReveals == (s.ans /\ shape.tags.m # "GET") => (~s.resp.rv /\ s.resp.gets = <<>>)
BadMethodRefused == (s.ans /\ shape.tags.m = "BAD") => s.resp = R400
(* C16: malformed, oversized, incomplete requests are rejected without side effects - under every framing: *)
(* actions reach the channel only if the request as a whole deserves it, and then exactly its list          *)
DeliveredOnlyAsDeserved == (s.ans /\ s.resp.dl # <<>>) => s.resp = Deserved
MalformedRejected == (s.ans /\ MCDeserved[si][""]["ok"].st = 400) => (s.resp.st \in {400, 401} /\ s.resp.dl = <<>>)
(* framing independence: reads that end at line ends / inside the body give the answer of the whole request *)
FramingIndependent == (s.ans /\ plain) => s.resp = Deserved
(* a cut elsewhere or an early close can only turn the answer into a refusal *)
CutsOnlyRefuse == s.ans => \/ s.resp = Deserved
                           \/ (s.resp.st \in {400, 401} /\ s.resp.dl = <<>> /\ ~s.resp.rv)
                           \/ (shape.tags.m = "GET" /\ s.resp.dl = <<>> /\ (s.resp.rv => (key = "" \/ shape.presents)))
(* every answer is a well-formed response: known status; a bare acknowledgement only for POST *)
WellFormedAnswer == s.ans => (s.resp.st \in Statuses /\ (s.resp.bare => (s.resp.st \in {200, 503} /\ shape.tags.m = "POST"))
                              /\ (s.resp.st = 401 => key # "") /\ (s.resp.dl # <<>> => s.resp.st = 200))
(* the listener start rule *)
Hosts == {"localhost", "127.0.0.1", "0.0.0.0", "127.0.0.2", "example.com"}
StartRule == \A h \in Hosts, k \in Keys : (~IsLocal(h) /\ k = "") => ~StartAllowed(h, k)

=============================================================================
