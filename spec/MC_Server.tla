------------------------------ MODULE MC_Server ------------------------------
(* The connection state machine of FzfServer over the request shapes: exhaustive checking.                     *)
EXTENDS MC_ServerShapes

CONSTANT MCSet          \* which request shapes: "few" | "small" | "all"

-------------------------------------------------------------------------------
(* EXHAUSTIVE CHECKING: every way of cutting the stream into reads, every point of closing it early *)
VARIABLES shape, key, env, W, dz, upto, s, plain
(* shape: the request; W: its byte stream with tables; dz: the answer the whole request deserves (Respond);   *)
(* upto: atoms the client sends before it closes; plain: no read boundary so far that could matter              *)
vars == <<shape, key, env, W, dz, upto, s, plain>>
MCShapes == IF MCSet = "all" THEN AllShapes
            ELSE IF MCSet = "small" THEN SmallShapes
            ELSE {sh \in SmallShapes : sh.tags.key \in {"absent", "exact", "prefix", "padded"} /\ sh.tags.cl \in {"ok", "plus1", "alpha"}}
EnvsFor(sh) == IF sh.tags.m = "GET" THEN {"ok", "uiBusy"}
               ELSE IF sh.tags.body = "up" /\ sh.tags.cl = "ok" THEN {"ok", "chanFull"} ELSE {"ok"}

(* a read boundary after p atoms that cannot matter: at a line end of the head, or anywhere in the body *)
HeadLen(req) == Len(req.start) + 2 + Len(JoinLines(req.hdrs)) + (IF req.blank > 0 THEN 2 ELSE 0)
SafeCut(req, wire, p) == p >= Len(wire) \/ (p >= 2 /\ wire[p - 1] = CR /\ wire[p] = LF /\ p <= HeadLen(req))
                         \/ (req.blank > 0 /\ p >= HeadLen(req))

MInit == /\ shape \in MCShapes /\ key \in Keys /\ env \in EnvsFor(shape)
         /\ W = Prep(Wire(shape.req)) /\ upto = Len(W.a) /\ s = S0 /\ plain = TRUE
         /\ dz = [here |-> Respond(shape.req, key, env), nokey |-> Respond(shape.req, "", "ok")]
MArrive == /\ NeedsInput(W, s)
           /\ \E k \in 1..(upto - s.sent) :
                 /\ s' = [s EXCEPT !.sent = s.sent + k]
                 /\ plain' = (plain /\ SafeCut(shape.req, W.a, s.sent + k))
           /\ UNCHANGED <<shape, key, env, W, dz, upto>>
MCloseEarly == /\ NeedsInput(W, s) /\ s.sent < upto
               /\ upto' = s.sent /\ plain' = FALSE
               /\ UNCHANGED <<shape, key, env, W, dz, s>>
MSeeEOF == /\ NeedsInput(W, s) /\ s.sent = upto
           /\ s' = [s EXCEPT !.eof = TRUE, !.waits = TRUE]
           /\ UNCHANGED <<shape, key, env, W, dz, upto, plain>>
MScan == /\ CanScan(W, s) /\ s' = Scan(W, s) /\ UNCHANGED <<shape, key, env, W, dz, upto, plain>>
MFinish == /\ ~s.ans /\ s.sd /\ s' = Finish(W, s, key, env) /\ UNCHANGED <<shape, key, env, W, dz, upto, plain>>
MDone == s.ans /\ UNCHANGED vars
MNext == MArrive \/ MCloseEarly \/ MSeeEOF \/ MScan \/ MFinish \/ MDone
Deserved == dz.here

TypeOK == /\ s.cons <= s.sent /\ s.sent <= upto /\ upto <= Len(W.a) /\ s.sec \in 0..2
          /\ s.ans => s.resp.st \in Statuses
(* C16: without the exact key nothing is accepted and nothing revealed: under every framing, if the bytes of the *)
(* key were not sent as (the beginning of) an x-api-key value; for plain framings FramingIndependent says more   *)
KeyEnforced == (s.ans /\ key # "" /\ ~shape.keysent) => (s.resp.dl = <<>> /\ ~s.resp.rv /\ s.resp.gets = <<>>)
(* C16: GET never changes state; only GET reveals state; a request that is neither is refused *)
GetIsReadOnly == (s.ans /\ shape.tags.m # "POST") => s.resp.dl = <<>>
OnlyGetReveals == (s.ans /\ shape.tags.m # "GET") => (~s.resp.rv /\ s.resp.gets = <<>>)
BadMethodRefused == (s.ans /\ shape.tags.m = "BAD") => s.resp = R400
(* C16: malformed, oversized, incomplete requests are rejected without side effects - under every framing: *)
(* actions reach the channel only if the request as a whole deserves it, and then exactly its list          *)
DeliveredOnlyAsDeserved == (s.ans /\ s.resp.dl # <<>>) => s.resp = Deserved
MalformedRejected == (s.ans /\ dz.nokey.st = 400) => (s.resp.st \in {400, 401} /\ s.resp.dl = <<>>)
(* framing independence: reads that end at line ends / inside the body give the answer of the whole request *)
FramingIndependent == (s.ans /\ plain) => s.resp = Deserved
(* a cut elsewhere or an early close can only turn the answer into a refusal *)
CutsOnlyRefuse == s.ans => \/ s.resp = Deserved
                           \/ (s.resp.st \in {400, 401} /\ s.resp.dl = <<>> /\ ~s.resp.rv)
                           \/ (shape.tags.m = "GET" /\ s.resp.dl = <<>> /\ (s.resp.rv => (key = "" \/ shape.keysent)))
(* every answer is a well-formed response: known status; a bare acknowledgement only for POST *)
WellFormedAnswer == s.ans => (s.resp.st \in Statuses /\ (s.resp.bare => (s.resp.st \in {200, 503} /\ shape.tags.m = "POST"))
                              /\ (s.resp.st = 401 => key # "") /\ (s.resp.dl # <<>> => s.resp.st = 200))
(* the listener start rule *)
Hosts == {"localhost", "127.0.0.1", "0.0.0.0", "127.0.0.2", "example.com"}
StartRule == \A h \in Hosts, k \in Keys : (~IsLocal(h) /\ k = "") => ~StartAllowed(h, k)

=============================================================================
