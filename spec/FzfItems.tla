------------------------------- MODULE FzfItems -------------------------------
(* The item builder of core.go Run() (C06, content side): what a record turns into once the reader has cut it out   *)
(* of the stream.  FzfReader says WHICH bytes form the i-th record, FzfChunkList WHICH records are items under WHICH  *)
(* index; this module says what an item CONTAINS:                                                                     *)
(*   - the text that is displayed and searched (the "presentation": the record, with --ansi its escape sequences      *)
(*     removed, with --with-nth the selected fields / the expanded template without trailing white space), and        *)
(*   - the text that is printed when the item is output (--filter, accept, GET / of --listen, {} ...): the record     *)
(*     itself, whatever the presentation looks like.                                                                  *)
(* A record is a sequence of FzfChars symbols plus four symbols that only this module uses:                           *)
(*   "SGR1" "SGR0"  one complete, well-formed SGR escape sequence each (ESC[35m, ESC[m) - what "an escape sequence"   *)
(*                  is and which ones are removed is C11's subject (FzfAnsi); here they are atoms                     *)
(*   "LF" "CR"      line feed (inside a record only under --read0) and carriage return (kept on this platform)        *)
(* Options o = [withNth, spec, d, ansi, header, tail, tac]:  withNth = FALSE: no --with-nth (spec is ignored);        *)
(*   spec = a --with-nth specification and d = a delimiter as in FzfFields; header = --header-lines, tail = --tail    *)
(*   (0 = off), tac = --tac.                                                                                          *)
(*                                                                                                                    *)
(* DOCUMENTED (man fzf): --with-nth "Transform the presentation of each line using the field index expressions";      *)
(* "{n} in template evaluates to the zero-based ordinal index of the line"; --header-lines "When --with-nth is set,   *)
(* the lines are transformed just like the other lines that follow"; --ansi "Enable processing of ANSI color codes";  *)
(* --tac "Reverse the order of the input"; EXIT STATUS 0 / 1 (no match).  C06: "each record ... becomes exactly one   *)
(* item, in input order and with identical content (empty records included)".                                         *)
EXTENDS FzfFields, FzfRecords

SgrSyms == {"SGR1", "SGR0"}
ItemOnlySyms == SgrSyms \cup {"LF", "CR"}

(* unicode.IsSpace on the vocabulary: Chars.TrimTrailingWhitespaces and StripLastDelimiter use it, the AWK tokenizer   *)
(* (FzfFields.Blank: space and tab only) does not.                                                                    *)
SpaceU(c) == c \in Whites \cup {"LF", "CR"}
RECURSIVE TrailSpacesU(_)
TrailSpacesU(s) == IF s # <<>> /\ SpaceU(s[Len(s)]) THEN 1 + TrailSpacesU(SubSeq(s, 1, Len(s) - 1)) ELSE 0
TrimRightU(s) == SubSeq(s, 1, Len(s) - TrailSpacesU(s))

StripAnsi(s) == SelectSeq(s, LAMBDA c : c \notin SgrSyms)
Visible(s, ansi) == IF ansi THEN StripAnsi(s) ELSE s

(* FzfFields.RenderRaw with unicode white space in the per-expression stripping (the two agree on records without    *)
(* LF / CR: lemma RenderAgreesWithFields below, checked in MC_Items), on a given list of tokens.                      *)
RenderT(toks, d, spec, index) ==
    IF spec.plain THEN JoinT(Transform(toks, ParseNth(spec.nth)))
    ELSE Concat([k \in 1..Len(spec.parts) |->
            LET part == spec.parts[k] IN
            CASE part.k = "lit" -> part.v
              [] part.k = "n"   -> NatChars(index)
              [] part.k = "nth" -> TrimRightU(StripDelim(JoinT(Transform(toks, ParseNth(part.v))), d))])
RenderU(rec, d, spec, index) == RenderT(Tokenize(rec, d), d, spec, index)

(* NAMED DEVIATION "AnsiTokenPrefix" (a finding, not documented behaviour): under --ansi the builder prepends a reset   *)
(* sequence (plus the colour state carried over) to EVERY field of a record that has more than one field before the     *)
(* --with-nth rendition is made (core.go:114-128).  The sequences are invisible, but the one in front of a later field   *)
(* now follows the delimiter of the field before it, so a template expression whose range ends in the empty last field  *)
(* of a record that ends in a literal delimiter ("a,b," with {2..}) keeps its trailing delimiter - and the white space   *)
(* before it - against "the trailing delimiter is stripped from each expression".  Presentation only.                    *)
Devs == {"AnsiTokenPrefix"}
TokensFor(rec, o, devs) ==
    LET toks == Tokenize(rec, o.d) IN
    IF "AnsiTokenPrefix" \in devs /\ o.ansi /\ Len(toks) > 1
    THEN [i \in 1..Len(toks) |-> [t |-> <<"SGR0">> \o toks[i].t, p |-> toks[i].p]] ELSE toks

-------------------------------------------------------------------------------
(* THE CONTENT CLAUSE.  What is printed for the item made from `rec`: the record.  --ansi removes the escape          *)
(* sequences from it (and nothing else); --with-nth, --delimiter, the item's index and the presentation play no role. *)
OutputText(rec, o) == Visible(rec, o.ansi)

(* What is displayed and searched.                                                                                    *)
(* CODE-DERIVED: under --with-nth the fields are cut on the raw record (escape sequences still in it, they are         *)
(* ordinary non-blank characters for the tokenizer), the sequences are removed afterwards, and white space at the      *)
(* end of the rendition is dropped.  Without --with-nth nothing is trimmed.                                            *)
SearchTextD(rec, o, index, devs) ==
    IF o.withNth THEN TrimRightU(Visible(RenderT(TokensFor(rec, o, devs), o.d, o.spec, index), o.ansi)) ELSE Visible(rec, o.ansi)
SearchText(rec, o, index) == SearchTextD(rec, o, index, {})
(* a header line is shown in the same rendition, untrimmed; {n} is 0 there.  \* CODE-DERIVED, observed nowhere in C06 *)
HeaderText(rec, o) == IF o.withNth THEN RenderU(rec, o.d, o.spec, 0) ELSE rec

(* The items of a stream of records: which records under which index comes from FzfRecords.Searchable (C06's         *)
(* header / tail / numbering clause); this adds their content.                                                        *)
ItemsOf(recs, o) ==
    LET w == Searchable(Len(recs), o.header, o.tail) IN
    [k \in 1..Len(w) |-> [ord |-> w[k].ord, index |-> w[k].index,
                          text |-> SearchText(recs[w[k].ord], o, w[k].index),
                          out |-> OutputText(recs[w[k].ord], o)]]

(* Search as far as this module needs it to observe `text`: q = [term, ext]; a case-sensitive, literal, exact term    *)
(* (fzf -e +i --literal [+x]) matches iff it occurs in the presentation; the empty query matches every item.  With     *)
(* ext = FALSE (--no-extended) the whole query is the term, blanks included; with ext = TRUE the term has no blank     *)
(* and no operator character.  What matching means in general is C01/C02's subject.                                   *)
Matches(text, q) == q.term = <<>> \/ Holds("exact", q.term, text)
RevSeq(s) == [i \in 1..Len(s) |-> s[Len(s) + 1 - i]]
(* the result list without sorting: the matching items in input order, reversed by --tac; as [ord, index] pairs and   *)
(* as items (the same list: lemma ListedAgree of MC_Items; the first form does not render what it need not)            *)
ListedWD(recs, o, q, devs) ==
    LET m == SelectSeq(Searchable(Len(recs), o.header, o.tail),
                       LAMBDA x : q.term = <<>> \/ Matches(SearchTextD(recs[x.ord], o, x.index, devs), q))
    IN  IF o.tac THEN RevSeq(m) ELSE m
ListedW(recs, o, q) == ListedWD(recs, o, q, {})
Listed(recs, o, q) ==
    LET m == SelectSeq(ItemsOf(recs, o), LAMBDA it : Matches(it.text, q)) IN IF o.tac THEN RevSeq(m) ELSE m
Outs(items) == [i \in 1..Len(items) |-> items[i].out]
Indices(items) == [i \in 1..Len(items) |-> items[i].index]
(* fzf --filter (any of its paths, no ranking involved): one output record per listed item; exit status *)
FilterOutD(recs, o, q, devs) == LET w == ListedWD(recs, o, q, devs) IN [i \in 1..Len(w) |-> OutputText(recs[w[i].ord], o)]
FilterOut(recs, o, q) == FilterOutD(recs, o, q, {})
FilterIdx(recs, o, q) == LET w == ListedW(recs, o, q) IN [i \in 1..Len(w) |-> w[i].index]
(* where a deviation can show at all: a rendition with a stripped expression, searched with a non-empty query *)
DevObservable(o, q) == o.withNth /\ o.ansi /\ ~o.spec.plain /\ q.term # <<>>
FilterExit(recs, o, q) == IF ListedW(recs, o, q) = <<>> THEN 1 ELSE 0

-------------------------------------------------------------------------------
(* The builder as the code has it (core.go:97-144, item.go AsString): an item keeps the presentation in `text` and,    *)
(* only when there is a --with-nth transformation, a reference to the record in `orig`; AsString falls back to `text`  *)
(* when there is none.  b = [header, items, next] is the state of the closure (header, chunk list, itemIndex).         *)
(* dev names a design deviation for the counterexample configuration:                                                 *)
(*   "KeepOrigIfDiffers" - keep `orig` only when the rendition differs from the record (a tempting saving that is      *)
(*   wrong because `text` has lost its trailing white space by then).                                                  *)
B0 == [header |-> <<>>, items |-> <<>>, next |-> 0]
PushRec(b, rec, o, dev) ==
    IF ~o.withNth
    THEN IF Len(b.header) < o.header THEN [b EXCEPT !.header = Append(@, rec)]
         ELSE [b EXCEPT !.next = @ + 1,
                        !.items = Append(@, [text |-> Visible(rec, o.ansi), hasOrig |-> FALSE, orig |-> <<>>, index |-> b.next])]
    ELSE LET transformed == RenderU(rec, o.d, o.spec, b.next) IN
         IF Len(b.header) < o.header THEN [b EXCEPT !.header = Append(@, transformed)]
         ELSE [b EXCEPT !.next = @ + 1,
                        !.items = Append(@, [text |-> TrimRightU(Visible(transformed, o.ansi)),
                                             hasOrig |-> dev # "KeepOrigIfDiffers" \/ transformed # rec,
                                             orig |-> rec, index |-> b.next])]
AsString(item, ansi) == IF item.hasOrig THEN Visible(item.orig, ansi) ELSE item.text
RECURSIVE Build(_, _, _, _)
Build(b, recs, o, dev) == IF recs = <<>> THEN b ELSE Build(PushRec(b, Head(recs), o, dev), Tail(recs), o, dev)

(* Design properties (MC_Items): the representation above delivers the content clause for every stream. *)
BuiltMatchesSpec(b, recs, o) ==
    LET w == ItemsOf(recs, [o EXCEPT !.tail = 0]) IN
    /\ Len(b.items) = Len(w)                                                       \* exactly one item per record
    /\ \A i \in 1..Len(w) : /\ AsString(b.items[i], o.ansi) = w[i].out             \* identical content, in order
                            /\ b.items[i].text = w[i].text
                            /\ b.items[i].index = w[i].index
    /\ b.header = [k \in 1..Min2(Len(recs), o.header) |-> HeaderText(recs[k], o)]
    /\ b.next = Len(w)
(* the content clause in its own words, free of the definitions above *)
ContentUnaltered(b, recs, o) ==
    /\ Len(b.items) = (IF Len(recs) > o.header THEN Len(recs) - o.header ELSE 0)
    /\ \A i \in 1..Len(b.items) :
          LET rec == recs[o.header + i]
              got == AsString(b.items[i], o.ansi) IN
          IF o.ansi THEN got = SelectSeq(rec, LAMBDA c : c \notin SgrSyms) ELSE got = rec
(* per record: the presentation under --with-nth never ends in white space, and an all-fields expression presents the  *)
(* record itself up to that trimming - the output keeps the white space all the same                                   *)
AllFields(spec) == spec.plain /\ Len(spec.nth) = 1 /\ ParseRange(spec.nth[1]).ok /\ FullRange(ParseRange(spec.nth[1]))
PresentationLaws(rec, o, index) ==
    LET t == SearchText(rec, o, index) IN
    /\ o.withNth => (t = <<>> \/ ~SpaceU(t[Len(t)]))
    /\ ~o.withNth => t = OutputText(rec, o)
    /\ (o.withNth /\ AllFields(o.spec) /\ (o.d.kind # "awk" \/ LeadBlanks(rec) = 0 \/ LeadBlanks(rec) = Len(rec)))
           => t = TrimRightU(Visible(rec, o.ansi))
    /\ \A c \in SgrSyms : o.ansi => \A i \in 1..Len(t) : t[i] # c
RenderAgreesWithFields(rec, o, index) ==
    (o.withNth /\ \A i \in 1..Len(rec) : rec[i] \notin {"LF", "CR"}) => RenderU(rec, o.d, o.spec, index) = RenderRaw(rec, o.d, o.spec, index)
================================================================================
