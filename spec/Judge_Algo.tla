------------------------------ MODULE Judge_Algo ------------------------------
(* J binding of C02 / C03 / C05: every record is one call of a real matcher (arguments + what it returned); the    *)
(* spec's own operators decide whether the record is explained.                                                    *)
(*   chk = "valid" : C02 - ValidResult (witness inside the reported range / no witness exists)                      *)
(*   chk = "score" : C03 - matched bit and score equal F(args) (the plain recurrence / the scored occurrence)       *)
(*   chk = "exact" : C05 - the whole result equals F(args), whatever the slab held, the representation, withPos     *)
(*   chk = "rle"   : C02 on giant lines given run-length encoded: positions checked against the runs (O(M))         *)
EXTENDS FzfAlgoV2, Json, IOUtils, TLC

TraceLog == ndJsonDeserialize(IOEnv.TRACE)
Shards == 16
VARIABLE l
(* l = 0 is a dummy initial state: TLC evaluates initial states on its main thread, whose stack is small; the     *)
(* records (deep recursions over texts of 300 symbols) are all evaluated by worker threads                        *)
JInit == l = 0
JNext == IF l = 0 THEN l' \in 1..(IF Len(TraceLog) < Shards THEN Len(TraceLog) ELSE Shards)
         ELSE l + Shards <= Len(TraceLog) /\ l' = l + Shards

Got(r) == [s |-> r.s, e |-> r.e, sc |-> r.sc, pos |-> r.pos]
Spec(r) == F(r.kind, r.t, r.p, r.cs, r.norm, r.fwd, r.sch, r.cap16)
(* the matcher that documentedly ran: V1 when the slab is too small for the V2 matrix *)
Eff(r) == IF UsesV1(r.kind, r.t, r.p, r.cap16) THEN "v1" ELSE r.kind

ValidRle(r) ==
    LET N == RunsLen(r.rle)
        M == Len(r.p)
        small == Expand(r.rle, M + 2)
        ch(p) == Fold(SymAt(r.rle, p), r.cs, r.norm)
        sep(p) == p < 0 \/ p >= N \/ Class(SymAt(r.rle, p), r.sch) \in SepClasses
        fuzzy == FuzzyKind(r.kind)
    IN /\ r.n = N
       /\ (r.s >= 0) <=> (IF fuzzy THEN HasEmb(FoldSeq(small, r.cs, r.norm), r.p)      \* = Witness: MC_Algo!GreedyComplete
                          ELSE Witness(r.kind, small, r.p, r.cs, r.norm, r.sch))
       /\ r.s >= 0 =>
            /\ r.s <= r.e /\ r.e <= N
            /\ fuzzy /\ r.wp => /\ Len(r.pos) = M
                                /\ \A k \in 1..M : r.s <= r.pos[k] /\ r.pos[k] < r.e /\ ch(r.pos[k]) = r.p[k]
                                /\ \A k \in 1..(M - 1) : r.pos[k] < r.pos[k + 1]
            /\ fuzzy /\ ~r.wp => r.s + M <= r.e /\ ch(r.s) = r.p[1] /\ ch(r.e - 1) = r.p[M]
            /\ ~fuzzy => /\ r.e = r.s + M /\ \A k \in 1..M : ch(r.s + k - 1) = r.p[k]
                         /\ (r.kind = "boundary" => sep(r.s - 1) /\ sep(r.e))
                         /\ (r.kind \in {"prefix", "equal"} /\ ~IsSpace(r.p[1]) => r.s = LeadRuns(r.rle))
                         /\ (r.kind \in {"prefix", "equal"} /\ IsSpace(r.p[1]) => r.s = 0)
                         /\ (r.kind \in {"suffix", "equal"} /\ ~IsSpace(r.p[M]) => r.e = N - LeadRuns(Rev(r.rle)))
                         /\ (r.kind \in {"suffix", "equal"} /\ IsSpace(r.p[M]) => r.e = N)

Explained(r) ==
    /\ ~("panic" \in DOMAIN r)
    /\ CASE r.chk = "valid" -> ValidResult(Eff(r), r.t, r.p, r.cs, r.norm, r.sch, Got(r), r.wp)
         [] r.chk = "score" -> (r.s >= 0 /\ Spec(r).s >= 0) => r.sc = Spec(r).sc       \* the matched bit is C02's
         [] r.chk = "exact" -> LET f == Spec(r) IN /\ r.s = f.s /\ r.e = f.e /\ r.sc = f.sc
                                                   /\ (r.wp => r.pos = f.pos)
         [] r.chk = "rle" -> ValidRle(r)
JInv == l = 0 \/ Explained(TraceLog[l]) \/ PrintT(<<"MISMATCH", l>>)
================================================================================
