CONSTANTS
  AlphaOf <- FullAlpha
  MaxLenOf <- Len5
  DelimSet <- AllDelims
INIT Init
NEXT Next
INVARIANTS InvPartition
CHECK_DEADLOCK FALSE
