CONSTANTS
  AlphaOf <- FullAlpha
  MaxLenOf <- Len5
  DelimSet <- FullDelims
INIT Init
NEXT Next
INVARIANTS InvPartition
CHECK_DEADLOCK FALSE
