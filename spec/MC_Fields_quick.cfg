CONSTANTS
  Alphabet <- LineAlphabet
  MaxLen = 4
  DelimSet <- AllDelims
INIT Init
NEXT Next
INVARIANTS InvPartition InvSelection InvNth InvRender
CHECK_DEADLOCK FALSE
