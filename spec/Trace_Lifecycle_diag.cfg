CONSTANTS
  MaxChildren = 4
  MaxTemps = 8
  QMax = 40
  MaxPending = 7
  CfgSet <- TCfgs
  Hows <- THows
INIT TInit
NEXT TNext
INVARIANTS Report Reached
CHECK_DEADLOCK FALSE
