INIT Init
NEXT Next
INVARIANTS InvClose InvQuit InvPrintQuery InvOriginal
CHECK_DEADLOCK FALSE
