CONSTANTS
  MaxUI = 4
  Kinds = {"finite"}
  ShowBumpsVersion = TRUE
  TemplateHasQ = FALSE
  H = 2
  LensKind = "one"
  WithReload = FALSE
  ReloadBumpsVersion = TRUE
  WithHideKeep = TRUE
  Follow = FALSE
  WithScroll = FALSE
  DelayedSetsVersion <- TreeDelayedSetsVersion
SPECIFICATION Spec
INVARIANTS TypeOK OneAlive ConvergenceStaleAfterShowKeep
CHECK_DEADLOCK FALSE
