CONSTANTS
  Alpha <- AlphaSmall
  MaxLen = 1
  MaxRecs = 2
  Variants <- VarDev
  Dev = "none"
INIT Init
NEXT Next
INVARIANTS InvContent InvBuilt InvStepwise InvFilterAgrees InvRecord InvSearch
CHECK_DEADLOCK FALSE
