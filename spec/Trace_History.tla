---------------------------- MODULE Trace_History ----------------------------
(* Trace validation for FzfHistory at the level of the real program: sessions of the real binary with --history /  *)
(* --history-size (tmux-driven; prev-history / next-history / query edits / every way of ending), recorded through  *)
(* the term.act hook events and by reading the history file before and after each session.                          *)
(*   reset  file max          a new chain of sessions on a history file with these bytes (tokens) and this limit     *)
(*   load   after             fzf started (NewHistory): the file as it is afterwards                                 *)
(*   prev / next  inp ret     the action ran with `inp` on the query line and left `ret` there                       *)
(*   end    how q after       how = "submit" (exit status 0 or 1: the query is recorded) | "quit"; file afterwards   *)
EXTENDS FzfHistory, Json, IOUtils

TraceLog == ndJsonDeserialize(IOEnv.TRACE)
VARIABLE l
tvars == <<vars, l>>
Ev == TraceLog[l]
Is(name) == l <= Len(TraceLog) /\ Ev.ev = name /\ l' = l + 1

TInit == /\ l = 1 /\ file = Missing /\ file0 = Missing /\ max = 1 /\ open = FALSE /\ lines = <<>> /\ modified = <<>>
         /\ cursor = 0 /\ sessions = 0 /\ submitted = <<>>
TReset == /\ Is("reset") /\ ~open
          /\ file' = Ev.file /\ file0' = Ev.file /\ max' = Ev.max /\ open' = FALSE /\ lines' = <<>> /\ modified' = <<>>
          /\ cursor' = 0 /\ sessions' = 0 /\ submitted' = <<>>
TLoad == Is("load") /\ Load /\ file' = Ev.after
TPrev == Is("prev") /\ Prev(Ev.inp) /\ Current(lines', modified', cursor') = Ev.ret
TNext == Is("next") /\ Next_(Ev.inp) /\ Current(lines', modified', cursor') = Ev.ret
TEnd == /\ Is("end")
        /\ IF Ev.how = "submit" THEN Submit(Ev.q) ELSE Quit
        /\ file' = Ev.after
TNextAll == TReset \/ TLoad \/ TPrev \/ TNext \/ TEnd
TSpec == TInit /\ [][TNextAll]_tvars
Accepted == TLCGet("stats").diameter - 1 = Len(TraceLog)
(* the design-level invariants must hold in every state of every real execution too *)
=============================================================================
