CONSTANTS
  KeySpace <- MCKeys2
  MaxLines = 4
  MaxParts = 3
  AnyPartition = TRUE
  FnChunkSizes = {1}
  FnMaxChunks = 1
  FnMaxN = 0
  FnParts = {1}
  GenProbes = 0
INIT MInit
NEXT MNext
INVARIANTS TypeOK RunsOrdered CursorsInRange MergedIsPrefix GetCorrect ExpectedIsPermutation
PROPERTY MergeIsLazy
CHECK_DEADLOCK FALSE
