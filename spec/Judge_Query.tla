---------------------------- MODULE Judge_Query ----------------------------
(* J binding of C01: every record written by the harness (real BuildPattern + MatchItem on seeded random, longer   *)
(* queries and lines over the whole FzfChars alphabet) is decided with FzfQuery!Matches.                            *)
(* A record: [opts |-> [fuzzy, extended, case, normalize, algo, fwd, pos], query, lines, matched, panic]            *)
EXTENDS FzfQuery, Json, IOUtils

TraceLog == ndJsonDeserialize(IOEnv.TRACE)
Shards == 16
VARIABLE l
JInit == l \in 1..(IF Len(TraceLog) < Shards THEN Len(TraceLog) ELSE Shards)
JNext == l + Shards <= Len(TraceLog) /\ l' = l + Shards

(* the smallest set of named deviations (FzfQuery!Deviations) that explains a rejected observation, for the        *)
(* KNOWN-FINDING classification only; "none" = plain violation.  F1 can only be invoked for a backward scan.       *)
Why(r, k) ==
    LET obs == r.matched[k]   line == r.lines[k]
        Is(devs) == obs = MatchesUnder(r.query, line, r.opts, devs)
    IN IF r.panic THEN "panic"
       ELSE IF ~r.opts.fwd /\ Is({"F1"}) THEN "F1"
       ELSE IF Is({"TABQ"}) THEN "TABQ"
       ELSE IF ~r.opts.fwd /\ Is({"F1", "TABQ"}) THEN "F1+TABQ"
       ELSE "none"

JInv == LET r == TraceLog[l]
            p == Parse(r.query, r.opts)
        IN \A k \in 1..Len(r.lines) :
              (~r.panic /\ r.matched[k] = PatMatches(p, r.lines[k], {})) \/ PrintT(<<"MISMATCH", l, k, Why(r, k)>>)
=============================================================================
