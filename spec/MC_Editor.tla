---------------------------- MODULE MC_Editor ----------------------------
(* State machine over FzfEditor's operators: exhaustive configuration (MC_Editor*.cfg) and behaviour export      *)
(* (Gen_Editor.cfg, -simulate).                                                                                   *)
EXTENDS FzfEditor, Json

CONSTANTS Alphabet,     \* symbols that can be typed
          MaxLen,       \* bound on the query length (exhaustive config only)
          Items,        \* item ids
          Lists,        \* result lists that can be published
          MaxItemsC, CycleC, LayoutC, ScrollOffC, InputlessC,
          Multis,       \* initial --multi limits
          Tracks,       \* initial tracking modes
          ActFilter     \* "all", "query" (query-line actions only) or "list" (navigation/selection only)

VARIABLES st, list, rendered, hist
vars == <<st, list, rendered>>

TextOf(id) == CASE id = 0 -> <<"a", "b">> [] id = 1 -> <<"a", " ", "c">> [] id = 2 -> <<"b", "-", "a~">>
                [] id = 3 -> <<"c">> [] id = 4 -> <<"a", "a">> [] id = 5 -> <<"b", "b">> [] id = 6 -> <<"han", "a">>
                [] id = 7 -> <<"A", "1", "/", "b">> [] id = 8 -> <<"a", "b", "c">> [] id = 9 -> <<" ", "a">>
                [] OTHER -> <<"e", "1">>
Env == [list |-> list, texts |-> [i \in 1..Len(list) |-> TextOf(list[i])], maxItems |-> MaxItemsC, cycle |-> CycleC,
        layout |-> LayoutC, scrollOff |-> ScrollOffC, inputless |-> InputlessC]

Init == /\ st \in [input : {<<>>}, cx : {0}, yanked : {<<>>}, cy : {0}, offset : {0}, sel : {<<>>}, multi : Multis, track : Tracks]
        /\ list \in Lists /\ rendered = FALSE /\ hist = <<>>

NoArg == {"backward-char", "forward-char", "beginning-of-line", "end-of-line", "delete-char", "backward-delete-char",
          "kill-line", "kill-word", "backward-kill-word", "unix-line-discard", "unix-word-rubout", "yank",
          "backward-word", "forward-word", "clear-query", "replace-query", "up", "down", "first", "last", "page-up",
          "page-down", "half-page-up", "half-page-down", "toggle", "toggle-up", "toggle-down", "toggle-in",
          "toggle-out", "toggle-all", "select-all", "deselect-all", "select", "deselect", "clear-selection",
          "next-selected", "prev-selected", "cancel", "delete-char/eof", "backward-delete-char/eof",
          "toggle-track", "toggle-track-current", "track-current", "untrack-current", "exclude", "exclude-multi"}
QueryActs == {"backward-char", "forward-char", "beginning-of-line", "end-of-line", "delete-char", "backward-delete-char",
          "kill-line", "kill-word", "backward-kill-word", "unix-line-discard", "unix-word-rubout", "yank",
          "backward-word", "forward-word", "clear-query", "replace-query", "cancel", "delete-char/eof",
          "backward-delete-char/eof", "char", "put", "change-query"}
(* tracking: with --track on, a result that stays in the list keeps the cursor (and its screen row) across an update *)
InvTrackFollows == \A l \in Lists : (st.track # 0 /\ Current(st, Env) # -1 /\ InSeq(Current(st, Env), l))
                      => LET n == ListChangedT(st, list, l, "same", LAMBDA x : TRUE, MaxItemsC)
                         IN l[n.cy + 1] = Current(st, Env) /\ n.cy - n.offset = st.cy - st.offset
TrackActs == {"toggle-track", "toggle-track-current", "track-current", "untrack-current"}
ActOK0(a) == ActFilter = "all" \/ (ActFilter = "query" /\ a \in QueryActs) \/ (ActFilter = "list" /\ a \notin QueryActs)
ActOK(a) == (a \notin TrackActs \/ Tracks # {0}) /\ ActOK0(a)
ActArgs0 == [act : NoArg, arg : {<<>>}]
           \cup [act : {"char"}, arg : {<<c>> : c \in Alphabet}]
           \cup [act : {"put", "change-query"}, arg : {<<>>} \cup {<<c>> : c \in Alphabet} \cup {<<c, d>> : c, d \in Alphabet}]
           \cup [act : {"pos"}, arg : -3..4]
           \cup [act : {"change-multi"}, arg : {-1, 0, 1, 2}]
ActArgs == {a \in ActArgs0 : ActOK(a.act)}

Do(a) == /\ Exits(a.act, st, Env, FALSE, Len(list)) = "none"
         /\ st' = Apply(a.act, a.arg, st, Env)
         /\ rendered' = FALSE /\ UNCHANGED list
Render == /\ st' = ConstrainView(st, Env) /\ rendered' = TRUE /\ UNCHANGED list
NewList(l, kind) == /\ list' = l /\ st' = ListChangedT(st, list, l, kind, LAMBDA x : x > 1, MaxItemsC) /\ rendered' = FALSE

Next == /\ \/ \E a \in ActArgs : Do(a)
           \/ Render
           \/ \E l \in Lists, k \in {"same", "reload", "trim"} : NewList(l, k)
        /\ UNCHANGED hist
Bound == Len(st.input) <= MaxLen /\ Len(st.yanked) <= MaxLen /\ st.offset \in -4..8 /\ st.cy \in -2..8

MCLists == {<<>>, <<1>>, <<2, 1>>, <<1, 2, 3>>, <<3, 1, 2>>, <<1, 2, 3, 4, 5>>}
MCListsQ == {<<3, 1>>}
MCListsT == {<<>>, <<2, 1>>, <<1, 2, 3>>, <<3, 1, 2, 4>>}
(* ---- invariants (C09) ---- *)
AsSet(q) == {q[i] : i \in 1..Len(q)}
InvType == TypeOKs(st)
InvLimit == SelectionWithinLimit(st)
InvNoMulti == st.multi = 0 => st.sel = <<>>
InvRendered == rendered => CursorDesignates(st, Env) /\ ViewOK(st, Env)
(* toggle is an involution on the selected set *)
InvToggleInvolution == AsSet(Apply("toggle", <<>>, Apply("toggle", <<>>, st, Env), Env).sel) = AsSet(st.sel)
(* the -all actions touch the current results only *)
Outside(q) == SelectSeq(q, LAMBDA x : ~InSeq(x, list))
InvAllLocal == \A a \in {"select-all", "deselect-all", "toggle-all"} : Outside(Apply(a, <<>>, st, Env).sel) = Outside(st.sel)
InvDeselectAll == st.multi > 0 => AsSet(Apply("deselect-all", <<>>, st, Env).sel) \cap AsSet(list) = {}
(* kill-line + yank gives the line back *)
InvKillYank == Apply("yank", <<>>, Apply("kill-line", <<>>, st, Env), Env).input = st.input \/ st.cx = Len(st.input)
(* selections survive a new result list and vanish on reload *)
InvSurvive == ListChanged(st, "same", LAMBDA x : TRUE).sel = st.sel /\ ListChanged(st, "reload", LAMBDA x : TRUE).sel = <<>>
(* on accept the selection, or else the current line, is what gets printed: see FzfOutput *)

(* ---- behaviour export ---- *)
GDo(a) == Do(a) /\ hist' = Append(hist, [act |-> a.act, arg |-> a.arg])
(* the renderer runs after every action in the generated behaviours (it is asynchronous in the program) *)
GenStrs == {<<>>, <<"a">>, <<" ">>, <<"a", "b">>, <<"b", " ">>, <<"-", "a~">>, <<"han", "/">>, <<"A", "1">>}
ActArgsG == [act : NoArg, arg : {<<>>}] \cup [act : {"char"}, arg : {<<c>> : c \in Alphabet}]
            \cup [act : {"put", "change-query"}, arg : GenStrs] \cup [act : {"pos"}, arg : {-2, -1, 0, 1, 3, 9}]
            \cup [act : {"change-multi"}, arg : {-1, 0, 1, 2}]
GNext == \E a \in ActArgsG : \E mid \in {Apply(a.act, a.arg, st, Env)} :
            /\ Exits(a.act, st, Env, FALSE, Len(list)) = "none"
            /\ st' = ConstrainView(mid, Env) /\ rendered' = TRUE /\ UNCHANGED list
            /\ hist' = Append(hist, [act |-> a.act, arg |-> a.arg])
Depth == 25
Emit == Len(hist) = Depth => PrintT(<<"CASE", ToJson([list |-> list, texts |-> Env.texts,
                                                        steps |-> [i \in 1..Len(hist) |-> [act |-> hist[i].act, arg |-> hist[i].arg]]])>>)
GenLists == {<<>>, <<0>>, <<0, 1, 2>>, <<0, 1, 2, 3, 4, 5, 6, 7>>, <<0, 1, 2, 3, 4, 5, 6, 7, 8, 9, 10, 11, 12, 13>>}
GBound == Len(hist) <= Depth
=============================================================================
