---------------------------- MODULE MC_ShellExpand ----------------------------
(* FzfShell, expansion level: a small terminal - lines on the list, a current line, lines selected in some order,  *)
(* a query - and a command template written token by token.  Every reachable (template, state) pair is checked      *)
(* (MC_ShellExpand*.cfg) and exported with the expansion the specification predicts (the Emit invariant).            *)
(* fzf is started with a --delimiter and a print separator (constants DelimIds / SepSet: MC_ShellExpand_files*.cfg     *)
(* walk a menu of delimiters, both separators, file placeholders and the {q:N} family; the other configs keep the      *)
(* defaults).                                                                                                           *)
EXTENDS FzfShell, Json

CONSTANTS MaxTokens,    \* template length in tokens
          NItems,       \* lines on the list (<= 3)
          WorldIds,     \* which of the line sets below are used
          TokenIds,     \* which entries of the token menu the template is written with
          QueryIds,     \* which entries of the query menu can be typed
          DelimIds,     \* which entries of the delimiter menu fzf can have been started with (--delimiter)
          SepSet        \* print separators fzf can have been started with ("LF"; "NUL" = --print0)

(* line texts and input ordinals *)
Worlds == <<
  <<[text |-> <<"a", "SQ", "SP", "SP", "DQ", "a", "SP">>, idx |-> 0],
    [text |-> <<"SP", "BSL", "SP", "LF", "DOL", "LP", "a">>, idx |-> 7],
    [text |-> <<"SQ">>, idx |-> 12]>>,
  <<[text |-> <<>>, idx |-> 3],
    [text |-> <<"SQ", "SQ", "SP", "BT", "a", "BT">>, idx |-> 10],
    [text |-> <<"LB", "RB", "SP", "STAR", "SP", "TILDE", "SEMI", "a", "BSL">>, idx |-> 104]>>,
  (* delimiters and files: several fields under every delimiter of the menu; a line whose second field is a line     *)
  (* feed (a --read0 line: the record ends with the separator character); a line with one field; the empty line      *)
  <<[text |-> <<"a", "COLON", "SQ", "SP", "a", "COLON", "COLON", "DOL", "SEMI", "SP">>, idx |-> 0],
    [text |-> <<"a", "SP", "COLON", "LF">>, idx |-> 5],
    [text |-> <<>>, idx |-> 11]>>,
  <<[text |-> <<"a", "a">>, idx |-> 2],
    [text |-> <<"COLON", "a", "SEMI", "SP", "SP", "a", "LF">>, idx |-> 20],
    [text |-> <<"SQ", "COLON", "COLON">>, idx |-> 9]>> >>
QueryMenu == << <<>>, <<"a", "SP", "SQ", "DQ">>, <<"SP", "DOL", "a", "SP", "SP", "BSL", "SQ", "LF">>,
                (* several words and the delimiters inside them *)
                <<"a", "COLON", "SQ", "SP", "a", "SEMI", "a", "SP", "SP", "COLON", "COLON", "a">>,
                <<"a", "a", "COLON", "a">> >>
Queries == {QueryMenu[i] : i \in QueryIds}
DelimMenu == << AwkDelim, StrDelim(<<"COLON">>), StrDelim(<<"COLON", "COLON">>), StrDelim(<<"SP">>),
                ClsDelim(<<"SEMI", "COLON">>) >>

P(body) == <<"LB">> \o body \o <<"RB">>
Tokens == <<
  <<"a">>, <<"SP">>, <<"BSL">>, <<"LB">>, <<"RB">>, <<"SQ">>, <<"DQ">>,                 \* template text
  P(<<>>), P(<<"PLUS">>), P(<<"q">>), P(<<"n">>), P(<<"PLUS", "n">>),                   \* {} {+} {q} {n} {+n}
  P(<<"1">>), P(<<"2">>), P(<<"MINUS", "1">>), P(<<"PLUS", "1">>),                      \* {1} {2} {-1} {+1}
  P(<<"2", "DOT", "DOT">>), P(<<"1", "DOT", "DOT", "2">>), P(<<"DOT", "DOT">>),         \* {2..} {1..2} {..}
  P(<<"s", "1">>), P(<<"PLUS", "s", "2", "DOT", "DOT">>), P(<<"s">>),                   \* {s1} {+s2..} {s}
  P(<<"r">>), P(<<"PLUS", "r", "1">>),                                                  \* {r} {+r1}
  P(<<"q", "COLON", "1">>), P(<<"q", "COLON", "s", "2", "DOT", "DOT">>),                \* {q:1} {q:s2..}
  <<"BSL">> \o P(<<"PLUS", "f">>),                                                      \* \{+f}
  P(<<"0">>), P(<<"PLUS", "s", "1", "DOT">>),                                           \* {0} {+s1.}: not ranges
  P(<<"PLUS", "q">>), P(<<"s", "n">>),                                                  \* {+q} {sn}: not placeholders
  (* 32.. : file placeholders and the {q:N} family (MC_ShellExpand_files*.cfg) *)
  P(<<"f">>), P(<<"PLUS", "f">>), P(<<"PLUS", "f", "2">>), P(<<"s", "f", "2", "DOT", "DOT">>),   \* {f} {+f} {+f2} {sf2..}
  P(<<"f", "n">>), P(<<"PLUS", "n", "f">>),                                              \* {fn} {+nf}
  <<"BSL">> \o P(<<"f">>), <<"DQ">> \o P(<<"PLUS", "f">>) \o <<"DQ">>,                    \* \{f}  "{+f}"
  P(<<"q", "COLON", "2">>), P(<<"q", "COLON", "2", "DOT", "DOT">>),                      \* {q:2} {q:2..}
  P(<<"q", "COLON", "s", "1">>), P(<<"q", "COLON", "MINUS", "1">>),                      \* {q:s1} {q:-1}
  P(<<"PLUS", "2">>), P(<<"3">>)                                                         \* {+2} {3}
>>

VARIABLES tmpl, ntok, world, cur, sel, query, fp,
          delim, sep     \* options: chosen when fzf starts, never changed
vars == <<tmpl, ntok, world, cur, sel, query, fp, delim, sep>>

St == [items |-> SubSeq(Worlds[world], 1, NItems), cur |-> cur, sel |-> sel, query |-> query, fp |-> fp,
       delim |-> DelimMenu[delim], sep |-> sep]

Init == /\ tmpl = <<>> /\ ntok = 0 /\ world \in WorldIds
        /\ cur = 0 /\ sel = <<>> /\ query = <<>> /\ fp = FALSE
        /\ delim \in DelimIds /\ sep \in SepSet
(* the user writes the template *)
AddToken(k) == /\ ntok < MaxTokens /\ ntok' = ntok + 1 /\ tmpl' = tmpl \o Tokens[k]
               /\ UNCHANGED <<world, cur, sel, query, fp, delim, sep>>
(* toggle: a newly selected line goes to the end of the selection order *)
Toggle(i) == /\ sel' = IF \E j \in 1..Len(sel) : sel[j] = i THEN SelectSeq(sel, LAMBDA x : x # i) ELSE Append(sel, i)
             /\ UNCHANGED <<tmpl, ntok, world, cur, query, fp, delim, sep>>
(* the cursor moves; 0 = the query filtered every line away *)
Move(c) == cur' = c /\ c # cur /\ UNCHANGED <<tmpl, ntok, world, sel, query, fp, delim, sep>>
SetQuery(q) == query' = q /\ q # query /\ UNCHANGED <<tmpl, ntok, world, cur, sel, fp, delim, sep>>
(* the template is run by an action that forces {+} semantics (execute-multi) or not *)
SetForcePlus == fp' = ~fp /\ UNCHANGED <<tmpl, ntok, world, cur, sel, query, delim, sep>>

Next == \/ \E k \in TokenIds : AddToken(k)
        \/ \E i \in 1..NItems : Toggle(i)
        \/ \E c \in 0..NItems : Move(c)
        \/ \E q \in Queries : SetQuery(q)
        \/ SetForcePlus

(* ---- invariants ---- *)
TI == TInfo(tmpl)
InvExpansionReadsBack == ExpansionReadsBackI(TI, St)
InvEscapedStayLiteral == EscapedStayLiteralI(TI, St)
(* {+} covers every selected line in selection order, the current line if there is no selection: one word each *)
PlusT == P(<<"PLUS">>)
InvPlusCoversSelection ==
    Valid(PlusT, St) => ShEval(Expand(PlusT, St)) =
        Ok(IF sel # <<>> THEN [i \in 1..Len(sel) |-> St.items[sel[i]].text] ELSE <<St.items[cur].text>>)
(* {n} is the ordinal of the current line, {+n} those of the selection (execute-multi reads every {..} as {+..}) *)
InvOrdinals ==
    /\ (cur # 0 /\ ~fp) => Expand(P(<<"n">>), St) = Digits(St.items[cur].idx)
    /\ sel # <<>> => Expand(P(<<"PLUS", "n">>), St) = JoinWith([i \in 1..Len(sel) |-> Digits(St.items[sel[i]].idx)], <<"SP">>)
(* whatever is selected or typed never changes the number of words of a well-formed command line except through {+} *)
InvNeverHazard == WantI(TI, St).status = "OK" => ShEval(ExpandI(TI, St, Quote)).status = "OK"

(* files: every record terminated (FzfShell 5b); joining and patching the end is not the same thing *)
ASSUME FilesByJoinLoseRecords
InvFilesReadBack == FilesReadBackI(TI, St)
(* {+f} holds the selected lines in selection order, the current line if nothing is selected, one record each *)
PlusF == P(<<"PLUS", "f">>)
InvPlusFileCoversSelection ==
    Valid(PlusF, St) => /\ Expand(PlusF, St) = <<"FILE">>
                        /\ Files(PlusF, St) = <<TerminateEach(IF sel # <<>> THEN [i \in 1..Len(sel) |-> St.items[sel[i]].text]
                                                               ELSE <<St.items[cur].text>>, sep)>>
(* the words of the query do not depend on the item delimiter; without --delimiter fields and words are cut alike *)
QPhs == <<ParseBody(<<"q", "COLON", "1">>), ParseBody(<<"q", "COLON", "2", "DOT", "DOT">>),
          ParseBody(<<"q", "COLON", "s", "MINUS", "1">>)>>
InvQueryWordsIgnoreDelimiter ==
    \A k \in 1..Len(QPhs) : Meaning(QPhs[k], TI, St) = Meaning(QPhs[k], TI, [St EXCEPT !.delim = AwkDelim])
InvAwkFieldsAgree == \A k \in 1..Len(QPhs) : AwkFieldsAgree(query, QPhs[k].rng, QPhs[k].preserve)
(* under a delimiter that occurs in the query the two DO differ somewhere: the distinction is not vacuous *)
ASSUME LET q == QueryMenu[4] r == ParseRange(<<"1">>)
       IN FieldText(q, r, FALSE) # ItemFieldText(q, r, FALSE, StrDelim(<<"COLON">>))

(* ---- case export ---- *)
Emit == LET ti == TInfo(tmpl)
            v  == ValidI(ti, St)
            x  == IF v THEN ExpandI(ti, St, Quote) ELSE <<>>
            r  == IF v THEN ShEval(x) ELSE [status |-> "NOEXEC", words |-> <<>>]
        IN PrintT(<<"CASE", ToJson([
             t |-> Enc(tmpl), its |-> [i \in 1..NItems |-> Enc(St.items[i].text)], ix |-> [i \in 1..NItems |-> St.items[i].idx],
             cur |-> cur, sel |-> sel, q |-> Enc(query), fp |-> fp,
             d |-> [kind |-> St.delim.kind, pat |-> Enc(St.delim.pat)], sep |-> sep,
             fs |-> IF v THEN EncAll(FilesI(ti, St)) ELSE <<>>,
             valid |-> v, x |-> Enc(x), xf |-> IF v THEN Enc(ExpandI(ti, St, QuoteFish)) ELSE "",
             ws |-> r.status, w |-> EncAll(r.words), want |-> WantI(ti, St).status])>>)
================================================================================
