---------------------------- MODULE MC_ShellExpand ----------------------------
(* FzfShell, expansion level: a small terminal - lines on the list, a current line, lines selected in some order,  *)
(* a query - and a command template written token by token.  Every reachable (template, state) pair is checked      *)
(* (MC_ShellExpand*.cfg) and exported with the expansion the specification predicts (Gen_ShellExpand*.cfg).          *)
EXTENDS FzfShell, Json

CONSTANTS MaxTokens,    \* template length in tokens
          NItems,       \* lines on the list (<= 3)
          WorldIds      \* which of the line sets below are used

(* line texts and input ordinals *)
Worlds == <<
  <<[text |-> <<"a", "SQ", "SP", "SP", "DQ", "a", "SP">>, idx |-> 0],
    [text |-> <<"SP", "BSL", "SP", "LF", "DOL", "LP", "a">>, idx |-> 7],
    [text |-> <<"SQ">>, idx |-> 12]>>,
  <<[text |-> <<>>, idx |-> 3],
    [text |-> <<"SQ", "SQ", "SP", "BT", "a", "BT">>, idx |-> 10],
    [text |-> <<"LB", "RB", "SP", "STAR", "SP", "TILDE", "SEMI", "a", "BSL">>, idx |-> 104]>> >>
Queries == {<<>>, <<"a", "SP", "SQ", "DQ">>, <<"SP", "DOL", "a", "SP", "SP", "BSL", "SQ", "LF">>}

P(body) == <<"LB">> \o body \o <<"RB">>
Tokens == <<
  <<"a">>, <<"SP">>, <<"BSL">>, <<"LB">>, <<"RB">>, <<"SQ">>, <<"DQ">>,                 \* template text
  P(<<>>), P(<<"PLUS">>), P(<<"q">>), P(<<"n">>), P(<<"PLUS", "n">>),                   \* {} {+} {q} {n} {+n}
  P(<<"1">>), P(<<"2">>), P(<<"MINUS", "1">>), P(<<"PLUS", "1">>),                      \* {1} {2} {-1} {+1}
  P(<<"2", "DOT", "DOT">>), P(<<"1", "DOT", "DOT", "2">>), P(<<"DOT", "DOT">>),         \* {2..} {1..2} {..}
  P(<<"s", "1">>), P(<<"PLUS", "s", "2", "DOT", "DOT">>), P(<<"s">>),                   \* {s1} {+s2..} {s}
  P(<<"r">>), P(<<"PLUS", "r", "1">>),                                                  \* {r} {+r1}
  P(<<"q", "COLON", "1">>), P(<<"q", "COLON", "s", "2", "DOT", "DOT">>),                \* {q:1} {q:s2..}
  <<"BSL">> \o P(<<"PLUS", "f">>),                                                      \* \{+f}
  P(<<"0">>), P(<<"PLUS", "s", "1", "DOT">>),                                           \* {0} {+s1.}: not ranges
  P(<<"PLUS", "q">>), P(<<"s", "n">>)                                                   \* {+q} {sn}: not placeholders
>>

VARIABLES tmpl, ntok, world, cur, sel, query, fp
vars == <<tmpl, ntok, world, cur, sel, query, fp>>

St == [items |-> SubSeq(Worlds[world], 1, NItems), cur |-> cur, sel |-> sel, query |-> query, fp |-> fp]

Init == /\ tmpl = <<>> /\ ntok = 0 /\ world \in WorldIds
        /\ cur = 0 /\ sel = <<>> /\ query = <<>> /\ fp = FALSE
(* the user writes the template *)
AddToken(k) == /\ ntok < MaxTokens /\ ntok' = ntok + 1 /\ tmpl' = tmpl \o Tokens[k]
               /\ UNCHANGED <<world, cur, sel, query, fp>>
(* toggle: a newly selected line goes to the end of the selection order *)
Toggle(i) == /\ sel' = IF \E j \in 1..Len(sel) : sel[j] = i THEN SelectSeq(sel, LAMBDA x : x # i) ELSE Append(sel, i)
             /\ UNCHANGED <<tmpl, ntok, world, cur, query, fp>>
(* the cursor moves; 0 = the query filtered every line away *)
Move(c) == cur' = c /\ c # cur /\ UNCHANGED <<tmpl, ntok, world, sel, query, fp>>
SetQuery(q) == query' = q /\ q # query /\ UNCHANGED <<tmpl, ntok, world, cur, sel, fp>>
(* the template is run by an action that forces {+} semantics (execute-multi) or not *)
SetForcePlus == fp' = ~fp /\ UNCHANGED <<tmpl, ntok, world, cur, sel, query>>

Next == \/ \E k \in 1..Len(Tokens) : AddToken(k)
        \/ \E i \in 1..NItems : Toggle(i)
        \/ \E c \in 0..NItems : Move(c)
        \/ \E q \in Queries : SetQuery(q)
        \/ SetForcePlus

(* ---- invariants ---- *)
TI == TInfo(tmpl)
InvExpansionReadsBack == ExpansionReadsBackI(TI, St)
InvEscapedStayLiteral == EscapedStayLiteralI(TI, St)
(* {+} covers every selected line in selection order, the current line if there is no selection: one word each *)
PlusT == P(<<"PLUS">>)
InvPlusCoversSelection ==
    Valid(PlusT, St) => ShEval(Expand(PlusT, St)) =
        Ok(IF sel # <<>> THEN [i \in 1..Len(sel) |-> St.items[sel[i]].text] ELSE <<St.items[cur].text>>)
(* {n} is the ordinal of the current line, {+n} those of the selection (execute-multi reads every {..} as {+..}) *)
InvOrdinals ==
    /\ (cur # 0 /\ ~fp) => Expand(P(<<"n">>), St) = Digits(St.items[cur].idx)
    /\ sel # <<>> => Expand(P(<<"PLUS", "n">>), St) = JoinWith([i \in 1..Len(sel) |-> Digits(St.items[sel[i]].idx)], <<"SP">>)
(* whatever is selected or typed never changes the number of words of a well-formed command line except through {+} *)
InvNeverHazard == WantI(TI, St).status = "OK" => ShEval(ExpandI(TI, St, Quote)).status = "OK"

(* ---- case export ---- *)
Emit == LET ti == TInfo(tmpl)
            v  == ValidI(ti, St)
            x  == IF v THEN ExpandI(ti, St, Quote) ELSE <<>>
            r  == IF v THEN ShEval(x) ELSE [status |-> "NOEXEC", words |-> <<>>]
        IN PrintT(<<"CASE", ToJson([
             t |-> Enc(tmpl), its |-> [i \in 1..NItems |-> Enc(St.items[i].text)], ix |-> [i \in 1..NItems |-> St.items[i].idx],
             cur |-> cur, sel |-> sel, q |-> Enc(query), fp |-> fp,
             valid |-> v, x |-> Enc(x), xf |-> IF v THEN Enc(ExpandI(ti, St, QuoteFish)) ELSE "",
             ws |-> r.status, w |-> EncAll(r.words), want |-> WantI(ti, St).status])>>)
================================================================================
