------------------------------ MODULE FzfMerger ------------------------------
(* The lazily merged result list: src/merger.go (NewMerger, PassMerger, Merger.Get, mergedGet) and the          *)
(* partitioning of the chunk list among workers, src/matcher.go (sliceChunks, scan).                            *)
(*                                                                                                              *)
(* State machine: the input lines arrive one by one (AddMatch / AddMiss); a matching line goes to the run of    *)
(* some partition (`lists`), which the worker keeps sorted (ranked result) or in input order (unsorted result). *)
(* After Start the consumer probes arbitrary indices (Get); a ranked result is merged lazily: `merged` is the   *)
(* prefix produced so far, `cursors[p]` the number of items consumed from run p.                                *)
(* The properties (C04): whatever the partitioning and whatever the probe sequence, Get(i) returns element i of *)
(* FzfRank!Result of all matched items; `merged` is always a prefix of it; cursors stay in range.               *)
(* Function-shaped parts: PassLocate (pass-through merger over the chunk list, first chunk possibly partial     *)
(* after --tail) and Partition (sliceChunks).  Both CODE-DERIVED; their properties are the documented ones.     *)
EXTENDS FzfRank

CONSTANTS KeySpace,    \* set of keys (4-tuples) a matched line may get
          MaxLines,    \* bound on the number of input lines
          MaxParts     \* number of partitions (worker runs)

VARIABLES lists,     \* lists[p]: the run of partition p, a sequence of items
          cursors,   \* cursors[p] in 0..Len(lists[p])
          merged,    \* lazily merged prefix (ranked results only)
          sorted, tac,
          started,   \* FALSE while lines are still being added
          nlines,    \* input lines seen so far (position of the last one)
          lastIdx, last   \* the latest probe (0-based, as in Go) and what it returned (lastIdx = -1: none yet)
vars == <<lists, cursors, merged, sorted, tac, started, nlines, lastIdx, last>>

NoItem == [key |-> <<>>, index |-> 0]
Parts == 1..MaxParts
ConcatAll(ls) == Flatten(ls)
AllItems == {ConcatAll(lists)[i] : i \in 1..Len(ConcatAll(lists))}
Count == Len(ConcatAll(lists))

Init == /\ lists = [p \in Parts |-> <<>>] /\ cursors = [p \in Parts |-> 0] /\ merged = <<>>
        /\ sorted \in BOOLEAN /\ tac \in BOOLEAN /\ started = FALSE /\ nlines = 0
        /\ lastIdx = -1 /\ last = NoItem

(* a worker's run: ranked with the same comparator the merge uses, or left in input order *)
RunInsert(run, it) == IF sorted THEN SortSeq(Append(run, it), LAMBDA a, b : Less(a, b, tac)) ELSE Append(run, it)

(* partitions are contiguous ranges of the input: a line never goes to a partition before the last used one.    *)
(* (For a ranked result the merge does not need this; the exhaustive configuration lifts it with AnyPartition.) *)
LastUsed == IF \A p \in Parts : lists[p] = <<>> THEN 1 ELSE MaxOf({p \in Parts : lists[p] # <<>>})
CONSTANT AnyPartition
AddMatch(k, p) == /\ ~started /\ nlines < MaxLines
                  /\ (AnyPartition /\ sorted) \/ p >= LastUsed
                  /\ nlines' = nlines + 1
                  /\ lists' = [lists EXCEPT ![p] = RunInsert(@, [key |-> k, index |-> nlines + 1])]
                  /\ UNCHANGED <<cursors, merged, sorted, tac, started, lastIdx, last>>
AddMiss == /\ ~started /\ nlines < MaxLines /\ nlines' = nlines + 1
           /\ UNCHANGED <<lists, cursors, merged, sorted, tac, started, lastIdx, last>>
Start == /\ ~started /\ started' = TRUE
         /\ UNCHANGED <<lists, cursors, merged, sorted, tac, nlines, lastIdx, last>>

(* mergedGet: extend the merged prefix until it covers index i; each step takes the Less-minimal head *)
RECURSIVE Extend(_, _, _)
Extend(m, c, i) ==
    IF Len(m) > i THEN [m |-> m, c |-> c]
    ELSE LET cand == {p \in Parts : c[p] < Len(lists[p])}
             head(p) == lists[p][c[p] + 1]
             pick == CHOOSE p \in cand : \A q \in cand \ {p} : Less(head(p), head(q), tac)
         IN Extend(Append(m, head(pick)), [c EXCEPT ![pick] = @ + 1], i)

Get(i) == /\ started /\ i \in 0..(Count - 1)
          /\ lastIdx' = i
          /\ IF sorted
               THEN LET st == Extend(merged, cursors, i)
                    IN merged' = st.m /\ cursors' = st.c /\ last' = st.m[i + 1]
               ELSE /\ last' = ConcatAll(lists)[IF tac THEN Count - i ELSE i + 1]
                    /\ UNCHANGED <<merged, cursors>>
          /\ UNCHANGED <<lists, sorted, tac, started, nlines>>

Next == \/ \E k \in KeySpace, p \in Parts : AddMatch(k, p)
        \/ AddMiss \/ Start
        \/ \E i \in 0..(MaxLines - 1) : Get(i)
Spec == Init /\ [][Next]_vars

-------------------------------------------------------------------------------
(* Properties *)
Expected == Result(AllItems, sorted, tac)

TypeOK == /\ \A p \in Parts : cursors[p] \in 0..Len(lists[p])
          /\ Count <= nlines /\ nlines <= MaxLines
          /\ ~sorted => merged = <<>>
RunsOrdered == \A p \in Parts : IF sorted THEN IsSortedBy(lists[p], LAMBDA a, b : Less(a, b, tac))
                                          ELSE IsSortedBy(lists[p], LAMBDA a, b : a.index < b.index)
RECURSIVE SumTo(_, _)
SumTo(f, n) == IF n = 0 THEN 0 ELSE f[n] + SumTo(f, n - 1)
CursorsInRange == /\ \A p \in Parts : cursors[p] \in 0..Len(lists[p])
                  /\ SumTo(cursors, MaxParts) = Len(merged)
MergedIsPrefix == merged = SubSeq(Expected, 1, Len(merged))
GetCorrect == lastIdx >= 0 => last = Expected[lastIdx + 1]
(* the lazy merge never produces more than the consumer asked for *)
MergeIsLazy == [][Len(merged') = IF sorted /\ lastIdx' >= Len(merged) THEN lastIdx' + 1 ELSE Len(merged)]_vars
(* the result is a permutation of the matched lines, independent of the partitioning *)
ExpectedIsPermutation == IsPermutationOf(Expected, AllItems)

-------------------------------------------------------------------------------
(* Pass-through merger (empty query): the chunk list itself is the result.  counts = items per chunk; only the  *)
(* first (after --tail) and the last chunk may hold fewer than C items.  Returns <<chunk number (1-based),      *)
(* offset in the chunk (0-based)>> for result index idx (0-based).                                              *)
RECURSIVE SumSeq(_)
SumSeq(s) == IF s = <<>> THEN 0 ELSE Head(s) + SumSeq(Tail(s))
PassLocate(counts, C, tc, idx) ==
    LET total == SumSeq(counts)
        i1 == IF tc THEN total - idx - 1 ELSE idx
        first == counts[1]
    IN IF first < C /\ i1 >= first THEN <<(i1 - first) \div C + 2, (i1 - first) % C>>
       ELSE <<i1 \div C + 1, i1 % C>>
(* 1-based input position (within the kept lines) of a chunk slot *)
SlotPosition(counts, loc) == SumSeq(SubSeq(counts, 1, loc[1] - 1)) + loc[2] + 1
ValidLayout(counts, C) == /\ Len(counts) >= 1
                          /\ \A i \in 1..Len(counts) : counts[i] \in 1..C
                          /\ \A i \in 2..(Len(counts) - 1) : counts[i] = C
PassCorrect(counts, C, tc) ==
    \A idx \in 0..(SumSeq(counts) - 1) :
        LET loc == PassLocate(counts, C, tc, idx)
        IN /\ loc[1] \in 1..Len(counts) /\ loc[2] \in 0..(counts[loc[1]] - 1)
           /\ SlotPosition(counts, loc) = (IF tc THEN SumSeq(counts) - idx ELSE idx + 1)
(* CountItems: the first, the last and full chunks in between *)
CountItems(counts, C) == IF counts = <<>> THEN 0 ELSE IF Len(counts) = 1 THEN counts[1]
                         ELSE counts[1] + C * (Len(counts) - 2) + counts[Len(counts)]

-------------------------------------------------------------------------------
(* sliceChunks: n chunks among at most P workers; slice i = <<first chunk, one past the last>> (0-based) *)
Partition(n, P) ==
    LET per0 == n \div P
        parts == IF per0 = 0 THEN n ELSE P
        per == IF per0 = 0 THEN 1 ELSE per0
    IN [i \in 1..parts |-> <<(i - 1) * per, IF i = parts THEN n ELSE i * per>>]
PartitionOK(n, P) ==
    LET s == Partition(n, P)
    IN /\ Len(s) <= P /\ (n > 0 => Len(s) >= 1) /\ (n = 0 => s = <<>>)
       /\ \A i \in 1..Len(s) : s[i][1] < s[i][2]                       \* no worker without work
       /\ n > 0 => s[1][1] = 0 /\ s[Len(s)][2] = n
       /\ \A i \in 1..(Len(s) - 1) : s[i][2] = s[i + 1][1]              \* contiguous, in order, nothing lost
================================================================================
