CONSTANTS
  Names <- MCNames3
  MaxNodes = 3
  AllowDangling = TRUE
  CheckSkips = {1, 2, 3, 5, 7, 8}
  FullUpTo = 0
  MinNodes = 99
INIT Init
NEXT Next
INVARIANTS TypeOK Acyclic InvDesign InvAlgebra InvUnderRoot
CHECK_DEADLOCK FALSE
