------------------------------- MODULE Gen_Items -------------------------------
(* E binding of FzfItems at the process boundary: TLC enumerates (option variant, query, block of records) and      *)
(* prints, per case, the options, the query and what `fzf --filter` must print and return (FilterOut, FilterExit).    *)
(* A block is the stream of ALL records of up to L symbols over a class-covering alphabet (empty record, all-blank     *)
(* records, leading / trailing blanks and tabs, delimiters, escape sequences, CR, and LF under --read0), printed       *)
(* once (BLOCK).  The driver feeds the block to the real binary under the options and compares stdout and the exit     *)
(* status with the prediction.  --with-nth form x delimiter x --ansi x block x query slot are enumerated completely;   *)
(* --header-lines, --tail, --tac, --read0 and (quick tier) the non-empty query rotate with the case number and Seed.   *)
(* Part = "content" (C06): every variant with the empty query - number, order and CONTENT of what is printed - plus     *)
(* the builders without --with-nth with the non-empty queries (what is searched is the record).                         *)
(* Part = "presentation" (C10): the --with-nth variants with the non-empty queries (what is searched is the rendition). *)
EXTENDS ItemsMenu, Json, IOUtils

CONSTANTS Thorough, Part
EnvInt(name, dflt) == IF name \in DOMAIN IOEnv /\ IOEnv[name] # "" THEN atoi(IOEnv[name]) ELSE dflt
Seed == EnvInt("VERIF_SEED", 1)
Shards == 16
VARIABLE k

(* blocks: [recs, read0] *)
B1 == <<"a", " ", "TAB", ",">>
B2 == <<"a", "b", " ", ",", ":", "SGR1", "e~">>
B3 == <<"a", " ", "LF", "CR", ",">>
B4 == <<"1", " ", ",", "SGR0", "han">>
Blocks == IF Thorough /\ Part = "content"
          THEN << [recs |-> AllWords(B1, 5), read0 |-> FALSE], [recs |-> AllWords(B2, 4), read0 |-> FALSE],
                  [recs |-> AllWords(B3, 4), read0 |-> TRUE], [recs |-> AllWords(B4, 4), read0 |-> TRUE] >>
          ELSE IF Thorough           \* every case renders every record: smaller blocks, all queries
          THEN << [recs |-> AllWords(B1, 5), read0 |-> FALSE], [recs |-> AllWords(B2, 3), read0 |-> FALSE],
                  [recs |-> AllWords(B3, 4), read0 |-> TRUE], [recs |-> AllWords(B4, 3), read0 |-> TRUE] >>
          ELSE << [recs |-> AllWords(B1, 4), read0 |-> FALSE], [recs |-> AllWords(B2, 3), read0 |-> FALSE],
                  [recs |-> AllWords(B3, 3), read0 |-> TRUE] >>
BlocksR == [bi \in 1..Len(Blocks) |-> Rotate(Blocks[bi].recs, Seed * 37)]      \* zero-arity: TLC evaluates it once
Block(bi) == BlocksR[bi]

GSpecs == IF Thorough THEN SpecMenu ELSE SpecMenuSmall
GDelims == IF Thorough THEN DelimMenu ELSE SubSeq(DelimMenu, 1, 4)
NSpec == Len(GSpecs) + 1         \* slot NSpec: no --with-nth
NDelim == Len(GDelims)
NBlock == Len(Blocks)
NQ == IF Thorough THEN Len(QMenu) ELSE 2
NCases == NSpec * NDelim * 2 * NBlock * NQ

(* mixed-radix decoding of the case number *)
SpecOf(c)  == ((c - 1) % NSpec) + 1
DelimOf(c) == (((c - 1) \div NSpec) % NDelim) + 1
AnsiOf(c)  == (((c - 1) \div (NSpec * NDelim)) % 2) = 1
BlockOf(c) == (((c - 1) \div (NSpec * NDelim * 2)) % NBlock) + 1
SlotOf(c)  == (((c - 1) \div (NSpec * NDelim * 2 * NBlock)) % NQ) + 1
QueryOf(c) == IF Thorough THEN QMenu[SlotOf(c)]
              ELSE IF SlotOf(c) = 1 THEN EmptyQ ELSE QMenu[2 + ((c + Seed) % (Len(QMenu) - 1))]
Mix(c) == c * 7 + Seed * 13
OptsOf(c) ==
    LET n == Len(Block(BlockOf(c))) IN
    Opts(SpecOf(c) < NSpec, IF SpecOf(c) < NSpec THEN GSpecs[SpecOf(c)] ELSE NoSpec, GDelims[DelimOf(c)], AnsiOf(c),
         IF Mix(c) % 3 = 0 THEN 2 ELSE 0,
         IF Mix(c) % 5 = 1 THEN n - 9 ELSE IF Mix(c) % 5 = 2 THEN n + 1 ELSE 0,
         Mix(c) % 4 = 2)

CaseOf(c) == LET recs == Block(BlockOf(c))
                 out == FilterOut(recs, OptsOf(c), QueryOf(c)) IN
             [id |-> c, block |-> BlockOf(c), read0 |-> Blocks[BlockOf(c)].read0, o |-> OptsOf(c), q |-> QueryOf(c),
              out |-> out, exit |-> IF out = <<>> THEN 1 ELSE 0,
              \* what the named deviation AnsiTokenPrefix would print instead (dev = FALSE: it cannot show in this case)
              dev |-> DevObservable(OptsOf(c), QueryOf(c)),
              outdev |-> IF DevObservable(OptsOf(c), QueryOf(c)) THEN FilterOutD(recs, OptsOf(c), QueryOf(c), Devs) ELSE <<>>]

GInit == k \in 1..(IF NCases < Shards THEN NCases ELSE Shards)
GNext == k + Shards <= NCases /\ k' = k + Shards
InPart(c) == IF Part = "content" THEN SlotOf(c) = 1 \/ SpecOf(c) = NSpec ELSE SlotOf(c) > 1 /\ SpecOf(c) < NSpec
Emit == /\ InPart(k) => PrintT(<<"CASE", ToJson(CaseOf(k))>>)
        /\ k <= NBlock => PrintT(<<"BLOCK", ToJson([id |-> k, recs |-> Block(k)])>>)
================================================================================
