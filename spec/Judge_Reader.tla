---------------------------- MODULE Judge_Reader ----------------------------
(* J binding of C06 at the process boundary: every record is one run of the real fzf binary                         *)
(*   fzf -f '' [+s] [--read0 --print0] [--header-lines H] [--tail T] [--with-nth ..]      (path = sorted|streaming)  *)
(* or one interactive session under a terminal whose final list was fetched through --listen (path = interactive).   *)
(* r.lens / r.unterm describe the stream that was written to stdin (the driver built it from exactly these records), *)
(* r.ids[i] is an opaque identity (length + digest) of the content of the i-th record, r.out the identities of the    *)
(* records fzf printed, in order, r.idx their item indices (interactive only).  The spec decides WHICH records, in    *)
(* WHICH order, under WHICH index.                                                                                     *)
EXTENDS FzfRecords, Json, IOUtils, TLC

TraceLog == ndJsonDeserialize(IOEnv.TRACE)
Shards == 16
VARIABLE l

Want(r, T) == Searchable(NumRecords([lens |-> r.lens, unterm |-> r.unterm]), r.header, T)
OutOf(r, w) == [i \in 1..Len(w) |-> r.ids[w[i].ord]]
IdxOf(w) == [i \in 1..Len(w) |-> w[i].index]
ExitOf(w) == IF w = <<>> THEN 1 ELSE 0          \* man fzf, EXIT STATUS: 0 normal, 1 no match

(* interactive only: the first H records are diverted to the HEADER - they are on display there (r.hdrSeen = the     *)
(* record numbers found on the captured screen among r.hdrLegible, the records the driver can recognise there: short  *)
(* enough, plain prefix, within the rows a header can take), also when the input has fewer than H records             *)
HdrOrds(r) == {i \in 1..NumRecords([lens |-> r.lens, unterm |-> r.unterm]) : i <= r.header}
HeaderShown(r) == ("hdrSeen" \in DOMAIN r) =>
                     {r.hdrSeen[i] : i \in 1..Len(r.hdrSeen)} = {r.hdrLegible[i] : i \in 1..Len(r.hdrLegible)} \cap HdrOrds(r)
ExplainedWith(r, T) ==
    LET w == Want(r, T) IN
    /\ r.out = OutOf(r, w)
    /\ r.path = "interactive" => r.idx = IdxOf(w) /\ r.total = Len(w) /\ HeaderShown(r)
    /\ r.path # "interactive" => r.exit = ExitOf(w)
Explained(r) == ExplainedWith(r, r.tail)
(* named deviation (DESIGN 9, F10): the run is explained by the same spec with --tail switched off *)
TailIgnored(r) == r.tail > 0 /\ ExplainedWith(r, 0)

JInit == l \in 1..(IF Len(TraceLog) < Shards THEN Len(TraceLog) ELSE Shards)
JNext == l + Shards <= Len(TraceLog) /\ l' = l + Shards
JInv == LET r == TraceLog[l] IN
        \/ Explained(r)
        \/ PrintT(<<"MISMATCH", l, IF TailIgnored(r) THEN "tail_ignored" ELSE "other">>)
=============================================================================
