---------------------------- MODULE Judge_ServerProc ----------------------------
(* Process-level judge for C16: the real fzf under a tty with --listen; a POSTed action list must be executed as   *)
(* FzfServer.Executed says (everything for a local or --listen-unsafe listener; without the process-executing      *)
(* actions for a non-local one), nothing without the exact API key, and GET never changes state.                   *)
(*   record: acts (sequence of <<name, arg>>), local, unsafe, keyOk, status, ran (names+args of the actions the     *)
(*   terminal loop actually performed, from the term.act hook events), marks (marker files created by commands)     *)
EXTENDS FzfServer, Json, IOUtils

TraceLog == ndJsonDeserialize(IOEnv.TRACE)
Shards == 8
VARIABLE l
JInit == l \in 1..(IF Len(TraceLog) < Shards THEN Len(TraceLog) ELSE Shards)
JNext == l + Shards <= Len(TraceLog) /\ l' = l + Shards
Want(r) == IF r.keyOk THEN Executed(r.acts, r.local, r.unsafe) ELSE <<>>
(* k = "get": a GET with the given limit / offset on a session whose match list is `all` and selection `selAll`;   *)
(*   it must answer 200 with exactly the slices, the counts of the whole lists, and leave the state as it was      *)
ExplainedGet(r) ==
    /\ r.status = 200
    /\ r.got = DumpSlice(r.all, r.limit, r.offset)
    /\ r.selGot = DumpSlice(r.selAll, r.limit, r.offset)
    /\ r.matchCount = Len(r.all)
    /\ r.after = r.before
    /\ r.alive
Explained(r) ==
  IF "k" \in DOMAIN r /\ r.k = "get" THEN ExplainedGet(r) ELSE
    /\ r.ran = Want(r)
    /\ r.status = (IF r.keyOk THEN 200 ELSE 401)
    \* a command ran iff its action was executed: marker k is created iff action k is in Want and is a marker action
    /\ \A i \in 1..Len(r.acts) : (\E k \in 1..Len(r.marks) : r.marks[k] = r.acts[i][2]) => (\E j \in 1..Len(Want(r)) : Want(r)[j] = r.acts[i])
JInv == Explained(TraceLog[l]) \/ PrintT(<<"MISMATCH", l>>)
=============================================================================
