CONSTANTS
  KeySpace <- MCKeys2
  MaxLines = 0
  KeyAlphabet <- KeyAlpha6
  KeyMaxLen = 0
  KeyScores <- KeyScores3
INIT KInit
NEXT KNext
INVARIANTS KMeta
CHECK_DEADLOCK FALSE
