CONSTANTS
  MaxItems = 4
  ChunkSize = 2
  QueryCacheMax = 1
  MaxEdits = 3
  Queries = {"", "a", "b", "ab"}
  MaxReloads = 0
  TailN = 0
  BumpOnTrim = TRUE
  StalePrevCount = FALSE
  AllowOlder = FALSE
SPECIFICATION Spec
INVARIANTS PublishedIsFilter ShownIsFilter MergerCacheSound ChunkCacheSound Convergence
CHECK_DEADLOCK FALSE
