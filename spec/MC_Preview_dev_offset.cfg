CONSTANTS
  MaxUI = 2
  Kinds = {"finite"}
  ShowBumpsVersion = TRUE
  TemplateHasQ = FALSE
  H = 2
  LensKind = "mixed"
  WithReload = FALSE
  ReloadBumpsVersion = TRUE
  WithHideKeep = FALSE
  Follow = FALSE
  WithScroll = TRUE
  DelayedSetsVersion <- TreeDelayedSetsVersion
SPECIFICATION Spec
INVARIANTS TypeOK OneAlive ConvergenceLostOffsetReset
CHECK_DEADLOCK FALSE
