CONSTANTS
  MaxUI = 2
  Kinds = {"finite"}
  ShowBumpsVersion = TRUE
  TemplateHasQ = FALSE
  H = 2
  LensKind = "mixed"
  WithScroll = TRUE
  DelayedSetsVersion <- TreeDelayedSetsVersion
SPECIFICATION Spec
INVARIANTS TypeOK OneAlive ConvergenceLostOffsetReset
CHECK_DEADLOCK FALSE
