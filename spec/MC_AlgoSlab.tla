----------------------------- MODULE MC_AlgoSlab -----------------------------
(* C05 (API level): call histories on one scratch slab.                                                          *)
(*  MC_AlgoSlab.cfg : every history over a small argument space and every slab content: the result of a call is   *)
(*                    the function F of its arguments (action property Pure, invariant PureInv).                  *)
(*  Gen_AlgoSlab.cfg: random histories (TLC -simulate) over the large enumerated argument space, printed with the *)
(*                    slab content before every call and the predicted result.                                    *)
EXTENDS AlgoEnum, FzfAlgoSlab, Json, TLC

CONSTANTS Depth, SlabCaps      \* history length; slab capacities (int16 area) a history may run on, -1 = no slab
MCFills == {"zero", "max", "neg", "rnd", "stale"}

(* argument records: the n-th matcher / direction of enumerated case (a, i), on a slab of capacity cap *)
ArgOf(a, i, n, cap) == LET c == CaseOf(a, i) IN
    [kind |-> Kinds[(n + 1) \div 2], t |-> c.t, P |-> c.p, cs |-> c.cs, norm |-> c.norm, fwd |-> Dirs[2 - (n % 2)],
     scheme |-> c.sch, cap16 |-> cap, live |-> c.live]
(* small exhaustive argument space: binary alphabet, all matchers, both directions, two capacities *)
SmallIdx == {i \in 0..(Total(6) - 1) : i % 131 = 7}
MCArgSpace == {x \in {ArgOf(6, i, n, cap) : i \in SmallIdx, n \in 1..(2 * Len(Kinds)), cap \in {-1, 4}} : x.live}

(* ---- history export *)
VARIABLES hist, cap
HInit == AInit /\ hist = <<>> /\ cap \in SlabCaps
RandArg == LET a == RandomElement(1..5)
               i == RandomElement(0..(Total(a) - 1))
               n == RandomElement(1..(2 * Len(Kinds)))
           IN ArgOf(a, i, n, cap)
HNext == /\ Len(hist) < Depth
         /\ LET a == RandArg IN
              /\ a.live
              /\ Call(a)
              /\ hist' = Append(hist, [kind |-> a.kind, t |-> a.t, p |-> a.P, cs |-> a.cs, norm |-> a.norm, fwd |-> a.fwd,
                                       sch |-> a.scheme, fill |-> slab,      \* what the slab holds when the call starts
                                       exp |-> <<result'.s, result'.e, result'.sc, result'.pos>>])
         /\ UNCHANGED cap
HEmit == Len(hist) = Depth => PrintT(<<"CASE", ToJson([cap16 |-> cap, steps |-> hist])>>)
(* exhaustive configuration: hist / cap frozen *)
MCInit == AInit /\ hist = <<>> /\ cap = 0
MCNext == ANext /\ UNCHANGED <<hist, cap>>
=============================================================================
