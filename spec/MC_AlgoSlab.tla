----------------------------- MODULE MC_AlgoSlab -----------------------------
(* C05 (API level): call histories on one scratch slab.                                                          *)
(*  MC_AlgoSlab.cfg : every history over a small argument space and every slab content: the result of a call is   *)
(*                    the function F of its arguments (action property Pure, invariant PureInv).                  *)
(*  Gen_AlgoSlab.cfg: random histories (TLC -simulate) over the large enumerated argument space, printed with the *)
(*                    slab content before every call and the predicted result.                                    *)
EXTENDS AlgoEnum, FzfAlgoSlab, Json, TLC

CONSTANTS Depth, SlabCaps      \* history length; slab capacities (int16 area) a history may run on, -1 = no slab
NoArgs == {}
MCFills == {"zero", "max", "neg", "rnd", "stale"}

(* argument records: the n-th matcher / direction of enumerated case (a, i), on a slab of capacity cap *)
ArgOf(a, i, n, cap) == LET c == CaseArgs(a, i) IN
    [kind |-> Kinds[(n + 1) \div 2], t |-> c.t, P |-> c.p, cs |-> c.cs, norm |-> c.norm, fwd |-> Dirs[2 - (n % 2)],
     scheme |-> c.sch, cap16 |-> cap, live |-> c.live]
(* small exhaustive argument space: binary alphabet, all matchers, both directions, two capacities *)
SmallIdx == {i \in 0..(Total(6) - 1) : i % 397 = 7}
MCArgSpace == {x \in {ArgOf(6, i, n, cap) : i \in SmallIdx, n \in 1..(2 * Len(Kinds)), cap \in {-1, 4}} : x.live}

(* ---- history export *)
VARIABLES hist, cap
HInit == AInit /\ hist = <<>> /\ cap \in SlabCaps
(* one random number per step (bound once by the quantifier), decoded arithmetically; V2 gets half of the calls *)
KindPick == <<1, 2, 1, 2, 1, 2, 1, 2, 3, 4, 5, 6, 7, 8, 9, 10, 11, 12, 13, 14>>
ArgFromPick(k) == LET a == (k % 5) + 1
                      t == StrOf(Alphas[a].t, (k \div 5) % NT(a))
                      p == StrOf(Alphas[a].p, (k \div 11) % NP(a))
                      cs == (k \div 13) % 2 = 1 \/ p # LowerSeq(p)
                      nrm == (k \div 17) % 2 = 1 /\ HasAccents(a) /\ p = NormSeq(p)
                      n == KindPick[((k \div 7) % Len(KindPick)) + 1]
                  IN [kind |-> Kinds[(n + 1) \div 2], t |-> t, P |-> p, cs |-> cs, norm |-> nrm, fwd |-> Dirs[2 - (n % 2)],
                      scheme |-> Schemes[((k \div 19) % 3) + 1], cap16 |-> cap, live |-> Admissible(p, cs, nrm)]
HNext == /\ Len(hist) < Depth
         /\ \E k \in {RandomElement(0..1000000000)} :
              LET a == ArgFromPick(k) IN
              /\ a.live /\ Call(a)
              /\ hist' = Append(hist, [kind |-> a.kind, t |-> a.t, p |-> a.P, cs |-> a.cs, norm |-> a.norm, fwd |-> a.fwd,
                                       sch |-> a.scheme, fill |-> slab,      \* what the slab holds when the call starts
                                       exp |-> <<result'.s, result'.e, result'.sc, result'.pos>>])
         /\ UNCHANGED cap
HEmit == Len(hist) = Depth => PrintT(<<"CASE", ToJson([cap16 |-> cap, steps |-> hist])>>)
(* exhaustive configuration: hist / cap frozen *)
MCInit == AInit /\ hist = <<>> /\ cap = 0
MCNext == ANext /\ UNCHANGED <<hist, cap>>
=============================================================================
