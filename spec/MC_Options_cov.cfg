CONSTANTS
  Sample = 1000000
  SimDepth = 0
INIT Init
NEXT Next
INVARIANTS TypeOK
CHECK_DEADLOCK FALSE
