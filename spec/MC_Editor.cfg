CONSTANTS
  Alphabet = {"a", " ", "-"}
  MaxLen = 3
  Items = {1, 2, 3}
  Lists <- MCListsQ
  MaxItemsC = 2
  CycleC = TRUE
  LayoutC = "default"
  ScrollOffC = 1
  InputlessC = FALSE
  Multis = {2}
  Tracks = {0}
  ActFilter = "query"
INIT Init
NEXT Next
CONSTRAINT Bound
INVARIANTS InvType InvLimit InvNoMulti InvKillYank
CHECK_DEADLOCK FALSE
