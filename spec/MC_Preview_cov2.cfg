CONSTANTS
  MaxUI = 2
  Kinds = {"finite", "closed"}
  ShowBumpsVersion = TRUE
  TemplateHasQ = FALSE
  H = 2
  LensKind = "one"
  WithReload = FALSE
  ReloadBumpsVersion = TRUE
  WithHideKeep = TRUE
  Follow = FALSE
  WithScroll = FALSE
  DelayedSetsVersion <- TreeDelayedSetsVersion
SPECIFICATION Spec
INVARIANTS TypeOK OneAlive ShownIsStarted Convergence ShowFixed ReloadFixed DelayedFixed RowsOfOneRequest ExitClean
CHECK_DEADLOCK FALSE
