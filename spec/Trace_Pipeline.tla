---------------------------- MODULE Trace_Pipeline ----------------------------
(* Trace validation for FzfPipeline: executions of the real interactive fzf (hooks in core.go / matcher.go /      *)
(* terminal.go, one NDJSON event per linearization point, projected by lib/props/c08.py) must be behaviours of     *)
(* the request/serve/publish/show protocol, and every published or shown result must be the sequential filter of   *)
(* the snapshot it was computed for.  Oracle[key] = what a fresh `fzf --filter` prints for (query, first n input    *)
(* lines of the input the request's snapshot belongs to, minus the items excluded when the request was issued,       *)
(* --nth in effect, sort flag) - the property's own yardstick; filter mode itself is bound to the specification by   *)
(* C01/C04.  cfg (on reset events) names that configuration; pcfg the one before the latest exclusion.               *)
(*                                                                                                                  *)
(* Events (field ev):                                                                                               *)
(*   start      sid tail                              a new session begins (state reset); tail = --tail N or 0      *)
(*   (reset / pick / cachehit / cancelled / publish also carry lo = index of the first item of the snapshot)      *)
(*   reset      q count final sort rev cancel         coordinator is about to call Matcher.Reset (slot "reset" if    *)
(*                                                    cancel, else "retry"; a later Set of the same slot overwrites) *)
(*   pick       q count final sort rev saw            matcher empties the box; saw = the requests it found there     *)
(*                                                    (logged under the box lock), the event's own fields = the one  *)
(*                                                    it goes on to serve                                            *)
(*   cachehit / cancelled                             matcher serves from the merger cache / abandons the scan       *)
(*   publish    q count final sort rev res            matcher hands a result to the coordinator                      *)
(*   list       res n                                 terminal installs a result list (UpdateList)                   *)
(*   query      q                                     the terminal's query line after a loop iteration               *)
(*   end        q total sort                          driver observed quiescence: input ended, nothing pending       *)
(*   mid        (same fields)                         the same observation in the middle of a session                *)
EXTENDS Integers, Sequences, FiniteSets, TLC, Json, IOUtils

TraceLog == ndJsonDeserialize(IOEnv.TRACE)
Oracle == JsonDeserialize(IOEnv.TABLES)
None == [none |-> TRUE]

VARIABLES l,        \* next event
          sid, issued, no, picked, pubs, shown, lastReset, dev, ended,
          tail      \* the session's --tail N (0 = none)
vars == <<l, sid, issued, no, picked, pubs, shown, lastReset, dev, ended, tail>>

(* a snapshot is the window of `count` items starting at item index lo (lo > 0 only under --tail) *)
Key(s, q, lo, n, sort, cfg) == ToString(s) \o "|" \o q \o "|" \o ToString(lo) \o "|" \o ToString(n) \o "|" \o (IF sort THEN "s" ELSE "u") \o "|" \o ToString(cfg)
ReqOf(e, n) == [q |-> e.q, lo |-> e.lo, count |-> e.count, final |-> e.final, sort |-> e.sort, rev |-> e.rev, no |-> n, cfg |-> e.cfg, pcfg |-> e.pcfg]
Same(r, e) == r.q = e.q /\ r.lo = e.lo /\ r.count = e.count /\ r.final = e.final /\ r.sort = e.sort /\ r.rev = e.rev

(* issued[k]: requests of slot k announced by the coordinator and not yet taken by the matcher, oldest first.      *)
(* The announcement (hook) precedes the actual Set on the box, so the matcher may find only a prefix of them there. *)
Init == /\ l = 1 /\ sid = -1 /\ issued = [retry |-> <<>>, reset |-> <<>>] /\ no = 0 /\ picked = None /\ pubs = <<>>
        /\ shown = None /\ lastReset = None /\ dev = {} /\ ended = FALSE /\ tail = 0

Ev == TraceLog[l]
Is(name) == l <= Len(TraceLog) /\ Ev.ev = name /\ l' = l + 1

TStart == /\ Is("start")
          /\ sid' = Ev.sid /\ issued' = [retry |-> <<>>, reset |-> <<>>] /\ no' = 0 /\ picked' = None /\ pubs' = <<>>
          /\ shown' = None /\ lastReset' = None /\ dev' = {} /\ ended' = FALSE /\ tail' = Ev.tail

(* C13 / C06: a request carries a frozen window of the input: everything read so far, or its last N records under     *)
(* --tail N; within one input generation the window only moves forward                                                *)
Window(e) == /\ e.lo >= 0 /\ e.count >= 0
             /\ (tail = 0 => e.lo = 0)
             /\ (tail > 0 => e.count <= tail /\ (e.lo > 0 => e.count = tail))
             /\ (lastReset # None /\ lastReset.rev[1] = e.rev[1] =>
                    e.lo >= lastReset.lo /\ e.lo + e.count >= lastReset.lo + lastReset.count)

TReset == /\ Is("reset") /\ Window(Ev)
          /\ no' = no + 1
          /\ issued' = [issued EXCEPT ![IF Ev.cancel THEN "reset" ELSE "retry"] = Append(@, ReqOf(Ev, no + 1))]
          /\ lastReset' = ReqOf(Ev, no + 1)
          /\ UNCHANGED <<sid, picked, pubs, shown, dev, ended, tail>>

Kinds == {"retry", "reset"}
(* candidates for "which announced request of slot k did the matcher find in the box": any one that looks like what *)
(* it saw (announcements with identical fields are indistinguishable: every reading is tried); {0} if slot k empty  *)
SawKind(k) == \E j \in 1..Len(Ev.saw) : Ev.saw[j].kind = k
Cand(k) == IF SawKind(k)
           THEN {i \in 1..Len(issued[k]) : \E j \in 1..Len(Ev.saw) : Ev.saw[j].kind = k /\ Same(issued[k][i], Ev.saw[j])}
           ELSE {0}
(* the matcher must go on with the most recent request it found; serving the older of two and dropping the newer  *)
(* is the deviation ServeOlderSlot (finding F5)                                                                    *)
TPick == /\ Is("pick") /\ Len(Ev.saw) > 0
         /\ \E ir \in Cand("retry"), ic \in Cand("reset") :
              LET idx == [k \in Kinds |-> IF k = "retry" THEN ir ELSE ic]
                  seen == {k \in Kinds : idx[k] > 0}
                  newest == CHOOSE k \in seen : \A j \in seen : issued[j][idx[j]].no <= issued[k][idx[k]].no
                  (* the projection may learn only at pick time which older configuration has refilled the caches *)
                  WithP(r) == IF Ev.pcfg >= 0 THEN [r EXCEPT !.pcfg = Ev.pcfg] ELSE r
              IN /\ IF Same(issued[newest][idx[newest]], Ev)
                    THEN picked' = WithP(issued[newest][idx[newest]]) /\ dev' = dev
                    ELSE \E k \in seen : /\ Same(issued[k][idx[k]], Ev) /\ picked' = WithP(issued[k][idx[k]])
                                         /\ dev' = dev \cup {"ServeOlderSlot"}
                 /\ issued' = [k \in Kinds |-> SubSeq(issued[k], idx[k] + 1, Len(issued[k]))]
         /\ UNCHANGED <<sid, no, pubs, shown, lastReset, ended, tail>>

TCacheHit == /\ Is("cachehit") /\ picked # None /\ Same(picked, Ev)
             /\ \E i \in 1..Len(pubs) : pubs[i].q = Ev.q /\ pubs[i].lo = Ev.lo /\ pubs[i].count = Ev.count /\ pubs[i].sort = Ev.sort
                                         /\ pubs[i].final = Ev.final /\ pubs[i].rev = Ev.rev
             /\ UNCHANGED <<sid, issued, no, picked, pubs, shown, lastReset, dev, ended, tail>>

(* a scan is abandoned only for a cancelling request that arrived after it was picked *)
TCancelled == /\ Is("cancelled") /\ picked # None /\ Same(picked, Ev) /\ issued["reset"] # <<>>
              /\ picked' = None
              /\ UNCHANGED <<sid, issued, no, pubs, shown, lastReset, dev, ended, tail>>

(* C13/C08: the published result is the sequential filter of exactly the snapshot the request carried *)
(* Deviation StaleChunkCache (finding F17): when the coordinator applies an exclusion or an nth change it clears the  *)
(* per-chunk result cache, but a request of the previous configuration that is being scanned at that moment puts its  *)
(* entries back, and later requests are answered chunk-wise from a mix of both configurations.  pcfg (set by the       *)
(* projection) names the configuration that was in flight across the last cache clear, if any.  A mixed result lies    *)
(* between the intersection and the union of the two full results: Oracle["B|key|pcfg"] = <<|A /\ B|, |A \/ B|,        *)
(* ids of the union..., -1, ids of the intersection...>> (id lists only when they are short).                           *)
ResSize(r) == IF Len(r) = 2 /\ r[1] < 0 THEN -r[1] ELSE Len(r)
IsIds(r) == ~(Len(r) = 2 /\ r[1] < 0)
Mixed(res, key, pc) ==
    LET b == Oracle["B|" \o key \o "|" \o ToString(pc)]
        cut == CHOOSE i \in 3..Len(b) : b[i] = -1
        uni == {b[i] : i \in 3..(cut - 1)}
        int == {b[i] : i \in (cut + 1)..Len(b)}
    IN /\ ResSize(res) >= b[1] /\ ResSize(res) <= b[2]
       /\ (IsIds(res) /\ b[2] <= 200) => (\A i \in 1..Len(res) : res[i] \in uni) /\ (\A x \in int : \E i \in 1..Len(res) : res[i] = x)
TPublish == /\ Is("publish") /\ picked # None /\ Same(picked, Ev)
            /\ \/ Ev.res = Oracle[Key(sid, Ev.q, Ev.lo, Ev.count, Ev.sort, picked.cfg)] /\ dev' = dev
               \/ /\ Ev.res # Oracle[Key(sid, Ev.q, Ev.lo, Ev.count, Ev.sort, picked.cfg)] /\ picked.pcfg >= 0
                  /\ Mixed(Ev.res, Key(sid, Ev.q, Ev.lo, Ev.count, Ev.sort, picked.cfg), picked.pcfg)
                  /\ dev' = dev \cup {"StaleChunkCache"}
            /\ pubs' = Append(pubs, [q |-> Ev.q, lo |-> Ev.lo, count |-> Ev.count, final |-> Ev.final, sort |-> Ev.sort, rev |-> Ev.rev,
                                     res |-> Ev.res, no |-> picked.no])
            /\ picked' = None
            /\ UNCHANGED <<sid, issued, no, shown, lastReset, ended, tail>>

(* the terminal shows a published result - one of the last two (EvtSearchFin is a one-slot box the coordinator     *)
(* may read just before a newer publish lands), never an older one again                                            *)
TList == /\ Is("list") /\ pubs # <<>>
         /\ \E i \in {Len(pubs), Len(pubs) - 1} \cap (1..Len(pubs)) :
               /\ pubs[i].res = Ev.res
               /\ (shown # None => pubs[i].no >= shown.no)
               /\ shown' = pubs[i]
         /\ UNCHANGED <<sid, issued, no, picked, pubs, lastReset, dev, ended, tail>>

TQuery == /\ Is("query") /\ UNCHANGED <<sid, issued, no, picked, pubs, shown, lastReset, dev, ended, tail>>

(* C08: at quiescence the list is the fresh filter of the current query over everything loaded *)
(* e.wcfg: the configuration with every exclusion the USER asked for (terminal side).  If the shown list is the    *)
(* filter under the coordinator's configuration but not under the user's, an exclusion was lost on the way: the    *)
(* one-slot EvtSearchNew box was overwritten by the next query change before the coordinator saw it - deviation    *)
(* LostExclusion (finding F21).                                                                                     *)
Converged(e) == /\ shown # None /\ shown.final /\ shown.count = e.total /\ shown.lo = e.wlo /\ shown.sort = e.sort
                /\ shown.res = Oracle[Key(sid, e.q, e.wlo, e.total, e.sort, e.wcfg)]
                /\ lastReset # None /\ shown.no = lastReset.no
                /\ e.getres = shown.res /\ e.matchCount = (IF Len(shown.res) = 2 /\ shown.res[1] < 0 THEN -shown.res[1] ELSE Len(shown.res))
TEnd == /\ Is("end") /\ issued["retry"] = <<>> /\ issued["reset"] = <<>> /\ picked = None
        /\ \/ (dev = {} => Converged(Ev)) /\ dev' = dev
           \/ /\ dev = {} /\ ~Converged(Ev) /\ lastReset # None /\ Ev.wcfg # lastReset.cfg
              /\ Converged([Ev EXCEPT !.wcfg = lastReset.cfg, !.wlo = Ev.lo])
              /\ dev' = {"LostExclusion"}
        /\ ended' = TRUE
        /\ UNCHANGED <<sid, issued, no, picked, pubs, shown, lastReset, tail>>

(* quiescence in the middle of a session (input complete, nothing pending, nothing moving): the same convergence *)
TMid == /\ Is("mid") /\ issued["retry"] = <<>> /\ issued["reset"] = <<>> /\ picked = None
        /\ \/ (dev = {} => Converged(Ev)) /\ dev' = dev
           \/ /\ dev = {} /\ ~Converged(Ev) /\ lastReset # None /\ Ev.wcfg # lastReset.cfg
              /\ Converged([Ev EXCEPT !.wcfg = lastReset.cfg, !.wlo = Ev.lo])
              /\ dev' = {"LostExclusion"}
        /\ UNCHANGED <<sid, issued, no, picked, pubs, shown, lastReset, ended, tail>>

Next == TMid \/ TStart \/ TReset \/ TPick \/ TCacheHit \/ TCancelled \/ TPublish \/ TList \/ TQuery \/ TEnd
Spec == Init /\ [][Next]_vars

Accepted == TLCGet("stats").diameter - 1 = Len(TraceLog)
(* reported per session when its end is reached: with or without the help of a deviation action *)
DevSeen == ended => PrintT(<<"END", sid, IF dev = {} THEN 0 ELSE IF dev = {"StaleChunkCache"} THEN 2 ELSE IF dev = {"LostExclusion"} THEN 3 ELSE 1>>)
=============================================================================
