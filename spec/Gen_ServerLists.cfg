INIT GInitList
NEXT GNextList
INVARIANTS EmitList RoundTripInv
CHECK_DEADLOCK FALSE
