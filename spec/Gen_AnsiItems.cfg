CONSTANTS
  AlphaSeq <- AlphaFull
  Prefix <- PrefNone
  MaxLen = 0
  Pres = {0}
  Depth <- EnvDepth
INIT NInit
NEXT NNextSim
INVARIANTS NEmit
CHECK_DEADLOCK FALSE
