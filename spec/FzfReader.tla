------------------------------ MODULE FzfReader ------------------------------
(* Reader.feed (src/reader.go): a byte stream arrives in read() results of arbitrary sizes and is cut into records. *)
(* The reader reads into the free part of a slab (at most BufferSize bytes at a time), hands out records that lie   *)
(* completely inside one read as slices OF THE SLAB (no copy), stitches records that straddle reads in a private     *)
(* `leftover` buffer, and takes a fresh slab when the current one is full.  Items keep those slices for ever, so      *)
(* slab bytes that were handed out must never be written again.                                                       *)
(*                                                                                                                    *)
(* The stream is abstract: record lengths + "last record unterminated" (FzfRecords).  Contents are byte RANGES of     *)
(* the stream, so the same module runs with buffer 3 / slab 6 (all chunkings, exhaustive) and with the real           *)
(* 64K / 128K (behaviour export).                                                                                     *)
EXTENDS FzfRecords, FiniteSets, TLC
(* IdleRead (binding rule, Judge_Feed): a read() that returns no bytes and no error is not an event of this model - the  *)
(* code retries it (up to 100 times in a row) with the same buffer; the driver produces such reads and TLC skips them.   *)

CONSTANTS BufferSize,   \* readerBufferSize: most bytes one read() may deliver
          SlabSize,     \* readerSlabSize
          MaxRecords,   \* streams have 0..MaxRecords records
          RecLens,      \* record lengths to choose from
          Exhaustive    \* TRUE: Read(n) for every n the OS may return; FALSE: the interesting sizes only

Heap == <<-1, 0, 0>>    \* location of an item that owns a private copy (stitched from leftover)

VARIABLES lens, unterm, target,   \* the stream, composed record by record until Len(lens) = target
          pos,        \* bytes consumed
          slabNo,     \* ordinal of the current slab
          slabOff,    \* write cursor in the current slab (slabFree = SlabSize - slabOff)
          leftover,   \* bytes of the record in progress that were copied out of the slab
          emitted,    \* items pushed so far: [bytes, loc]; loc = <<slab, lo, hi>> for an aliasing slice, or Heap
          lent,       \* slab regions handed to items
          done
vars == <<lens, unterm, target, pos, slabNo, slabOff, leftover, emitted, lent, done>>

S == [lens |-> lens, unterm |-> unterm]
Composed == Len(lens) = target
Cur == [pos |-> pos, slabNo |-> slabNo, slabOff |-> slabOff, leftover |-> leftover, emitted |-> emitted, lent |-> lent]
St0 == [pos |-> 0, slabNo |-> 0, slabOff |-> 0, leftover |-> <<>>, emitted |-> <<>>, lent |-> {}]

-------------------------------------------------------------------------------
(* The reader as a step function on a state record (the judge folds it over a recorded list of read sizes) *)
RECURSIVE NextDelimFrom(_, _, _, _)
NextDelimFrom(s, p, i, start) ==               \* start = RecStart(s, i), carried along
    IF i > Len(s.lens) THEN -1
    ELSE IF Terminated(s, i) /\ start + s.lens[i] >= p THEN start + s.lens[i]
    ELSE NextDelimFrom(s, p, i + 1, start + s.lens[i] + 1)
NextDelim(s, p) == NextDelimFrom(s, p, 1, 0)   \* position of the first delimiter at or after p, -1 if none

Scope(st) == Min2(BufferSize, SlabSize - st.slabOff)           \* len(p) the reader offers to read()
Cap(s, st) == Min2(Scope(st), Total(s) - st.pos)               \* most bytes read() can return now

(* bytes [p, hi) of the stream have just been read to the slab at offset st.slabOff + (p - st.pos) *)
RECURSIVE Scan(_, _, _, _, _, _)
Scan(s, st, p, hi, left, acc) ==
    LET d == NextDelim(s, p) IN
    IF d = -1 \/ d >= hi
      THEN [items |-> acc.items, regions |-> acc.regions, left |-> Cat(left, p, hi)]
      ELSE LET alias == left = <<>>
               loc   == IF alias THEN <<st.slabNo, st.slabOff + (p - st.pos), st.slabOff + (d - st.pos)>> ELSE Heap
               item  == [bytes |-> Cat(left, p, d), loc |-> loc]
           IN  Scan(s, st, d + 1, hi, <<>>,
                    [items |-> Append(acc.items, item),
                     regions |-> IF alias /\ p < d THEN acc.regions \cup {loc} ELSE acc.regions])

ReadStep(s, st, n) ==
    LET sc == Scan(s, st, st.pos, st.pos + n, st.leftover, [items |-> <<>>, regions |-> {}]) IN
    [pos |-> st.pos + n, slabNo |-> st.slabNo, slabOff |-> st.slabOff + n, leftover |-> sc.left,
     emitted |-> st.emitted \o sc.items, lent |-> st.lent \cup sc.regions]
RotateStep(st) == [st EXCEPT !.slabNo = @ + 1, !.slabOff = 0]
EofStep(st) == [st EXCEPT !.leftover = <<>>,
                          !.emitted = IF st.leftover = <<>> THEN @ ELSE Append(@, [bytes |-> st.leftover, loc |-> Heap])]

(* read sizes worth trying with the real constants: tiny, up to / just before / just past the next delimiter,       *)
(* to / just before the end of the slab, the full buffer                                                             *)
Interesting(s, st) ==
    LET cap == Cap(s, st)
        d == NextDelim(s, st.pos)
        dd == IF d = -1 THEN cap ELSE d - st.pos
        free == SlabSize - st.slabOff
    IN  {n \in {1, 2, dd - 1, dd, dd + 1, dd + 2, free - 1, free, BufferSize - 1, BufferSize, cap - 1, cap} :
            1 <= n /\ n <= cap}
Sizes(s, st) == IF Exhaustive THEN 1..Cap(s, st) ELSE Interesting(s, st)

-------------------------------------------------------------------------------
Init == /\ lens = <<>> /\ unterm \in BOOLEAN /\ target \in 0..MaxRecords
        /\ pos = 0 /\ slabNo = 0 /\ slabOff = 0 /\ leftover = <<>> /\ emitted = <<>> /\ lent = {} /\ done = FALSE

Set(st) == /\ pos' = st.pos /\ slabNo' = st.slabNo /\ slabOff' = st.slabOff /\ leftover' = st.leftover
           /\ emitted' = st.emitted /\ lent' = st.lent

AddRecord(l) == /\ ~Composed /\ lens' = Append(lens, l)
                /\ UNCHANGED <<unterm, target, pos, slabNo, slabOff, leftover, emitted, lent, done>>
Read(n) == /\ Composed /\ ~done /\ n \in 1..Cap(S, Cur)
           /\ Set(ReadStep(S, Cur, n)) /\ UNCHANGED <<lens, unterm, target, done>>
SlabRotate == /\ Composed /\ ~done /\ slabOff = SlabSize
              /\ Set(RotateStep(Cur)) /\ UNCHANGED <<lens, unterm, target, done>>
(* read() reports end of input (0 bytes, EOF; never together with data).  The full slab is replaced first. *)
Eof == /\ Composed /\ ~done /\ pos = Total(S) /\ slabOff < SlabSize
       /\ Set(EofStep(Cur)) /\ done' = TRUE /\ UNCHANGED <<lens, unterm, target>>

Next == \/ \E l \in RecLens : AddRecord(l)
        \/ \E n \in Sizes(S, Cur) : Read(n)
        \/ SlabRotate \/ Eof
Spec == Init /\ [][Next]_vars

-------------------------------------------------------------------------------
(* Properties *)
Bytes(items) == [i \in 1..Len(items) |-> items[i].bytes]

(* C06: what has been pushed is always a prefix of Records(stream), in order, byte for byte ...                    *)
EmittedIsPrefix == Composed => /\ Len(emitted) <= NumRecords(S)
                               /\ Bytes(emitted) = SubSeq(Records(S), 1, Len(emitted))
(* ... it is everything that is complete so far ...                                                                 *)
EmittedIsTimely == Composed /\ ~done =>
                      Len(emitted) = Cardinality({i \in 1..Len(lens) : Terminated(S, i) /\ RecEnd(S, i) < pos})
(* ... and after EOF it is all of it (final unterminated record included, empty records included)                   *)
CompleteAtEof == done => Bytes(emitted) = Records(S)
(* the record in progress is never lost or duplicated *)
LeftoverIsPending == Composed /\ ~done =>
                        LET k == Len(emitted) + 1 IN
                        leftover = IF k > Len(lens) THEN <<>> ELSE Seg(RecStart(S, k), pos)

(* memory: a slice of a slab really holds the bytes the item is supposed to have ...                                *)
CursorIsPos == pos = slabNo * SlabSize + slabOff
AliasFaithful == \A i \in 1..Len(emitted) :
                    LET it == emitted[i] IN
                    it.loc # Heap => it.bytes = Seg(it.loc[1] * SlabSize + it.loc[2], it.loc[1] * SlabSize + it.loc[3])
(* ... no region is lent twice ...                                                                                   *)
Disjoint(a, b) == a[1] # b[1] \/ a[3] <= b[2] \/ b[3] <= a[2] \/ a[2] = a[3] \/ b[2] = b[3]
NoRegionLentTwice == \A i, j \in 1..Len(emitted) :
                        (i < j /\ emitted[i].loc # Heap /\ emitted[j].loc # Heap) => Disjoint(emitted[i].loc, emitted[j].loc)
LentIsWhatItemsHold == lent = {emitted[i].loc : i \in {j \in 1..Len(emitted) : emitted[j].loc # Heap /\ emitted[j].bytes # <<>>}}
(* ... and nothing that was lent is ever written again: every write goes to [slabOff, slabOff') of the current slab *)
LentBelowCursor == \A r \in lent : r[1] < slabNo \/ (r[1] = slabNo /\ r[3] <= slabOff)
NoOverwrite == [][pos' > pos => \A r \in lent : Disjoint(r, <<slabNo, slabOff, slabOff'>>)]_vars
ItemsImmutable == [][SubSeq(emitted', 1, Len(emitted)) = emitted]_vars

TypeOK == /\ slabOff \in 0..SlabSize /\ pos \in 0..Total(S) /\ Len(lens) <= target
================================================================================
