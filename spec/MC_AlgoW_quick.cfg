CONSTANTS
  MaxT = 3
  MaxP = 2
  Shards = 64
  AlphaSel = {1, 2, 3, 4, 5, 6}
INIT EInit
NEXT ENext
INVARIANT TheoremsWitness
CHECK_DEADLOCK FALSE
