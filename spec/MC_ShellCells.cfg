CONSTANTS
  Alphabet <- DataSyms
  MaxLen = 0
INIT Init
NEXT Next
INVARIANTS InvExecutorReadsBack
CHECK_DEADLOCK FALSE
