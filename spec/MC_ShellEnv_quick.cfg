CONSTANTS
  Alphabet <- EnvAlphabet
  MaxLen = 3
INIT Init
NEXT Next
INVARIANTS InvScriptSafe InvEnvValueReadsBack InvNotExportedIsAbsent EmitEnv
CHECK_DEADLOCK FALSE
