CONSTANTS
  MaxArg = 1
  MaxSeq = 0
INIT InitRT
NEXT GrowArg
INVARIANTS TypeOK RoundTrip DocWithinCode
CHECK_DEADLOCK FALSE
