\* E binding, quick, queries wider than the prompt area: window width x configuration x query x walk of the cursor
CONSTANTS
  Widths = {20, 23, 30}
  Heights = {8}
  Layouts = {"default", "reverse"}
  Infos = {"default", "right", "inline"}
  Seps = {TRUE}
  Headers <- MCHeadersC0
  Hlines <- MCHlinesC0
  HeaderFirsts = {FALSE}
  Inputless = {FALSE}
  Pointers <- MCPointers
  Markers <- MCMarkers
  Ellipses <- MCEllipses
  Lists <- MCListsD1
  Multis = {0}
  Queries <- MCQueriesC
  MaxCount = 3
  Tracks = {0}
  Hscrolls = {FALSE}
  HscrollOffs = {10}
  KeepRights = {FALSE}
  Scrollbars <- MCNoScrollbar
  Borders = {TRUE, FALSE}
  Tabstops = {8}
  Patterns <- MCPatternsNone
  Acts = {}
INIT GenInitP
NEXT GenNextP
INVARIANTS GenCaseP InvClaims InvFrameX InvWalk
CHECK_DEADLOCK FALSE
