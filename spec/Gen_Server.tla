------------------------------ MODULE Gen_Server ------------------------------
(* Export of cases (input + what FzfServer predicts) for replay on the real server / parsers.                  *)
EXTENDS MC_ServerShapes

-------------------------------------------------------------------------------
(* EXPORT.  One walker for all kinds of cases: gi runs over an index space, sharded by its initial value.      *)
EnvInt(name, dflt) == IF name \in DOMAIN IOEnv /\ IOEnv[name] # "" THEN atoi(IOEnv[name]) ELSE dflt
Seed == EnvInt("GEN_SEED", 1)
NSample == EnvInt("GEN_NSAMPLE", 20)
Stride == EnvInt("GEN_STRIDE", 1)          \* every Stride-th shape (offset by the seed) is exported
Shards == 256
VARIABLE gi

Sort3(a, b, c) == LET lo == Min2(a, Min2(b, c))
                      hi == IF a >= b /\ a >= c THEN a ELSE IF b >= c THEN b ELSE c
                  IN <<lo, a + b + c - lo - hi, hi>>
Sampled(n, j) == LET x == (Seed * 7919 + j * 104729 + n * 1299709) % (n * n * n)
                     t == Sort3(1 + (x % n), 1 + ((x \div n) % n), 1 + ((x \div (n * n)) % n))
                 IN SelectSeq(<<t[1], t[2] - t[1], t[3] - t[2]>>, LAMBDA v : v > 0)
Framings(n) == <<<<n>>>> \o [p \in 1..(n - 1) |-> <<p, n - p>>]
               \o [u \in 1..n |-> IF u = 1 THEN <<>> ELSE <<u - 1>>]
               \o [j \in 1..NSample |-> Sampled(n, j)]

Allowed(wire, W, segs, k, e) == LET r == Run(W, segs, k, e)
                                IN IF r.isGet THEN GetAllowed(wire, segs, r, k, e) ELSE {Obs(r)}
Case(id, sh, k, e, frs) ==
    LET wire == Wire(sh.req)
        W == Prep(wire)
        as == [i \in 1..Len(frs) |-> Allowed(wire, W, frs[i], k, e)]
        dist == SetToSeq({as[i] : i \in 1..Len(frs)})            \* the distinct sets of allowed observations
        r == Respond(sh.req, k, e)
    IN [id |-> id, key |-> k, env |-> e, wire |-> wire, tags |-> sh.tags, presents |-> sh.presents, fr |-> frs,
        allow |-> [j \in 1..Len(dist) |-> SetToSeq(dist[j])],
        idx |-> [i \in 1..Len(frs) |-> (CHOOSE j \in 1..Len(dist) : dist[j] = as[i]) - 1],
        deserved |-> [st |-> r.st, dl |-> r.dl, rv |-> r.rv]]

(* shapes x keys x environments *)
KeySeq == <<"", KEY>>
EmitShape == LET i == ((gi - 1) \div 2) + 1
                 k == KeySeq[((gi - 1) % 2) + 1]
                 sh == ShapeSeq[i]
                 wire == Wire(sh.req)
             IN (i <= NShapes /\ ((i + Seed) % Stride = 0 \/ sh \in CoreShapes)) =>
                  /\ PrintT(<<"CASE", ToJson(Case(gi * 4, sh, k, "ok", Framings(Len(wire))))>>)
                  /\ (sh.tags.m = "GET" /\ sh.tags.cl = "absent" /\ sh.tags.extra = "none") =>
                        PrintT(<<"CASE", ToJson(Case(gi * 4 + 1, sh, k, "uiBusy", <<<<Len(wire)>>, <<3, Len(wire) - 3>>>>))>>)
GInitShape == gi \in 1..Shards
GNextShape == gi + Shards <= 2 * NShapes /\ gi' = gi + Shards

(* the terminal does not take server input (channel full): the POST is answered 503 after the channel timeout *)
EmitSlow == LET sh == Std("post", "exact", "ok", "up")  n == Len(Wire(sh.req))
            IN gi <= 2 => PrintT(<<"SLOW", ToJson(Case(800000 + gi, sh, KeySeq[gi], "chanFull", <<<<n>>>>))>>)

BigSeq == SetToSeq(BigShapes)
EmitBig == gi <= Len(BigSeq) =>
              LET sh == BigSeq[gi]  n == Len(Wire(sh.req))
              IN PrintT(<<"BIG", ToJson(Case(900000 + gi, sh, "", "ok", <<<<n>>, <<n - 4, 4>>, <<n - 1>>, <<n - 2, 2>>, <<16, n - 16>>>>))>>)
GNextNone == FALSE /\ UNCHANGED gi

(* Gen_ServerMisc.cfg walks gi over the action lists; the small tables below are printed by the first values of gi *)
(* action lists *)
ListCase(id, b) == LET p == ParseActions(b)
                       r == [ok |-> p.ok, acts |-> p.acts]
                   IN [id |-> id, list |-> b, commatail |-> \E j \in 1..(Len(b) - 1) : b[j + 1] = "," /\ b[j] \in {")", "]", ">", "~", "|"},
                       exp |-> [post |-> r, bind |-> r, opts |-> r, bound |-> [ok |-> p.ok, acts |-> BindOrder(p.acts)]]]
EmitList == gi <= Len(ListSeq) => PrintT(<<"LIST", ToJson(ListCase(gi, ListSeq[gi]))>>)
GInitList == gi \in 1..Shards
GNextList == gi + Shards <= Len(ListSeq) /\ gi' = gi + Shards
RoundTripAll == \A l \in ValidLists : RoundTrip(l)
RoundTripInv == gi = 1 => RoundTripAll

(* listener start rule and address syntax *)
AddrSeq == << <<"6266">>, <<"0">>, <<":", "0">>, <<"localhost", ":", "0">>, <<"127.0.0.1", ":", "6266">>,
              <<"0.0.0.0", ":", "0">>, <<"127.0.0.2", ":", "0">>, <<"0.0.0.0", ":", "65535">>, <<"localhost", ":", "65536">>,
              <<"localhost", ":", "-1">>, <<"localhost", ":", "abc">>, <<"localhost", ":">>, <<"1", ":", "2", ":", "3">>,
              <<"abc">>, <<>>, <<"LOCALHOST", ":", "0">> >>
StartCase(id, parts, k) == LET p == ParseListen(parts)
                           IN [id |-> id, addr |-> Str(parts), key |-> k,
                               exp |-> [parsed |-> p.ok, host |-> p.host, port |-> p.port, local |-> p.ok /\ IsLocal(p.host),
                                        started |-> p.ok /\ StartAllowed(p.host, k), refused |-> p.ok /\ ~StartAllowed(p.host, k)]]
EmitStart == gi <= Len(AddrSeq) => /\ PrintT(<<"START", ToJson(StartCase(2 * gi, AddrSeq[gi], ""))>>)
                                   /\ PrintT(<<"START", ToJson(StartCase(2 * gi + 1, AddrSeq[gi], KEY))>>)

(* which delivered actions a remote listener without --listen-unsafe lets through *)
TypeSeq == SetToSeq(ExecTypes \cup {ArgActs[n] : n \in DOMAIN ArgActs} \cup UNION {{SimpleActs[n][x] : x \in 1..Len(SimpleActs[n])} : n \in DOMAIN SimpleActs})
EmitExec == gi <= Len(TypeSeq) => PrintT(<<"EXEC", ToJson([id |-> gi, type |-> TypeSeq[gi],
                                     exp |-> [known |-> TRUE, exec |-> TypeSeq[gi] \in ExecTypes]])>>)
=============================================================================
