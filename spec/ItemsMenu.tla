------------------------------- MODULE ItemsMenu -------------------------------
(* Option / query / alphabet menus shared by MC_Items (exhaustive design check) and Gen_Items (case export).        *)
EXTENDS FzfItems, TLC

IntChars(n) == IF n < 0 THEN <<"-">> \o NatChars(0 - n) ELSE NatChars(n)
ExprN(a) == IntChars(a)
ExprAB(a, b) == IntChars(a) \o Dots \o IntChars(b)
ExprA(a) == IntChars(a) \o Dots
ExprB(b) == Dots \o IntChars(b)
Plain(es) == [plain |-> TRUE, nth |-> es, parts |-> <<>>]
Lit(v) == [k |-> "lit", v |-> v]
NthP(es) == [k |-> "nth", v |-> es]
IdxP == [k |-> "n", v |-> <<>>]
Tmpl(ps) == [plain |-> FALSE, nth |-> <<>>, parts |-> ps]

(* --with-nth forms: the identities (.., 1.., ..-1, 1 2 as a list), the shortenings (2.., 1, -1, ..-2), a            *)
(* rearrangement, and templates (one field, all fields, the index, literals)                                         *)
SpecMenu == << Plain(<<Dots>>), Plain(<<ExprA(1)>>), Plain(<<ExprA(2)>>), Plain(<<ExprN(1)>>), Plain(<<ExprN(-1)>>),
               Plain(<<ExprB(-2)>>), Plain(<<ExprN(1), ExprA(2)>>), Plain(<<ExprN(2), ExprN(1)>>),
               Tmpl(<<NthP(<<Dots>>)>>), Tmpl(<<NthP(<<ExprN(1)>>)>>),
               Tmpl(<<IdxP, Lit(<<":">>), NthP(<<Dots>>)>>),
               Tmpl(<<NthP(<<ExprA(2)>>), Lit(<<"|">>), NthP(<<ExprN(1)>>)>>),
               Plain(<<ExprB(-1)>>), Plain(<<ExprAB(1, -1)>>) >>
SpecMenuSmall == SubSeq(SpecMenu, 1, 12)
Comma == [kind |-> "str", id |-> ","]
DelimMenu == << AwkD, Comma, [kind |-> "str", id |-> "TAB"], [kind |-> "re", id |-> "[,:]"],
                [kind |-> "str", id |-> ", "], [kind |-> "re", id |-> ",+"] >>

NoSpec == Plain(<<Dots>>)       \* placeholder when --with-nth is absent
Opts(w, sp, dl, an, h, t, tc) == [withNth |-> w, spec |-> sp, d |-> dl, ansi |-> an, header |-> h, tail |-> t, tac |-> tc]

Q(term, ext) == [term |-> term, ext |-> ext]
EmptyQ == Q(<<>>, TRUE)
(* non-empty queries: plain terms (extended mode) and whole-query literals with blanks / delimiters (--no-extended);  *)
(* "1" and ":" see the {n} rendition, <<"a", " ">> sees the white space --with-nth trims                             *)
QMenu == << EmptyQ, Q(<<"a">>, TRUE), Q(<<"a", " ">>, FALSE), Q(<<"1">>, TRUE), Q(<<" ", "a">>, FALSE),
            Q(<<",">>, FALSE), Q(<<"a", ",", "a">>, FALSE), Q(<<"1", ":">>, FALSE), Q(<<" ">>, FALSE), Q(<<"TAB">>, FALSE) >>

RECURSIVE Pow(_, _)
Pow(b, e) == IF e = 0 THEN 1 ELSE b * Pow(b, e - 1)
(* all words of length n / of length <= L over an alphabet given as a sequence *)
WordsOf(alpha, n) == [k \in 1..Pow(Len(alpha), n) |->
                         [i \in 1..n |-> alpha[(((k - 1) \div Pow(Len(alpha), n - i)) % Len(alpha)) + 1]]]
RECURSIVE AllWords(_, _)
AllWords(alpha, L) == IF L = 0 THEN << <<>> >> ELSE AllWords(alpha, L - 1) \o WordsOf(alpha, L)
Rotate(s, r) == IF s = <<>> THEN s ELSE LET n == Len(s) IN [i \in 1..n |-> s[((i - 1 + r) % n) + 1]]
================================================================================
