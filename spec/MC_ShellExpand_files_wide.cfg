CONSTANTS
  MaxTokens = 1
  NItems = 3
  WorldIds = {3,4}
  TokenIds = {2,14,21,25,32,33,34,35,36,37,38,39,40,41,42,43,44,45}
  QueryIds = {1,4,5}
  DelimIds = {1,2,3,4,5}
  SepSet = {"LF","NUL"}
INIT Init
NEXT Next
INVARIANTS InvExpansionReadsBack InvEscapedStayLiteral InvPlusCoversSelection InvOrdinals InvNeverHazard InvFilesReadBack InvPlusFileCoversSelection InvQueryWordsIgnoreDelimiter InvAwkFieldsAgree Emit
CHECK_DEADLOCK FALSE
