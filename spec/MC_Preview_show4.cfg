CONSTANTS
  MaxUI = 4
  Kinds = {"finite"}
  ShowBumpsVersion = TRUE
  TemplateHasQ = FALSE
  H = 2
  LensKind = "one"
  WithReload = FALSE
  ReloadBumpsVersion = TRUE
  WithHideKeep = FALSE
  Follow = FALSE
  WithScroll = FALSE
  DelayedSetsVersion <- TreeDelayedSetsVersion
SPECIFICATION Spec
INVARIANTS TypeOK OneAlive ShownIsStarted Convergence ShowFixed ReloadFixed DelayedFixed RowsOfOneRequest ExitClean
CHECK_DEADLOCK FALSE
