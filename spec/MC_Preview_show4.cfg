CONSTANTS
  MaxUI = 4
  Kinds = {"finite"}
  ShowBumpsVersion = TRUE
  TemplateHasQ = FALSE
  H = 2
  LensKind = "one"
  WithScroll = FALSE
  DelayedSetsVersion <- TreeDelayedSetsVersion
SPECIFICATION Spec
INVARIANTS TypeOK OneAlive ShownIsStarted Convergence ShowFixed DelayedFixed RowsOfOneRequest ExitClean
CHECK_DEADLOCK FALSE
