\* E binding, lines too long for the window: geometry x configuration x (pattern, cursor) with the predicted rows
CONSTANTS
  Widths = {24, 31, 43, 64}
  Heights = {7, 10}
  Layouts = {"default", "reverse"}
  Infos = {"default"}
  Seps = {TRUE}
  Headers <- MCHeadersH
  Hlines <- MCHlinesC0
  HeaderFirsts = {FALSE}
  Inputless = {FALSE}
  Pointers <- MCPointers
  Markers <- MCMarkers
  Ellipses <- MCEllipsesH
  Lists <- MCListsH
  Multis = {0}
  Queries <- MCQueriesC
  MaxCount = 7
  Tracks = {0}
  Hscrolls = {TRUE, FALSE}
  HscrollOffs = {0, 5, 10}
  KeepRights = {TRUE, FALSE}
  Scrollbars <- MCScrollbars
  Borders = {TRUE, FALSE}
  Tabstops = {8}
  Patterns <- MCPatternsNone
  Acts = {}
INIT GenInitH
NEXT GenNextH
INVARIANTS GenCase InvClaims InvFrame InvTextRoom InvGenHDetermined
CHECK_DEADLOCK FALSE
