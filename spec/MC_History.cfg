CONSTANTS
  Queries <- MCQueries
  InitFiles <- MCInitFiles
  MaxSizes <- MCMax
  MaxSessions = 3
INIT GInit
NEXT GNextMC
INVARIANTS TypeOK FileIsLastN FileUntouchedBeforeSubmit LoadsStored NeverOverLimit NoEmptyWritten ComesBack
PROPERTY EditsStayInMemory
CHECK_DEADLOCK FALSE
