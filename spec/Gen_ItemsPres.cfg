CONSTANTS
  Thorough = FALSE
  Part = "presentation"
INIT GInit
NEXT GNext
INVARIANTS Emit
CHECK_DEADLOCK FALSE
