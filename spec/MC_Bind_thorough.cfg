CONSTANTS
  MaxArg = 3
  MaxSeq = 0
INIT InitRT
NEXT GrowArg
INVARIANTS TypeOK RoundTrip DocWithinCode EmitRT
CHECK_DEADLOCK FALSE
