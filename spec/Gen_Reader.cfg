CONSTANTS
  BufferSize = 65536
  SlabSize = 131072
  MaxRecords = 5
  RecLens <- GenLens
  Exhaustive = FALSE
INIT GInit
NEXT GNext
INVARIANTS Emit EmittedIsPrefix CompleteAtEof NoRegionLentTwice LentBelowCursor AliasFaithful
CHECK_DEADLOCK FALSE
