------------------------------- MODULE FzfOutput -------------------------------
(* What fzf writes to stdout and its exit status (src/core.go filter mode and --select-1/--exit-0 short cuts,     *)
(* src/terminal.go output()/exit paths, src/item.go AsString/acceptNth).                                          *)
(*                                                                                                                *)
(* An input record is a sequence of PIECES [t, s]:  t = "txt" (ordinary text s), "sgr" (an ANSI SGR sequence s),  *)
(* "delim" (one occurrence of the --delimiter string s), "ws" (white space; txt pieces never end in white space).  *)
(* The record's bytes are the concatenation of all s.                                                             *)
(* Options o = [printQuery, expect, print0, ansi, acceptNth, withNth, multi]:  expect = TRUE iff --expect lists   *)
(* at least one key; acceptNth / withNth = 0 (absent) or a field number N (negative = from the end).              *)
EXTENDS Integers, Sequences, FiniteSets, TLC

RECURSIVE Cat(_)
Cat(ss) == IF ss = <<>> THEN "" ELSE Head(ss) \o Cat(Tail(ss))
Strs(ps) == [i \in 1..Len(ps) |-> ps[i].s]

Rec(item) == Cat(Strs(item))                                             \* the original record
NoSgr(item) == SelectSeq(item, LAMBDA p : p.t # "sgr")
Plain(item) == Cat(Strs(NoSgr(item)))                                    \* --ansi: escape sequences removed
Visible(item, ansi) == IF ansi THEN NoSgr(item) ELSE item                \* pieces fzf works with
Shown(item, ansi) == Cat(Strs(Visible(item, ansi)))

(* fields: the delimiter belongs to the field before it; what follows the last delimiter is a field too, even if   *)
(* empty (strings.SplitAfter - CODE-DERIVED; field semantics proper are C10's)                                     *)
RECURSIVE FieldsOf(_, _)
FieldsOf(ps, cur) == IF ps = <<>> THEN <<cur>>
                     ELSE IF Head(ps).t = "delim" THEN <<Append(cur, Head(ps))>> \o FieldsOf(Tail(ps), <<>>)
                     ELSE FieldsOf(Tail(ps), Append(cur, Head(ps)))
Fields(item, ansi) == FieldsOf(Visible(item, ansi), <<>>)
NthField(fs, n) == IF n > 0 /\ n <= Len(fs) THEN fs[n] ELSE IF n < 0 /\ -n <= Len(fs) THEN fs[Len(fs) + n + 1] ELSE <<>>
StripLastDelim(f) == IF f # <<>> /\ f[Len(f)].t = "delim" THEN SubSeq(f, 1, Len(f) - 1) ELSE f
RECURSIVE TrimWs(_)
TrimWs(f) == IF f # <<>> /\ f[Len(f)].t = "ws" THEN TrimWs(SubSeq(f, 1, Len(f) - 1)) ELSE f
(* --accept-nth=N: the N-th field without its trailing delimiter and trailing white space (StripLastDelimiter) *)
AcceptNth(item, ansi, n) == Cat(Strs(TrimWs(StripLastDelim(NthField(Fields(item, ansi), n)))))
(* --with-nth=N: what is displayed and searched (never what is printed) *)
WithNthPieces(item, ansi, n) == IF n = 0 THEN Visible(item, ansi) ELSE NthField(Fields(item, ansi), n)

(* what accept prints for one item, interactive mode *)
Printed(item, o) == IF o.acceptNth # 0 THEN AcceptNth(item, o.ansi, o.acceptNth) ELSE Shown(item, o.ansi)

(* search marker: an item matches the query 'z (or z) iff a visible text piece "z" lies in the searchable part *)
Matches(item, o, marker) == \E i \in 1..Len(WithNthPieces(item, o.ansi, o.withNth)) :
                               LET p == WithNthPieces(item, o.ansi, o.withNth)[i] IN p.t = "txt" /\ p.s = marker

-------------------------------------------------------------------------------
(* Interactive session end.  fin = [how, query, sel, current, printQueue, pressed]                                *)
(*   how: "close" (accept family / expect key), "printquery", "quit"; sel: selected ids in selection order;       *)
(*   current: id under the cursor or -1; printQueue: arguments of the print(...) actions performed, in order      *)
SelOrCurrent(fin) == IF fin.sel # <<>> THEN fin.sel ELSE IF fin.current # -1 THEN <<fin.current>> ELSE <<>>
Lines(o, fin, items) ==
    CASE fin.how = "close" ->
           (IF o.printQuery THEN <<fin.query>> ELSE <<>>) \o (IF o.expect THEN <<fin.pressed>> ELSE <<>>) \o fin.printQueue
           \o [i \in 1..Len(SelOrCurrent(fin)) |-> Printed(items[SelOrCurrent(fin)[i] + 1], o)]
      [] fin.how = "printquery" -> <<fin.query>>
      [] OTHER -> <<>>
Status(o, fin) ==
    CASE fin.how = "close" -> IF SelOrCurrent(fin) # <<>> THEN 0 ELSE 1
      [] fin.how = "printquery" -> 0
      [] fin.how = "quit" -> 130
      [] OTHER -> 2

(* --select-1 / --exit-0 short cut when loading finished with exactly one / no match (never shows the finder) *)
AutoLines(o, query, matchIds, items) ==
    (IF o.printQuery THEN <<query>> ELSE <<>>) \o (IF o.expect THEN <<"">> ELSE <<>>)
    \o [i \in 1..Len(matchIds) |-> Printed(items[matchIds[i] + 1], o)]
AutoStatus(matchIds) == IF matchIds = <<>> THEN 1 ELSE 0

(* Filter mode (--filter): query line first if asked, then every matching record - the ORIGINAL record, even under *)
(* --with-nth; --accept-nth and --expect do not apply *)
MatchIds(o, items, marker) == SelectSeq([i \in 1..Len(items) |-> i - 1], LAMBDA id : marker = "" \/ Matches(items[id + 1], o, marker))
FilterLines(o, query, items, marker) ==
    (IF o.printQuery THEN <<query>> ELSE <<>>)
    \o [i \in 1..Len(MatchIds(o, items, marker)) |-> Shown(items[MatchIds(o, items, marker)[i] + 1], o.ansi)]
FilterStatus(o, items, marker) == IF MatchIds(o, items, marker) = <<>> THEN 1 ELSE 0
================================================================================
