CONSTANTS
  AlphaOf <- ExprAlpha
  MaxLenOf <- Len6
  DelimSet <- AwkOnly
INIT Init
NEXT Next
INVARIANTS EmitParse
CHECK_DEADLOCK FALSE
