------------------------------ MODULE FzfHistory ------------------------------
(* Query history file (--history, --history-size): src/history.go + the three call sites in src/terminal.go.  *)
(* One action per call the terminal makes: NewHistory (Load), prev-history / next-history (each first stores   *)
(* the current input with `override`, then moves), and `append` when the session ends with a submitted query.  *)
(* The file is a sequence of tokens: an entry (non-empty atomic string) or NL.                                  *)
EXTENDS Integers, Sequences, FiniteSets, TLC

CONSTANTS Queries,      \* set of strings a user may type, "" included
          MaxSizes,     \* set of --history-size values
          InitFiles,    \* set of initial files: token sequences, or Missing
          MaxSessions   \* bound for the exhaustive configuration (0 = unbounded)

Missing == <<"MISSING">>
NL == "\n"

VARIABLES file,      \* bytes on disk as tokens, or Missing
          max,       \* configured size limit
          open,      \* a session holds a History object
          lines,     \* in-memory entries; the last one is the scratch entry for the line being typed
          modified,  \* edited-but-unsubmitted texts for stored entries: function on a subset of 1..Len(lines)-1
          cursor,    \* 1-based position in lines
          sessions,  \* sessions started so far
          submitted, \* ghost: every non-empty query submitted so far, in order
          file0      \* ghost: the initial file
vars == <<file, max, open, lines, modified, cursor, sessions, submitted, file0>>

-------------------------------------------------------------------------------
(* Sequence helpers *)
LastN(s, n) == IF Len(s) <= n THEN s ELSE SubSeq(s, Len(s) - n + 1, Len(s))

RECURSIVE TrimLeft(_), TrimRight(_), SplitNL(_, _)
TrimLeft(s)  == IF s # <<>> /\ Head(s) = NL THEN TrimLeft(Tail(s)) ELSE s
TrimRight(s) == IF s # <<>> /\ s[Len(s)] = NL THEN TrimRight(SubSeq(s, 1, Len(s) - 1)) ELSE s
(* strings.Split(s, "\n") on a token sequence; cur is the entry being accumulated ("" if none) *)
SplitNL(s, cur) == IF s = <<>> THEN <<cur>>
                   ELSE IF Head(s) = NL THEN <<cur>> \o SplitNL(Tail(s), "")
                   ELSE SplitNL(Tail(s), Head(s))     \* entries are atomic: at most one token between NLs

Bytes(f) == IF f = Missing THEN <<>> ELSE f
(* entries a new session sees: strings.Split(strings.Trim(data, "\n"), "\n") *)
Entries(f) == LET t == TrimRight(TrimLeft(Bytes(f))) IN IF t = <<>> THEN <<>> ELSE SplitNL(t, "")
(* what append writes: strings.Join(entries ++ "", "\n") *)
RECURSIVE JoinNL(_)
JoinNL(es) == IF es = <<>> THEN <<>> ELSE (IF Head(es) = "" THEN <<>> ELSE <<Head(es)>>) \o <<NL>> \o JoinNL(Tail(es))

WellFormedFile(f) == f # Missing /\ \A i \in 1..Len(f) - 1 : ~(f[i] # NL /\ f[i + 1] # NL)
NoBlankEntries(f) == \A i \in 1..Len(Entries(f)) : Entries(f)[i] # ""

-------------------------------------------------------------------------------
Init == /\ file \in InitFiles /\ file0 = file
        /\ max \in MaxSizes
        /\ open = FALSE /\ lines = <<>> /\ modified = <<>> /\ cursor = 0
        /\ sessions = 0 /\ submitted = <<>>

(* NewHistory: a missing file is created empty; entries are loaded; the cursor is on the scratch entry *)
Load == /\ ~open
        /\ MaxSessions = 0 \/ sessions < MaxSessions
        /\ open' = TRUE /\ sessions' = sessions + 1
        /\ file' = IF file = Missing THEN <<>> ELSE file
        /\ lines' = Entries(file) \o <<"">>
        /\ modified' = [i \in {} |-> ""]
        /\ cursor' = Len(Entries(file)) + 1
        /\ UNCHANGED <<max, submitted, file0>>

Current(ls, md, c) == IF c \in DOMAIN md THEN md[c] ELSE ls[c]

(* History.override(str) *)
Override(inp) == IF cursor = Len(lines)
                   THEN /\ lines' = [lines EXCEPT ![cursor] = inp] /\ modified' = modified
                   ELSE /\ lines' = lines
                        /\ modified' = [i \in DOMAIN modified \cup {cursor} |-> IF i = cursor THEN inp ELSE modified[i]]

(* prev-history with `inp` on the query line; Ret is what becomes the new query line *)
Prev(inp) == /\ open /\ Override(inp)
             /\ cursor' = IF cursor > 1 THEN cursor - 1 ELSE cursor
             /\ UNCHANGED <<file, max, open, sessions, submitted, file0>>
Next_(inp) == /\ open /\ Override(inp)
              /\ cursor' = IF cursor < Len(lines) THEN cursor + 1 ELSE cursor
              /\ UNCHANGED <<file, max, open, sessions, submitted, file0>>
Ret == Current(lines, modified, cursor)

(* session ends with query q on the line (accept / print-query); empty queries are not recorded *)
Submit(q) == /\ open /\ open' = FALSE
             /\ IF q = "" THEN UNCHANGED <<file, submitted>>
                ELSE /\ file' = JoinNL(LastN(SubSeq(lines, 1, Len(lines) - 1) \o <<q>>, max))
                     /\ submitted' = Append(submitted, q)
             /\ UNCHANGED <<max, lines, modified, cursor, sessions, file0>>
(* session ends without submitting (abort) *)
Quit == /\ open /\ open' = FALSE /\ UNCHANGED <<file, max, lines, modified, cursor, sessions, submitted, file0>>

Next == \/ Load \/ Quit
        \/ \E q \in Queries : Prev(q) \/ Next_(q) \/ Submit(q)
Spec == Init /\ [][Next]_vars

-------------------------------------------------------------------------------
(* Properties *)
TypeOK == /\ open => /\ lines # <<>> /\ cursor \in 1..Len(lines)
                     /\ DOMAIN modified \subseteq 1..(Len(lines) - 1)

(* C18: the file holds the non-empty submitted queries, oldest first, capped to max, after the entries that were   *)
(* there initially.  Stated for initial files without blank entries (blank lines in a foreign file are kept as      *)
(* navigable entries - CODE-DERIVED corner, see BlankCorner).                                                       *)
FileIsLastN == (NoBlankEntries(file0) /\ submitted # <<>>) =>
                   /\ Entries(file) = LastN(Entries(file0) \o submitted, max)
                   /\ file = JoinNL(Entries(file))
FileUntouchedBeforeSubmit == submitted = <<>> => Bytes(file) = Bytes(file0)
(* a session loads exactly the stored entries *)
LoadsStored == open => SubSeq(lines, 1, Len(lines) - 1) = Entries(file)
NeverOverLimit == submitted # <<>> => Len(Entries(file)) <= max
NoEmptyWritten == (NoBlankEntries(file0)) => NoBlankEntries(file)
(* navigation never leaves the stored range: part of TypeOK; edits never reach the file: *)
EditsStayInMemory == [][(file' # file /\ file # Missing) => (~open' /\ open)]_vars
(* coming back to an entry returns the edited text *)
ComesBack == open => \A i \in DOMAIN modified : Current(lines, modified, i) = modified[i]

Bounded == Len(submitted) <= 3
================================================================================
