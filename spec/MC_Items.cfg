CONSTANTS
  Alpha <- AlphaSmall
  MaxLen = 2
  MaxRecs = 3
  Variants <- VarStreamQuick
  Dev = "none"
INIT Init
NEXT Next
INVARIANTS InvContent InvBuilt InvStepwise InvFilterAgrees InvRecord InvSearch
CHECK_DEADLOCK FALSE
