CONSTANTS
  Queries = {}
  MaxSizes = {}
  InitFiles = {}
  MaxSessions = 0
SPECIFICATION TSpec
INVARIANTS TypeOK LoadsStored NeverOverLimit ComesBack
POSTCONDITION Accepted
CHECK_DEADLOCK FALSE
