CONSTANTS
  ChunkSize = 2
  HeaderChoices = {0, 1, 2, 3}
  TailChoices = {0, 1, 2, 3, 4, 5}
  PushSizes = {1}
  MaxPushed = 9
  MaxSnaps = 4
INIT GInit
NEXT GNextMC
INVARIANTS SnapshotIsTail SnapshotFrozen MemoryBound ListIsSuffix CountAgrees HeaderIsFirstH IndexKeepsCounting OnlyEndsPartial
CHECK_DEADLOCK FALSE
