------------------------------ MODULE FzfWalker ------------------------------
(* The built-in directory walker (--walker, --walker-root, --walker-skip): src/reader.go readFiles + trimPath +     *)
(* isSymlinkToDir, on top of the parallel third-party walker (fastwalk).                                             *)
(*                                                                                                                    *)
(* State: a directory tree below the process's working directory, built by one action per kind of entry.             *)
(* Function: Expected(roots, o, skips) = the entries the manual says the walker offers (as a sequence without a       *)
(* meaningful order: the walker is parallel, only the MULTISET of printed strings is an observation).                 *)
(*                                                                                                                    *)
(* Documented semantics (man fzf, DIRECTORY TRAVERSAL; CHANGELOG 0.48 / 0.53 / 0.57 / 0.60.1):                        *)
(*   file    include files                        dir     include directories (printed with a trailing separator)     *)
(*   hidden  include and follow hidden DIRECTORIES (a hidden file in a visible directory is always listed)            *)
(*   follow  follow symbolic links                --walker-skip  directory names to skip; multi-component patterns    *)
(*           match whole trailing path components ("foo/bar" matches foo/bar and baz/foo/bar, not bazfoo/bar)         *)
(*   --walker-root DIR [...]  one or more start directories; printed path = root argument joined with the relative    *)
(*           path, without a leading "./"                                                                             *)
(* Everything the documentation does not fix is marked  \* CODE-DERIVED  and is a regression oracle only.             *)
EXTENDS Integers, Sequences, FiniteSets, FiniteSetsExt, SequencesExt, TLC

CONSTANTS Names,          \* entry names available to the Add actions
          MaxNodes,       \* bound on the number of entries
          AllowDangling   \* whether AddDanglingLink is enabled

Sep == "/"
(* TLC strings are atomic: "starts with a dot" is a table over every name any configuration uses *)
HiddenNames == {".h", ".g", ".git", "..x", ".a b"}
KnownNames  == HiddenNames \cup {"a", "b", "c", "d", "e", "skip", "b c", "n\nl", "node_modules", "target", "build",
                                 "a.b", "-x", "x~"}

Kinds == {"file", "dir", "lfile", "ldir", "lnone"}
(* an entry: its real path below the working directory (sequence of names), its kind, and for a link to a directory  *)
(* the real path of the directory it points to.  lfile: link to a regular file outside the tree; lnone: dangling.    *)
VARIABLE tree
vars == <<tree>>

Has(p)    == \E n \in tree : n.path = p
NodeAt(p) == CHOOSE n \in tree : n.path = p
IsRealDir(p) == p = <<>> \/ (Has(p) /\ NodeAt(p).kind = "dir")
Children(at) == {n \in tree : Len(n.path) = Len(at) + 1 /\ SubSeq(n.path, 1, Len(at)) = at}
Name(n) == Last(n.path)

(* directories reachable from real directory d through sub-directories and links to directories (tree is acyclic)  *)
RECURSIVE Reach(_)
Reach(d) == {d} \cup UNION { Reach(IF c.kind = "dir" THEN c.path ELSE c.target) :
                              c \in {c \in Children(d) : c.kind \in {"dir", "ldir"}} }

-------------------------------------------------------------------------------
(* Building the tree *)
Add(kind, parent, name, target) ==
    /\ Cardinality(tree) < MaxNodes
    /\ IsRealDir(parent)
    /\ ~Has(Append(parent, name))
    /\ tree' = tree \cup {[path |-> Append(parent, name), kind |-> kind, target |-> target]}

AddFile(parent, name)       == Add("file", parent, name, <<>>)
AddDir(parent, name)        == Add("dir", parent, name, <<>>)
AddLinkToFile(parent, name) == Add("lfile", parent, name, <<>>)
(* link cycles are excluded: the new link may not make its own directory reachable from its target *)
AddLinkToDir(parent, name)  == \E t \in {n \in tree : n.kind = "dir"} :
                                   /\ parent \notin Reach(t.path)
                                   /\ Add("ldir", parent, name, t.path)
AddDanglingLink(parent, name) == AllowDangling /\ Add("lnone", parent, name, <<>>)

Parents == {<<>>} \cup {n.path : n \in {n \in tree : n.kind = "dir"}}
Init == tree = {}
SomeFile       == \E parent \in Parents, name \in Names : AddFile(parent, name)
SomeDir        == \E parent \in Parents, name \in Names : AddDir(parent, name)
SomeLinkToFile == \E parent \in Parents, name \in Names : AddLinkToFile(parent, name)
SomeLinkToDir  == \E parent \in Parents, name \in Names : AddLinkToDir(parent, name)
SomeDangling   == \E parent \in Parents, name \in Names : AddDanglingLink(parent, name)
Next == SomeFile \/ SomeDir \/ SomeLinkToFile \/ SomeLinkToDir \/ SomeDangling
Spec == Init /\ [][Next]_vars

TypeOK == \A n \in tree : /\ n.kind \in Kinds /\ Len(n.path) >= 1
                          /\ IsRealDir(SubSeq(n.path, 1, Len(n.path) - 1))
                          /\ (n.kind = "ldir") => (Has(n.target) /\ NodeAt(n.target).kind = "dir")
                          /\ \A m \in tree : m.path = n.path => m = n
Acyclic == \A n \in tree : n.kind = "ldir" => SubSeq(n.path, 1, Len(n.path) - 1) \notin Reach(n.target)

-------------------------------------------------------------------------------
(* Walker options, skip patterns, roots *)
Opts == [file : BOOLEAN, dir : BOOLEAN, follow : BOOLEAN, hidden : BOOLEAN]

(* A skip pattern is a sequence of path components.  anchored = the argument was written with a leading separator. *)
Pat(comps)  == [comps |-> comps, anchored |-> FALSE]
PatA(comps) == [comps |-> comps, anchored |-> TRUE]

CompSuffix(s, p) == Len(s) <= Len(p) /\ SubSeq(p, Len(p) - Len(s) + 1, Len(p)) = s

(* does the pattern name the directory printed as p (components, root argument included)? *)
Matches(pat, p) ==
    IF pat.anchored
      THEN Len(p) > Len(pat.comps) /\ CompSuffix(pat.comps, p)   \* CODE-DERIVED: "/x/y" is a pure suffix pattern: at
                                                                 \* least one more component must precede it
      ELSE \/ Len(pat.comps) = 1 /\ Last(p) = pat.comps[1]     \* by base name
           \/ Len(pat.comps) > 1 /\ p = pat.comps              \* by path
           \/ Len(pat.comps) > 1 /\ CompSuffix(pat.comps, p)     \* by path suffix (whole components)

(* a directory is pruned (neither listed nor entered) when it is hidden and `hidden` is off, or a pattern names it  *)
Pruned(p, o, skips) == \/ ~o.hidden /\ Last(p) \in HiddenNames
                       \/ \E pat \in skips : Matches(pat, p)

(* what the walker treats as a directory: a real one, or - only with `follow` - a link to one *)
DirLike(n, o) == n.kind = "dir" \/ (o.follow /\ n.kind = "ldir")
Dest(n) == IF n.kind = "dir" THEN n.path ELSE n.target

(* Which option lists a directory-like entry.  Documented: `dir` (it is a directory, it carries the separator).     *)
(* dev = TRUE is the NAMED DEVIATION LinkDirAsFile of the pinned code (finding F14): a followed link to a directory  *)
(* is pruned and marked like a directory but listed iff `file`.                                                       *)
ListsDirLike(n, o, dev) == IF dev /\ n.kind = "ldir" THEN o.file ELSE o.dir

-------------------------------------------------------------------------------
(* The walk.  An output entry is [p |-> printed components, d |-> marked as directory].                              *)
RECURSIVE WalkDir(_, _, _, _, _), Entry(_, _, _, _, _)
Entry(n, p, o, skips, dev) ==
    IF DirLike(n, o)
      THEN IF Pruned(p, o, skips) THEN <<>>
           ELSE (IF ListsDirLike(n, o, dev) THEN <<[p |-> p, d |-> TRUE]>> ELSE <<>>)
                \o WalkDir(Dest(n), p, o, skips, dev)
      ELSE IF o.file THEN <<[p |-> p, d |-> FALSE]>> ELSE <<>>     \* files, links to files, dangling links, and
                                                                     \* links to directories that are not followed
WalkDir(at, shown, o, skips, dev) ==
    FoldSet(LAMBDA n, acc : acc \o Entry(n, Append(shown, Name(n)), o, skips, dev), <<>>, Children(at))

(* A root: arg = the command-line argument, at = the real directory it denotes, shown = the components every path    *)
(* below it is printed with (the argument without leading "./" and trailing separators; <<>> for ".").              *)
Root(arg, at, shown) == [arg |-> arg, at |-> at, shown |-> shown]
RootOK(r) == IsRealDir(r.at)
WalkRoot(r, o, skips, dev) ==
    IF r.shown = <<>> THEN WalkDir(r.at, <<>>, o, skips, dev)
    ELSE \* CODE-DERIVED: a root other than "." is itself an entry: pruned when hidden/skipped, listed with `dir`
         IF Pruned(r.shown, o, skips) THEN <<>>
         ELSE (IF o.dir THEN <<[p |-> r.shown, d |-> TRUE]>> ELSE <<>>) \o WalkDir(r.at, r.shown, o, skips, dev)

RECURSIVE WalkRoots(_, _, _, _)
WalkRoots(roots, o, skips, dev) ==
    IF roots = <<>> THEN <<>> ELSE WalkRoot(Head(roots), o, skips, dev) \o WalkRoots(Tail(roots), o, skips, dev)

Expected(roots, o, skips)    == WalkRoots(roots, o, skips, FALSE)     \* the documented candidate list
ExpectedDev(roots, o, skips) == WalkRoots(roots, o, skips, TRUE)      \* with deviation LinkDirAsFile

(* printing *)
RECURSIVE Join(_)
Join(p) == IF Len(p) = 1 THEN p[1] ELSE p[1] \o Sep \o Join(Tail(p))
Out(e) == Join(e.p) \o (IF e.d THEN Sep ELSE "")
(* the observation: multiset of printed strings, as a function string -> count *)
OutBag(es) == LET S == {Out(es[i]) : i \in DOMAIN es}
              IN  [s \in S |-> Cardinality({i \in DOMAIN es : Out(es[i]) = s})]
PatStr(pat) == (IF pat.anchored THEN Sep ELSE "") \o Join(pat.comps)

-------------------------------------------------------------------------------
(* Design-level properties (checked by TLC on the model for every tree, option set, skip list of a configuration)   *)
NoNode == [path |-> <<>>, kind |-> "none", target |-> <<>>]
(* the entry an access path (names from the working directory, links followed per o) leads to *)
RECURSIVE ResolveFrom(_, _, _)
ResolveFrom(at, p, o) ==
    LET cs == {c \in Children(at) : Name(c) = p[1]} IN
    IF cs = {} THEN NoNode
    ELSE LET c == CHOOSE c \in cs : TRUE IN
         IF Len(p) = 1 THEN c
         ELSE IF DirLike(c, o) THEN ResolveFrom(Dest(c), Tail(p), o) ELSE NoNode

NoDup(es) == \A i, j \in DOMAIN es : i # j => es[i] # es[j]
Dot == <<Root(".", <<>>, <<>>)>>

(* each entry exactly once, and distinct entries print differently *)
ExactlyOnce(es) ==
    /\ NoDup(es)
    /\ Cardinality({Out(es[i]) : i \in DOMAIN es}) = Len(es)
(* every printed path leads to an entry of the right class; classes follow file/dir; without follow no path passes  *)
(* through a link                                                                                                     *)
Resolves(es, o) == \A e \in Range(es) :
    LET n == ResolveFrom(<<>>, e.p, o) IN
    /\ n # NoNode /\ e.d = DirLike(n, o) /\ (IF e.d THEN o.dir ELSE o.file)
    /\ ~o.follow => \A k \in 1..(Len(e.p) - 1) : ResolveFrom(<<>>, SubSeq(e.p, 1, k), o).kind = "dir"
(* nothing at or below a pruned directory is printed *)
PrunedDisjoint(es, o, skips) == \A e \in Range(es) :
    \A k \in 1..Len(e.p) : (k < Len(e.p) \/ e.d) => ~Pruned(SubSeq(e.p, 1, k), o, skips)
(* completeness, stated declaratively: the list is exactly the set of access paths that are not at/below a pruned    *)
(* directory and whose class is selected                                                                              *)
UsedNames == {Name(n) : n \in tree}
AccessPaths(o) == {p \in UNION {[1..k -> UsedNames] : k \in 1..Cardinality(tree)} : ResolveFrom(<<>>, p, o) # NoNode}
Documented(o, skips) ==
    { [p |-> p, d |-> DirLike(ResolveFrom(<<>>, p, o), o)] :
        p \in { p \in AccessPaths(o) :
                  LET n == ResolveFrom(<<>>, p, o) IN
                  /\ \A k \in 1..Len(p) : (k < Len(p) \/ DirLike(n, o)) => ~Pruned(SubSeq(p, 1, k), o, skips)
                  /\ (IF DirLike(n, o) THEN o.dir ELSE o.file) } }
Complete(es, o, skips) == Range(es) = Documented(o, skips)
DesignOK(o, skips) == LET es == Expected(Dot, o, skips) IN
    ExactlyOnce(es) /\ Resolves(es, o) /\ PrunedDisjoint(es, o, skips) /\ Complete(es, o, skips)
(* option algebra: file and dir select disjoint classes; hidden only adds; a skip pattern only removes; the named    *)
(* deviation is invisible unless a link to a directory is followed                                                    *)
Algebra(o, skips) ==
    LET R(x, s) == Range(Expected(Dot, x, s)) IN
    /\ R(o, skips) = R([o EXCEPT !.dir = FALSE], skips) \cup R([o EXCEPT !.file = FALSE], skips)
    /\ R([o EXCEPT !.hidden = FALSE], skips) \subseteq R([o EXCEPT !.hidden = TRUE], skips)
    /\ R(o, skips) \subseteq R(o, {})
    /\ (Expected(Dot, o, skips) # ExpectedDev(Dot, o, skips)) => (o.follow /\ \E n \in tree : n.kind = "ldir")
(* a non-"." root: everything printed starts with the root's components *)
UnderRoot(r, o, skips) == \A e \in Range(Expected(<<r>>, o, skips)) : SubSeq(e.p, 1, Len(r.shown)) = r.shown
================================================================================
