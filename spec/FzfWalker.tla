------------------------------ MODULE FzfWalker ------------------------------
(* The built-in directory walker (--walker, --walker-root, --walker-skip): src/reader.go readFiles + trimPath +     *)
(* isSymlinkToDir, on top of the parallel third-party walker (fastwalk).                                             *)
(*                                                                                                                    *)
(* State: a directory tree below the process's working directory, built by one action per kind of entry.             *)
(* Function: Expected(roots, o, skips) = the entries the manual says the walker offers (as a sequence without a       *)
(* meaningful order: the walker is parallel, only the MULTISET of printed strings is an observation).                 *)
(*                                                                                                                    *)
(* Documented semantics (man fzf, DIRECTORY TRAVERSAL; CHANGELOG 0.48 / 0.53 / 0.57 / 0.60.1):                        *)
(*   file    include files                        dir     include directories (printed with a trailing separator)     *)
(*   hidden  include and follow hidden DIRECTORIES (a hidden file in a visible directory is always listed)            *)
(*   follow  follow symbolic links                --walker-skip  directory names to skip; multi-component patterns    *)
(*           match whole trailing path components ("foo/bar" matches foo/bar and baz/foo/bar, not bazfoo/bar)         *)
(*   --walker-root DIR [...]  one or more start directories; printed path = root argument joined with the relative    *)
(*           path, without a leading "./"                                                                             *)
(* Everything the documentation does not fix is marked  \* CODE-DERIVED  and is a regression oracle only.             *)
(* Trees may contain symbolic-link CYCLES (AllowCycles); what `follow` means there is stated as named rules in the    *)
(* section FOLLOWING LINKS WHEN THE TREE HAS LINK CYCLES: the candidate list stays finite and TLC computes it.        *)
EXTENDS Integers, Sequences, FiniteSets, FiniteSetsExt, SequencesExt, TLC

CONSTANTS Names,          \* entry names available to the Add actions
          MaxNodes,       \* bound on the number of entries
          AllowDangling,  \* whether AddDanglingLink is enabled
          AllowCycles     \* whether AddLinkToDir may close a cycle (target = own directory, an ancestor, the working
                          \* directory itself, a directory that links back)

Sep == "/"
(* TLC strings are atomic: "starts with a dot" is a table over every name any configuration uses *)
HiddenNames == {".h", ".g", ".git", "..x", ".a b"}
KnownNames  == HiddenNames \cup {"a", "b", "c", "d", "e", "skip", "b c", "n\nl", "node_modules", "target", "build",
                                 "a.b", "-x", "x~"}

Kinds == {"file", "dir", "lfile", "ldir", "lnone"}
(* an entry: its real path below the working directory (sequence of names), its kind, and for a link to a directory  *)
(* the real path of the directory it points to (<<>> = the working directory itself).  lfile: link to a regular file *)
(* outside the tree; lnone: dangling.                                                                                  *)
VARIABLE tree
vars == <<tree>>

Has(p)    == \E n \in tree : n.path = p
NodeAt(p) == CHOOSE n \in tree : n.path = p
IsRealDir(p) == p = <<>> \/ (Has(p) /\ NodeAt(p).kind = "dir")
Children(at) == {n \in tree : Len(n.path) = Len(at) + 1 /\ SubSeq(n.path, 1, Len(at)) = at}
Name(n) == Last(n.path)

(* directories reachable from real directory d through sub-directories and links to directories: a closure, so that *)
(* it is defined (and TLC terminates) on trees with link cycles too                                                   *)
RealDirs == {<<>>} \cup {n.path : n \in {n \in tree : n.kind = "dir"}}
DirStep(S) == S \cup UNION { {IF c.kind = "dir" THEN c.path ELSE c.target :
                                 c \in {c \in Children(d) : c.kind \in {"dir", "ldir"}}} : d \in S }
RECURSIVE DirClosure(_)
DirClosure(S) == LET T == DirStep(S) IN IF T = S THEN S ELSE DirClosure(T)
Reach(d) == DirClosure({d})

-------------------------------------------------------------------------------
(* Building the tree *)
Add(kind, parent, name, target) ==
    /\ Cardinality(tree) < MaxNodes
    /\ IsRealDir(parent)
    /\ ~Has(Append(parent, name))
    /\ tree' = tree \cup {[path |-> Append(parent, name), kind |-> kind, target |-> target]}

AddFile(parent, name)       == Add("file", parent, name, <<>>)
AddDir(parent, name)        == Add("dir", parent, name, <<>>)
AddLinkToFile(parent, name) == Add("lfile", parent, name, <<>>)
(* Without AllowCycles the new link may not make its own directory reachable from its target.  With AllowCycles the *)
(* target is ANY real directory: the link's own directory (ln -s . l), an ancestor (ln -s .. l), the working          *)
(* directory (= the default root), a directory that links back (a/l -> b, b/l -> a), a directory of another root.     *)
AddLinkToDir(parent, name)  == \E t \in (IF AllowCycles THEN RealDirs ELSE RealDirs \ {<<>>}) :
                                   /\ AllowCycles \/ parent \notin Reach(t)
                                   /\ Add("ldir", parent, name, t)
AddDanglingLink(parent, name) == AllowDangling /\ Add("lnone", parent, name, <<>>)

Parents == {<<>>} \cup {n.path : n \in {n \in tree : n.kind = "dir"}}
Init == tree = {}
SomeFile       == \E parent \in Parents, name \in Names : AddFile(parent, name)
SomeDir        == \E parent \in Parents, name \in Names : AddDir(parent, name)
SomeLinkToFile == \E parent \in Parents, name \in Names : AddLinkToFile(parent, name)
SomeLinkToDir  == \E parent \in Parents, name \in Names : AddLinkToDir(parent, name)
SomeDangling   == \E parent \in Parents, name \in Names : AddDanglingLink(parent, name)
Next == SomeFile \/ SomeDir \/ SomeLinkToFile \/ SomeLinkToDir \/ SomeDangling
Spec == Init /\ [][Next]_vars

TypeOK == \A n \in tree : /\ n.kind \in Kinds /\ Len(n.path) >= 1
                          /\ IsRealDir(SubSeq(n.path, 1, Len(n.path) - 1))
                          /\ (n.kind = "ldir") => IsRealDir(n.target)
                          /\ \A m \in tree : m.path = n.path => m = n
Acyclic == \A n \in tree : n.kind = "ldir" => SubSeq(n.path, 1, Len(n.path) - 1) \notin Reach(n.target)
AcyclicUnlessAllowed == AllowCycles \/ Acyclic

-------------------------------------------------------------------------------
(* Walker options, skip patterns, roots *)
Opts == [file : BOOLEAN, dir : BOOLEAN, follow : BOOLEAN, hidden : BOOLEAN]

(* A skip pattern is a sequence of path components.  anchored = the argument was written with a leading separator. *)
Pat(comps)  == [comps |-> comps, anchored |-> FALSE]
PatA(comps) == [comps |-> comps, anchored |-> TRUE]

CompSuffix(s, p) == Len(s) <= Len(p) /\ SubSeq(p, Len(p) - Len(s) + 1, Len(p)) = s

(* does the pattern name the directory printed as p (components, root argument included)? *)
Matches(pat, p) ==
    IF pat.anchored
      THEN Len(p) > Len(pat.comps) /\ CompSuffix(pat.comps, p)   \* CODE-DERIVED: "/x/y" is a pure suffix pattern: at
                                                                 \* least one more component must precede it
      ELSE \/ Len(pat.comps) = 1 /\ Last(p) = pat.comps[1]     \* by base name
           \/ Len(pat.comps) > 1 /\ p = pat.comps              \* by path
           \/ Len(pat.comps) > 1 /\ CompSuffix(pat.comps, p)     \* by path suffix (whole components)

(* a directory is pruned (neither listed nor entered) when it is hidden and `hidden` is off, or a pattern names it  *)
Pruned(p, o, skips) == \/ ~o.hidden /\ Last(p) \in HiddenNames
                       \/ \E pat \in skips : Matches(pat, p)

(* what the walker treats as a directory: a real one, or - only with `follow` - a link to one *)
DirLike(n, o) == n.kind = "dir" \/ (o.follow /\ n.kind = "ldir")
Dest(n) == IF n.kind = "dir" THEN n.path ELSE n.target

(* Which option lists a directory-like entry.  Documented: `dir` (it is a directory, it carries the separator).     *)
(* dev = TRUE is the NAMED DEVIATION LinkDirAsFile of the pinned code (finding F14): a followed link to a directory  *)
(* is pruned and marked like a directory but listed iff `file`.                                                       *)
ListsDirLike(n, o, dev) == IF dev /\ n.kind = "ldir" THEN o.file ELSE o.dir

-------------------------------------------------------------------------------
(* FOLLOWING LINKS WHEN THE TREE HAS LINK CYCLES  (rule names are referred to by the check and by DESIGN.md)          *)
(*                                                                                                                    *)
(* Documented (fzf): `follow` = follow symbolic links; without it a link is an entry of its own and is never entered. *)
(* Documented (fastwalk, Config.Follow, which is what readFiles sets): "follow symbolic links ignoring directories    *)
(* that would lead to infinite loops; that is, entering a previously visited directory that is an ancestor of the     *)
(* last file encountered".  What the library does (fastwalk.go onDirEnt / shouldTraverse / shouldSkipDir, v1.0.10):   *)
(*                                                                                                                    *)
(*   RULE LinkListedThenJudged   the callback (= readFiles' filter: pruning, listing with the separator) runs for the *)
(*       link BEFORE the library decides whether to enter it: a link that is not entered is still listed as a         *)
(*       directory (unless pruned).                                                                                   *)
(*   RULE RefuseRootAndLexicalAncestors   a link found under the printed path P (root argument + names) is entered    *)
(*       unless the directory it resolves to is (os.SameFile) the walk root, or the directory that some LEXICAL       *)
(*       ancestor of P resolves to: filepath.Dir is applied to P until it no longer changes, and every intermediate   *)
(*       path is os.Stat'ed (so an ancestor that is itself a followed link counts as the directory it leads to).      *)
(*       For a relative root "a/b" the lexical ancestors end with "a" and "." (the working directory); for an         *)
(*       absolute root they go up to "/".  As every tree lives below the working directory, in both cases the set is  *)
(*       anc = the real directories of all prefixes of P, the root and the directories above the root included.       *)
(*   RULE RealSubdirsNotJudged  \* CODE-DERIVED   only links are judged.  A real sub-directory is always entered,     *)
(*       also when the same real directory was already entered higher up through a link (l -> a/x/y, a/x/y/m -> a:    *)
(*       l/m/x/y/ is walked although it is the directory l/ already stands for; its link m is then refused).  The     *)
(*       walk is still finite: every entered link adds its target to anc for good, so along one printed path every    *)
(*       link target is entered at most once and the depth is at most (links + 1) * (deepest real path).              *)
(*   Several roots are independent walks (a link into another root is entered; that root's own walk lists the         *)
(*   directory again under its own name).                                                                             *)
(*                                                                                                                    *)
(* Consequence kept apart from the property statement: a file below a followed link is listed once per ACCESS PATH    *)
(* (already so without cycles); with mutually linking directories (a/l -> b, b/l -> a) that is a bounded repetition   *)
(* (a/f, b/l/f; b/g, a/l/g; a/l/l/ and b/l/l/ listed but not entered), never an unbounded one.                        *)
PathPrefixes(p) == {SubSeq(p, 1, k) : k \in 0..Len(p)}
Refused(n, anc) == n.kind = "ldir" /\ n.target \in anc

(* The walk.  An output entry is [p |-> printed components, d |-> marked as directory].  anc = the real directories   *)
(* of the lexical ancestors of the entries of `at` (see RefuseRootAndLexicalAncestors).                               *)
RECURSIVE WalkDir(_, _, _, _, _, _), Entry(_, _, _, _, _, _)
Entry(n, p, o, skips, dev, anc) ==
    IF DirLike(n, o)
      THEN IF Pruned(p, o, skips) THEN <<>>
           ELSE (IF ListsDirLike(n, o, dev) THEN <<[p |-> p, d |-> TRUE]>> ELSE <<>>)
                \o (IF Refused(n, anc) THEN <<>>                                   \* listed, not entered
                    ELSE WalkDir(Dest(n), p, o, skips, dev, anc \cup {Dest(n)}))
      ELSE IF o.file THEN <<[p |-> p, d |-> FALSE]>> ELSE <<>>     \* files, links to files, dangling links, and
                                                                     \* links to directories that are not followed
WalkDir(at, shown, o, skips, dev, anc) ==
    FoldSet(LAMBDA n, acc : acc \o Entry(n, Append(shown, Name(n)), o, skips, dev, anc), <<>>, Children(at))

(* A root: arg = the command-line argument, at = the real directory it denotes, shown = the components every path    *)
(* below it is printed with (the argument without leading "./" and trailing separators; <<>> for ".").              *)
Root(arg, at, shown) == [arg |-> arg, at |-> at, shown |-> shown]
(* A root spelled through "..": `need` is the directory the spelling passes through (it has to exist and to be a     *)
(* real directory: then NEED/.. is its parent, `at`).  CODE-DERIVED: nothing is cleaned - the components of the       *)
(* argument are printed as they are ("a/../x"); DOCUMENTED: the ".." component is not a hidden entry, everything      *)
(* visible under `at` is listed.  fastwalk's lexical ancestors come from filepath.Dir, which cleans: they are the      *)
(* prefixes of `at`, as for any other spelling.                                                                       *)
RootVia(arg, at, shown, need) == [arg |-> arg, at |-> at, shown |-> shown, need |-> need]
RootOK(r) == IsRealDir(r.at) /\ ("need" \in DOMAIN r => r.need # <<>> /\ IsRealDir(r.need))
RootAnc(r) == PathPrefixes(r.at)          \* the root itself, the directories between it and the working directory, and
                                      \* the working directory
WalkRoot(r, o, skips, dev) ==
    IF r.shown = <<>> THEN WalkDir(r.at, <<>>, o, skips, dev, RootAnc(r))
    ELSE \* CODE-DERIVED: a root other than "." is itself an entry: pruned when hidden/skipped, listed with `dir`
         IF Pruned(r.shown, o, skips) THEN <<>>
         ELSE (IF o.dir THEN <<[p |-> r.shown, d |-> TRUE]>> ELSE <<>>)
              \o WalkDir(r.at, r.shown, o, skips, dev, RootAnc(r))

RECURSIVE WalkRoots(_, _, _, _)
WalkRoots(roots, o, skips, dev) ==
    IF roots = <<>> THEN <<>> ELSE WalkRoot(Head(roots), o, skips, dev) \o WalkRoots(Tail(roots), o, skips, dev)

Expected(roots, o, skips)    == WalkRoots(roots, o, skips, FALSE)     \* the documented candidate list
ExpectedDev(roots, o, skips) == WalkRoots(roots, o, skips, TRUE)      \* with deviation LinkDirAsFile

(* The walk WITHOUT the refusal rule - what "follow every link to a directory" would mean.  Only defined on acyclic  *)
(* trees (it does not terminate otherwise); used to state that the rule is invisible there.                           *)
RECURSIVE FreeDir(_, _, _, _), FreeEntry(_, _, _, _)
FreeEntry(n, p, o, skips) ==
    IF DirLike(n, o)
      THEN IF Pruned(p, o, skips) THEN <<>>
           ELSE (IF o.dir THEN <<[p |-> p, d |-> TRUE]>> ELSE <<>>) \o FreeDir(Dest(n), p, o, skips)
      ELSE IF o.file THEN <<[p |-> p, d |-> FALSE]>> ELSE <<>>
FreeDir(at, shown, o, skips) ==
    FoldSet(LAMBDA n, acc : acc \o FreeEntry(n, Append(shown, Name(n)), o, skips), <<>>, Children(at))

(* printing *)
RECURSIVE Join(_)
Join(p) == IF Len(p) = 1 THEN p[1] ELSE p[1] \o Sep \o Join(Tail(p))
Out(e) == Join(e.p) \o (IF e.d THEN Sep ELSE "")
(* the observation: multiset of printed strings, as a function string -> count *)
OutBag(es) == LET S == {Out(es[i]) : i \in DOMAIN es}
              IN  [s \in S |-> Cardinality({i \in DOMAIN es : Out(es[i]) = s})]
PatStr(pat) == (IF pat.anchored THEN Sep ELSE "") \o Join(pat.comps)

-------------------------------------------------------------------------------
(* Design-level properties (checked by TLC on the model for every tree, option set, skip list of a configuration)   *)
NoNode == [path |-> <<>>, kind |-> "none", target |-> <<>>]
(* the entry an access path (names from the working directory, links followed per o) leads to *)
RECURSIVE ResolveFrom(_, _, _)
ResolveFrom(at, p, o) ==
    LET cs == {c \in Children(at) : Name(c) = p[1]} IN
    IF cs = {} THEN NoNode
    ELSE LET c == CHOOSE c \in cs : TRUE IN
         IF Len(p) = 1 THEN c
         ELSE IF DirLike(c, o) THEN ResolveFrom(Dest(c), Tail(p), o) ELSE NoNode

NoDup(es) == \A i, j \in DOMAIN es : i # j => es[i] # es[j]
Dot == <<Root(".", <<>>, <<>>)>>

(* each entry exactly once, and distinct entries print differently *)
ExactlyOnce(es) ==
    /\ NoDup(es)
    /\ Cardinality({Out(es[i]) : i \in DOMAIN es}) = Len(es)
(* every printed path leads to an entry of the right class; classes follow file/dir; without follow no path passes  *)
(* through a link                                                                                                     *)
Resolves(es, o) == \A e \in Range(es) :
    LET n == ResolveFrom(<<>>, e.p, o) IN
    /\ n # NoNode /\ e.d = DirLike(n, o) /\ (IF e.d THEN o.dir ELSE o.file)
    /\ ~o.follow => \A k \in 1..(Len(e.p) - 1) : ResolveFrom(<<>>, SubSeq(e.p, 1, k), o).kind = "dir"
(* nothing at or below a pruned directory is printed *)
PrunedDisjoint(es, o, skips) == \A e \in Range(es) :
    \A k \in 1..Len(e.p) : (k < Len(e.p) \/ e.d) => ~Pruned(SubSeq(e.p, 1, k), o, skips)
(* completeness, stated declaratively: the list is exactly the set of access paths that are not at/below a pruned    *)
(* directory, whose class is selected, and along which every ENTERED link obeys RefuseRootAndLexicalAncestors          *)
UsedNames == {Name(n) : n \in tree}
NLinks == Cardinality({n \in tree : n.kind = "ldir"})
MaxLen == Max({Len(n.path) : n \in tree} \cup {0})
DepthBound == (NLinks + 1) * MaxLen        \* see RealSubdirsNotJudged; Cardinality(tree) when there is no ldir
RealDirOf(p, o) == IF p = <<>> THEN <<>> ELSE Dest(ResolveFrom(<<>>, p, o))
(* the links that a walk printing p has ENTERED are those at the proper prefixes of p *)
EntersLegally(p, o) == \A k \in 1..(Len(p) - 1) :
    LET c == ResolveFrom(<<>>, SubSeq(p, 1, k), o) IN
    c.kind = "ldir" => c.target \notin {RealDirOf(SubSeq(p, 1, j), o) : j \in 0..(k - 1)}
(* access paths, level by level (the set is prefix-closed); the level after DepthBound must be empty *)
NextLevel(P, o) == {q \in {Append(p, nm) : p \in P, nm \in UsedNames} :
                      ResolveFrom(<<>>, q, o) # NoNode /\ EntersLegally(q, o)}
RECURSIVE Levels(_, _, _)
Levels(P, k, o) == IF k = 0 \/ P = {} THEN {} ELSE LET Q == NextLevel(P, o) IN Q \cup Levels(Q, k - 1, o)
AccessPaths(o) == Levels({<<>>}, DepthBound, o)
DocumentedFrom(ap, o, skips) ==
    { [p |-> p, d |-> DirLike(ResolveFrom(<<>>, p, o), o)] :
        p \in { p \in ap :
                  LET n == ResolveFrom(<<>>, p, o) IN
                  /\ \A k \in 1..Len(p) : (k < Len(p) \/ DirLike(n, o)) => ~Pruned(SubSeq(p, 1, k), o, skips)
                  /\ (IF DirLike(n, o) THEN o.dir ELSE o.file) } }
Documented(o, skips) == DocumentedFrom(AccessPaths(o), o, skips)
Complete(es, ap, o, skips) == Range(es) = DocumentedFrom(ap, o, skips)
(* link cycles: the list is finite with an explicit depth bound; no printed path enters the same link twice, nor a   *)
(* link whose target it is already inside of; nothing beyond the bound would be legal either                          *)
BoundedLaps(es, o) ==
    /\ \A e \in Range(es) : Len(e.p) <= DepthBound /\ EntersLegally(e.p, o)
    /\ \A e \in Range(es) : \A j, k \in 1..(Len(e.p) - 1) :
          LET a == ResolveFrom(<<>>, SubSeq(e.p, 1, j), o)
              b == ResolveFrom(<<>>, SubSeq(e.p, 1, k), o)
          IN  (j < k /\ a.kind = "ldir" /\ b.kind = "ldir") => a.target # b.target
NothingBeyondBound(ap, o) == NextLevel({p \in ap : Len(p) = DepthBound}, o) = {}
(* the refusal rule is invisible on trees without link cycles: there the list is "follow every link" *)
RuleInvisibleWhenAcyclic(o, skips) == Acyclic => Expected(Dot, o, skips) = FreeDir(<<>>, <<>>, o, skips)
(* ap = AccessPaths(o): it does not depend on the skip list, so the caller computes it once per option set *)
DesignOKFrom(ap, o, skips) == LET es == Expected(Dot, o, skips) IN
    /\ ExactlyOnce(es) /\ Resolves(es, o) /\ PrunedDisjoint(es, o, skips) /\ Complete(es, ap, o, skips)
    /\ BoundedLaps(es, o) /\ RuleInvisibleWhenAcyclic(o, skips)
DesignOK(o, skips) == LET ap == AccessPaths(o) IN NothingBeyondBound(ap, o) /\ DesignOKFrom(ap, o, skips)
(* option algebra: file and dir select disjoint classes; hidden only adds; a skip pattern only removes; the named    *)
(* deviation is invisible unless a link to a directory is followed                                                    *)
Algebra(o, skips) ==
    LET R(x, s) == Range(Expected(Dot, x, s)) IN
    /\ R(o, skips) = R([o EXCEPT !.dir = FALSE], skips) \cup R([o EXCEPT !.file = FALSE], skips)
    /\ R([o EXCEPT !.hidden = FALSE], skips) \subseteq R([o EXCEPT !.hidden = TRUE], skips)
    /\ R(o, skips) \subseteq R(o, {})
    /\ (Expected(Dot, o, skips) # ExpectedDev(Dot, o, skips)) => (o.follow /\ \E n \in tree : n.kind = "ldir")
(* a non-"." root: everything printed starts with the root's components, once, within the depth bound; a link back   *)
(* to the root, to a directory between the root and the working directory, or to the working directory is listed and *)
(* not entered                                                                                                        *)
UnderRoot(r, o, skips) == LET es == Expected(<<r>>, o, skips) IN
    /\ \A e \in Range(es) : SubSeq(e.p, 1, Len(r.shown)) = r.shown /\ Len(e.p) <= Len(r.shown) + DepthBound
    /\ ExactlyOnce(es)
================================================================================
