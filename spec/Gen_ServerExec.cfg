INIT GInitExec
NEXT GNextNone
INVARIANT EmitExec
CHECK_DEADLOCK FALSE
