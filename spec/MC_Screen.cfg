\* dynamics: edits, scrolling, selection, list changes, resizes on a few configurations
CONSTANTS
  Widths = {12, 22}
  Heights = {4, 6}
  Layouts = {"default", "reverse", "reverse-list"}
  Infos = {"default", "inline"}
  Seps = {TRUE}
  Headers <- MCHeadersQ
  Hlines <- MCHlinesQ
  HeaderFirsts = {FALSE}
  Inputless = {FALSE}
  Pointers <- MCPointers
  Markers <- MCMarkers
  Ellipses <- MCEllipses
  Lists <- MCListsD
  Multis = {2}
  Queries <- MCQueries
  MaxCount = 12
  Tracks = {0}
  Hscrolls = {FALSE}
  HscrollOffs = {10}
  KeepRights = {FALSE}
  Scrollbars <- MCNoScrollbar
  Borders = {FALSE}
  Tabstops = {8}
  Patterns <- MCPatternsNone
  Acts = {"edit", "move", "toggle", "list", "resize", "vis"}
INIT Init
NEXT Next
INVARIANTS InvHidden InvVisAlgebra InvRowCount InvWidth InvClaims InvOnePointer InvPointerOnCurrent InvMarkers InvHeaderOutsideList InvRTrim InvCursorVisible
CHECK_DEADLOCK FALSE
