\* dynamics: edits, scrolling, selection, list changes, resizes on a few configurations
CONSTANTS
  Widths = {12, 22}
  Heights = {4, 6}
  Layouts = {"default", "reverse", "reverse-list"}
  Infos = {"default", "inline"}
  Seps = {TRUE}
  Headers <- MCHeadersQ
  Hlines <- MCHlinesQ
  HeaderFirsts = {FALSE}
  Inputless = {FALSE}
  Pointers <- MCPointers
  Markers <- MCMarkers
  Ellipses <- MCEllipses
  Lists <- MCListsD
  Multis = {2}
  Queries <- MCQueries
  MaxCount = 12
  Tracks = {0}
  Acts = {"edit", "move", "toggle", "list", "resize"}
INIT Init
NEXT Next
INVARIANTS InvRowCount InvWidth InvClaims InvOnePointer InvPointerOnCurrent InvMarkers InvHeaderOutsideList InvRTrim InvCursorVisible
CHECK_DEADLOCK FALSE
