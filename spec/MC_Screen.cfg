CONSTANTS
  Widths = {12, 22}
  Heights = {3, 5, 8}
  Layouts = {"default", "reverse", "reverse-list"}
  Infos = {"default", "inline", "hidden", "right", "inline-right"}
  Seps = {TRUE, FALSE}
  Headers <- MCHeadersQ
  Hlines <- MCHlinesQ
  HeaderFirsts = {TRUE, FALSE}
  Inputless = {FALSE}
  Pointers <- MCPointers
  Markers <- MCMarkers
  Ellipses <- MCEllipses
  Lists <- MCListsQ
  Multis = {0, 2}
  Queries <- MCQueriesQ
  MaxCount = 12
INIT Init
NEXT Next
INVARIANTS InvPlace InvRowCount InvWidth InvClaims InvOnePointer InvPointerOnCurrent InvMarkers InvHeaderOutsideList InvTakeW InvRTrim
CHECK_DEADLOCK FALSE
