CONSTANTS
  AlphaOf <- FullAlpha
  MaxLenOf <- Len6
  DelimSet <- AllDelims
INIT Init
NEXT Next
INVARIANTS InvPartition
CHECK_DEADLOCK FALSE
