CONSTANTS
  Alphabet <- LineAlphabet
  MaxLen = 6
  DelimSet <- AllDelims
INIT Init
NEXT Next
INVARIANTS InvPartition InvSelection InvNth InvRender
CHECK_DEADLOCK FALSE
