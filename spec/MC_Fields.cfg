CONSTANTS
  AlphaOf <- FullAlpha
  MaxLenOf <- Len6
  DelimSet <- FullDelims
INIT Init
NEXT Next
INVARIANTS InvPartition
CHECK_DEADLOCK FALSE
