CONSTANTS
  MaxUI = 2
  Kinds = {"finite", "endless"}
  ShowBumpsVersion = TRUE
  TemplateHasQ = TRUE
SPECIFICATION Spec
INVARIANTS TypeOK OneAlive ShownIsStarted Convergence ShowFixed ExitClean
PROPERTIES Liveness NoSurvivor
CHECK_DEADLOCK FALSE
