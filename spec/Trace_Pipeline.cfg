SPECIFICATION Spec
INVARIANT DevSeen
POSTCONDITION Accepted
CHECK_DEADLOCK FALSE
