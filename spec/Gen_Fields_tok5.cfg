CONSTANTS
  AlphaOf <- FullAlpha
  MaxLenOf <- Len5
  DelimSet <- AllDelims
INIT Init
NEXT Next
INVARIANTS EmitTok
CHECK_DEADLOCK FALSE
