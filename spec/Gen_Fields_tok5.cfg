CONSTANTS
  AlphaOf <- FullAlpha
  MaxLenOf <- Len5
  DelimSet <- FullDelims
INIT Init
NEXT Next
INVARIANTS EmitTok
CHECK_DEADLOCK FALSE
