\* the deviation "tab-stops-assume-two-column-ellipsis" at design level: InvTabPre2Room must FAIL (a row wider than its room)
CONSTANTS
  Widths = {12, 13, 17}
  Heights = {6}
  Layouts = {"default"}
  Infos = {"hidden"}
  Seps = {TRUE}
  Headers <- MCHeadersT
  Hlines <- MCHlinesC0
  HeaderFirsts = {FALSE}
  Inputless = {FALSE}
  Pointers <- MCPointers
  Markers <- MCMarkers
  Ellipses <- MCEllipses2
  Lists <- MCListsTab
  Multis = {1}
  Queries <- MCQueriesC
  MaxCount = 12
  Tracks = {0}
  Hscrolls = {TRUE}
  HscrollOffs = {10}
  KeepRights = {TRUE}
  Scrollbars <- MCNoScrollbar
  Borders = {FALSE}
  Tabstops = {1, 4, 8}
  Patterns <- MCPatternsTabQ
  Acts = {"move", "pattern"}
INIT Init
NEXT Next
INVARIANTS InvTabPre2Room
CHECK_DEADLOCK FALSE
