---------------------------- MODULE Judge_Screen ----------------------------
(* Trace judge for FzfScreen.  One record per settle point of a real session (tmux pane W x H, real fzf built     *)
(* with -tags verif): the state logged by the last term.* hook event, the result list logged by the last          *)
(* term.list event, the configuration, and the screen captured from the terminal emulator.                        *)
(*   r = [w, h, wide, zero, cfg, st, vis, hmissing, maxItems, orig, rows]                                          *)
(*     hmissing : how many of the --header-lines rows are reserved without an input record                         *)
(*     filtered : the list came from a filtering pass of the matcher (a pattern or a deny list), term.list `pass`   *)
(*     st    = [input, cx, xoffset, list, texts, sel, multi, cy, offset, count, track, pattern]                    *)
(*             texts: the lines as sequences of cells, the cell "TAB" for a TAB character; with --ansi the text     *)
(*             without the colour sequences (what fzf reports as the item's text)                                   *)
(*             pattern: the pattern of the matcher result the list was taken from (match.publish), <<>> = none     *)
(*     vis   : the show / hide / toggle actions on the header and input sections the trace logged so far, in order *)
(*             (term.act); the flags of FzfScreen's state are computed from them here (VisAfter)                   *)
(*     orig  : the input records of the listed items (items never change after they have been read)               *)
(*     rows  : the captured screen, top to bottom, one text (sequence of cells) per row, trailing blanks removed   *)
(* Verdict: the screen is exactly Render(st, geometry, cfg).  Rows whose exact content the specification leaves    *)
(* open are held to the documented claims alone: the prompt row where an inline info text has no room left beside *)
(* the query (its clipping is not modelled), and list rows that show a part of a line that is too long when the    *)
(* position of the match depends on the matching algorithm (~Determined) or the line has zero-width cells.         *)
(* A screen that differs from Render exactly by one of FzfScreen's named deviations is reported as "known ..."     *)
(* (still a mismatch: the check matches it against known_findings.json).                                           *)
EXTENDS FzfScreen, Json, IOUtils

TraceLog == ndJsonDeserialize(IOEnv.TRACE)
Shards == 16
VARIABLE l
JInit == l \in 1..(IF Len(TraceLog) < Shards THEN Len(TraceLog) ELSE Shards)
JNext == l + Shards <= Len(TraceLog) /\ l' = l + Shards

G(r) == [w |-> r.w, h |-> r.h, wide |-> Range(r.wide), zero |-> Range(r.zero)]
St(r) == VisAfter(VisInit(r.cfg), r.vis, 1) @@ r.st
ExactDomain(s, g, c) == InlineInfo(c) => InfoFits(QShown(s, g, c), s, g, c)

(* screen rows that are only held to the claims; gi / ce: the finder's area and the configuration in effect *)
OpenWindow(t, s, gi, ce) ==
    /\ ce.hscroll /\ TWT(t, ce.tabstop, gi) > TextRoom(gi, ce)
    /\ \/ s.pattern # <<>> /\ ~Determined(t, s.pattern, gi)
       \/ \E j \in 1..Len(t) : t[j] \in gi.zero
Loose(s, g, c) ==
    LET gi == Inner(g, c)
        ce == Eff(s, c)
        d == IF c.border THEN 1 ELSE 0
    IN {k + d : k \in {i \in 1..gi.h :
          LET sl == SlotAt(i - 1, gi, ce) IN
          \/ sl.kind = "prompt" /\ ~ExactDomain(s, gi, ce)
          \/ sl.kind = "item" /\ s.offset + sl.ix < N(s) /\ OpenWindow(s.texts[s.offset + sl.ix + 1], s, gi, ce)}}

Pre(r, s) ==                                    \* what can be said before looking at the rows ("" = nothing wrong)
    LET g == G(r)
        c == r.cfg
    IN IF s.texts # r.orig THEN "items"
       ELSE IF ~(0 <= s.xoffset /\ s.xoffset <= s.cx /\ s.cx <= Len(s.input)) THEN "xoffset"
       ELSE IF r.maxItems # MaxItems(Inner(g, c), Eff(s, c)) THEN "maxitems"
       ELSE IF Len(r.rows) # g.h THEN "height"
       ELSE ""
Core(r, s) ==                                   \* the verdict if the program's state is s
    LET g == G(r)
        c == r.cfg
        R == Render(s, g, c)
        L == Loose(s, g, c)
    IN IF Pre(r, s) # "" THEN Pre(r, s)
       ELSE IF \A i \in 1..g.h : i \in L \/ r.rows[i] = R[i]
            THEN (IF L = {} \/ Claims(r.rows, s, g, c) THEN "ok" ELSE "claims " \o FailedClaims(r.rows, s, g, c))
            ELSE IF L = {} /\ DevInfoTail(r.rows, s, g, c) THEN "known info-tail-not-cleared"
            ELSE "exact " \o FailedClaims(r.rows, s, g, c)
(* The scroll offset of the prompt line.  The hooks log the variable, the screen shows the prompt as it was last     *)
(* drawn - and the two can differ: beginning-of-line resets the variable at once, and when the action list goes on   *)
(* to put the cursor back where it was, the prompt is not drawn again (nothing that is displayed has changed).  So   *)
(* the offset of the last rendition is the logged one or, failing that, any offset updatePromptOffset can leave      *)
(* behind for this query, cursor and width (a fixed point of PromptOffset).                                           *)
AdmOffsets(s, g, c) == {xo \in 0..s.cx : PromptOffset([s EXCEPT !.xoffset = xo], Inner(g, c), Eff(s, c)) = xo}
CoreX(r, s) ==
    LET v == Core(r, s) IN
    IF v = "ok" \/ Pre(r, s) # "" THEN v
    ELSE IF \E xo \in AdmOffsets(s, G(r), r.cfg) : xo # s.xoffset /\ Core(r, [s EXCEPT !.xoffset = xo]) = "ok" THEN "ok"
    ELSE v
(* the logged xoffset is the value left by the last updatePromptOffset; while the prompt is not drawn (input hidden) or  *)
(* before the next print it can exceed the cursor position of a shorter query - printing clamps it first              *)
ClampX(s) == [s EXCEPT !.xoffset = IF @ > s.cx THEN s.cx ELSE @]
Verdict(r) ==
    LET s == ClampX(St(r))
        v == CoreX(r, s)
        a1 == DevHeaderLinesStayApplies(s, r.cfg)
        s1 == DevHeaderLinesStayState(s)
        a2 == DevHeaderLinesReversedApplies(s, r.cfg, r.vis)
        LostOK(ss) == Pre(r, ss) = "" /\ \E swap \in BOOLEAN : r.rows = DevInputWindowLostScreen(ss, G(r), r.cfg, swap)
        \* the observed screen with the rows of the missing header lines blanked
        Patched(ss) == [r EXCEPT !.rows = [i \in 1..Len(r.rows) |->
                            IF i \in MissingHeaderRows(G(r), Eff(ss, r.cfg), r.hmissing) THEN <<>> ELSE r.rows[i]]]
    IN IF v = "ok" THEN v
       ELSE IF a1 /\ Core(r, s1) = "ok" THEN "known header-lines-window-not-hidden"
       ELSE IF a2 /\ LostOK(s) THEN "known header-lines-reversed-after-show-input"
       ELSE IF a1 /\ a2 /\ LostOK(s1) THEN "known header-lines-window-not-hidden+reversed"
       ELSE IF r.hmissing > 0 /\ r.vis # <<>> /\ ~r.cfg.border /\ Len(r.rows) = r.h /\ Core(Patched(s), s) = "ok"
            THEN "known missing-header-lines-not-cleared"
       ELSE IF DevKeepRightLostApplies(s, r.cfg, r.filtered) /\ Core([r EXCEPT !.cfg = DevKeepRightLostCfg(r.cfg)], s) = "ok"
            THEN "known keep-right-lost-after-exclude"
       ELSE IF Pre(r, s) = "" /\ DevTabStops(r.rows, s, G(r), r.cfg, Loose(s, G(r), r.cfg))
            THEN "known tab-stops-assume-two-column-ellipsis"
       ELSE IF DevStaleRowsApplies(r.cfg, r.vis) /\ Pre(r, s) = "" /\ DevStaleRows(r.rows, s, G(r), r.cfg, Loose(s, G(r), r.cfg))
            THEN "known rows-not-cleared-after-header-toggle-reverse-list"
       ELSE v
DiffRows(r) == LET R == Render(St(r), G(r), r.cfg) IN
               {i \in 1..Min2(Len(r.rows), r.h) : r.rows[i] # R[i]}
RECURSIVE CatFrom(_, _)
CatFrom(t, i) == IF i > Len(t) THEN "" ELSE t[i] \o CatFrom(t, i + 1)
Expected(r) == LET R == Render(St(r), G(r), r.cfg) IN {<<i, CatFrom(R[i], 1)>> : i \in DiffRows(r)}
JInv == LET v == Verdict(TraceLog[l]) IN
        v = "ok" \/ (PrintT(<<"MISMATCH", l, v>>) /\ PrintT(<<"EXPECT", ToJson([l |-> l, rows |-> Expected(TraceLog[l])])>>))
=============================================================================
