---------------------------- MODULE Judge_Screen ----------------------------
(* Trace judge for FzfScreen.  One record per settle point of a real session (tmux pane W x H, real fzf built     *)
(* with -tags verif): the state logged by the last term.* hook event, the result list logged by the last          *)
(* term.list event, the configuration, and the screen captured from the terminal emulator.                        *)
(*   r = [w, h, wide, zero, cfg, st, maxItems, orig, rows]                                                         *)
(*     st    = [input, cx, xoffset, list, texts, sel, multi, cy, offset, count, track]   (FzfScreen's state)       *)
(*     orig  : the input records of the listed items (items never change after they have been read)               *)
(*     rows  : the captured screen, top to bottom, one text (sequence of cells) per row, trailing blanks removed   *)
(* Verdict: the screen is exactly Render(st, geometry, cfg).  Only where an inline info text has no room left      *)
(* beside the query (its clipping is not modelled) the prompt row is held to the documented claims alone.          *)
(* A screen that differs from Render exactly by FzfScreen's named deviation is reported as "known ..." (still a    *)
(* mismatch: the check matches it against known_findings.json).                                                    *)
EXTENDS FzfScreen, Json, IOUtils

TraceLog == ndJsonDeserialize(IOEnv.TRACE)
Shards == 16
VARIABLE l
JInit == l \in 1..(IF Len(TraceLog) < Shards THEN Len(TraceLog) ELSE Shards)
JNext == l + Shards <= Len(TraceLog) /\ l' = l + Shards

G(r) == [w |-> r.w, h |-> r.h, wide |-> Range(r.wide), zero |-> Range(r.zero)]
ExactDomain(s, g, c) == InlineInfo(c) => InfoFits(QShown(s, g, c), s, g, c)

Verdict(r) ==
    LET g == G(r)
        c == r.cfg
        s == r.st
        R == Render(s, g, c)
    IN IF r.st.texts # r.orig THEN "items"
       ELSE IF ~(0 <= s.xoffset /\ s.xoffset <= s.cx /\ s.cx <= Len(s.input)) THEN "xoffset"
       ELSE IF r.maxItems # MaxItems(g, c) THEN "maxitems"
       ELSE IF Len(r.rows) # g.h THEN "height"
       ELSE IF ExactDomain(s, g, c)
            THEN (IF r.rows = R THEN "ok"
                  ELSE IF DevInfoTail(r.rows, s, g, c) THEN "known info-tail-not-cleared"
                  ELSE "exact " \o FailedClaims(r.rows, s, g, c))
            ELSE IF \A i \in 1..g.h : SlotAt(i - 1, g, c).kind = "prompt" \/ r.rows[i] = R[i]
                 THEN (IF Claims(r.rows, s, g, c) THEN "ok" ELSE "claims " \o FailedClaims(r.rows, s, g, c))
                 ELSE "exact " \o FailedClaims(r.rows, s, g, c)
DiffRows(r) == LET R == Render(r.st, G(r), r.cfg) IN
               {i \in 1..Min2(Len(r.rows), r.h) : r.rows[i] # R[i]}
RECURSIVE CatFrom(_, _)
CatFrom(t, i) == IF i > Len(t) THEN "" ELSE t[i] \o CatFrom(t, i + 1)
Expected(r) == LET R == Render(r.st, G(r), r.cfg) IN {<<i, CatFrom(R[i], 1)>> : i \in DiffRows(r)}
JInv == LET v == Verdict(TraceLog[l]) IN
        v = "ok" \/ (PrintT(<<"MISMATCH", l, v>>) /\ PrintT(<<"EXPECT", ToJson([l |-> l, rows |-> Expected(TraceLog[l])])>>))
=============================================================================
