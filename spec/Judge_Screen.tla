---------------------------- MODULE Judge_Screen ----------------------------
(* Trace judge for FzfScreen.  One record per settle point of a real session (tmux pane W x H, real fzf built     *)
(* with -tags verif): the state logged by the last term.* hook event, the result list logged by the last          *)
(* term.list event, the configuration, and the screen captured from the terminal emulator.                        *)
(*   r = [w, h, wide, zero, cfg, st, maxItems, orig, rows, scrolled]                                               *)
(*     st    = [input, cx, list, texts, sel, multi, cy, offset, count]   (FzfScreen's state record)                *)
(*     orig  : the input records of the listed items (items never change after they have been read)               *)
(*     rows  : the captured screen, top to bottom, one text (sequence of cells) per row, trailing blanks removed   *)
(*     scrolled : some earlier query of the session was longer than the prompt line                               *)
(* Verdict: the screen is exactly Render(st, geometry, cfg) whenever the query fits on the prompt line; for a     *)
(* longer query (horizontal scrolling of the prompt is history dependent) every row but the prompt row is exact    *)
(* and the documented claims hold for the prompt row.                                                              *)
EXTENDS FzfScreen, Json, IOUtils

TraceLog == ndJsonDeserialize(IOEnv.TRACE)
Shards == 16
VARIABLE l
JInit == l \in 1..(IF Len(TraceLog) < Shards THEN Len(TraceLog) ELSE Shards)
JNext == l + Shards <= Len(TraceLog) /\ l' = l + Shards

G(r) == [w |-> r.w, h |-> r.h, wide |-> Range(r.wide), zero |-> Range(r.zero)]
ExactDomain(r, s, g, c) == ~r.scrolled /\ QueryFits(s, g, c) /\ (InlineInfo(c) => InfoFits(s.input, s, g, c))

Verdict(r) ==
    LET g == G(r)
        c == r.cfg
        s == r.st
        R == Render(s, g, c)
    IN IF r.st.texts # r.orig THEN "items"
       ELSE IF r.maxItems # MaxItems(g, c) THEN "maxitems"
       ELSE IF Len(r.rows) # g.h THEN "height"
       ELSE IF ExactDomain(r, s, g, c)
            THEN (IF r.rows = R THEN "ok" ELSE "exact " \o FailedClaims(r.rows, s, g, c, r.scrolled))
            ELSE IF \A i \in 1..g.h : SlotAt(i - 1, g, c).kind = "prompt" \/ r.rows[i] = R[i]
                 THEN (IF ClaimsS(r.rows, s, g, c, r.scrolled) THEN "ok" ELSE "claims " \o FailedClaims(r.rows, s, g, c, r.scrolled))
                 ELSE "exact " \o FailedClaims(r.rows, s, g, c, r.scrolled)
DiffRows(r) == LET R == Render(r.st, G(r), r.cfg) IN
               {i \in 1..Min2(Len(r.rows), r.h) : r.rows[i] # R[i]}
RECURSIVE CatFrom(_, _)
CatFrom(t, i) == IF i > Len(t) THEN "" ELSE t[i] \o CatFrom(t, i + 1)
Expected(r) == LET R == Render(r.st, G(r), r.cfg) IN {<<i, CatFrom(R[i], 1)>> : i \in DiffRows(r)}
JInv == LET v == Verdict(TraceLog[l]) IN
        v = "ok" \/ (PrintT(<<"MISMATCH", l, v>>) /\ PrintT(<<"EXPECT", ToJson([l |-> l, rows |-> Expected(TraceLog[l])])>>))
=============================================================================
