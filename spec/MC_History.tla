---------------------------- MODULE MC_History ----------------------------
(* Exhaustive configuration + behaviour export for FzfHistory. *)
EXTENDS FzfHistory, Json

MCQueries == {"", "a", "b", "c"}
MCInitFiles == { Missing, <<>>, <<"a">>, <<"a", NL>>, <<"a", NL, NL, "b", NL>>, <<NL, "a", NL, "b">>,
                 <<"a", NL, "b", NL, "c", NL, "a", NL>>, <<NL, NL>> }
MCMax == {1, 2, 3}
(* the behaviours replayed on the real History also carry entries with blanks at their edges and a blank-only entry: *)
(* an entry is what was submitted, byte for byte (only the newlines around the whole file are trimmed at load)      *)
GenQueries == {"", "a", "b", " c", "c ", " "}
GenInitFiles == MCInitFiles \cup { <<" a", NL, "b ", NL>>, <<"a", NL, " ">>, <<" ", NL, "a", NL>>, <<"a ", NL, " b">> }

(* ---- behaviour export: hist records each step with the observation the spec predicts ---- *)
VARIABLE hist
RECURSIVE Cat(_)
Cat(s) == IF s = <<>> THEN "" ELSE Head(s) \o Cat(Tail(s))
FileStr(f) == IF f = Missing THEN "MISSING" ELSE Cat(f)
Obs == [file |-> FileStr(file'), open |-> open',
        entries |-> IF open' THEN SubSeq(lines', 1, Len(lines') - 1) ELSE <<>>,
        cursor |-> IF open' THEN cursor' ELSE 0,
        ret |-> IF open' THEN Current(lines', modified', cursor') ELSE ""]
Step(a, arg) == hist' = Append(hist, [act |-> a, arg |-> arg, obs |-> Obs])

GInit == Init /\ hist = <<>>
GNext == \/ Load /\ Step("Load", "")
         \/ Quit /\ Step("Quit", "")
         \/ \E q \in Queries : \/ Prev(q) /\ Step("Prev", q)
                               \/ Next_(q) /\ Step("Next", q)
                               \/ Submit(q) /\ Step("Submit", q)
GNextMC == Next /\ UNCHANGED hist
Depth == 12
Emit == Len(hist) = Depth =>
          PrintT(<<"CASE", ToJson([max |-> max, file0 |-> FileStr(file0), steps |-> hist])>>)
GBound == Len(hist) <= Depth
=============================================================================
