CONSTANTS
  KeySpace <- MCKeys2
  MaxLines = 0
  KeyAlphabet <- KeyAlpha6
  KeyMaxLen = 4
  KeyScores <- KeyScores3
INIT KInit
NEXT KNext
INVARIANTS KMeta KEmit KeyDirections
CHECK_DEADLOCK FALSE
