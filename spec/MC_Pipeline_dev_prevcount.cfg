CONSTANTS
  MaxItems = 2
  ChunkSize = 2
  QueryCacheMax = 1
  MaxEdits = 2
  Queries = {"", "a", "b", "ab"}
  MaxReloads = 1
  TailN = 0
  BumpOnTrim = TRUE
  StalePrevCount = TRUE
  AllowOlder = FALSE
SPECIFICATION Spec
INVARIANTS PublishedIsFilter
CHECK_DEADLOCK FALSE
