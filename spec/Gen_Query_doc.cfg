CONSTANTS
  Universe <- DocUniverse
  Bodies <- DocBodies
  OptSet <- ExtOpts
  MaxTerms = 3
  RawAlpha <- DocAlpha
  MaxSyms = 0
INIT Init
NEXT Next
INVARIANT EmitNonEmpty
CHECK_DEADLOCK FALSE
