CONSTANTS
  Names = {}
  MaxNodes = 0
  AllowDangling = FALSE
INIT JInit
NEXT JNext
INVARIANT JInv
CHECK_DEADLOCK FALSE
