CONSTANTS
  Names = {}
  MaxNodes = 0
  AllowDangling = FALSE
  AllowCycles = TRUE
INIT JInit
NEXT JNext
INVARIANT JInv
CHECK_DEADLOCK FALSE
