\* E binding, quick: as Gen_Screen.cfg with two heights
CONSTANTS
  Widths = {20, 31}
  Heights = {4, 7}
  Layouts = {"default", "reverse", "reverse-list"}
  Infos = {"default", "inline", "hidden", "right", "inline-right"}
  Seps = {TRUE, FALSE}
  Headers <- MCHeadersG
  Hlines <- MCHlinesG
  HeaderFirsts = {TRUE, FALSE}
  Inputless = {FALSE, TRUE}
  Pointers <- MCPointers
  Markers <- MCMarkers
  Ellipses <- MCEllipses
  Lists <- MCListsG
  Multis = {0}
  Queries <- MCQueriesC
  MaxCount = 5
  Tracks = {0}
  Acts = {}
INIT GenInit
NEXT GenNext
INVARIANTS GenCase InvClaims InvPlace
CHECK_DEADLOCK FALSE
