\* E binding, quick: as Gen_Screen.cfg with two heights
CONSTANTS
  Widths = {20, 31}
  Heights = {4, 7}
  Layouts = {"default", "reverse", "reverse-list"}
  Infos = {"default", "inline", "hidden", "right", "inline-right"}
  Seps = {TRUE, FALSE}
  Headers <- MCHeadersG
  Hlines <- MCHlinesG
  HeaderFirsts = {TRUE, FALSE}
  Inputless = {FALSE, TRUE}
  Pointers <- MCPointers
  Markers <- MCMarkers
  Ellipses <- MCEllipses
  Lists <- MCListsG
  Multis = {0}
  Queries <- MCQueriesC
  MaxCount = 5
  Tracks = {0}
  Hscrolls = {FALSE}
  HscrollOffs = {10}
  KeepRights = {FALSE}
  Scrollbars <- MCNoScrollbar
  Borders = {FALSE}
  Tabstops = {8}
  Patterns <- MCPatternsNone
  Acts = {}
INIT GenInit
NEXT GenNextL
INVARIANTS GenCase InvClaims InvPlace InvHidden
CHECK_DEADLOCK FALSE
