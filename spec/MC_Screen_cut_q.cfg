\* quick: truncation around the text lengths with ellipsis variants; cut = declarative cut
CONSTANTS
  Widths = {11, 12, 13, 17}
  Heights = {4}
  Layouts = {"default"}
  Infos = {"hidden"}
  Seps = {FALSE}
  Headers <- MCHeadersL
  Hlines <- MCHlinesQ
  HeaderFirsts = {FALSE}
  Inputless = {FALSE}
  Pointers <- MCPointers2
  Markers <- MCMarkers
  Ellipses <- MCEllipses2
  Lists <- MCListsC
  Multis = {1}
  Queries <- MCQueriesC
  MaxCount = 12
  Tracks = {0, 1, 2}
  Hscrolls = {FALSE}
  HscrollOffs = {10}
  KeepRights = {FALSE}
  Scrollbars <- MCNoScrollbar
  Borders = {FALSE}
  Tabstops = {8}
  Patterns <- MCPatternsNone
  Acts = {"move", "toggle"}
INIT Init
NEXT Next
INVARIANTS InvRowCount InvWidth InvClaims InvOnePointer InvMarkers InvTakeW InvRTrim
CHECK_DEADLOCK FALSE
