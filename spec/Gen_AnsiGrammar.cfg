CONSTANTS
  AlphaSeq <- AlphaFull
  Prefix <- PrefNone
  MaxLen = 0
  Pres = {0}
  Depth <- EnvDepth
INIT GInit
NEXT GNextSim
INVARIANTS GEmit
CHECK_DEADLOCK FALSE
