\* horizontal scrolling: which part of a line that is too long is displayed, for every pattern position, --hscroll-off,
\* --keep-right, --no-hscroll, ellipsis, with the scrollbar and inside a border; the list scrolls, the pattern changes
CONSTANTS
  Widths = {12, 13, 16}
  Heights = {5}
  Layouts = {"default", "reverse"}
  Infos = {"hidden"}
  Seps = {FALSE}
  Headers <- MCHeadersL
  Hlines <- MCHlinesQ
  HeaderFirsts = {FALSE}
  Inputless = {FALSE}
  Pointers <- MCPointers
  Markers <- MCMarkers
  Ellipses <- MCEllipses2
  Lists <- MCListsC
  Multis = {1}
  Queries <- MCQueriesC
  MaxCount = 12
  Tracks = {0}
  Hscrolls = {TRUE, FALSE}
  HscrollOffs = {0, 2, 10}
  KeepRights = {TRUE, FALSE}
  Scrollbars <- MCScrollbars
  Borders = {TRUE, FALSE}
  Tabstops = {8}
  Patterns <- MCPatterns
  Acts = {"move", "pattern"}
INIT Init
NEXT Next
INVARIANTS InvRowCount InvWidth InvClaims InvFrame InvTextRoom InvOnePointer InvMarkers InvHidden InvRTrim
CHECK_DEADLOCK FALSE
