---------------------------- MODULE Judge_Editor ----------------------------
(* Trace judge for FzfEditor: every transition recorded from the real terminal loop (hooks term.act / term.loop /  *)
(* term.list / term.render) must be the transition the specification prescribes.  One record per transition:       *)
(*   k = "act"    : pre, post, act, arg, env       post = Apply(act, arg, pre, env)                                 *)
(*   k = "render" : pre, post, env, lastFocus      post = RenderT(pre, env, lastFocus) (+ cursor designates a result)*)
(*   k = "list"   : pre, post, kind, minLoaded, oldList, newList, maxItems   post = ListChangedT(...)                *)
(*   k = "steady" : pre, post                      post = pre  (nothing may change between these two events)        *)
(*   k = "items"  : texts, orig                   the texts of the listed items are the input records                *)
(*   k = "exit"   : pre, act, env, reading, count, how     how = Exits(act, pre, env, reading, count)               *)
EXTENDS FzfEditor, Json, IOUtils

TraceLog == ndJsonDeserialize(IOEnv.TRACE)
Shards == 16
VARIABLE l
JInit == l \in 1..(IF Len(TraceLog) < Shards THEN Len(TraceLog) ELSE Shards)
JNext == l + Shards <= Len(TraceLog) /\ l' = l + Shards

Explained(r) ==
  CASE r.k = "act" ->
         IF r.act \in Modelled THEN Apply(r.act, r.arg, r.pre, r.env) = r.post /\ TypeOKs(r.post) /\ SelectionWithinLimit(r.post)
         ELSE PrintT(<<"UNMODELLED", r.act>>)
    [] r.k = "render" -> /\ RenderT(r.pre, r.env, r.lastFocus) = r.post
                         /\ (r.env.maxItems > 0 => CursorDesignates(r.post, r.env) /\ ViewOK(r.post, r.env))
    [] r.k = "list" -> ListChangedTF(r.pre, r.oldList, r.newList, r.kind, LAMBDA x : x >= r.minLoaded, r.maxItems,
                                     "tacpass" \in DOMAIN r /\ r.tacpass) = r.post
    [] r.k = "steady" -> r.pre = r.post
    [] r.k = "items" -> r.texts = r.orig        \* items never change after they have been read
    [] r.k = "exit" -> Exits(r.act, r.pre, r.env, r.reading, r.count) = r.how
JInv == Explained(TraceLog[l]) \/ PrintT(<<"MISMATCH", l>>)
=============================================================================
