CONSTANTS
  MaxTokens = 2
  NItems = 3
  WorldIds = {2}
INIT Init
NEXT Next
INVARIANTS InvExpansionReadsBack InvEscapedStayLiteral InvPlusCoversSelection InvOrdinals InvNeverHazard Emit
CHECK_DEADLOCK FALSE
