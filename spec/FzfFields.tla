------------------------------- MODULE FzfFields -------------------------------
(* Field tokenizer and field index expressions: src/tokenizer.go (Tokenize, awkTokenizer, ParseRange, Transform,  *)
(* StripLastDelimiter), src/pattern.go (transformInput, iter), src/options.go (splitNth, nthTransformer,           *)
(* delimiterRegexp), src/item.go (acceptNth), src/terminal.go (replacePlaceholder, token type).                    *)
(*                                                                                                                 *)
(* A line is a sequence of FzfChars symbols.  A field index expression is a sequence of the one-character strings  *)
(* "0".."9", "-", "." (what the option parser admits besides the list separator ",").                              *)
(* A delimiter is a record [kind, id]: kind "awk" (default), "str" (literal string) or "re" (regular expression);   *)
(* id names an entry of the fixed menu below.  The match function of every menu regex is written out here.         *)
(*                                                                                                                 *)
(* Definitions marked DOCUMENTED follow man fzf (FIELD INDEX EXPRESSION, --nth, --with-nth, --accept-nth,           *)
(* --delimiter, placeholder rules).  Definitions marked CODE-DERIVED fix corners the manual leaves open.           *)
EXTENDS FzfChars, FiniteSets, TLC

(* TLCEval(v) = v; it only makes TLC build the value once instead of re-evaluating a function expression on every  *)
(* application.                                                                                                    *)

(* AWK style (the default delimiter).  DOCUMENTED ("AWK-style", like the default field splitting of awk inside one   *)
(* record): fields are separated by runs of blanks and the blanks are EXACTLY the two characters TAB and SPACE.       *)
(* Tokenizing is BY CHARACTER: a line is a sequence of characters (symbols), a field boundary lies between two        *)
(* characters and depends on nothing but which of the characters are TAB / SPACE.  Hence every other character is    *)
(* ordinary field content: the other control characters (CR, VT, FF, BS, US, DEL), the white space of Unicode        *)
(* beyond ASCII (NBSP U+00A0, NEL U+0085, U+2003, U+3000), zero width space, and every multi-byte character          *)
(* whatever bytes its UTF-8 encoding is made of (a-grave C3 A0, a-ogonek C4 85, dagger E2 80 A0, U+4F60 E4 BD A0,    *)
(* U+5800 E5 A0 80: the bytes 0x85 / 0xA0 are NEL / NBSP in Latin-1).  CODE-DERIVED: LF, which cannot occur in a     *)
(* line read with the default record separator, is field content as well (awk would split there).                    *)
AwkBlanks == {" ", "TAB"}
Blank(c) == c \in AwkBlanks
ASSUME AwkBlanks = Whites /\ AwkBlanks \cap OtherSpaces = {}
(* White space for every TRIMMING step (trailing white space of a stripped field / of a rendition, leading and       *)
(* trailing white space of a placeholder, the white space a prefix / suffix term skips): CODE-DERIVED                *)
(* unicode.IsSpace (strings.TrimSpace, TrimRightFunc(unicode.IsSpace), Chars.LeadingWhitespaces /                    *)
(* TrailingWhitespaces), a proper superset of the AWK blanks.                                                        *)
Space(c) == IsSpace(c)

-------------------------------------------------------------------------------
(* Sequence helpers *)
RECURSIVE Concat(_)
Concat(ss) == IF ss = <<>> THEN <<>> ELSE Head(ss) \o Concat(Tail(ss))
RECURSIVE SumLen(_, _)
SumLen(ss, k) == IF k = 0 THEN 0 ELSE Len(ss[k]) + SumLen(ss, k - 1)      \* total length of ss[1..k]
HasAt(s, i, p) == /\ i >= 1 /\ i + Len(p) - 1 <= Len(s)
                  /\ \A k \in 1..Len(p) : s[i + k - 1] = p[k]
RECURSIVE LeadBlanks(_)
LeadBlanks(s) == IF s # <<>> /\ Blank(Head(s)) THEN 1 + LeadBlanks(Tail(s)) ELSE 0
RECURSIVE LeadSpaces(_)
LeadSpaces(s) == IF s # <<>> /\ Space(Head(s)) THEN 1 + LeadSpaces(Tail(s)) ELSE 0
RECURSIVE TrailSpaces(_)
TrailSpaces(s) == IF s # <<>> /\ Space(s[Len(s)]) THEN 1 + TrailSpaces(SubSeq(s, 1, Len(s) - 1)) ELSE 0
TrimRight(s) == SubSeq(s, 1, Len(s) - TrailSpaces(s))
TrimBoth(s) == IF LeadSpaces(s) = Len(s) THEN <<>>
               ELSE SubSeq(s, LeadSpaces(s) + 1, Len(s) - TrailSpaces(s))   \* strings.TrimSpace
SetMin(S) == CHOOSE x \in S : \A y \in S : x <= y
SetMax(S) == CHOOSE x \in S : \A y \in S : x >= y

-------------------------------------------------------------------------------
(* Delimiters.  --delimiter STR: a single character or a string without regex meta characters is a literal string,   *)
(* anything else that compiles is a regular expression (delimiterRegexp; CHANGELOG 0.56).                            *)
(* "A single character" is a CHARACTER whatever its encoding: the one-character strings e-acute (two bytes) and box   *)
(* drawings vertical (three bytes) are literal delimiters just as "," is, and so is the two-character string          *)
(* e-acute + box vertical (no meta character); the bracket expression over the two is a regular expression.          *)
(* A literal delimiter occurs where the line has ITS CHARACTERS, all of them, in order (HasAt on symbols): never where  *)
(* only a part of the encoding of one of them is found.  A character that merely shares bytes with a delimiter        *)
(* character (e-grave C3 A8 / e-acute C3 A9; box horizontal E2 94 80 / box vertical E2 94 82) is field content.       *)
AwkD == [kind |-> "awk", id |-> ""]
StrPat(id) == CASE id = ","   -> <<",">>
                [] id = ", "  -> <<",", " ">>
                [] id = "TAB" -> <<"TAB">>
                [] id = ":"   -> <<":">>
                [] id = "e~"  -> <<"e~">>                 \* one non-ASCII character, two bytes
                [] id = "bxv" -> <<"bxv">>                \* one non-ASCII character, three bytes
                [] id = "e~bxv" -> <<"e~", "bxv">>        \* two non-ASCII characters
RECURSIVE RunOf(_, _, _)
RunOf(s, i, c) == IF i <= Len(s) /\ s[i] = c THEN 1 + RunOf(s, i + 1, c) ELSE 0
(* length of the (leftmost-first, greedy) match of the regex that starts exactly at position i; 0 = no match there.  *)
(* One menu regex can match the empty string ("b*", see EmptyOK / CutE below): for it 0 means "only the empty match". *)
ReLenAt(id, s, i) == CASE id = ","    -> IF s[i] = "," THEN 1 ELSE 0
                       [] id = ", "   -> IF HasAt(s, i, <<",", " ">>) THEN 2 ELSE 0
                       [] id = "TAB"  -> IF s[i] = "TAB" THEN 1 ELSE 0
                       [] id = "[,:]" -> IF s[i] \in {",", ":"} THEN 1 ELSE 0
                       [] id = ",+"   -> RunOf(s, i, ",")
                       [] id = "b*"   -> RunOf(s, i, "b")
                       [] id = ",|, " -> IF s[i] = "," THEN 1 ELSE 0     \* CODE-DERIVED: leftmost-FIRST, the first alternative that matches wins (not the longest): the blank stays in the next field
                       [] id = "[e~bxv]" -> IF s[i] \in {"e~", "bxv"} THEN 1 ELSE 0
(* the characters a delimiter occurrence can consist of *)
DelimChars(d) == CASE d.kind = "awk" -> AwkBlanks
                   [] d.kind = "str" -> {StrPat(d.id)[k] : k \in 1..Len(StrPat(d.id))}
                   [] d.id \in {",", ",+", ",|, "} -> {","}
                   [] d.id = "b*"      -> {"b"}
                   [] d.id = ", "      -> {",", " "}
                   [] d.id = "TAB"     -> {"TAB"}
                   [] d.id = "[,:]"    -> {",", ":"}
                   [] d.id = "[e~bxv]" -> {"e~", "bxv"}
DelimLenAt(d, s, i) == IF d.kind = "str" THEN (IF HasAt(s, i, StrPat(d.id)) THEN Len(StrPat(d.id)) ELSE 0)
                       ELSE ReLenAt(d.id, s, i)

-------------------------------------------------------------------------------
(* Tokenize.  DOCUMENTED: the line is cut after every delimiter occurrence (fields keep their trailing delimiter);   *)
(* AWK style: a field is a run of non-blanks together with the blanks that follow it.                                *)
(* CODE-DERIVED: a literal delimiter at the very end of the line is followed by one more, empty, field              *)
(* (strings.SplitAfter), a regex delimiter is not; AWK-style leading blanks belong to no field (they only shift     *)
(* the offsets); the empty line has one empty field under a literal delimiter and none otherwise.                   *)
RECURSIVE Cut(_, _, _, _)
Cut(d, s, i, b) ==       \* b = start of the field being scanned, i = scan position
    IF i > Len(s) THEN (IF b <= Len(s) \/ d.kind = "str" THEN <<SubSeq(s, b, Len(s))>> ELSE <<>>)
    ELSE LET n == DelimLenAt(d, s, i) IN
         IF n > 0 THEN <<SubSeq(s, b, i + n - 1)>> \o Cut(d, s, i + n, i + n)
         ELSE Cut(d, s, i + 1, b)
(* A regular expression that also matches the EMPTY string (menu: "b*").  CODE-DERIVED (regexp.FindAllStringIndex):    *)
(* the matches are found left to right without overlap; at an offset where the delimiter's characters stand the match  *)
(* is their whole run, elsewhere it is empty - and an empty match counts unless it directly follows the previous       *)
(* match (the scan then moves on by one CHARACTER, whatever its encoding).  The line is cut after every match: a line   *)
(* that does not begin with the delimiter gets an EMPTY first field, every later field is one character followed by    *)
(* the run of delimiter characters after it; the empty line has one empty field.  Still a partition with character     *)
(* offsets (the property), which is what PartitionOK demands of it like of any other delimiter.                        *)
EmptyOK(d) == d.kind = "re" /\ d.id = "b*"
RECURSIVE ScanE(_, _, _, _)
ScanE(s, pos, prev, begin) ==      \* offsets 0..Len(s): scan position, end of the previous match (-1: none), start of the field
    IF pos > Len(s) THEN (IF begin < Len(s) THEN <<SubSeq(s, begin + 1, Len(s))>> ELSE <<>>)
    ELSE LET r == IF pos < Len(s) THEN RunOf(s, pos + 1, "b") ELSE 0 IN
         IF r > 0 THEN <<SubSeq(s, begin + 1, pos + r)>> \o ScanE(s, pos + r, pos + r, pos + r)
         ELSE IF pos # prev THEN <<SubSeq(s, begin + 1, pos)>> \o ScanE(s, pos + 1, pos, pos)
         ELSE ScanE(s, pos + 1, prev, begin)
CutE(s) == ScanE(s, 0, -1, 0)
RECURSIVE AwkCut(_, _, _)
AwkCut(s, i, b) ==
    IF i > Len(s) THEN <<SubSeq(s, b, Len(s))>>
    ELSE IF ~Blank(s[i]) /\ Blank(s[i - 1]) THEN <<SubSeq(s, b, i - 1)>> \o AwkCut(s, i + 1, i)
    ELSE AwkCut(s, i + 1, b)
FieldTexts(s, d) == IF d.kind = "awk"
                    THEN (LET k == LeadBlanks(s) IN IF k = Len(s) THEN <<>> ELSE AwkCut(s, k + 2, k + 1))
                    ELSE IF EmptyOK(d) THEN CutE(s)
                    ELSE Cut(d, s, 1, 1)
FirstOffset(s, d) == IF d.kind = "awk" THEN LeadBlanks(s) ELSE 0
(* a token = [t |-> text, p |-> number of characters of the line before it] *)
Tokenize(s, d) == LET tx == FieldTexts(s, d) IN
                  TLCEval([i \in 1..Len(tx) |-> [t |-> tx[i], p |-> FirstOffset(s, d) + SumLen(tx, i - 1)]])
PrefixLen(s, d, i) == Tokenize(s, d)[i].p

-------------------------------------------------------------------------------
(* Field index expressions.  DOCUMENTED: a non-zero integer or [BEGIN]..[END]; negative numbers count from the end.  *)
RDigits == {"0", "1", "2", "3", "4", "5", "6", "7", "8", "9"}
RChars == RDigits \cup {"-", "."}
DigitVal(c) == CASE c = "0" -> 0 [] c = "1" -> 1 [] c = "2" -> 2 [] c = "3" -> 3 [] c = "4" -> 4
                 [] c = "5" -> 5 [] c = "6" -> 6 [] c = "7" -> 7 [] c = "8" -> 8 [] c = "9" -> 9
AllDigits(t) == t # <<>> /\ \A i \in 1..Len(t) : t[i] \in RDigits
IsInt(t) == AllDigits(t) \/ (Len(t) >= 2 /\ t[1] = "-" /\ AllDigits(Tail(t)))
RECURSIVE NatVal(_)
NatVal(t) == IF t = <<>> THEN 0 ELSE 10 * NatVal(SubSeq(t, 1, Len(t) - 1)) + DigitVal(t[Len(t)])
IntVal(t) == IF t[1] = "-" THEN 0 - NatVal(Tail(t)) ELSE NatVal(t)
Dots == <<".", ".">>
BadRange == [ok |-> FALSE, lo |-> 0, hi |-> 0]
(* result: ok, lo, hi with 0 = "open end"; a single index N is lo = hi = N *)
ParseRange(e) ==
    IF IsInt(e) THEN (IF IntVal(e) = 0 THEN BadRange ELSE [ok |-> TRUE, lo |-> IntVal(e), hi |-> IntVal(e)])
    ELSE LET K == {k \in 0..(Len(e) - 2) :
                      /\ HasAt(e, k + 1, Dots)
                      /\ k = 0 \/ IsInt(SubSeq(e, 1, k))
                      /\ k + 2 = Len(e) \/ IsInt(SubSeq(e, k + 3, Len(e)))}
         IN IF K = {} THEN BadRange
            ELSE LET k == CHOOSE x \in K : TRUE
                     lo == IF k = 0 THEN 0 ELSE IntVal(SubSeq(e, 1, k))
                     hi == IF k + 2 = Len(e) THEN 0 ELSE IntVal(SubSeq(e, k + 3, Len(e)))
                 IN IF (k > 0 /\ lo = 0) \/ (k + 2 < Len(e) /\ hi = 0) THEN BadRange      \* zero is not an index
                    ELSE IF lo < 0 /\ hi > 0 THEN BadRange     \* CODE-DERIVED: -A..B (A, B > 0) is rejected
                    ELSE [ok |-> TRUE, lo |-> lo, hi |-> hi]
(* a comma-separated list (splitNth): every element must parse *)
ParseNth(es) == TLCEval([k \in 1..Len(es) |-> ParseRange(es[k])])
NthOk(es) == es # <<>> /\ \A k \in 1..Len(es) : ParseRange(es[k]).ok

Resolve(x, n) == IF x < 0 THEN n + 1 + x ELSE x
LoOf(r, n) == IF r.lo = 0 THEN 1 ELSE Resolve(r.lo, n)
HiOf(r, n) == IF r.hi = 0 THEN n ELSE Resolve(r.hi, n)
(* DOCUMENTED: the fields an expression selects among n fields *)
SelIdx(r, n) == {i \in 1..n : LoOf(r, n) <= i /\ i <= HiOf(r, n)}
(* the selected fields joined, with the offset of the first of them (0 when nothing is selected: unobservable) *)
Select(toks, r) ==
    LET I == SelIdx(r, Len(toks)) IN
    IF I = {} THEN [t |-> <<>>, p |-> 0]
    ELSE [t |-> Concat([k \in 1..(SetMax(I) - SetMin(I) + 1) |-> toks[SetMin(I) + k - 1].t]), p |-> toks[SetMin(I)].p]
Transform(toks, rs) == TLCEval([k \in 1..Len(rs) |-> Select(toks, rs[k])])
JoinT(parts) == Concat([k \in 1..Len(parts) |-> parts[k].t])

-------------------------------------------------------------------------------
(* StripLastDelimiter: removes one trailing delimiter, then trailing white space. *)
RECURSIVE LastMatchStart(_, _, _, _)
LastMatchStart(d, s, i, last) ==       \* start of the last regex match (scanning left to right) if it ends at Len(s), else 0
    IF i > Len(s) THEN last
    ELSE LET n == DelimLenAt(d, s, i) IN
         IF n > 0 THEN LastMatchStart(d, s, i + n, IF i + n - 1 = Len(s) THEN i ELSE 0)
         ELSE LastMatchStart(d, s, i + 1, 0)
RECURSIVE TrailRun(_, _)
TrailRun(s, c) == IF s # <<>> /\ s[Len(s)] = c THEN 1 + TrailRun(SubSeq(s, 1, Len(s) - 1), c) ELSE 0
StripDelim(s, d) ==                     \* the delimiter only
    IF EmptyOK(d) THEN SubSeq(s, 1, Len(s) - TrailRun(s, "b"))     \* the last match that ends the text: the trailing run (or the empty match)
    ELSE IF d.kind = "str" THEN (LET p == StrPat(d.id) IN
                            IF Len(s) >= Len(p) /\ HasAt(s, Len(s) - Len(p) + 1, p) THEN SubSeq(s, 1, Len(s) - Len(p)) ELSE s)
    ELSE IF d.kind = "re" THEN (LET k == LastMatchStart(d, s, 1, 0) IN IF k > 0 THEN SubSeq(s, 1, k - 1) ELSE s)
    ELSE s
StripLastDelimiter(s, d) == TrimRight(StripDelim(s, d))

-------------------------------------------------------------------------------
(* --nth: the search scope.  DOCUMENTED: the expressions limit the search scope; offsets refer to the whole line.    *)
(* CODE-DERIVED: every expression of the list is a separate scope (a term never matches across two of them), scopes   *)
(* are tried in list order and the first that matches wins; with a non-AWK delimiter the LAST scope of the list      *)
(* loses its trailing delimiter and trailing white space ("to allow suffix match").                                        *)
ScopesT(toks, d, nth) ==
    LET ps == Transform(toks, nth) IN
    TLCEval([k \in 1..Len(ps) |-> IF k = Len(ps) /\ d.kind # "awk" THEN [t |-> StripLastDelimiter(ps[k].t, d), p |-> ps[k].p]
                                  ELSE ps[k]])
Scopes(line, d, nth) == ScopesT(Tokenize(line, d), d, nth)
(* CODE-DERIVED (postProcessOptions): on the command line an --nth list that is a single all-fields expression     *)
(* (.., 1.., ..-1, 1..-1) - or, outside extended-search mode, merely contains one - is dropped: the whole line is    *)
(* searched and nothing is stripped.                                                                                 *)
FullRange(r) == r.lo \in {0, 1} /\ r.hi \in {0, -1}
EffectiveNth(nth, extended) == IF (~extended \/ Len(nth) = 1) /\ (\E k \in 1..Len(nth) : FullRange(nth[k])) THEN <<>> ELSE nth
ExtendedKind(kind) == kind # "xexact"
(* term kinds: "exact" ('t), "prefix" (^t), "suffix" (t$), "fuzzy" (t), "xexact" (--no-extended --exact);            *)
(* case-sensitive, no normalisation, terms contain no white space.  What a kind means on a text is C01/C02's subject; the   *)
(* definitions here are the plain ones.                                                                              *)
RECURSIVE Embeds(_, _)
Embeds(term, t) == IF term = <<>> THEN TRUE
                   ELSE IF t = <<>> THEN FALSE
                   ELSE IF Head(term) = Head(t) THEN Embeds(Tail(term), Tail(t)) ELSE Embeds(term, Tail(t))
Holds(kind, term, t) ==
    CASE kind \in {"exact", "xexact"} -> \E i \in 1..Len(t) : HasAt(t, i, term)
      [] kind = "prefix" -> HasAt(t, LeadSpaces(t) + 1, term)
      [] kind = "suffix" -> HasAt(t, Len(t) - TrailSpaces(t) - Len(term) + 1, term)
      [] kind = "fuzzy"  -> Embeds(term, t)
Determined(kind) == kind \in {"prefix", "suffix"}
(* 0-based start of the match inside t for the kinds that fix it *)
StartIn(kind, term, t) == IF kind = "prefix" THEN LeadSpaces(t) ELSE Len(t) - TrailSpaces(t) - Len(term)
NoMatch == [matched |-> FALSE, part |-> 0, lo |-> 0, hi |-> 0, s |-> -1, e |-> -1]
(* matched; the scope that matched and its extent [lo, hi) in characters of the line; s, e (0-based, e exclusive)     *)
(* for the determined kinds, -1 otherwise                                                                            *)
ScopesOfT(line, toks, d, nth) == IF nth = <<>> THEN <<[t |-> line, p |-> 0]>> ELSE ScopesT(toks, d, nth)  \* no --nth: the line
ScopesOf(line, d, nth) == ScopesOfT(line, Tokenize(line, d), d, nth)
MatchScopes(sc, kind, term) ==
    LET I == {k \in 1..Len(sc) : Holds(kind, term, sc[k].t)}
    IN IF I = {} THEN NoMatch
       ELSE LET k == SetMin(I)
                s == IF Determined(kind) THEN sc[k].p + StartIn(kind, term, sc[k].t) ELSE -1
            IN [matched |-> TRUE, part |-> k, lo |-> sc[k].p, hi |-> sc[k].p + Len(sc[k].t),
                s |-> s, e |-> IF s < 0 THEN -1 ELSE s + Len(term)]
NthMatch(line, d, nth, kind, term) == MatchScopes(ScopesOf(line, d, nth), kind, term)
(* Is an observed match (offsets s, e and sorted positions pos, all 0-based in characters of the line) one that the   *)
(* specification allows?  pos may be empty when the matcher reports none.                                            *)
RECURSIVE Increasing(_)
Increasing(ps) == Len(ps) < 2 \/ (ps[1] < ps[2] /\ Increasing(Tail(ps)))
ObservedOk(line, d, nth, kind, term, matched, s, e, pos) ==
    LET m == NthMatch(line, d, nth, kind, term) IN
    /\ matched = m.matched
    /\ matched =>
         /\ m.lo <= s /\ s <= e /\ e <= m.hi                             \* inside the first matching scope
         /\ \A i \in 1..Len(pos) : s <= pos[i] /\ pos[i] < e
         /\ Increasing(pos)
         /\ CASE Determined(kind) -> s = m.s /\ e = m.e /\ (pos = <<>> \/ pos = [i \in 1..(e - s) |-> s + i - 1])
              [] kind \in {"exact", "xexact"} ->
                     /\ e - s = Len(term) /\ HasAt(line, s + 1, term)
                     /\ pos = <<>> \/ pos = [i \in 1..(e - s) |-> s + i - 1]
              [] kind = "fuzzy" ->
                     /\ Len(pos) = Len(term)
                     /\ \A i \in 1..Len(pos) : line[pos[i] + 1] = term[i]
                     /\ s = pos[1] /\ e = pos[Len(pos)] + 1

-------------------------------------------------------------------------------
(* --with-nth / --accept-nth.  A specification is either a plain list of expressions or a template: a sequence of    *)
(* parts [k |-> "lit", v |-> text], [k |-> "nth", v |-> list of expressions], [k |-> "n"].                            *)
(* DOCUMENTED: plain list = the selected fields joined; template = each {expr} evaluates to its fields with the       *)
(* trailing delimiter stripped, {n} to the ordinal index.  CODE-DERIVED: "stripped" also removes trailing white space.*)
RECURSIVE NatChars(_)
DigitChar(n) == CASE n = 0 -> "0" [] n = 1 -> "1" [] n = 2 -> "2" [] n = 3 -> "3" [] n = 4 -> "4"
                  [] n = 5 -> "5" [] n = 6 -> "6" [] n = 7 -> "7" [] n = 8 -> "8" [] n = 9 -> "9"
NatChars(n) == IF n < 10 THEN <<DigitChar(n)>> ELSE Append(NatChars(n \div 10), DigitChar(n % 10))
RenderRaw(line, d, spec, index) ==
    LET toks == Tokenize(line, d) IN
    IF spec.plain THEN JoinT(Transform(toks, ParseNth(spec.nth)))
    ELSE Concat([k \in 1..Len(spec.parts) |->
            LET part == spec.parts[k] IN
            CASE part.k = "lit" -> part.v
              [] part.k = "n"   -> NatChars(index)
              [] part.k = "nth" -> StripLastDelimiter(JoinT(Transform(toks, ParseNth(part.v))), d)])
(* what is shown and searched with --with-nth (core.go: trailing white space of the rendition is dropped) *)
WithNthText(line, d, spec, index) == TrimRight(RenderRaw(line, d, spec, index))
(* what --accept-nth prints.  DOCUMENTED: "the last delimiter is stripped from the output" *)
AcceptText(line, d, spec, index) == StripLastDelimiter(RenderRaw(line, d, spec, index), d)
(* --nth together with --with-nth works on the rendition (DOCUMENTED) *)
WithNthMatch(line, d, spec, index, nth, kind, term) == NthMatch(WithNthText(line, d, spec, index), d, nth, kind, term)

(* {expr} placeholders (replacePlaceholder, raw flag): fields joined, ONE trailing delimiter removed (white space kept), *)
(* then - DOCUMENTED - leading and trailing white space stripped unless the s flag is given.                         *)
Placeholder(line, d, nth, keepSpace) ==
    LET str == StripDelim(JoinT(Transform(Tokenize(line, d), nth)), d) IN
    IF keepSpace THEN str ELSE TrimBoth(str)
(* CODE-DERIVED: without the r flag the replacement is single-quoted for the shell (FzfShell / C12 has the full rule;  *)
(* this form holds for texts without a quote character)                                                              *)
Quoted(s) == <<"'">> \o s \o <<"'">>
(* {q:expr}: fields of the query, always AWK style; no delimiter stripping *)
QueryPlaceholder(query, nth, keepSpace) ==
    LET str == JoinT(Transform(Tokenize(query, AwkD), nth)) IN
    IF keepSpace THEN str ELSE TrimBoth(str)

-------------------------------------------------------------------------------
(* Properties of the design (checked by TLC in MC_Fields for every line / delimiter / expression of the bounded space) *)

(* the fields, preceded by the AWK leading blanks, give back the line *)
Partition(s, d) == LET tx == FieldTexts(s, d)
                       k == FirstOffset(s, d) IN
                   /\ SubSeq(s, 1, k) \o Concat(tx) = s
                   /\ \A i \in 1..k : Blank(s[i])
                   /\ d.kind # "awk" => k = 0
(* every field sits at the offset recorded for it, offsets are cumulative *)
OffsetsExact(s, d) == LET toks == Tokenize(s, d) IN
                      \A i \in 1..Len(toks) :
                          /\ SubSeq(s, toks[i].p + 1, toks[i].p + Len(toks[i].t)) = toks[i].t
                          /\ i > 1 => toks[i].p = toks[i - 1].p + Len(toks[i - 1].t)
(* independent characterisation of where the cuts are *)
CutsRight(s, d) ==
    LET toks == Tokenize(s, d)
        n == Len(toks) IN
    IF d.kind = "awk"
    THEN /\ (n = 0) = (\A i \in 1..Len(s) : Blank(s[i]))
         /\ \A i \in 1..n : LET t == toks[i].t IN
               /\ t # <<>> /\ ~Blank(t[1])
               /\ \A j \in 1..(Len(t) - 1) : Blank(t[j]) => Blank(t[j + 1])          \* non-blanks then blanks
               /\ i < n => Blank(t[Len(t)])
    ELSE IF EmptyOK(d)
    THEN \A i \in 1..n : LET t == toks[i].t
                             e == toks[i].p + Len(t) IN
            /\ (i > 1 => t # <<>> /\ t[1] # "b")                   \* only the first field can be empty or begin with the delimiter
            /\ \A j \in 2..Len(t) : t[j] = "b"                     \* one character, then delimiter characters only
            /\ (e = Len(s) \/ s[e + 1] # "b")                       \* all of them
    ELSE \A i \in 1..n :
            LET b == toks[i].p + 1
                e == toks[i].p + Len(toks[i].t)
                M == {k \in b..e : DelimLenAt(d, s, k) > 0} IN      \* delimiter matches starting inside the field
            /\ i < n => M # {}
            /\ M # {} => SetMin(M) + DelimLenAt(d, s, SetMin(M)) - 1 = e     \* the first one closes the field
            /\ (d.kind = "str" /\ i = n) => M = {}
            /\ (d.kind = "re") => toks[i].t # <<>>
(* AWK style is by character and only TAB / SPACE matter: replacing every other character by a letter changes       *)
(* neither the number of fields nor their offsets and lengths                                                        *)
Skeleton(s) == [i \in 1..Len(s) |-> IF Blank(s[i]) THEN s[i] ELSE "a"]
AwkByCharacter(s) == LET t1 == Tokenize(s, AwkD)
                         t2 == Tokenize(Skeleton(s), AwkD) IN
                     /\ Len(t1) = Len(t2)
                     /\ \A i \in 1..Len(t1) : t1[i].p = t2[i].p /\ Len(t1[i].t) = Len(t2[i].t)
(* The same for every delimiter: splitting is by character and only the delimiter's own characters matter.  Replacing  *)
(* every other character of the line - in particular one whose UTF-8 encoding begins with the same bytes as a         *)
(* delimiter character - by a letter moves no field boundary: same number of fields, same offsets, same lengths.      *)
SkeletonD(s, d) == [i \in 1..Len(s) |-> IF s[i] \in DelimChars(d) THEN s[i] ELSE "a"]
ByCharacter(s, d) == LET t1 == Tokenize(s, d)
                         t2 == Tokenize(SkeletonD(s, d), d) IN
                     /\ "a" \notin DelimChars(d)
                     /\ Len(t1) = Len(t2)
                     /\ \A i \in 1..Len(t1) : t1[i].p = t2[i].p /\ Len(t1[i].t) = Len(t2[i].t)
(* a literal delimiter is matched as a whole string of characters: the field boundaries are exactly the ends of the   *)
(* occurrences of the whole pattern found scanning left to right without overlap, whatever else the line contains     *)
RECURSIVE LiteralEnds(_, _, _)
LiteralEnds(s, p, i) == IF i + Len(p) - 1 > Len(s) THEN {}
                        ELSE IF HasAt(s, i, p) THEN {i + Len(p) - 1} \cup LiteralEnds(s, p, i + Len(p))
                        ELSE LiteralEnds(s, p, i + 1)
LiteralWhole(s, d) == d.kind = "str" =>
                      LET toks == Tokenize(s, d) IN
                      /\ {toks[i].p : i \in 2..Len(toks)} = LiteralEnds(s, StrPat(d.id), 1)
                      /\ Len(toks) = Cardinality(LiteralEnds(s, StrPat(d.id), 1)) + 1
(* the documented examples, for a list of tokens *)
RangeOf(lo, hi) == [ok |-> TRUE, lo |-> lo, hi |-> hi]
SelectionDocumented(toks) ==
    LET n == Len(toks)
        Field(i) == IF i \in 1..n THEN toks[i].t ELSE <<>>
        Fields(a, b) == Concat([k \in 1..(IF b >= a THEN b - a + 1 ELSE 0) |-> Field(a + k - 1)]) IN
    /\ \A N \in 1..5 : /\ Select(toks, RangeOf(N, N)).t = Field(N)                       \* N: the Nth field
                       /\ Select(toks, RangeOf(-N, -N)).t = Field(n + 1 - N)              \* -N: the Nth to last
                       /\ Select(toks, RangeOf(N, 0)).t = Fields(N, n)                    \* N..
                       /\ Select(toks, RangeOf(-N, 0)).t = Fields(n + 1 - N, n)           \* -N..
                       /\ Select(toks, RangeOf(0, N)).t = Fields(1, N)                    \* ..N
                       /\ Select(toks, RangeOf(0, -N)).t = Fields(1, n + 1 - N)           \* ..-N
    /\ Select(toks, RangeOf(0, 0)).t = Fields(1, n)                                       \* ..: all the fields
    /\ \A A \in 1..5, B \in 1..5 :
          /\ Select(toks, RangeOf(A, B)).t = Fields(A, B)
          /\ Select(toks, RangeOf(A, -B)).t = Fields(A, n + 1 - B)
          /\ Select(toks, RangeOf(-A, -B)).t = Fields(n + 1 - A, n + 1 - B)
(* whatever is selected is one contiguous piece of the line found at the recorded offset *)
SelectionContiguousT(s, toks, r) == LET x == Select(toks, r) IN
                                    x.t # <<>> => SubSeq(s, x.p + 1, x.p + Len(x.t)) = x.t
SelectionContiguous(s, d, r) == SelectionContiguousT(s, Tokenize(s, d), r)
(* --nth: a match lies inside the selected fields, and a term that occurs inside the body of one selected field      *)
(* (the field without its delimiter / trailing blanks) is found                                                      *)
SelectedFields(toks, nth) == UNION {SelIdx(nth[k], Len(toks)) : k \in 1..Len(nth)}
SelectedPositionsT(toks, nth) ==
    UNION {{toks[i].p + j : j \in 0..(Len(toks[i].t) - 1)} : i \in SelectedFields(toks, nth)}
SelectedPositions(s, d, nth) == SelectedPositionsT(Tokenize(s, d), nth)
NthSoundM(s, selpos, m, term) ==
    m.matched => /\ \A q \in m.lo..(m.hi - 1) : q \in selpos
                 /\ m.s >= 0 => (m.lo <= m.s /\ m.e <= m.hi /\ HasAt(s, m.s + 1, term))
NthSound(s, d, nth, kind, term) == NthSoundM(s, SelectedPositions(s, d, nth), NthMatch(s, d, nth, kind, term), term)
FieldBodies(toks, d) == TLCEval([i \in 1..Len(toks) |-> StripLastDelimiter(toks[i].t, d)])
OccursIn(term, t) == \E j \in 1..Len(t) : HasAt(t, j, term)
NthCompleteM(bodies, fields, term, m) == (\E i \in fields : OccursIn(term, bodies[i])) => m.matched
NthComplete(s, d, nth, term) ==
    LET toks == Tokenize(s, d) IN
    NthCompleteM(FieldBodies(toks, d), SelectedFields(toks, nth), term, NthMatch(s, d, nth, "exact", term))
================================================================================
