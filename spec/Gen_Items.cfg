CONSTANTS
  Thorough = FALSE
  Part = "content"
INIT GInit
NEXT GNext
INVARIANTS Emit
CHECK_DEADLOCK FALSE
