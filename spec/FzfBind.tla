------------------------------- MODULE FzfBind -------------------------------
(* --bind expressions: src/options.go parseKeymap / maskActionContents / parseActionList / parseKeyChordsImpl.   *)
(*                                                                                                               *)
(* A bind string is a sequence of ATOMS; an atom is the literal text of a key name, an action name or a single   *)
(* character, so the string itself is the concatenation of its atoms (Str).  No concatenation of two atoms of    *)
(* the vocabulary below is itself a key or action name (no digits next to "f2", no "s" next to "b", ...), which  *)
(* is what makes the atom view faithful to the character view of the implementation.                             *)
(*                                                                                                               *)
(* DOCUMENTED (man fzf, KEY/EVENT BINDINGS, ACTION COMPOSITION, ACTION ARGUMENT):                                *)
(*    bind   ::= pair ("," pair)*            pair ::= key ("," key)* ":" ["+"] action ("+" action)*              *)
(*    action ::= name | name OPEN arg CLOSE | name ":" rest-of-the-whole-string                                  *)
(*    OPEN/CLOSE ::= () [] {} <> ~~ !! @@ ## $$ %% ^^ && ** ;; // ||                                             *)
(*    a pair replaces the key's earlier binding unless the action list starts with "+", which appends;           *)
(*    "any single character" is a key.   PrintBind / Meaning below are this grammar and its meaning.                 *)
(* CODE-DERIVED: how the scanner finds the end of an argument (first CLOSE that is followed by "+", "," or the   *)
(*    end of the string - hence an argument may even contain CLOSE otherwise), the "," ":" "+" key escapes, and  *)
(*    everything ParseBind does on strings PrintBind never produces.  ParseBind is written as the scanner the        *)
(*    implementation documents for itself (mask argument bodies, then split on "," ":" "+"), at atom level;      *)
(*    the theorem model-checked in MC_Bind is  ParseBind(PrintBind(b)) = Meaning(b)  for every legal b.              *)
EXTENDS Integers, Sequences, FiniteSets, TLC

-------------------------------------------------------------------------------
(* Vocabulary *)
PairOpen  == {"(", "[", "{", "<"}
SymDelims == {"~", "!", "@", "#", "$", "%", "^", "&", "*", ";", "/", "|"}
DelimOpen == PairOpen \cup SymDelims
Close(c)  == CASE c = "(" -> ")" [] c = "[" -> "]" [] c = "{" -> "}" [] c = "<" -> ">" [] OTHER -> c

Letters     == {"a", "x"}
NonAscii    == {"é", "漢"}        \* multi-byte characters: one character each (a key on their own, ordinary argument text)
SingleChars == Letters \cup NonAscii \cup DelimOpen \cup {")", "]", "}", ">", " ", "+", ",", ":"}

(* key names: atom -> canonical event name ("" = unsupported).  return is the documented synonym of enter. *)
NamedKeys == {"ctrl-a", "enter", "return", "f2", "alt-x", "space", "load", "change", "tab", "up", "down"}
KeyCanon(k) == IF k = "return" THEN "enter"
               ELSE IF k = " " THEN "space"
               ELSE IF k \in NamedKeys \cup SingleChars THEN k
               ELSE ""
(* ALT chords written PREFIX + character: the atom "alt-" followed by one more atom.  The character may be one of the   *)
(* grammar's own delimiters (alt-: alt-+ alt-,): DOCUMENTED as ordinary key names, so whatever escaping the scanner    *)
(* uses internally has to be undone before the chord is looked up.  CODE-DERIVED names: alt-space / "alt- " print as   *)
(* "alt- ", alt-enter / alt-return as ctrl-alt-m.                                                                      *)
ALT == "alt-"
AltCanon(a) == IF a = "space" \/ a = " " THEN "alt- "
               ELSE IF a \in SingleChars THEN ALT \o a
               ELSE IF a \in {"enter", "return"} THEN "ctrl-alt-m"
               ELSE IF a \in {"up", "down"} THEN ALT \o a
               ELSE ""
(* the same chords as document-level key names (what a binding is written with): printed as two atoms *)
AltDelimKeys == {"alt-:", "alt-+", "alt-,"}
KeyAtoms(k) == CASE k = "alt-:" -> <<ALT, ":">> [] k = "alt-+" -> <<ALT, "+">> [] k = "alt-," -> <<ALT, ",">> [] OTHER -> <<k>>
DocCanon(k) == IF k \in AltDelimKeys THEN k ELSE KeyCanon(k)
(* keys that produce a printable character: the only ones `put` (without argument) may be bound to *)
Printable(canon) == canon \in SingleChars \cup {"space"}

(* actions without argument: atom -> the action types it expands to (names as actionType.Name() prints them) *)
PlainTypes(n) == CASE n = "up" -> <<"up">> [] n = "down" -> <<"down">> [] n = "accept" -> <<"accept">>
                   [] n = "abort" -> <<"abort">> [] n = "select-all" -> <<"select-all">>
                   [] n = "toggle-down" -> <<"toggle", "down">>          \* documented as toggle + down
                   [] n = "preview-up" -> <<"preview-up">> [] n = "print-query" -> <<"print-query">>
                   [] n = "toggle-preview" -> <<"toggle-preview">>
                   [] n = "change-multi" -> <<"change-multi">>
                   [] n = "put" -> <<"char">>                            \* CODE-DERIVED name of "insert the key itself"
                   [] OTHER -> <<>>
PlainNames == {"up", "down", "accept", "abort", "select-all", "toggle-down", "preview-up", "print-query",
               "toggle-preview", "change-multi", "put"}
(* actions that take an argument *)
ExecNames == {"execute", "execute-silent", "reload", "change-prompt", "transform-query", "put", "unbind",
              "change-multi"}
KeyListArg == {"unbind"}                      \* argument must be a valid key list
Letterish(a) == a \in Letters \cup NamedKeys \cup PlainNames \cup ExecNames \cup {"bogus"}

Act(name, arg) == <<name, arg>>               \* one bound action: type name, argument text

RECURSIVE Str(_)
Str(s) == IF s = <<>> THEN "" ELSE Head(s) \o Str(Tail(s))

-------------------------------------------------------------------------------
(* Key lists: parseKeyChordsImpl (--expect, unbind(...) targets).  Result: [ok, keys (set of canonical names)] *)
RECURSIVE SplitIdx(_, _, _, _)
(* strings.Split as index ranges <<lo, hi>> (hi = lo - 1 for an empty piece) *)
SplitIdx(s, sep, lo, i) == IF i > Len(s) THEN << <<lo, Len(s)>> >>
                           ELSE IF s[i] = sep THEN << <<lo, i - 1>> >> \o SplitIdx(s, sep, i + 1, i + 1)
                           ELSE SplitIdx(s, sep, lo, i + 1)
Pieces(s, sep) == LET r == SplitIdx(s, sep, 1, 1) IN [n \in 1..Len(r) |-> SubSeq(s, r[n][1], r[n][2])]

HasSub(s, pat) == \E i \in 1..(Len(s) - Len(pat) + 1) : SubSeq(s, i, i + Len(pat) - 1) = pat
CommaKey(s) == \/ s = <<",">>                                     \* CODE-DERIVED: how "," itself is listed
               \/ (Len(s) >= 2 /\ SubSeq(s, 1, 2) = <<",", ",">>)
               \/ (Len(s) >= 2 /\ SubSeq(s, Len(s) - 1, Len(s)) = <<",", ",">>)
               \/ HasSub(s, <<",", ",", ",">>)
KCOMMA == "\\K,"            \* an escaped "," (CODE-DERIVED escapes; the others are with the scanner below)
UnComma(a) == IF a = KCOMMA THEN "," ELSE a
TokenCanon(t) == IF Len(t) = 1 THEN KeyCanon(t[1])
                 ELSE IF Len(t) = 2 /\ t[1] = ALT THEN AltCanon(UnComma(t[2]))
                 ELSE ""
KeyTokenOK(t) == t = <<>> \/ TokenCanon(t) # ""
RECURSIVE Repl(_, _, _)
Repl(s, pat, rep) == IF Len(s) < Len(pat) THEN s
                     ELSE IF SubSeq(s, 1, Len(pat)) = pat
                          THEN rep \o Repl(SubSeq(s, Len(pat) + 1, Len(s)), pat, rep)
                     ELSE <<Head(s)>> \o Repl(Tail(s), pat, rep)
(* CODE-DERIVED: the "," of alt-, is protected before the list is cut at the commas (and before the "," rules look) *)
KeyList(s0) == LET s  == Repl(s0, <<ALT, ",">>, <<ALT, KCOMMA>>)
                   ps == Pieces(s, ",") IN
              IF s = <<>> \/ \E n \in 1..Len(ps) : ~KeyTokenOK(ps[n]) THEN [ok |-> FALSE, keys |-> {}]
              ELSE [ok |-> TRUE,
                    keys |-> {TokenCanon(ps[n]) : n \in {m \in 1..Len(ps) : ps[m] # <<>>}}
                             \cup (IF CommaKey(s) THEN {","} ELSE {})]

-------------------------------------------------------------------------------
(* The scanner *)
MASK   == "\\MASK"          \* a masked (argument) position
KCOLON == "\\K:"            \* escaped key ":"   (CODE-DERIVED escapes)
KPLUS  == "\\K+"

RECURSIVE FindExec(_, _)
(* first position j >= i holding ":" or "+" directly followed by the name of an action that takes an argument *)
FindExec(s, i) == IF i + 1 > Len(s) THEN 0
                  ELSE IF s[i] \in {":", "+"} /\ s[i + 1] \in ExecNames THEN i
                  ELSE FindExec(s, i + 1)
RECURSIVE FindClose(_, _, _)
(* CODE-DERIVED: the argument ends at the first CLOSE that is followed by "+", "," or the end of the string *)
FindClose(s, i, ce) == IF i > Len(s) THEN 0
                       ELSE IF s[i] = ce /\ (i = Len(s) \/ s[i + 1] \in {"+", ","}) THEN i
                       ELSE FindClose(s, i + 1, ce)
MaskRange(s, lo, hi) == [x \in 1..Len(s) |-> IF x >= lo /\ x <= hi THEN MASK ELSE s[x]]
RECURSIVE MaskFrom(_, _)
MaskFrom(s, i) ==
    LET j == FindExec(s, i) IN
    IF j = 0 THEN s
    ELSE LET k == j + 2 IN
         IF k > Len(s) THEN s
         ELSE IF s[k] = ":" THEN MaskRange(s, k, Len(s))              \* name:... takes the rest of the string
         ELSE IF s[k] \in DelimOpen
              THEN LET e == FindClose(s, k + 1, Close(s[k])) IN
                   IF e = 0 THEN s                                    \* unterminated: nothing more is masked
                   ELSE MaskFrom(MaskRange(s, k, e), e + 1)
         ELSE MaskFrom(s, k)
Mask(s) == MaskFrom(s, 1)

Escape(m) == LET m1 == Repl(m,  <<",", ",", ",">>, <<",", KCOMMA, ",">>)
                 m2 == Repl(m1, <<",", ":", ",">>, <<",", KCOLON, ",">>)
                 m3 == Repl(m2, <<":", ":">>, <<KCOLON, ":">>)
                 m4 == Repl(m3, <<",", ":">>, <<KCOMMA, ":">>)
             IN  Repl(m4, <<"+", ":">>, <<KPLUS, ":">>)

UnEsc(a) == IF a = KCOLON THEN ":" ELSE IF a = KCOMMA THEN "," ELSE IF a = KPLUS THEN "+" ELSE a
ResolveKey(k) == IF k = <<KCOLON>> THEN ":" ELSE IF k = <<KCOMMA>> THEN "," ELSE IF k = <<KPLUS>> THEN "+"
                 ELSE IF Len(k) = 1 THEN KeyCanon(k[1])
                 ELSE IF Len(k) = 2 /\ k[1] = ALT THEN AltCanon(UnEsc(k[2]))      \* alt-: alt-+ alt-, : the escaped character is the key's
                 ELSE ""

ERR == [err |-> TRUE]
(* one "+"-separated piece of an action list; spec = its original atoms, m = the same piece of the masked string  *)
(* (carried = a `name:rest` piece was prepended, see ActionsFrom).  Returns [err] or [err, acts]                   *)
(* CODE-DERIVED: a piece is taken for an action with argument iff masking or key-escaping changes it and its       *)
(* leading name is such an action.  `name:rest` takes the rest; otherwise the argument is accepted only if the     *)
(* scanner masked the piece from the opening character to its very end, i.e. the piece ends with the closing       *)
(* delimiter (since fix 6946a78; malformed pieces the escapes let through - `put+:`, `execute{a::b`,              *)
(* `change-multi,:toggle-preview`, `execute-silent[x],:down` - are errors, no longer accepted with a chopped arg). *)
IsExecSpec(spec) == /\ Len(spec) >= 2 /\ spec[1] \in ExecNames /\ ~Letterish(spec[2])
                    /\ Escape(Mask(<<":">> \o spec)) # <<":">> \o spec
Closed(spec, m, carried) == ~carried /\ Len(m) = Len(spec) /\ \A x \in 2..Len(m) : m[x] \in {MASK, " "}
OneAction(spec, m, carried, first, prev, putOK) ==
    IF spec = <<>> THEN (IF first THEN [err |-> FALSE, acts |-> prev] ELSE ERR)       \* leading "+": append
    ELSE IF Len(spec) = 1 /\ spec[1] \in PlainNames
         THEN IF spec[1] = "put" /\ ~putOK THEN ERR
              ELSE [err |-> FALSE, acts |-> [n \in 1..Len(PlainTypes(spec[1])) |-> Act(PlainTypes(spec[1])[n], "")]]
    ELSE IF IsExecSpec(spec)
         THEN IF spec[2] # ":" /\ ~Closed(spec, m, carried) THEN ERR                   \* unable to parse action argument
              ELSE LET arg == IF spec[2] = ":" THEN SubSeq(spec, 3, Len(spec)) ELSE SubSeq(spec, 3, Len(spec) - 1) IN
                   IF spec[1] \in KeyListArg /\ ~KeyList(arg).ok THEN ERR
                   ELSE [err |-> FALSE, acts |-> <<Act(spec[1], Str(arg))>>]
    ELSE ERR                                                                           \* unknown action
RECURSIVE ActionsFrom(_, _, _, _, _, _, _, _)
(* CODE-DERIVED: a `name:rest` piece that is not the last one would swallow the following pieces (carried over, "+"  *)
(* re-inserted).  It needs an unterminated argument before it to stop the masking, and that piece is an error       *)
(* itself, so this is not reachable through --bind any more; kept because the implementation keeps it.              *)
ActionsFrom(ranges, masked, orig, n, prev, putOK, acc, carry) ==
    IF n > Len(ranges) THEN [err |-> FALSE, acts |-> acc]
    ELSE LET spec == carry \o SubSeq(orig, ranges[n][1], ranges[n][2])
             m == SubSeq(masked, ranges[n][1], ranges[n][2]) IN
         IF n < Len(ranges) /\ IsExecSpec(spec) /\ spec[2] = ":"
         THEN ActionsFrom(ranges, masked, orig, n + 1, prev, putOK, acc, spec \o <<"+">>)
         ELSE LET r == OneAction(spec, m, carry # <<>>, n = 1, prev, putOK) IN
              IF r.err THEN ERR ELSE ActionsFrom(ranges, masked, orig, n + 1, prev, putOK, acc \o r.acts, <<>>)
ParseActions(masked, orig, prev, putOK) ==
    ActionsFrom(SplitIdx(masked, "+", 1, 1), masked, orig, 1, prev, putOK, <<>>, <<>>)

Bound(km, key) == IF key \in DOMAIN km THEN km[key] ELSE <<>>
Bind(km, key, acts) == [k \in DOMAIN km \cup {key} |-> IF k = key THEN acts ELSE km[k]]

RECURSIVE BindKeys(_, _, _, _, _)
BindKeys(km, keys, n, masked, orig) ==
    IF n > Len(keys) THEN [err |-> FALSE, km |-> km]
    ELSE LET key == ResolveKey(keys[n]) IN
         IF key = "" THEN ERR
         ELSE LET r == ParseActions(masked, orig, Bound(km, key), Printable(key)) IN
              IF r.err THEN ERR ELSE BindKeys(Bind(km, key, r.acts), keys, n + 1, masked, orig)

FirstIdx(s, c) == IF \E i \in 1..Len(s) : s[i] = c THEN CHOOSE i \in 1..Len(s) : s[i] = c /\ \A j \in 1..(i - 1) : s[j] # c
                  ELSE 0
RECURSIVE PairsFrom(_, _, _, _, _, _)
PairsFrom(km, keys, ranges, n, masked, orig) ==
    IF n > Len(ranges) THEN (IF keys # <<>> THEN ERR ELSE [err |-> FALSE, km |-> km])  \* keys without action
    ELSE LET mp == SubSeq(masked, ranges[n][1], ranges[n][2])
             op == SubSeq(orig, ranges[n][1], ranges[n][2])
             c  == FirstIdx(mp, ":")
             ka == IF c = 0 THEN mp ELSE SubSeq(mp, 1, c - 1) IN
         IF ka = <<>> THEN ERR                                                          \* key name required
         ELSE IF c = 0 THEN PairsFrom(km, Append(keys, ka), ranges, n + 1, masked, orig)
         ELSE LET r == BindKeys(km, Append(keys, ka), 1, SubSeq(mp, c + 1, Len(mp)), SubSeq(op, c + 1, Len(op))) IN
              IF r.err THEN ERR ELSE PairsFrom(r.km, <<>>, ranges, n + 1, masked, orig)

(* the keymap after `--bind s` on keymap km: [err |-> TRUE] or [err |-> FALSE, km |-> keymap] *)
ParseBind(km, s) == LET m == Escape(Mask(s)) IN PairsFrom(km, <<>>, SplitIdx(m, ",", 1, 1), 1, m, s)
EmptyKm == [k \in {} |-> <<>>]

-------------------------------------------------------------------------------
(* The documented grammar, as a printer and its meaning.                                                      *)
(* binding = sequence of pairs [keys: seq of key atoms, app: BOOLEAN, acts: seq of [name, form, arg]],        *)
(* form \in {"plain", ":"} \cup DelimOpen                                                                      *)
RECURSIVE Join(_, _)
Join(ss, sep) == IF ss = <<>> THEN <<>> ELSE IF Len(ss) = 1 THEN ss[1] ELSE ss[1] \o <<sep>> \o Join(Tail(ss), sep)
PrintAct(a) == IF a.form = "plain" THEN <<a.name>>
               ELSE IF a.form = ":" THEN <<a.name, ":">> \o a.arg
               ELSE <<a.name, a.form>> \o a.arg \o <<Close(a.form)>>
PrintPair(p) == Join([n \in 1..Len(p.keys) |-> KeyAtoms(p.keys[n])], ",") \o <<":">> \o (IF p.app THEN <<"+">> ELSE <<>>)
                \o Join([n \in 1..Len(p.acts) |-> PrintAct(p.acts[n])], "+")
PrintBind(b) == Join([n \in 1..Len(b) |-> PrintPair(b[n])], ",")

RECURSIVE Flat(_)
Flat(ss) == IF ss = <<>> THEN <<>> ELSE Head(ss) \o Flat(Tail(ss))
ActMeaning(a) == IF a.form = "plain" THEN [n \in 1..Len(PlainTypes(a.name)) |-> Act(PlainTypes(a.name)[n], "")]
                 ELSE <<Act(a.name, Str(a.arg))>>
RECURSIVE MeanKeys(_, _, _), Meaning(_, _)
MeanKeys(km, p, n) == IF n > Len(p.keys) THEN km
                      ELSE LET key == DocCanon(p.keys[n])
                               acts == (IF p.app THEN Bound(km, key) ELSE <<>>)
                                        \o Flat([m \in 1..Len(p.acts) |-> ActMeaning(p.acts[m])]) IN
                           MeanKeys(Bind(km, key, acts), p, n + 1)
Meaning(km, b) == IF b = <<>> THEN km ELSE Meaning(MeanKeys(km, Head(b), 1), Tail(b))

(* what an argument may contain under each form *)
DocCarry(form, arg) == form = ":" \/ \A i \in 1..Len(arg) : arg[i] # Close(form)          \* DOCUMENTED
Carry(form, arg) == form = ":" \/ \A i \in 1..(Len(arg) - 1) : arg[i] = Close(form) => arg[i + 1] \notin {"+", ","}
                                                                                           \* CODE-DERIVED
SpecialKeys == {",", ":", "+"}
LegalPair(p, lastPair) ==
    /\ p.keys # <<>> /\ p.acts # <<>>
    /\ \A n \in 1..Len(p.keys) : DocCanon(p.keys[n]) # ""
    /\ \A n \in 1..(Len(p.keys) - 1) : p.keys[n] \notin SpecialKeys \cup {"alt-:", "alt-,"}
                                                                          \* CODE-DERIVED: "," ":" "+" alt-: alt-, only as last key
    /\ \A n \in 1..Len(p.acts) : LET a == p.acts[n] IN
          /\ a.form = "plain" => /\ a.name \in PlainNames
                                 /\ a.name = "put" => \A m \in 1..Len(p.keys) : Printable(DocCanon(p.keys[m]))
          /\ a.form # "plain" => /\ a.name \in ExecNames /\ a.form \in DelimOpen \cup {":"}
                                 /\ Carry(a.form, a.arg)
                                 /\ a.name \in KeyListArg => KeyList(a.arg).ok
          /\ a.form = ":" => (lastPair /\ n = Len(p.acts))               \* DOCUMENTED: must be the last one
Legal(b) == b # <<>> /\ \A n \in 1..Len(b) : LegalPair(b[n], n = Len(b))

RoundTrips(km, b) == LET r == ParseBind(km, PrintBind(b)) IN ~r.err /\ r.km = Meaning(km, b)
================================================================================
