---------------------------- MODULE Gen_Matcher ----------------------------
(* Matcher-level schedules for the E binding of C08/C13 (harness TestVerifMatcherSchedules): the harness plays the    *)
(* coordinator on a real ChunkList + Matcher and uses the scan.chunk gate to place a cancelling request after the     *)
(* k-th chunk of a running scan.  Item i (0-based) has the text  [a][b]-i  with the letters given by Has; queries     *)
(* come from the lattice {"", "a", "b", "ab"} for which the real fuzzy matcher agrees with Holds by construction.     *)
(* Expected observation per case = the set of publish sequences FzfPipeline allows (a reset that arrives mid-scan may  *)
(* or may not be noticed before the scan completes), each published list being the sequential filter of its snapshot.  *)
EXTENDS Integers, Sequences, FiniteSets, TLC, Json

ChunkSize == 100
Has(i, c) == IF c = "a" THEN i % 7 = 0 ELSE i % 5 = 0
Holds(q, i) == CASE q = "" -> TRUE [] q = "a" -> Has(i, "a") [] q = "b" -> Has(i, "b") [] q = "ab" -> Has(i, "a") /\ Has(i, "b")
Filter(q, n) == SelectSeq([i \in 1..n |-> i - 1], LAMBDA x : Holds(q, x))
NumChunks(n) == (n + ChunkSize - 1) \div ChunkSize
Pub(q, n) == [q |-> q, count |-> n, ids |-> Filter(q, n)]

Sizes == {1, 99, 100, 101, 250, 300, 420}
Queries == {"", "a", "b", "ab"}
Parts == {1, 2, 3, 8}
CancelCases == {[kind |-> "cancel", n |-> n, parts |-> p, q1 |-> q1, k |-> k, q2 |-> q2,
                 expect |-> {<<Pub(q2, n)>>, <<Pub(q1, n), Pub(q2, n)>>}] :
                   n \in Sizes, p \in Parts, q1 \in Queries \ {""}, q2 \in Queries, k \in 1..5}
SeqCases == {[kind |-> "seq", parts |-> p, steps |-> <<[n |-> n1, q |-> qa], [n |-> n2, q |-> qb], [n |-> n3, q |-> qc]>>,
              expect |-> {<<Pub(qa, n1), Pub(qb, n2), Pub(qc, n3)>>}] :
                p \in {1, 3}, n1 \in {100, 250}, n2 \in {250, 320}, n3 \in {320, 420}, qa \in Queries, qb \in Queries, qc \in Queries}
Cases == {c \in CancelCases : c.k <= NumChunks(c.n)} \cup SeqCases

VARIABLE c
Init == c \in Cases
Next == UNCHANGED c
Emit == PrintT(<<"CASE", ToJson(c)>>)
=============================================================================
