CONSTANTS
  MaxTokens = 2
  NItems = 2
  WorldIds = {3}
  TokenIds = {2,14,32,33,34,35,37,39,40,41,42}
  QueryIds = {1,4,5}
  DelimIds = {1,2,3,5}
  SepSet = {"LF","NUL"}
INIT Init
NEXT Next
INVARIANTS InvExpansionReadsBack InvEscapedStayLiteral InvPlusCoversSelection InvOrdinals InvNeverHazard InvFilesReadBack InvPlusFileCoversSelection InvQueryWordsIgnoreDelimiter InvAwkFieldsAgree Emit
CHECK_DEADLOCK FALSE
