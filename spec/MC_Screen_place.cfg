\* placement: every geometry x configuration x shown / hidden sections; the list only scrolls
CONSTANTS
  Widths = {22}
  Heights = {3, 4, 5, 8}
  Layouts = {"default", "reverse", "reverse-list"}
  Infos = {"default", "inline", "hidden", "right", "inline-right"}
  Seps = {TRUE, FALSE}
  Headers <- MCHeaders
  Hlines <- MCHlines
  HeaderFirsts = {TRUE, FALSE}
  Inputless = {FALSE, TRUE}
  Pointers <- MCPointers
  Markers <- MCMarkers
  Ellipses <- MCEllipses
  Lists <- MCListsP
  Multis = {0}
  Queries <- MCQueriesQ
  MaxCount = 12
  Tracks = {0}
  Hscrolls = {FALSE}
  HscrollOffs = {10}
  KeepRights = {FALSE}
  Scrollbars <- MCNoScrollbar
  Borders = {FALSE}
  Tabstops = {8}
  Patterns <- MCPatternsNone
  Acts = {"move", "vis"}
INIT Init
NEXT Next
INVARIANTS InvHidden InvPlace InvRowCount InvClaims InvOnePointer InvPointerOnCurrent InvHeaderOutsideList
CHECK_DEADLOCK FALSE
