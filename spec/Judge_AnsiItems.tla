--------------------------- MODULE Judge_AnsiItems ---------------------------
(* J binding of C11, Part C: every record is one run of the real binary under tmux on a stream of lines               *)
(* (`fzf --ansi [--with-nth N..]`), with the rows of the list as tmux reports them (capture-pane -e): the text of      *)
(* each item and the colour / attributes of each of its characters.  from = 0: no --with-nth, 1: `1..` or `..`, 2: 2.. *)
(*   rows = Items(lines, from)                                                                                        *)
(* A record only explained with the deviation CarryLag switched on is reported as MISMATCH plus DEV CarryLag.         *)
EXTENDS FzfAnsi, Json, IOUtils

TraceLog == ndJsonDeserialize(IOEnv.TRACE)
Shards == 16
VARIABLE l
JInit == l = 0               \* dummy root, see Judge_Ansi
JNext == IF l = 0 THEN l' \in 1..(IF Len(TraceLog) < Shards THEN Len(TraceLog) ELSE Shards)
         ELSE l + Shards <= Len(TraceLog) /\ l' = l + Shards

ExplainedBy(r, dv) == LET p == Items(r.lines, r.from, dv) IN
                      /\ Len(r.rows) = Len(p)
                      /\ \A i \in 1..Len(p) : p[i].wf /\ r.rows[i].text = p[i].text /\ r.rows[i].attrs = p[i].attrs
Verdict(r) == IF ExplainedBy(r, Corners) THEN TRUE
              ELSE /\ PrintT(<<"MISMATCH", l>>)
                   /\ ExplainedBy(r, Corners \cup {"CarryLag"}) => PrintT(<<"DEV", l, "CarryLag">>)
JInv == l = 0 \/ Verdict(TraceLog[l])
================================================================================
