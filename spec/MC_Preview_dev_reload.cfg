CONSTANTS
  MaxUI = 1
  Kinds = {"finite"}
  ShowBumpsVersion = TRUE
  TemplateHasQ = FALSE
  H = 2
  LensKind = "one"
  WithReload = TRUE
  ReloadBumpsVersion = FALSE
  WithHideKeep = FALSE
  Follow = FALSE
  WithScroll = FALSE
  DelayedSetsVersion <- TreeDelayedSetsVersion
SPECIFICATION Spec
INVARIANTS TypeOK OneAlive ConvergenceStaleAfterReload
CHECK_DEADLOCK FALSE
