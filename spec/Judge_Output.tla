---------------------------- MODULE Judge_Output ----------------------------
(* Judge for C07: what the real binary wrote to stdout and its exit status, against FzfOutput.                     *)
(*   k = "filter"  : o, query, marker, items, out, status          (--filter runs)                                  *)
(*   k = "auto"    : o, query, marker, items, select1, exit0, started, out, status  (--select-1 / --exit-0 short cut)*)
(*   k = "session" : o, items, act, pre, env, reading, count, printQueue, pressed, out, status                      *)
(*                   act = the action that ended the session ("expect" when an --expect key did);                    *)
(*                   pre/env = editor state when it ran (FzfEditor); how the session ends is Exits(...)              *)
EXTENDS FzfOutput, FzfEditor, Json, IOUtils

TraceLog == ndJsonDeserialize(IOEnv.TRACE)
Shards == 16
VARIABLE l
JInit == l \in 1..(IF Len(TraceLog) < Shards THEN Len(TraceLog) ELSE Shards)
JNext == l + Shards <= Len(TraceLog) /\ l' = l + Shards

Fin(r) == [how |-> IF r.act = "expect" THEN "close" ELSE Exits(r.act, r.pre, r.env, r.reading, r.count),
           query |-> r.query, sel |-> r.pre.sel, current |-> Current(r.pre, r.env),
           printQueue |-> r.printQueue, pressed |-> r.pressed]
Explained(r) ==
  CASE r.k = "filter" -> /\ r.out = FilterLines(r.o, r.query, r.items, r.marker)
                         /\ r.status = FilterStatus(r.o, r.items, r.marker)
    [] r.k = "filterset" ->   \* sorted filter: order is C04's business, compare as multisets
                         /\ Len(r.out) = Len(FilterLines(r.o, r.query, r.items, r.marker))
                         /\ \A x \in {r.out[i] : i \in 1..Len(r.out)} :
                               Cardinality({i \in 1..Len(r.out) : r.out[i] = x}) =
                               Cardinality({i \in 1..Len(r.out) : FilterLines(r.o, r.query, r.items, r.marker)[i] = x})
                         /\ (r.o.printQuery /\ r.out # <<>> => r.out[1] = r.query)
                         /\ r.status = FilterStatus(r.o, r.items, r.marker)
    [] r.k = "auto" ->
         LET m == MatchIds(r.o, r.items, r.marker)
             triggered == (r.select1 /\ Len(m) = 1) \/ (r.exit0 /\ Len(m) = 0)
         IN IF triggered THEN /\ ~r.started /\ r.out = AutoLines(r.o, r.query, m, r.items) /\ r.status = AutoStatus(m)
            ELSE r.started /\ r.out = <<>> /\ r.status = 130      \* the finder came up; the driver aborted it
    [] r.k = "noexit" -> Exits(r.act, r.pre, r.env, r.reading, r.count) = "none"
    [] r.k = "session" -> /\ r.out = Lines(r.o, Fin(r), r.items)
                          /\ r.status = Status(r.o, Fin(r))
JInv == Explained(TraceLog[l]) \/ PrintT(<<"MISMATCH", l>>)
=============================================================================
