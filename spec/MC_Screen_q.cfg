\* quick: dynamics (edits incl. a query longer than the line, scrolling, selection, list changes, resizes)
CONSTANTS
  Widths = {12, 22}
  Heights = {5}
  Layouts = {"default", "reverse", "reverse-list"}
  Infos = {"default"}
  Seps = {TRUE}
  Headers <- MCHeadersQ
  Hlines <- MCHlinesQ
  HeaderFirsts = {FALSE}
  Inputless = {FALSE}
  Pointers <- MCPointers
  Markers <- MCMarkers
  Ellipses <- MCEllipses
  Lists <- MCListsD
  Multis = {1}
  Queries <- MCQueriesD
  MaxCount = 12
  Tracks = {0}
  Hscrolls = {FALSE}
  HscrollOffs = {10}
  KeepRights = {FALSE}
  Scrollbars <- MCNoScrollbar
  Borders = {FALSE}
  Tabstops = {8}
  Patterns <- MCPatternsNone
  Acts = {"edit", "move", "toggle", "list", "resize"}
INIT Init
NEXT Next
INVARIANTS InvHidden InvVisAlgebra InvRowCount InvWidth InvClaims InvOnePointer InvPointerOnCurrent InvMarkers InvHeaderOutsideList InvRTrim InvCursorVisible
CHECK_DEADLOCK FALSE
