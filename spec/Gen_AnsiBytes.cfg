CONSTANTS
  AlphaSeq <- EnvAlpha
  Prefix <- EnvPrefix
  MaxLen <- EnvMaxLen
  Pres <- EnvPres
  Depth = 0
INIT BInit
NEXT BNext
INVARIANTS BEmit
CHECK_DEADLOCK FALSE
