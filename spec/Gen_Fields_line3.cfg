CONSTANTS
  AlphaOf <- FullAlpha
  MaxLenOf <- Len3
  DelimSet <- AllDelims
INIT Init
NEXT Next
INVARIANTS InvPartition InvSelection InvNth InvRender EmitMenu EmitLine
CHECK_DEADLOCK FALSE
