CONSTANTS
  MaxUI = 2
  Kinds = {"finite"}
  ShowBumpsVersion = TRUE
  TemplateHasQ = FALSE
  H = 2
  LensKind = "mixed"
  WithScroll = TRUE
  DelayedSetsVersion = TRUE
SPECIFICATION Spec
INVARIANTS TypeOK OneAlive ConvergenceStaleRows
CHECK_DEADLOCK FALSE
