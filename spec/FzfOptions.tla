------------------------------ MODULE FzfOptions ------------------------------
(* Option parsing and layering: src/options.go ParseOptions / parseOptions / validateOptions.                    *)
(*                                                                                                               *)
(* Three sources are parsed in order  options file ($FZF_DEFAULT_OPTS_FILE) -> $FZF_DEFAULT_OPTS -> argv  into   *)
(* ONE configuration: the layering is a fold of Consume(word) over the words of each source, so a later          *)
(* occurrence overrides an earlier one and argv overrides the environment (DOCUMENTED: "Default options").       *)
(* A word is [k, o, v]:  opt  --multi | -m | +m        eq   --multi=V        att  -mV (short form, value attached)*)
(*                       val  a bare word V             V is a sequence of atoms (see FzfBind); Render = the text.*)
(* Vocabulary: representative options of every kind                                                              *)
(*   flags with a --no- twin   --multi/--no-multi/+m  --sort/--no-sort/+s  --cycle  --tac  -e/+e  -i/+i          *)
(*   required value            --query -q  --filter -f  --prompt  --delimiter -d  --tiebreak  --scheme  --nth -n *)
(*                             --height  --history  --history-size  --walker  --tabstop  --pointer               *)
(*                             --margin  --padding (1 to 4 sizes; --no-margin / --no-padding reset)              *)
(*                             --border-label-pos --list-label-pos --input-label-pos --header-label-pos          *)
(*                             --preview-label-pos (column and side; a later occurrence replaces BOTH)           *)
(*   optional value            --multi[=N] --sort[=N] (numeric: next word taken only if it starts with a digit)  *)
(*                             --border[=STYLE] --color[=SPEC] (next word taken unless it starts with - or +)    *)
(*   cumulative                --bind (per key)  --expect (union; --no-expect clears)  --color (per colour)      *)
(*                             --preview-window (per property; `default` resets)                                 *)
(*   dependent                 --history + --history-size;  --scheme sets --tiebreak (DOCUMENTED exception to    *)
(*                             "options are independent": --scheme=path "also sets --tiebreak=pathname,length") *)
(*   exiting                   --help -h --version (last one wins among them)                                    *)
(*   positional                --tmux[=SPEC] / --no-tmux against --height / --no-height: DOCUMENTED (ADVANCED.md, *)
(*                             "--tmux is specified later so it takes precedence over --height"): the popup is    *)
(*                             used iff --tmux is in force and was given after the --height in force, where       *)
(*                             "after" is the word position counted across ALL sources (file, env, argv)          *)
(* Exceptions to "last occurrence wins" found in the documentation: the cumulative options above; --scheme.      *)
(* CODE-DERIVED: a missing value is an error of the source it occurs in (a value is never taken from the next    *)
(* source); range checks of --tabstop happen at the end of each source; the width check of --pointer happens     *)
(* once after all sources (so an invalid pointer in the environment can still be overridden by argv); so does   *)
(* the (DOCUMENTED, --height) rule that an adaptive height excludes top/bottom margins / paddings in percent.    *)
EXTENDS FzfBind

Opt(o)    == [k |-> "opt", o |-> o,  v |-> <<>>]
Eq(o, v)  == [k |-> "eq",  o |-> o,  v |-> v]
Att(o, v) == [k |-> "att", o |-> o,  v |-> v]
Val(v)    == [k |-> "val", o |-> "", v |-> v]
Atoms(w)  == CASE w.k = "opt" -> <<w.o>> [] w.k = "eq" -> <<w.o, "=">> \o w.v [] w.k = "att" -> <<w.o>> \o w.v
               [] OTHER -> w.v
Render(w) == Str(Atoms(w))

-------------------------------------------------------------------------------
(* atoms with a numeric reading *)
NumAtoms == {"0", "1", "2", "3", "5", "7", "8", "10", "30", "40", "49", "50", "60", "80", "99", "100", "255", "256", "1000",
             "-1"}
NumVal(a) == CASE a = "0" -> 0 [] a = "1" -> 1 [] a = "2" -> 2 [] a = "3" -> 3 [] a = "5" -> 5 [] a = "7" -> 7 [] a = "8" -> 8
               [] a = "10" -> 10 [] a = "30" -> 30 [] a = "40" -> 40 [] a = "49" -> 49 [] a = "50" -> 50 [] a = "60" -> 60
               [] a = "80" -> 80
               [] a = "99" -> 99 [] a = "100" -> 100 [] a = "255" -> 255
               [] a = "256" -> 256 [] a = "1000" -> 1000 [] a = "-1" -> 0 - 1
DigitStart == NumAtoms \ {"-1"}
IsInt(v) == Len(v) = 1 /\ v[1] \in NumAtoms
IntOf(v) == NumVal(v[1])
RND == "\\RND"               \* placeholder for an arbitrary text: starts with a letter, is no name of anything, >= 3 columns
(* does the rendered word start with "-" or "+" / with a digit *)
DashPlus(w) == w.k # "val" \/ (w.v # <<>> /\ w.v[1] \in {"-1", "+", "-"})
DigitWord(w) == w.k = "val" /\ w.v # <<>> /\ w.v[1] \in DigitStart
TextLen(v) == IF v = <<RND>> THEN 3 ELSE Len(Str(v))

-------------------------------------------------------------------------------
(* the projected configuration *)
MaxMulti == 2147483647
DefaultPW == [pos |-> "right", hidden |-> FALSE, size |-> 50, percent |-> TRUE]
DefaultHeight == [size |-> 0, percent |-> FALSE, auto |-> FALSE, inverse |-> FALSE]
Sz(n, pct) == [size |-> n, percent |-> pct]
NoTmux == [on |-> FALSE, pos |-> "", w |-> Sz(0, FALSE), h |-> Sz(0, FALSE), border |-> FALSE]
DefaultTmux == [on |-> TRUE, pos |-> "center", w |-> Sz(50, TRUE), h |-> Sz(50, TRUE), border |-> FALSE]
Undef == 0 - 2                                                  \* CODE-DERIVED: tui colUndefined
MSz(n, f, pct) == [size |-> n, frac |-> f, percent |-> pct]     \* a margin / padding size: n + f/10 cells or percent
NoMargin == <<MSz(0, 0, FALSE), MSz(0, 0, FALSE), MSz(0, 0, FALSE), MSz(0, 0, FALSE)>>      \* top, right, bottom, left
DefaultLabelPos == [col |-> 0, bottom |-> FALSE]                \* centred, on the top border line
Default == [multi |-> 0, sort |-> 1000, cycle |-> FALSE, tac |-> FALSE, fuzzy |-> TRUE, case |-> "smart",
            query |-> "", prompt |-> "> ", filter |-> "\\NIL", delimiter |-> "", criteria |-> <<>>, scheme |-> "",
            nth |-> <<>>, height |-> DefaultHeight, border |-> "undefined", fg |-> Undef, bg |-> Undef,
            pw |-> DefaultPW, expect |-> {}, keymap |-> EmptyKm, hon |-> FALSE, hpath |-> "", hsize |-> 1000,
            walker |-> [file |-> TRUE, dir |-> FALSE, hidden |-> TRUE, follow |-> TRUE], tabstop |-> 8,
            pointer |-> <<"\\NIL">>, exit |-> "",
            margin |-> NoMargin, padding |-> NoMargin,
            blpos |-> DefaultLabelPos, llpos |-> DefaultLabelPos, ilpos |-> DefaultLabelPos, hlpos |-> DefaultLabelPos,
            plpos |-> DefaultLabelPos,          \* label positions: border, list, input, header, preview
            tmux |-> NoTmux, tidx |-> 0, hidx |-> 0]        \* tidx / hidx: word position of the --tmux / --height in force

OK(c)  == [ok |-> TRUE, cfg |-> c]
BAD    == [ok |-> FALSE]

-------------------------------------------------------------------------------
(* value grammars (DOCUMENTED in the option's man entry unless marked) *)
CritNames == {"length", "chunk", "pathname", "begin", "end", "index"}
RECURSIVE TieFrom(_, _, _, _)
TieFrom(ps, n, seen, acc) ==
    IF n > Len(ps) THEN (IF Len(acc) > 3 THEN BAD ELSE [ok |-> TRUE, val |-> <<"score">> \o acc])
    ELSE IF Len(ps[n]) # 1 \/ ps[n][1] \notin CritNames THEN BAD          \* invalid sort criterion
    ELSE IF ps[n][1] \in seen \/ "index" \in seen THEN BAD                \* only once; index only at the end
    ELSE TieFrom(ps, n + 1, seen \cup {ps[n][1]}, IF ps[n][1] = "index" THEN acc ELSE Append(acc, ps[n][1]))
Tiebreak(v) == TieFrom(Pieces(v, ","), 1, {}, <<>>)

SchemeCriteria(s) == CASE s = "default" -> <<"score", "length">> [] s = "path" -> <<"score", "pathname", "length">>
                       [] s = "history" -> <<"score">>

(* field index expressions: N  N..  ..N  N..M  ..   (0 = open end) *)
NZ(a) == a \in NumAtoms /\ NumVal(a) # 0
(* CODE-DERIVED normal form (newRange): a range starting at field 1 is open at the left, one ending at -1 open at the right *)
Rng(b, e) == <<IF b = 1 /\ e # 1 THEN 0 ELSE b, IF e = 0 - 1 THEN 0 ELSE e>>
RangeOf(p) == IF p = <<"..">> THEN <<0, 0>>
              ELSE IF Len(p) = 1 /\ NZ(p[1]) THEN Rng(NumVal(p[1]), NumVal(p[1]))
              ELSE IF Len(p) = 2 /\ p[1] = ".." /\ NZ(p[2]) THEN Rng(0, NumVal(p[2]))
              ELSE IF Len(p) = 2 /\ p[2] = ".." /\ NZ(p[1]) THEN Rng(NumVal(p[1]), 0)
              ELSE IF Len(p) = 3 /\ p[2] = ".." /\ NZ(p[1]) /\ NZ(p[3]) /\ ~(NumVal(p[1]) < 0 /\ NumVal(p[3]) > 0)
                   THEN Rng(NumVal(p[1]), NumVal(p[3]))
              ELSE <<>>
Nth(v) == LET ps == Pieces(v, ",") IN
          IF \E n \in 1..Len(ps) : RangeOf(ps[n]) = <<>> THEN BAD
          ELSE [ok |-> TRUE, val |-> [n \in 1..Len(ps) |-> RangeOf(ps[n])]]

(* [~]HEIGHT[%] or a negative height *)
Height(v) == LET auto == v # <<>> /\ v[1] = "~"
                 r == IF auto THEN Tail(v) ELSE v
                 pct == r # <<>> /\ r[Len(r)] = "%"
                 n == IF pct THEN SubSeq(r, 1, Len(r) - 1) ELSE r IN
             IF Len(n) # 1 \/ n[1] \notin NumAtoms THEN BAD
             ELSE IF n[1] = "-1" /\ auto THEN BAD
             ELSE IF pct /\ NumVal(n[1]) > 100 THEN BAD
             ELSE [ok |-> TRUE, val |-> [size |-> IF n[1] = "-1" THEN 1 ELSE NumVal(n[1]), percent |-> pct,
                                         auto |-> auto, inverse |-> n[1] = "-1"]]

WalkerNames == {"file", "dir", "hidden", "follow"}
Walker(v) == LET ps == Pieces(v, ",")
                 has(x) == \E n \in 1..Len(ps) : ps[n] = <<x>> IN
             IF \E n \in 1..Len(ps) : ps[n] # <<>> /\ ~(Len(ps[n]) = 1 /\ ps[n][1] \in WalkerNames) THEN BAD
             ELSE IF ~has("file") /\ ~has("dir") THEN BAD
             ELSE [ok |-> TRUE, val |-> [file |-> has("file"), dir |-> has("dir"), hidden |-> has("hidden"),
                                         follow |-> has("follow")]]

BorderNames == {"rounded", "sharp", "bold", "block", "thinblock", "double", "horizontal", "vertical", "top",
                "bottom", "left", "right", "none"}

(* --preview-window: tokens separated by "," or ":" *)
RECURSIVE Tokens(_, _)
Tokens(v, cur) == IF v = <<>> THEN (IF cur = <<>> THEN <<>> ELSE <<cur>>)
                  ELSE IF Head(v) \in {",", ":"} THEN (IF cur = <<>> THEN <<>> ELSE <<cur>>) \o Tokens(Tail(v), <<>>)
                  ELSE Tokens(Tail(v), Append(cur, Head(v)))
PWPos == {"up", "down", "left", "right"}
PWToken(pw, t) ==
    IF Len(t) = 1 /\ t[1] \in PWPos THEN OK([pw EXCEPT !.pos = t[1]])
    ELSE IF t = <<"hidden">> THEN OK([pw EXCEPT !.hidden = TRUE])
    ELSE IF t = <<"nohidden">> THEN OK([pw EXCEPT !.hidden = FALSE])
    ELSE IF t = <<"default">> THEN OK(DefaultPW)
    ELSE IF t = <<"-1">> THEN OK(pw)                                              \* CODE-DERIVED: a scroll offset
    ELSE IF Len(t) = 1 /\ t[1] \in DigitStart THEN OK([pw EXCEPT !.size = NumVal(t[1]), !.percent = FALSE])
    ELSE IF Len(t) = 2 /\ t[1] \in DigitStart /\ t[2] = "%"
         THEN IF NumVal(t[1]) > 99 THEN BAD ELSE OK([pw EXCEPT !.size = NumVal(t[1]), !.percent = TRUE])
    ELSE BAD
RECURSIVE PWFrom(_, _, _)
PWFrom(pw, ts, n) == IF n > Len(ts) THEN OK(pw)
                     ELSE LET r == PWToken(pw, ts[n]) IN IF r.ok THEN PWFrom(r.cfg, ts, n + 1) ELSE BAD
PreviewWindow(pw, v) == PWFrom(pw, Tokens(v, <<>>), 1)

(* --color: COLOR_NAME:ANSI_COLOR items (base schemes are not in the vocabulary) *)
RECURSIVE ColorFrom(_, _, _)
ColorFrom(c, ps, n) ==
    IF n > Len(ps) THEN OK(c)
    ELSE LET p == ps[n] IN
         IF Len(p) = 3 /\ p[1] \in {"fg", "bg"} /\ p[2] = ":" /\ p[3] \in NumAtoms /\ NumVal(p[3]) <= 255
         THEN ColorFrom(IF p[1] = "fg" THEN [c EXCEPT !.fg = NumVal(p[3])] ELSE [c EXCEPT !.bg = NumVal(p[3])], ps, n + 1)
         ELSE BAD

(* CODE-DERIVED (OS): a history path must be creatable in the current directory *)
HistFiles == {<<"@T/h1">>, <<"@T/h2">>}                   \* @T = a scratch directory the harness substitutes
HistPathOK(v) == /\ v # <<>> /\ v \notin {<<"..">>, <<".">>}
                 /\ (v \in HistFiles \/ \A i \in 1..Len(v) : v[i] \notin {"/", "@T/h1", "@T/h2"})

(* --delimiter: a single character or a string without regex operators is literal, else a regular expression *)
(* CODE-DERIVED; atoms that contain a regex operator, and those a regex cannot start with (then it is literal again) *)
RegexSpecial == {"[", "]", "(", ")", "{", "}", "*", "+", "^", "$", "$a", "|", ".", "..", "+m", "+s", "+e", "+i", "1.5"}
NoRegexStart == {"+", "*", "+m", "+s", "+e", "+i"}
Delimiter(v) == IF Len(Str(v)) = 1 \/ (\A i \in 1..Len(v) : v[i] \notin RegexSpecial) \/ v[1] \in NoRegexStart
                THEN "str:" \o Str(v)
                ELSE "re:" \o Str(v)                        \* every other word of the vocabulary is a valid regex

(* --tmux[=[center|top|bottom|left|right][,SIZE[%]][,SIZE[%]][,border-native]]  (default center,50%)              *)
(* tokens are separated by runs of "," / ":" (CODE-DERIVED: ":" too, and what malformed lists do)                 *)
RECURSIVE RunTokens(_, _, _)
RunTokens(v, cur, inRun) == IF v = <<>> THEN <<cur>>
                            ELSE IF Head(v) \in {",", ":"}
                                 THEN (IF inRun THEN <<>> ELSE <<cur>>) \o RunTokens(Tail(v), <<>>, TRUE)
                            ELSE RunTokens(Tail(v), Append(cur, Head(v)), FALSE)
TmuxSize(t) == IF Len(t) = 1 /\ t[1] \in DigitStart THEN [ok |-> TRUE, val |-> Sz(NumVal(t[1]), FALSE)]
               ELSE IF Len(t) = 2 /\ t[1] \in DigitStart /\ t[2] = "%" /\ NumVal(t[1]) <= 100
                    THEN [ok |-> TRUE, val |-> Sz(NumVal(t[1]), TRUE)]
               ELSE [ok |-> FALSE]
TmuxPosOf(a) == CASE a \in {"top", "up"} -> "up" [] a \in {"bottom", "down"} -> "down" [] a = "left" -> "left"
                  [] a = "right" -> "right" [] a = "center" -> "center" [] OTHER -> ""
FirstAt(ts, x) == IF \E n \in 1..Len(ts) : ts[n] = x
                  THEN CHOOSE n \in 1..Len(ts) : ts[n] = x /\ \A m \in 1..(n - 1) : ts[m] # x ELSE 0
Without(ts, n) == SubSeq(ts, 1, n - 1) \o SubSeq(ts, n + 1, Len(ts))
Tmux(v) ==
    LET t0 == RunTokens(v, <<>>, FALSE)
        b  == FirstAt(t0, <<"border-native">>)
        t1 == IF b = 0 THEN t0 ELSE Without(t0, b)
        first == IF t1 = <<>> THEN <<"center">> ELSE t1[1]
        named == Len(first) = 1 /\ TmuxPosOf(first[1]) # ""
        pos == IF named THEN TmuxPosOf(first[1]) ELSE "center"
        t2 == IF named \/ t1 = <<>> THEN t1 ELSE << <<"center">> >> \o t1      \* a list that starts with a size
        s1 == IF Len(t2) > 1 THEN TmuxSize(t2[2]) ELSE [ok |-> TRUE, val |-> Sz(0, FALSE)]
        s2 == IF Len(t2) = 3 THEN TmuxSize(t2[3]) ELSE [ok |-> TRUE, val |-> Sz(0, FALSE)]
        full == Sz(100, TRUE)  half == Sz(50, TRUE)
        w0 == IF pos \in {"up", "down"} THEN full ELSE half
        h0 == IF pos \in {"left", "right"} THEN full ELSE half IN
    IF Len(t0) > 4 \/ ~s1.ok \/ ~s2.ok THEN [ok |-> FALSE]
    ELSE [ok |-> TRUE, val |-> [on |-> TRUE, pos |-> pos, border |-> b # 0,
              w |-> IF Len(t2) = 3 THEN s1.val ELSE IF Len(t2) = 2 /\ pos \in {"left", "right", "center"} THEN s1.val ELSE w0,
              h |-> IF Len(t2) = 3 THEN s2.val ELSE IF Len(t2) = 2 /\ pos \in {"up", "down", "center"} THEN s1.val ELSE h0]]

(* --margin / --padding = TRBL | TB,RL | T,RL,B | T,R,B,L : 1 to 4 comma-separated sizes, "each part can be given *)
(* in absolute number or in percentage relative to the terminal size with % suffix" (DOCUMENTED).  Anything else  *)
(* - no part, five or more parts, an empty part, a part that is no size - is a clean error.                       *)
(* CODE-DERIVED (parseSize): a percentage may have a fraction, an absolute number may not; a negative number is    *)
(* rejected; a percentage above 49 is rejected ("margin too large (max: 49%)").                                     *)
FracAtoms == {"1.5"}                                       \* atoms with a fractional reading: <<whole, tenths>>
MarginSize(p) ==
    IF Len(p) = 1 /\ p[1] \in DigitStart THEN [ok |-> TRUE, val |-> MSz(NumVal(p[1]), 0, FALSE)]
    ELSE IF Len(p) = 2 /\ p[2] = "%" /\ p[1] \in DigitStart /\ NumVal(p[1]) <= 49
         THEN [ok |-> TRUE, val |-> MSz(NumVal(p[1]), 0, TRUE)]
    ELSE IF p = <<"1.5", "%">> THEN [ok |-> TRUE, val |-> MSz(1, 5, TRUE)]
    ELSE [ok |-> FALSE]
Margin(v) ==
    LET ps == Pieces(v, ",")                               \* Pieces(<<>>) is one empty part
        n  == Len(ps)
        s(k) == MarginSize(ps[k]).val IN
    IF n > 4 \/ \E k \in 1..n : ~MarginSize(ps[k]).ok THEN [ok |-> FALSE]
    ELSE [ok |-> TRUE, val |-> CASE n = 1 -> <<s(1), s(1), s(1), s(1)>>            \* all four sides
                                 [] n = 2 -> <<s(1), s(2), s(1), s(2)>>            \* vertical, horizontal
                                 [] n = 3 -> <<s(1), s(2), s(3), s(2)>>            \* top, horizontal, bottom
                                 [] n = 4 -> <<s(1), s(2), s(3), s(4)>>]           \* top, right, bottom, left

(* --X-label-pos = N[:top|bottom]  (DOCUMENTED: N > 0 column from the left, N < 0 right-aligned, 0 or `center`     *)
(* centred; on the top border line unless :bottom).  The value states column AND side: what it leaves out is the  *)
(* default (column 0 / top), never what an earlier occurrence said.                                                *)
(* CODE-DERIVED (parseLabelPosition): the value is lower-cased and split at runs of "," / ":" into any number of   *)
(* tokens in any order; top / bottom / center are keywords, every other token is read as an integer that sets the *)
(* column; the value is rejected iff the LAST token that is not a keyword is no integer (so `bogus:3` is accepted *)
(* as column 3 while `3:bogus`, `3:` and the empty value are rejected).                                            *)
LabelSpell == {"--border-label-pos", "--list-label-pos", "--input-label-pos", "--header-label-pos",
               "--preview-label-pos"}
LabelField(o) == CASE o = "--border-label-pos" -> "blpos" [] o = "--list-label-pos" -> "llpos"
                   [] o = "--input-label-pos" -> "ilpos" [] o = "--header-label-pos" -> "hlpos"
                   [] o = "--preview-label-pos" -> "plpos"
Lower(a) == IF a = "BOTTOM" THEN "bottom" ELSE a                  \* the only atom with upper-case letters used in these values
LabelToken(st, t0) ==
    LET t == [k \in 1..Len(t0) |-> Lower(t0[k])] IN
    IF t = <<"center">> THEN [st EXCEPT !.col = 0]
    ELSE IF t = <<"bottom">> THEN [st EXCEPT !.bottom = TRUE]
    ELSE IF t = <<"top">> THEN [st EXCEPT !.bottom = FALSE]
    ELSE IF Len(t) = 1 /\ t[1] \in NumAtoms THEN [st EXCEPT !.col = NumVal(t[1]), !.err = FALSE]
    ELSE [st EXCEPT !.col = 0, !.err = TRUE]
RECURSIVE LabelFrom(_, _, _)
LabelFrom(st, ts, n) == IF n > Len(ts) THEN st ELSE LabelFrom(LabelToken(st, ts[n]), ts, n + 1)
LabelPos(v) == LET r == LabelFrom([col |-> 0, bottom |-> FALSE, err |-> FALSE], RunTokens(v, <<>>, FALSE), 1) IN
               IF r.err THEN [ok |-> FALSE] ELSE [ok |-> TRUE, val |-> [col |-> r.col, bottom |-> r.bottom]]

-------------------------------------------------------------------------------
(* options by spelling *)
Canon(o) == CASE o = "-q" -> "--query" [] o = "-f" -> "--filter" [] o = "-d" -> "--delimiter" [] o = "-n" -> "--nth"
              [] o = "-m" -> "--multi" [] o = "-s" -> "--sort" [] OTHER -> o
FlagSpell == {"--no-multi", "+m", "--no-sort", "+s", "--cycle", "--no-cycle", "--tac", "--no-tac", "-e", "--exact",
              "+e", "--no-exact", "-i", "--ignore-case", "+i", "--no-ignore-case", "--smart-case", "--no-expect",
              "--no-history", "--no-height", "--no-border", "--no-tmux", "--no-margin", "--no-padding", "--help", "-h",
              "--version", "--"}
ReqSpell == {"--query", "-q", "--filter", "-f", "--prompt", "--delimiter", "-d", "--tiebreak", "--scheme", "--nth",
             "-n", "--height", "--history", "--history-size", "--walker", "--tabstop", "--pointer",
             "--preview-window", "--expect", "--bind", "--margin", "--padding"} \cup LabelSpell
OptNumSpell == {"--multi", "-m", "--sort", "-s"}
OptStrSpell == {"--border", "--color", "--tmux"}
AttSpell == {"-q", "-f", "-d", "-n", "-s", "-m"}
Known(o) == o \in FlagSpell \cup ReqSpell \cup OptNumSpell \cup OptStrSpell

Flag(c, o) ==
    CASE o \in {"--no-multi", "+m"} -> [c EXCEPT !.multi = 0]
      [] o \in {"--no-sort", "+s"} -> [c EXCEPT !.sort = 0]
      [] o = "--cycle" -> [c EXCEPT !.cycle = TRUE] [] o = "--no-cycle" -> [c EXCEPT !.cycle = FALSE]
      [] o = "--tac" -> [c EXCEPT !.tac = TRUE] [] o = "--no-tac" -> [c EXCEPT !.tac = FALSE]
      [] o \in {"-e", "--exact"} -> [c EXCEPT !.fuzzy = FALSE] [] o \in {"+e", "--no-exact"} -> [c EXCEPT !.fuzzy = TRUE]
      [] o \in {"-i", "--ignore-case"} -> [c EXCEPT !.case = "ignore"]
      [] o \in {"+i", "--no-ignore-case"} -> [c EXCEPT !.case = "respect"]
      [] o = "--smart-case" -> [c EXCEPT !.case = "smart"]
      [] o = "--no-expect" -> [c EXCEPT !.expect = {}]
      [] o = "--no-history" -> [c EXCEPT !.hon = FALSE, !.hpath = ""]
      [] o = "--no-height" -> [c EXCEPT !.height = DefaultHeight, !.hidx = 0]
      [] o = "--no-tmux" -> [c EXCEPT !.tmux = NoTmux, !.tidx = 0]
      [] o = "--no-border" -> [c EXCEPT !.border = "none"]
      [] o = "--no-margin" -> [c EXCEPT !.margin = NoMargin]
      [] o = "--no-padding" -> [c EXCEPT !.padding = NoMargin]
      [] o \in {"--help", "-h"} -> [c EXCEPT !.exit = "help"]
      [] o = "--version" -> [c EXCEPT !.exit = "version"]
      [] o = "--" -> c

(* a required value v (atoms of the word that supplies it) for option o (canonical spelling) written at word idx *)
SetVal(c, o, v, idx) ==
    CASE o = "--query" -> OK([c EXCEPT !.query = Str(v)])
      [] o = "--filter" -> OK([c EXCEPT !.filter = Str(v)])
      [] o = "--prompt" -> OK([c EXCEPT !.prompt = Str(v)])
      [] o = "--delimiter" -> OK([c EXCEPT !.delimiter = Delimiter(v)])
      [] o = "--pointer" -> OK([c EXCEPT !.pointer = v])
      [] o = "--tiebreak" -> LET r == Tiebreak(v) IN IF r.ok THEN OK([c EXCEPT !.criteria = r.val]) ELSE BAD
      [] o = "--scheme" -> IF Len(v) = 1 /\ v[1] \in {"default", "path", "history"}
                           THEN OK([c EXCEPT !.scheme = v[1], !.criteria = SchemeCriteria(v[1])]) ELSE BAD
      [] o = "--nth" -> LET r == Nth(v) IN IF r.ok THEN OK([c EXCEPT !.nth = r.val]) ELSE BAD
      [] o = "--height" -> LET r == Height(v) IN IF r.ok THEN OK([c EXCEPT !.height = r.val, !.hidx = idx]) ELSE BAD
      [] o = "--history" -> IF HistPathOK(v) THEN OK([c EXCEPT !.hon = TRUE, !.hpath = Str(v)]) ELSE BAD
      [] o = "--history-size" -> IF IsInt(v) /\ IntOf(v) >= 1 THEN OK([c EXCEPT !.hsize = IntOf(v)]) ELSE BAD
      [] o = "--walker" -> LET r == Walker(v) IN IF r.ok THEN OK([c EXCEPT !.walker = r.val]) ELSE BAD
      [] o = "--tabstop" -> IF IsInt(v) THEN OK([c EXCEPT !.tabstop = IntOf(v)]) ELSE BAD
      [] o = "--preview-window" -> LET r == PreviewWindow(c.pw, v) IN IF r.ok THEN OK([c EXCEPT !.pw = r.cfg]) ELSE BAD
      [] o = "--expect" -> LET r == KeyList(v) IN IF r.ok THEN OK([c EXCEPT !.expect = c.expect \cup r.keys]) ELSE BAD
      [] o = "--bind" -> LET r == ParseBind(c.keymap, v) IN IF r.err THEN BAD ELSE OK([c EXCEPT !.keymap = r.km])
      [] o = "--margin" -> LET r == Margin(v) IN IF r.ok THEN OK([c EXCEPT !.margin = r.val]) ELSE BAD
      [] o = "--padding" -> LET r == Margin(v) IN IF r.ok THEN OK([c EXCEPT !.padding = r.val]) ELSE BAD
      [] o \in LabelSpell -> LET r == LabelPos(v) IN IF r.ok THEN OK([c EXCEPT ![LabelField(o)] = r.val]) ELSE BAD
(* optional values: given = a value was supplied *)
SetOpt(c, o, given, v, idx) ==
    CASE o = "--multi" -> IF ~given THEN OK([c EXCEPT !.multi = MaxMulti])
                          ELSE IF IsInt(v) THEN OK([c EXCEPT !.multi = IntOf(v)]) ELSE BAD
      [] o = "--sort" -> IF ~given THEN OK([c EXCEPT !.sort = 1])
                         ELSE IF IsInt(v) THEN OK([c EXCEPT !.sort = IntOf(v)]) ELSE BAD
      [] o = "--border" -> IF ~given THEN OK([c EXCEPT !.border = "rounded"])
                           ELSE IF Len(v) = 1 /\ v[1] \in BorderNames THEN OK([c EXCEPT !.border = v[1]]) ELSE BAD
      [] o = "--tmux" -> IF ~given THEN OK([c EXCEPT !.tmux = DefaultTmux, !.tidx = idx])
                         ELSE LET r == Tmux(v) IN IF r.ok THEN OK([c EXCEPT !.tmux = r.val, !.tidx = idx]) ELSE BAD
      [] o = "--color" -> IF ~given \/ v = <<>> THEN OK([c EXCEPT !.fg = Undef, !.bg = Undef])
                          ELSE LET r == ColorFrom([fg |-> c.fg, bg |-> c.bg], Pieces(v, ","), 1) IN
                               IF r.ok THEN OK([c EXCEPT !.fg = r.cfg.fg, !.bg = r.cfg.bg]) ELSE BAD

-------------------------------------------------------------------------------
(* the fold.  State: [cfg, pend (spelling of the option waiting for its value, "" if none), err,                 *)
(*                    pos (position of the current word, counted over all sources), pidx (position of pend)]      *)
NoPend == ""
St0 == [cfg |-> Default, pend |-> NoPend, err |-> FALSE, pos |-> 0, pidx |-> 0]
Set(st, c) == [st EXCEPT !.cfg = c, !.pend = NoPend]
Fail(st) == [st EXCEPT !.err = TRUE]
Res(st, r) == IF r.ok THEN Set(st, r.cfg) ELSE Fail(st)

Start(st, w) ==                                  \* w in option position
    IF w.k = "val" THEN (IF w.v = <<"-1">> THEN st ELSE Fail(st))     \* -1 is --select-1 (not projected); else unknown
    ELSE IF w.k = "att" THEN
         IF w.o \notin AttSpell THEN Fail(st)
         ELSE IF w.o = "-s" THEN Set(st, [st.cfg EXCEPT !.sort = 1])                 \* CODE-DERIVED: -sN means --sort
         ELSE IF w.o = "-m" THEN Res(st, SetOpt(st.cfg, "--multi", TRUE, w.v, st.pos))
         ELSE Res(st, SetVal(st.cfg, Canon(w.o), w.v, st.pos))
    ELSE IF ~Known(w.o) THEN Fail(st)
    ELSE IF w.k = "eq" THEN
         IF w.o \in FlagSpell THEN Fail(st)                                          \* unexpected value
         ELSE IF w.o \in ReqSpell THEN Res(st, SetVal(st.cfg, Canon(w.o), w.v, st.pos))
         ELSE Res(st, SetOpt(st.cfg, Canon(w.o), TRUE, w.v, st.pos))
    ELSE IF w.o \in FlagSpell THEN Set(st, Flag(st.cfg, w.o))
    ELSE [st EXCEPT !.pend = w.o, !.pidx = st.pos]
Absent(st) == Res(st, SetOpt(st.cfg, Canon(st.pend), FALSE, <<>>, st.pidx))
Consume(st, w) ==
    IF st.err THEN st
    ELSE IF st.pend = NoPend THEN Start(st, w)
    ELSE IF st.pend \in ReqSpell THEN Res(st, SetVal(st.cfg, Canon(st.pend), Atoms(w), st.pidx))  \* any word is the value
    ELSE IF st.pend \in OptNumSpell
         THEN IF DigitWord(w) THEN Res(st, SetOpt(st.cfg, Canon(st.pend), TRUE, w.v, st.pidx))
              ELSE LET a == Absent(st) IN IF a.err THEN a ELSE Start(a, w)
    ELSE IF ~DashPlus(w) THEN Res(st, SetOpt(st.cfg, Canon(st.pend), TRUE, w.v, st.pidx))
    ELSE LET a == Absent(st) IN IF a.err THEN a ELSE Start(a, w)
Step(st, w) == [Consume(st, w) EXCEPT !.pos = st.pos + 1]
RECURSIVE Fold(_, _)
Fold(st, ws) == IF ws = <<>> THEN st ELSE Fold(Step(st, Head(ws)), Tail(ws))
(* end of one source: a missing required value is an error; per-source range checks *)
EndSource(st) == IF st.err THEN st
                 ELSE LET s1 == IF st.pend = NoPend THEN st ELSE IF st.pend \in ReqSpell THEN Fail(st) ELSE Absent(st) IN
                      IF s1.err THEN s1 ELSE IF s1.cfg.tabstop < 1 THEN Fail(s1) ELSE s1
Source(st, ws) == EndSource(Fold(st, ws))

Finish(c) == LET c1 == IF c.scheme = "" THEN [c EXCEPT !.scheme = "default",
                                                 !.criteria = IF c.criteria = <<>> THEN SchemeCriteria("default") ELSE c.criteria]
                       ELSE c IN c1                                   \* stdin is not a terminal in every run here
FinalOK(c) == /\ c.pointer = <<"\\NIL">> \/ TextLen(c.pointer) <= 2
              /\ c.height.auto => \A m \in {c.margin, c.padding} : ~m[1].percent /\ ~m[3].percent     \* DOCUMENTED (--height)

(* the whole thing: [err |-> TRUE, src] or [err |-> FALSE, cfg] *)
Parse3(file, env, argv) ==
    LET s0 == St0
        s1 == IF file = <<>> THEN s0 ELSE Source(s0, file)
        s2 == IF s1.err \/ env = <<>> THEN s1 ELSE Source(s1, env)
        s3 == IF s2.err THEN s2 ELSE Source(s2, argv) IN
    IF s1.err THEN [err |-> TRUE, src |-> "file"]
    ELSE IF s2.err THEN [err |-> TRUE, src |-> "env"]
    ELSE IF s3.err \/ ~FinalOK(s3.cfg) THEN [err |-> TRUE, src |-> "argv"]
    ELSE [err |-> FALSE, cfg |-> Finish(s3.cfg)]

(* what the harness can observe of a configuration *)
Proj(c) == [multi |-> c.multi, sort |-> c.sort, cycle |-> c.cycle, tac |-> c.tac, fuzzy |-> c.fuzzy, case |-> c.case,
            query |-> c.query, prompt |-> c.prompt, filter |-> c.filter, delimiter |-> c.delimiter,
            criteria |-> c.criteria, scheme |-> c.scheme, nth |-> c.nth, height |-> c.height, border |-> c.border,
            fg |-> c.fg, bg |-> c.bg, pw |-> c.pw, expect |-> [k \in c.expect |-> TRUE], keymap |-> c.keymap,
            history |-> IF c.hon THEN [on |-> TRUE, path |-> c.hpath, max |-> c.hsize]
                        ELSE [on |-> FALSE, path |-> "", max |-> 0],
            walker |-> c.walker, tabstop |-> c.tabstop,
            pointer |-> IF c.pointer = <<"\\NIL">> THEN "\\NIL" ELSE Str(c.pointer), exit |-> c.exit,
            margin |-> c.margin, padding |-> c.padding,
            blpos |-> c.blpos, llpos |-> c.llpos, ilpos |-> c.ilpos, hlpos |-> c.hlpos, plpos |-> c.plpos,
            tmux |-> c.tmux, popup |-> c.tmux.on /\ c.tidx >= c.hidx]   \* popup: the comparison Run() makes (inside tmux)
Outcome(file, env, argv) == LET r == Parse3(file, env, argv) IN
                            IF r.err THEN r ELSE [err |-> FALSE, cfg |-> Proj(r.cfg)]

(* how the sources are written down: every word single-quoted (no atom contains a quote) *)
Quote(s) == "'" \o s \o "'"
RECURSIVE JoinStr(_, _)
JoinStr(ss, sep) == IF ss = <<>> THEN "" ELSE IF Len(ss) = 1 THEN ss[1] ELSE ss[1] \o sep \o JoinStr(Tail(ss), sep)
Strings(ws) == [n \in 1..Len(ws) |-> Render(ws[n])]
EnvString(ws) == JoinStr([n \in 1..Len(ws) |-> Quote(Render(ws[n]))], " ")
FileString(ws) == "# default options\n" \o JoinStr([n \in 1..Len(ws) |-> Quote(Render(ws[n]))], "\n") \o "\n"
================================================================================
