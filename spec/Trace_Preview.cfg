CONSTANT DelayedSetsVersion <- TreeDelayedSetsVersion
SPECIFICATION Spec
INVARIANT DevSeen
CHECK_DEADLOCK FALSE
