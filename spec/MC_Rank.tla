------------------------------- MODULE MC_Rank -------------------------------
(* Exhaustive configuration for FzfRank (order laws, uniqueness of the ranked permutation, the sub-list         *)
(* theorem of C05) and export of Key cases for replay on the real buildResult.                                  *)
EXTENDS FzfRank, Json
LOCAL INSTANCE SequencesExt

CONSTANTS KeySpace,     \* keys a matching line may have
          MaxLines,     \* lines per list
          KeyAlphabet, KeyMaxLen, KeyScores   \* export: texts over KeyAlphabet up to KeyMaxLen

MCKeys2 == {<<a, b, 0, 0>> : a \in {0, 1}, b \in {0, 1}} \ {<<1, 1, 0, 0>>}
MCKeys3 == {<<a, b, c, 0>> : a \in {0, 1}, b \in {0, 1}, c \in {0, 2}}
NoMatch == <<>>
KeyAlpha7 == {"a", " ", "TAB", "/", "\\", "a~", "han"}
KeyAlpha6 == {"a", " ", "/", "\\", "a~", "han"}
KeyScores4 == {0, 73, 70000, -5}
KeyScores3 == {73, 70000, -5}

VARIABLES lines,   \* the input list: per line its key, or NoMatch
          tac,
          text     \* export only
vars == <<lines, tac, text>>

Items == {[key |-> lines[i], index |-> i] : i \in {j \in 1..Len(lines) : lines[j] # NoMatch}}
L(a, b) == Less(a, b, tac)

Init == lines = <<>> /\ tac \in BOOLEAN /\ text = <<>>
Next == /\ Len(lines) < MaxLines
        /\ \E k \in KeySpace \cup {NoMatch} : lines' = Append(lines, k)
        /\ UNCHANGED <<tac, text>>

(* Less is a strict total order on items with distinct positions *)
StrictTotalOrder ==
    /\ \A a \in Items : ~L(a, a)
    /\ \A a, b \in Items : a # b => (L(a, b) /\ ~L(b, a)) \/ (L(b, a) /\ ~L(a, b))
    /\ \A a, b, c \in Items : L(a, b) /\ L(b, c) => L(a, c)
(* ... that looks at the score first, then at the criteria in order, at the position last *)
Lexicographic ==
    \A a, b \in Items : L(a, b) <=>
        \/ \E i \in 1..4 : a.key[i] < b.key[i] /\ \A j \in 1..(i - 1) : a.key[j] = b.key[j]
        \/ a.key = b.key /\ (IF tac THEN a.index > b.index ELSE a.index < b.index)
(* Ranked is a sorted permutation, and the only one *)
RankedIsSortedPermutation ==
    /\ IsPermutationOf(Ranked(Items, tac), Items) /\ IsSortedBy(Ranked(Items, tac), L)
    /\ IsPermutationOf(InputOrder(Items, tac), Items)
    /\ IsSortedBy(InputOrder(Items, tac), LAMBDA a, b : IF tac THEN a.index > b.index ELSE a.index < b.index)
RankedIsUnique == \A s \in SetToSeqs(Items) : IsSortedBy(s, L) => s = Ranked(Items, tac)
(* C05, process level: ranking a sub-list = restricting the ranking of the whole list *)
SubListTheorem ==
    \A Sub \in SUBSET Items : \A srt \in BOOLEAN :
        Result(Sub, srt, tac) = RestrictTo(Result(Items, srt, tac), Sub)
(* the group-wise formulation the judge uses for long lists is the same order *)
GroupsLemma == \A srt \in BOOLEAN : ResultOfSeq(InputOrder(Items, FALSE), srt, tac) = Result(Items, srt, tac)
(* unsorted results under --tac are the mirror image; ranked ones are not (only equal keys swap) *)
TacMirrorsInputOrder == InputOrder(Items, TRUE) = [i \in 1..Cardinality(Items) |->
                                                      InputOrder(Items, FALSE)[Cardinality(Items) - i + 1]]

-------------------------------------------------------------------------------
(* Key export: every text over KeyAlphabet up to KeyMaxLen, every list of one or two offsets in it (incl. the   *)
(* <<0, 0>> an inverse term contributes), scores incl. out-of-range ones; expected = Key under criteria lists   *)
(* that put every criterion into every slot.                                                                    *)
CritLists == << <<"score">>, <<"score", "length">>, <<"score", "length", "chunk", "pathname">>,
                <<"score", "begin", "end", "length">>, <<"score", "chunk", "pathname", "begin">>,
                <<"score", "end", "length", "chunk">>, <<"score", "pathname", "begin", "end">> >>
OffsetsIn(n) == {<<0, 0>>} \cup {o \in (0..n) \X (0..n) : o[1] < o[2]}
OffsetLists(n) == {<<o>> : o \in OffsetsIn(n)} \cup {<<o1, o2>> : o1 \in OffsetsIn(n), o2 \in OffsetsIn(n)}
KInit == lines = <<>> /\ tac = FALSE /\ text = <<>>
KNext == /\ Len(text) < KeyMaxLen
         /\ \E c \in KeyAlphabet : text' = Append(text, c)
         /\ UNCHANGED <<lines, tac>>
TiebreakNames == (CriterionNames \ {"score"}) \cup {"index"}
AllTiebreaks == {tb \in UNION {[1..k -> TiebreakNames] : k \in 1..4} : ValidTiebreak(tb)}
KMeta == text = <<>> => /\ PrintT(<<"CRITS", ToJson(CritLists)>>)
                        /\ PrintT(<<"TIEBREAKS", ToJson(AllTiebreaks)>>)
KEmit == \A offs \in OffsetLists(Len(text)) : \A sc \in KeyScores :
            PrintT(<<"CASE", ToJson([text |-> text, offs |-> offs, score |-> sc,
                                     exp |-> [c \in 1..Len(CritLists) |-> Key(text, offs, sc, CritLists[c])]])>>)
(* documented direction of the two criteria whose meaning does not depend on match positions *)
KeyDirections ==
    /\ \A s1, s2 \in 0..3 : s1 > s2 => KeyLess(Key(text, <<>>, s1, <<"score">>), Key(text, <<>>, s2, <<"score">>))
    /\ \A c \in KeyAlphabet : ~IsWhite(c) /\ NonWhiteIdx(text) # {} =>
          KeyLess(Key(text, <<>>, 0, <<"score", "length">>), Key(Append(text, c), <<>>, 0, <<"score", "length">>))
================================================================================
