---------------------------- MODULE Trace_Lifecycle ----------------------------
(* Trace validation for FzfLifecycle (C14).  One NDJSON event per line; sessions of the real fzf binary on a pty,   *)
(* observed from outside only (lib/lifecycle.py, lib/props/c14.py):                                                 *)
(*                                                                                                                  *)
(*   start   sid cfg{full,mouse,clear,listen} cmds a new life of fzf begins (terminal as found: cooked, InitScr); cmds =  *)
(*                                                 kinds of commands the driver makes fzf start in this life         *)
(*   mode    m on                                  a DEC private mode set/reset sequence in the byte stream fzf      *)
(*                                                 wrote to the terminal (m: alt m1000 m1002 m1006 paste cursor wrap *)
(*                                                 or "p<number>" for any other private mode)                        *)
(*   tio     tio                                   termios of the pty sampled at a quiescent point                   *)
(*   child   kinds temps                           /proc + TMPDIR at a quiescent point: kinds of the commands fzf    *)
(*                                                 started that are alive, owner kind of every temp file present     *)
(*   stopped                                       ctrl-z is typed now (fzf pauses the renderer and stops itself)    *)
(*   req     how                                   the driver asked fzf to exit (key, POSTed action, signal)         *)
(*   exit    status tio tio_same kinds temps port  fzf's process is gone: exit status, termios now and whether it    *)
(*           alive panic gone [emu]                equals the one found, what is still alive / still there / open;   *)
(*                                                 liveness observations: fzf answered GET / until it was told to    *)
(*                                                 go, no Go panic text reached the terminal, the process went;      *)
(*                                                 emu = the terminal emulator's own mode flags (tmux sessions)      *)
(*                                                                                                                  *)
(* The tracked mode changes (alt, mouse, paste) must be exactly what the renderer calls of FzfLifecycle write, in    *)
(* their order: a step of the module that writes (RInit, Flush, StartChild("execute"), ChildExit("execute"),         *)
(* Suspend / Continue, ExitVia or one of the named deviations) is taken when nothing written is outstanding and the  *)
(* first change it writes is the next one in the stream; its `out` becomes the changes expected next (`todo`).       *)
(* Steps that write nothing and that fzf takes by itself (BgPause, ChildExit("silent"), Continue with --height) are  *)
(* taken silently.  Cursor and autowrap changes bracket every write and are followed on the terminal side only       *)
(* (tscr).  Commands that do not own the terminal write nothing: their StartChild / ChildExit / RemoveTemp steps     *)
(* are taken in bulk at each `child` observation; a command whose start raced with the exit request (never           *)
(* observed) is hypothesised only if the `exit` event shows that it left something behind.  At `exit` the observed   *)
(* world must equal the state ExitVia leaves: terminal as found, nothing alive, nothing left, documented status,     *)
(* fzf answered until it was told to go, no Go panic, process gone.                                                  *)
EXTENDS FzfLifecycle, Json, IOUtils

TraceLog == ndJsonDeserialize(IOEnv.TRACE)
TCfgs == Cfgs
THows == ExitHows
Starts == {i \in 1..Len(TraceLog) : TraceLog[i].ev = "start"}

VARIABLES l,        \* next event
          sid,
          todo,     \* tracked mode changes the last module step wrote and the stream has not shown yet
          tscr,     \* modes as the terminal has them (every mode event applied)
          other     \* other private modes currently set
tvars == <<l, sid, todo, tscr, other>>

CfgOf(e) == [full |-> e.cfg.full, mouse |-> e.cfg.mouse, clear |-> e.cfg.clear, listen |-> e.cfg.listen]
(* every session is validated on its own: one initial state per `start` event *)
TInit == /\ l \in {i + 1 : i \in Starts}
         /\ sid = TraceLog[l - 1].sid /\ todo = <<>> /\ tscr = InitScr /\ other = {}
         /\ StartState(CfgOf(TraceLog[l - 1]))

Ev == TraceLog[l]
RECURSIVE StartOf(_)
StartOf(i) == IF TraceLog[i].ev = "start" THEN i ELSE StartOf(i - 1)
Cmds == LET s == TraceLog[StartOf(IF l <= Len(TraceLog) THEN l ELSE Len(TraceLog))].cmds IN {s[i] : i \in 1..Len(s)}
Is(name) == l <= Len(TraceLog) /\ Ev.ev = name
Consume == l' = l + 1 /\ UNCHANGED sid
Quiet == todo = <<>>

(* the `exit` event of the life being validated (looked up ahead: only commands that left something behind need to   *)
(* be hypothesised when an exit raced with their start)                                                              *)
RECURSIVE ExitOf(_)
ExitOf(i) == IF i > Len(TraceLog) THEN [kinds |-> <<>>, temps |-> <<>>]
             ELSE IF TraceLog[i].ev = "exit" THEN TraceLog[i] ELSE ExitOf(i + 1)
LeftBehind(k) == LET x == ExitOf(l)
                 IN (\E i \in 1..Len(x.kinds) : x.kinds[i] = k) \/ (\E j \in 1..Len(x.temps) : x.temps[j] \in {k, "none"})

(* a module step that writes to the terminal or is driven by fzf's own timer.  A step that writes is taken when the  *)
(* first thing it writes is the next thing in the stream (the stream decides; nothing is guessed ahead of it).       *)
TAct == /\ l <= Len(TraceLog) /\ Ev.ev # "start" /\ Quiet
        /\ \/ RInit \/ BgPause \/ Continue
           \/ Flush /\ TrackedOf(queued) # <<>>
           \/ \E n \in TempCounts : StartChild("execute", n)
           \/ ChildExit("execute")
           \/ ChildExit("silent")             \* the driver sees the command gone only later
           \/ \E h \in pending : ExitVia(h) \/ ExitLeavingPreview(h) \/ ExitLeavingReloadTemps(h)
           \* an exit racing with a command the driver just asked for: the command may have been started (and its
           \* files created) without the driver having seen it
           \/ /\ pending # {}
              /\ \E k \in Cmds \cap {"preview", "reload"}, n \in TempCounts : LeftBehind(k) /\ StartChild(k, n)
        /\ out' # <<>> => Ev.ev = "mode" /\ Ev.m \in Tracked /\ Head(out') = Op(Ev.m, Ev.on)
        /\ todo' = out'
        /\ UNCHANGED <<l, sid, tscr, other>>

TOp == /\ Is("mode") /\ Ev.m \in Tracked /\ todo # <<>> /\ Head(todo) = Op(Ev.m, Ev.on)
       /\ todo' = Tail(todo) /\ tscr' = ApplyOp(tscr, Op(Ev.m, Ev.on)) /\ Consume
       /\ UNCHANGED <<vars, other>>

TBracket == /\ Is("mode") /\ Ev.m \notin Tracked
            /\ IF Ev.m \in Modes THEN tscr' = ApplyOp(tscr, Op(Ev.m, Ev.on)) /\ UNCHANGED other
               ELSE other' = (IF Ev.on THEN other \cup {Ev.m} ELSE other \ {Ev.m}) /\ UNCHANGED tscr
            /\ Consume /\ UNCHANGED <<vars, todo>>

TSample == /\ Is("tio") /\ Quiet /\ Ev.tio = tio /\ Consume /\ UNCHANGED <<vars, todo, tscr, other>>

SeqSet(s) == {s[i] : i \in 1..Len(s)}
(* bulk StartChild / ChildExit / RemoveTemp of the commands that do not own the terminal, up to what was observed *)
TChild == /\ Is("child") /\ Quiet /\ phase \notin {"start", "exited"}
          /\ LET obs == SeqSet(Ev.kinds)
             IN /\ ("execute" \in obs) = (phase = "fg")
                /\ "silent" \in obs => phase \in {"running", "bg", "bgpaused"}
                /\ "silent" \notin obs => phase \notin {"bg", "bgpaused"} \/ "silent" \in children
                /\ children' = obs
                /\ phase' = IF "silent" \in obs /\ phase = "running" THEN "bg"
                            ELSE IF "silent" \notin obs /\ phase \in {"bg", "bgpaused"} THEN "running" ELSE phase
                /\ tio' = IF "silent" \notin obs /\ phase = "bgpaused" THEN "raw" ELSE tio
                /\ Cardinality(obs) <= MaxChildren /\ Len(Ev.temps) <= MaxTemps
                /\ temps' = {[id |-> i, owner |-> Ev.temps[i]] : i \in 1..Len(Ev.temps)}
          /\ out' = <<>> /\ Consume
          /\ UNCHANGED <<cfg, scr, queued, mouseOn, showCursor, listener, pending, how, dev, todo, tscr, other>>

(* ctrl-z was typed: Suspend; with no job control shell around the stop signal is discarded and fzf goes on to      *)
(* Continue by itself (a step of TAct)                                                                              *)
TStopped == /\ Is("stopped") /\ Quiet /\ Suspend /\ todo' = out' /\ Consume /\ UNCHANGED <<tscr, other>>

TReq == /\ Is("req") /\ RequestExit(Ev.how) /\ Consume /\ UNCHANGED <<todo, tscr, other>>

(* C14: what is observed once fzf is gone is the state the exit of the specification leaves *)
EmuScr(e) == [alt |-> e.emu.alt, m1000 |-> e.emu.m1000, m1002 |-> e.emu.m1002, m1006 |-> e.emu.m1006,
              paste |-> FALSE, cursor |-> e.emu.cursor, wrap |-> e.emu.wrap]
TExit == /\ Is("exit") /\ Quiet /\ phase = "exited"
         /\ Ev.alive /\ ~Ev.panic /\ Ev.gone            \* answered until told to go, no Go panic on the terminal, went
         /\ RestoredScr(tscr, cfg) /\ other = {}
         /\ ("emu" \in DOMAIN Ev => RestoredScr(EmuScr(Ev), cfg))     \* the terminal emulator's own view (tmux sessions)
         /\ Ev.tio = tio /\ Ev.tio_same
         /\ SeqSet(Ev.kinds) = children
         \* every file left is one the exit of the specification leaves ("none": a file no command had claimed yet)
         /\ Len(Ev.temps) = Cardinality(temps)
         /\ LET owners == {f.owner : f \in temps}
            IN /\ SeqSet(Ev.temps) \ {"none"} \subseteq owners
               /\ ("none" \notin SeqSet(Ev.temps) => owners \subseteq SeqSet(Ev.temps))
         /\ Ev.port = listener
         /\ Ev.status \in AllowedStatus(how)
         /\ Consume /\ UNCHANGED <<vars, todo, tscr, other>>

TNext == TAct \/ TOp \/ TBracket \/ TSample \/ TChild \/ TStopped \/ TReq \/ TExit
TSpec == TInit /\ [][TNext]_<<vars, tvars>>

(* printed once per session that reaches its end: accepted (0) or accepted only with a deviation (1, 2, 3 = both) *)
Ended == l > 1 /\ l - 1 <= Len(TraceLog) /\ TraceLog[l - 1].ev = "exit" /\ phase = "exited"
DevCode == IF dev = {} THEN 0 ELSE IF dev = {"PreviewLeft"} THEN 1 ELSE IF dev = {"ReloadTempsLeft"} THEN 2 ELSE 3
Report == Ended => PrintT(<<"END", sid, DevCode>>)
(* diagnostic configuration (one rejected session alone): how far the validation got *)
Reached == PrintT(<<"AT", l, Len(todo)>>)
=============================================================================
