CONSTANTS
  KeySpace <- MCKeys2
  MaxLines = 1
  MaxParts = 1
  AnyPartition = TRUE
  FnChunkSizes = {1}
  FnMaxChunks = 1
  FnMaxN = 0
  FnParts = {1}
  GenProbes = 0
INIT XInit
NEXT FNext
INVARIANTS XEmit
CHECK_DEADLOCK FALSE
