------------------------------- MODULE FzfChars -------------------------------
(* Shared character vocabulary.  TLC strings are atomic, so a text is a sequence of SYMBOLS; a symbol is a     *)
(* short ASCII string naming one character.  The Go harnesses hold the same table (symbol -> rune) and assert  *)
(* at start-up that unicode.* / algo's classification agree with the tables below for every symbol.            *)
(*   "a" "b" "c" "e" "A" "B" "C" ASCII letters         "1" "2"      digits                                       *)
(*   "a~" "A~" "e~"            a-acute, A-acute, e-acute (non-ASCII letters with an ASCII normal form)          *)
(*   "han"                     a CJK letter (class Letter: neither lower nor upper), wide                        *)
(*   " " "TAB"                 white space            "_" "-" "." "$" "^" "'" "!" "|" "\\"  non-word             *)
(*   "/" "," ":" ";"           delimiters (scheme dependent)                                                     *)
(* Added for the field tokenizer (C10); no other module's alphabet contains them:                               *)
(*   "CR" "VT" "FF" "LF"       ASCII control characters that unicode.IsSpace accepts (U+000D, 000B, 000C, 000A)  *)
(*   "BS" "US" "DEL"           other ASCII control characters (U+0008, U+001F next to TAB / SPACE, U+007F)       *)
(*   "NBSP" "NEL"              U+00A0, U+0085: white space of Latin-1 (UTF-8 C2 A0, C2 85)                       *)
(*   "IDSP" "EMSP"             U+3000 ideographic space (wide, E3 80 80), U+2003 em space (E2 80 83)             *)
(*   "ZWSP"                    U+200B zero width space: NOT white space for unicode.IsSpace                      *)
(*   "a`" "aog"                a-grave U+00E0 (C3 A0), a-ogonek U+0105 (C4 85); both fold to "a"                 *)
(*   "dag"                     dagger U+2020 (E2 80 A0), non-word                                                *)
(*   "ni" "hori"               CJK letters U+4F60 (E4 BD A0), U+5800 (E5 A0 80), wide                            *)
(* Added for non-ASCII literal delimiters (C10): characters that share the lead bytes of their UTF-8 encoding     *)
(*   "e`"                      e-grave U+00E8 (C3 A8; e-acute "e~" is C3 A9); folds to "e"                       *)
(*   "bxv" "bxh"               box drawings light vertical U+2502 (E2 94 82) / horizontal U+2500 (E2 94 80),     *)
(*                             non-word, narrow                                                                  *)
EXTENDS Integers, Sequences

Lowers  == {"a", "b", "c", "e", "a~", "e~", "a`", "aog", "e`"}
Uppers  == {"A", "B", "C", "A~"}
Digits  == {"1", "2"}
Letters == {"han", "ni", "hori"}
Whites  == {" ", "TAB"}
(* further characters of class white / unicode.IsSpace; kept apart from Whites (the blanks of the alphabets of the  *)
(* other modules, and exactly the AWK field separators)                                                              *)
OtherSpaces == {"CR", "VT", "FF", "LF", "NBSP", "NEL", "IDSP", "EMSP"}
Controls == {"BS", "US", "DEL"}                       \* class nonword, not white space
OtherNonWords == {"ZWSP", "dag", "bxv", "bxh"}
DelimsDefault == {"/", ",", ":", ";", "|"}
NonWordsBase == {"_", "-", ".", "$", "^", "'", "!", "\\", "(", ")", "*", "+"}
AllSymbols == Lowers \cup Uppers \cup Digits \cup Letters \cup Whites \cup DelimsDefault \cup NonWordsBase
              \cup OtherSpaces \cup Controls \cup OtherNonWords

(* scheme-dependent delimiter set: algo.Init *)
Delims(scheme) == IF scheme = "path" THEN {"/"} ELSE DelimsDefault

(* character classes, algo.go charClass *)
Class(c, scheme) ==
    IF c \in Lowers THEN "lower"
    ELSE IF c \in Uppers THEN "upper"
    ELSE IF c \in Digits THEN "number"
    ELSE IF c \in Letters THEN "letter"
    ELSE IF c \in Whites \cup OtherSpaces THEN "white"
    ELSE IF c \in Delims(scheme) THEN "delimiter"
    ELSE "nonword"

IsWordClass(cl) == cl \in {"lower", "upper", "letter", "number"}

Lower(c) == CASE c = "A" -> "a" [] c = "B" -> "b" [] c = "C" -> "c" [] c = "A~" -> "a~" [] OTHER -> c
Upper(c) == CASE c = "a" -> "A" [] c = "b" -> "B" [] c = "c" -> "C" [] c = "a~" -> "A~" [] OTHER -> c
IsUpper(c) == c \in Uppers
(* accent folding (algo/normalize.go): Latin letters with diacritics map to their base letter, case kept *)
Norm(c) == CASE c = "a~" -> "a" [] c = "A~" -> "A" [] c = "e~" -> "e" [] c = "a`" -> "a" [] c = "aog" -> "a" [] c = "e`" -> "e" [] OTHER -> c
HasAccent(c) == Norm(c) # c
IsAscii(c) == c \notin {"a~", "A~", "e~", "han", "a`", "aog", "ni", "hori", "NBSP", "NEL", "IDSP", "EMSP", "ZWSP", "dag",
                        "e`", "bxv", "bxh"}
Width(c) == IF c \in {"han", "ni", "hori", "IDSP"} THEN 2 ELSE 1        \* printable characters only
IsSpace(c) == c \in Whites \cup OtherSpaces                             \* unicode.IsSpace
(* number of bytes of the UTF-8 encoding *)
Utf8Len(c) == IF IsAscii(c) THEN 1 ELSE IF c \in {"a~", "A~", "e~", "a`", "aog", "NBSP", "NEL", "e`"} THEN 2 ELSE 3

LowerSeq(s) == [i \in 1..Len(s) |-> Lower(s[i])]
NormSeq(s) == [i \in 1..Len(s) |-> Norm(s[i])]
================================================================================
