------------------------------- MODULE FzfChars -------------------------------
(* Shared character vocabulary.  TLC strings are atomic, so a text is a sequence of SYMBOLS; a symbol is a     *)
(* short ASCII string naming one character.  The Go harnesses hold the same table (symbol -> rune) and assert  *)
(* at start-up that unicode.* / algo's classification agree with the tables below for every symbol.            *)
(*   "a" "b" "c" "e" "A" "B" "C" ASCII letters         "1" "2"      digits                                       *)
(*   "a~" "A~" "e~"            a-acute, A-acute, e-acute (non-ASCII letters with an ASCII normal form)          *)
(*   "han"                     a CJK letter (class Letter: neither lower nor upper), wide                        *)
(*   " " "TAB"                 white space            "_" "-" "." "$" "^" "'" "!" "|" "\\"  non-word             *)
(*   "/" "," ":" ";"           delimiters (scheme dependent)                                                     *)
EXTENDS Integers, Sequences

Lowers  == {"a", "b", "c", "e", "a~", "e~"}
Uppers  == {"A", "B", "C", "A~"}
Digits  == {"1", "2"}
Letters == {"han"}
Whites  == {" ", "TAB"}
DelimsDefault == {"/", ",", ":", ";", "|"}
NonWordsBase == {"_", "-", ".", "$", "^", "'", "!", "\\", "(", ")", "*", "+"}
AllSymbols == Lowers \cup Uppers \cup Digits \cup Letters \cup Whites \cup DelimsDefault \cup NonWordsBase

(* scheme-dependent delimiter set: algo.Init *)
Delims(scheme) == IF scheme = "path" THEN {"/"} ELSE DelimsDefault

(* character classes, algo.go charClass *)
Class(c, scheme) ==
    IF c \in Lowers THEN "lower"
    ELSE IF c \in Uppers THEN "upper"
    ELSE IF c \in Digits THEN "number"
    ELSE IF c \in Letters THEN "letter"
    ELSE IF c \in Whites THEN "white"
    ELSE IF c \in Delims(scheme) THEN "delimiter"
    ELSE "nonword"

IsWordClass(cl) == cl \in {"lower", "upper", "letter", "number"}

Lower(c) == CASE c = "A" -> "a" [] c = "B" -> "b" [] c = "C" -> "c" [] c = "A~" -> "a~" [] OTHER -> c
Upper(c) == CASE c = "a" -> "A" [] c = "b" -> "B" [] c = "c" -> "C" [] c = "a~" -> "A~" [] OTHER -> c
IsUpper(c) == c \in Uppers
(* accent folding (algo/normalize.go): Latin letters with diacritics map to their base letter, case kept *)
Norm(c) == CASE c = "a~" -> "a" [] c = "A~" -> "A" [] c = "e~" -> "e" [] OTHER -> c
HasAccent(c) == Norm(c) # c
IsAscii(c) == c \notin {"a~", "A~", "e~", "han"}
Width(c) == IF c = "han" THEN 2 ELSE 1
IsSpace(c) == c \in Whites

LowerSeq(s) == [i \in 1..Len(s) |-> Lower(s[i])]
NormSeq(s) == [i \in 1..Len(s) |-> Norm(s[i])]
================================================================================
