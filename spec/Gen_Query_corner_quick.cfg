CONSTANTS
  Universe <- CornerUniverse
  Bodies <- DocBodies
  OptSet <- CornerOpts
  MaxTerms = 0
  RawAlpha <- CornerAlphaAll
  MaxSyms = 3
INIT Init
NEXT RawNext
INVARIANT Emit
CHECK_DEADLOCK FALSE
