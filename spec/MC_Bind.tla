------------------------------ MODULE MC_Bind ------------------------------
(* Exhaustive configurations and case export for FzfBind.                                                        *)
(*  mode "rt"  : every delimiter form x every argument over ArgAlpha up to MaxArg x every embedding context;      *)
(*               invariant RoundTrip = ParseBind(PrintBind(b)) = Meaning(b) whenever b is legal                       *)
(*  mode "seq" : every atom sequence over SeqAlpha up to MaxSeq (what ParseBind says about arbitrary strings)     *)
EXTENDS FzfBind, Json

CONSTANTS MaxArg, MaxSeq

ArgAlpha == {"a", "+", ",", ":", ")", "(", " ", "é"}    \* é: a two-byte character (offsets are bytes in the code, characters here)
Forms == DelimOpen \cup {":"}
NCtx == 18

VARIABLES mode, form, ctx, arg, seq
vars == <<mode, form, ctx, arg, seq>>

X(name, f, a) == [name |-> name, form |-> f, arg |-> a]
P(name) == [name |-> name, form |-> "plain", arg |-> <<>>]
Pair(keys, app, acts) == [keys |-> keys, app |-> app, acts |-> acts]
(* a context = the sequence of --bind values applied in order, each a binding (sequence of pairs) *)
Ctx(c, x) ==
    CASE c = 1  -> << <<Pair(<<"a">>, FALSE, <<x>>)>> >>
      [] c = 2  -> << <<Pair(<<"a">>, FALSE, <<x, P("up")>>)>> >>
      [] c = 3  -> << <<Pair(<<"a">>, FALSE, <<P("up"), x>>)>> >>
      [] c = 4  -> << <<Pair(<<"a">>, FALSE, <<x>>), Pair(<<"x">>, FALSE, <<P("down")>>)>> >>
      [] c = 5  -> << <<Pair(<<"ctrl-a", "a">>, FALSE, <<x>>)>> >>
      [] c = 6  -> << <<Pair(<<"a">>, FALSE, <<P("toggle-down")>>), Pair(<<"a">>, TRUE, <<x>>)>> >>
      [] c = 7  -> << <<Pair(<<"a">>, FALSE, <<x, X("execute-silent", "[", <<"a">>)>>)>> >>
      [] c = 8  -> << <<Pair(<<",">>, FALSE, <<x>>)>> >>
      [] c = 9  -> << <<Pair(<<"x">>, FALSE, <<P("down")>>), Pair(<<"return", ":">>, FALSE, <<x>>)>> >>
      [] c = 10 -> << <<Pair(<<"+">>, FALSE, <<P("put"), x>>)>> >>
      [] c = 11 -> << <<Pair(<<"a">>, FALSE, <<x, x>>)>> >>
      [] c = 12 -> << <<Pair(<<"a">>, FALSE, <<x>>), Pair(<<",">>, FALSE, <<P("abort")>>)>> >>
      [] c = 13 -> << <<Pair(<<"a">>, FALSE, <<P("select-all")>>)>>, <<Pair(<<"a">>, TRUE, <<x>>)>> >>   \* two --bind
      [] c = 14 -> << <<Pair(<<"a">>, FALSE, <<x>>)>>, <<Pair(<<"a">>, FALSE, <<P("preview-up")>>)>> >> \* override
      [] c = 15 -> << <<Pair(<<"up", "load">>, FALSE, <<P("change-multi"), X("change-multi", "(", <<"a">>), x>>)>> >>
      [] c = 16 -> << <<Pair(<<"space", "alt-x">>, FALSE, <<X("put", "{", <<"a">>), x, P("print-query")>>)>> >>
      [] c = 17 -> << <<Pair(<<"alt-+", "alt-:">>, FALSE, <<x>>), Pair(<<"x", "alt-,">>, FALSE, <<P("down"), x>>)>> >>   \* ALT + a delimiter
      [] c = 18 -> << <<Pair(<<"alt-+">>, FALSE, <<P("abort")>>)>>, <<Pair(<<"a", "alt-+">>, TRUE, <<x>>)>> >>

RECURSIVE ParseAll(_, _), MeanAll(_, _)
ParseAll(km, bs) == IF bs = <<>> THEN [err |-> FALSE, km |-> km]
                    ELSE LET r == ParseBind(km, PrintBind(Head(bs))) IN IF r.err THEN ERR ELSE ParseAll(r.km, Tail(bs))
MeanAll(km, bs) == IF bs = <<>> THEN km ELSE MeanAll(Meaning(km, Head(bs)), Tail(bs))
AllLegal(bs) == \A n \in 1..Len(bs) : Legal(bs[n])
DocLegal(bs) == \A n \in 1..Len(bs) : \A m \in 1..Len(bs[n]) : \A k \in 1..Len(bs[n][m].acts) :
                    LET a == bs[n][m].acts[k] IN a.form = "plain" \/ DocCarry(a.form, a.arg)

Cur == Ctx(ctx, X("execute", form, arg))
Strs(bs) == [n \in 1..Len(bs) |-> Str(PrintBind(bs[n]))]

Init == \/ /\ mode = "rt" /\ form \in Forms /\ ctx \in 1..NCtx /\ arg = <<>> /\ seq = <<>>
        \/ /\ mode = "seq" /\ form = "" /\ ctx = 0 /\ arg = <<>> /\ seq = <<>>
GrowArg == /\ mode = "rt" /\ Len(arg) < MaxArg
           /\ \E c \in ArgAlpha : arg' = Append(arg, c)
           /\ UNCHANGED <<mode, form, ctx, seq>>
SeqAlpha == {"a", ",", ":", "+", "(", ")", "~", " ", "up", "execute", "put", "unbind", "ctrl-a", "bogus", "alt-"}
GrowSeq == /\ mode = "seq" /\ Len(seq) < MaxSeq
           /\ \E c \in SeqAlpha : seq' = Append(seq, c)
           /\ UNCHANGED <<mode, form, ctx, arg>>
Next == GrowArg \/ GrowSeq
InitRT == Init /\ mode = "rt"
InitSeq == Init /\ mode = "seq"

(* ---- the theorem ---- *)
RoundTrip == (mode = "rt" /\ AllLegal(Cur)) =>
                 LET r == ParseAll(EmptyKm, Cur) IN ~r.err /\ r.km = MeanAll(EmptyKm, Cur)
(* arguments the documentation promises to carry are among those the scanner carries *)
DocWithinCode == mode = "rt" => \A a \in {arg} : DocCarry(form, a) => Carry(form, a)
TypeOK == mode \in {"rt", "seq"}

(* ---- export ---- *)
Result(r) == IF r.err THEN [err |-> TRUE] ELSE [err |-> FALSE, km |-> r.km]
EmitRT == mode = "rt" =>
            PrintT(<<"CASE", ToJson([binds |-> Strs(Cur), legal |-> AllLegal(Cur), doc |-> DocLegal(Cur),
                                     form |-> form, ctx |-> ctx, exp |-> Result(ParseAll(EmptyKm, Cur))])>>)
EmitSeq == mode = "seq" =>
            PrintT(<<"CASE", ToJson([binds |-> <<Str(seq)>>, legal |-> FALSE, doc |-> FALSE, form |-> "seq", ctx |-> 0,
                                     exp |-> Result(ParseBind(EmptyKm, seq))])>>)
=============================================================================
