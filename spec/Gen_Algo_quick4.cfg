CONSTANTS
  MaxT = 4
  MaxP = 2
  Shards = 64
  AlphaSel = {1, 2, 3}
INIT EInit
NEXT ENext
INVARIANT Emit
CHECK_DEADLOCK FALSE
