CONSTANTS
  MaxChildren = 2
  MaxTemps = 2
  QMax = 10
  MaxPending = 2
SPECIFICATION Spec
INVARIANTS TypeOK Restored ExitAlwaysPossible CommandOwnsTerminal RawOnlyWhileReading OnlyConfigured QBound
PROPERTY ExitCompletes
CONSTRAINT PendingBound
CHECK_DEADLOCK FALSE
