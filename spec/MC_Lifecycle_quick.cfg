CONSTANTS
  MaxChildren = 2
  MaxTemps = 2
  QMax = 10
  MaxPending = 1
SPECIFICATION Spec
INVARIANTS TypeOK Restored ExitAlwaysPossible CommandOwnsTerminal RawOnlyWhileReading OnlyConfigured QBound
CONSTRAINT PendingBound
CHECK_DEADLOCK FALSE
