CONSTANTS
  MaxChildren = 2
  MaxTemps = 1
  QMax = 9
  MaxPending = 1
  CfgSet <- ListenCfgs
  Hows <- FewHows
SPECIFICATION Spec
VIEW NoOut
INVARIANTS TypeOK Restored ExitAlwaysPossible CommandOwnsTerminal RawOnlyWhileReading OnlyConfigured QBound
CONSTRAINT PendingBound
CHECK_DEADLOCK FALSE
