CONSTANTS
  Universe <- DocUniverse
  Bodies <- DocBodies
  OptSet <- BasicOpts
  MaxTerms = 0
  RawAlpha <- DocAlpha
  MaxSyms = 2
INIT Init
NEXT RawNext
INVARIANT Emit
CHECK_DEADLOCK FALSE
