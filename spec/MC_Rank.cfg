CONSTANTS
  KeySpace <- MCKeys3
  MaxLines = 5
  KeyAlphabet = {"a"}
  KeyMaxLen = 0
  KeyScores = {0}
INIT Init
NEXT Next
INVARIANTS StrictTotalOrder Lexicographic RankedIsSortedPermutation RankedIsUnique SubListTheorem GroupsLemma TacMirrorsInputOrder
CHECK_DEADLOCK FALSE
