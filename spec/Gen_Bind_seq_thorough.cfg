CONSTANTS
  MaxArg = 0
  MaxSeq = 4
INIT InitSeq
NEXT GrowSeq
INVARIANTS EmitSeq
CHECK_DEADLOCK FALSE
