CONSTANTS
  Alphabet <- LexAlphabet
  MaxLen = 7
INIT Init
NEXT Next
INVARIANTS InvRequote InvLexTotal EmitLex
CHECK_DEADLOCK FALSE
