CONSTANTS
  MaxUI = 2
  Kinds = {"finite", "endless"}
  ShowBumpsVersion = TRUE
  TemplateHasQ = TRUE
  H = 2
  LensKind = "mixed"
  WithReload = FALSE
  ReloadBumpsVersion = TRUE
  WithHideKeep = FALSE
  Follow = FALSE
  WithScroll = FALSE
  DelayedSetsVersion <- TreeDelayedSetsVersion
SPECIFICATION Spec
INVARIANTS TypeOK OneAlive ExitCleanLostKill
CHECK_DEADLOCK FALSE
