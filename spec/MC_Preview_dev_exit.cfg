CONSTANTS
  MaxUI = 2
  Kinds = {"finite", "endless"}
  ShowBumpsVersion = TRUE
  TemplateHasQ = TRUE
SPECIFICATION Spec
INVARIANTS TypeOK OneAlive ExitCleanLostKill
CHECK_DEADLOCK FALSE
