--------------------------- MODULE MC_ServerShapes ---------------------------
(* Request shapes and action lists: the finite spaces over which FzfServer is checked and exported.            *)
EXTENDS FzfServer, Json, IOUtils, SequencesExt

KeyAtoms == <<"s3c", "R7k">>
KEY == "s3cR7k"
Keys == {"", KEY}

(* ------------------------------------------------------------------ request lines *)
StartTab == [
  get      |-> [m |-> "GET",  a |-> <<"GET", " ", "/", " ", "HTTP", "/1.1">>],
  getq     |-> [m |-> "GET",  a |-> <<"GET", " ", "/", "?", "limit=2", "&", "offset=1", " ", "HTTP", "/1.1">>],
  getq0    |-> [m |-> "GET",  a |-> <<"GET", " ", "/", "?", "x=1", "&", "limit=", "&", "limit=0", " ", "HTTP", "/1.0">>],
  post     |-> [m |-> "POST", a |-> <<"POST", " ", "/", " ", "HTTP", "/1.1">>],
  post10   |-> [m |-> "POST", a |-> <<"POST", " ", "/", " ", "HTTP", "/1.0">>],
  postnov  |-> [m |-> "POST", a |-> <<"POST", " ", "/", " ", "HTTP">>],
  getx     |-> [m |-> "BAD",  a |-> <<"GET", " ", "/", "x", " ", "HTTP", "/1.1">>],
  getbadq  |-> [m |-> "BAD",  a |-> <<"GET", " ", "/", "?", "LIMIT=1", " ", "HTTP", "/1.1">>],
  getemptq |-> [m |-> "BAD",  a |-> <<"GET", " ", "/", "?", " ", "HTTP", "/1.1">>],
  getnov   |-> [m |-> "BAD",  a |-> <<"GET", " ", "/">>],
  put      |-> [m |-> "BAD",  a |-> <<"PUT", " ", "/", " ", "HTTP", "/1.1">>],
  head     |-> [m |-> "BAD",  a |-> <<"HEAD", " ", "/", " ", "HTTP", "/1.1">>],
  lower    |-> [m |-> "BAD",  a |-> <<"post", " ", "/", " ", "HTTP", "/1.1">>],
  postx    |-> [m |-> "BAD",  a |-> <<"POST", " ", "/", "x", " ", "HTTP", "/1.1">>],
  postq    |-> [m |-> "BAD",  a |-> <<"POST", " ", "/", "?", "limit=2", " ", "HTTP", "/1.1">>],
  post2sp  |-> [m |-> "BAD",  a |-> <<"POST", " ", " ", "/", " ", "HTTP", "/1.1">>],
  sppost   |-> [m |-> "BAD",  a |-> <<" ", "POST", " ", "/", " ", "HTTP", "/1.1">>],
  junk     |-> [m |-> "BAD",  a |-> <<NUL, HI, "GARBAGE", " ", HI>>],
  empty    |-> [m |-> "BAD",  a |-> <<>>] ]
GoodStarts == {"get", "getq", "getq0", "post", "post10", "postnov"}

(* ------------------------------------------------------------------ bodies (action lists) *)
BodyTab == [
  up      |-> <<"up">>,
  multi   |-> <<"up", "+", "toggle-down", "+", "top">>,
  arg     |-> <<"change-query", "(", "a", " ", "b", ")", "+", "up">>,
  colon   |-> <<"up", "+", "reload", ":", "a", "+", "b", ",", "c">>,
  brack   |-> <<"change-prompt", "[", "a", ")", "+", "(", "]", "+", "accept">>,
  same    |-> <<"put", "~", "a", "~", "+", "pos", "|", "3", "|">>,
  case    |-> <<"UP", "+", "Change-Query", "(", "a", ")">>,
  lead    |-> <<"+", "up">>,
  tcrlf   |-> <<"up", CR, LF>>,
  lcrlf   |-> <<LF, "up", LF>>,
  icrlf   |-> <<"up", CR, LF, "+", "down">>,
  argcrlf |-> <<"change-query", "(", "a", CR, LF, "b", ")">>,
  chmulti |-> <<"change-multi", "+", "change-multi", "(", "2", ")">>,
  pw      |-> <<"change-preview-window", "(", "up", ")", "+", "abort">>,
  pwbad   |-> <<"change-preview-window", "(", "a", ")">>,
  nope    |-> <<"nope">>,
  trail   |-> <<"up", "+">>,
  noclose |-> <<"change-query", "(", "a">>,
  noarg   |-> <<"change-query">>,
  put     |-> <<"put">>,
  comma   |-> <<"up", ",", "down">>,
  argcomma |-> <<"change-query", "(", "a", ")", ",", "down">>,
  none    |-> <<>> ]
BodyNames == DOMAIN BodyTab
FewBodies == {"up", "arg", "colon", "tcrlf", "nope", "none"}

(* ------------------------------------------------------------------ headers *)
KV == [ exact |-> KeyAtoms, padded |-> <<" ", TAB>> \o KeyAtoms \o <<" ">>, prefix |-> <<"s3c">>, suffix |-> <<"R7k">>,
        case |-> <<"S3C", "r7K">>, longer |-> KeyAtoms \o <<"x">>, inner |-> <<"s3c", " ", "R7k">>, empty |-> <<>> ]
KeyLine(name, kind) == <<name, ":", " ">> \o KV[kind]
KeyLineTight(name, kind) == <<name, ":">> \o KV[kind]
KeySpecs == {"absent", "exact", "tight", "padded", "prefix", "suffix", "case", "longer", "inner", "empty", "dupEW", "dupWE",
             "elsewhere", "lookalike", "spacecolon", "folded", "noname"}
KeyHdrs(spec, name) ==
    CASE spec = "absent" -> <<>>
      [] spec = "tight" -> <<KeyLineTight(name, "exact")>>
      [] spec = "dupEW" -> <<KeyLine(name, "exact"), KeyLine(name, "prefix")>>
      [] spec = "dupWE" -> <<KeyLine(name, "longer"), KeyLine(name, "exact")>>
      [] spec = "elsewhere" -> <<<<"X-Other", ":", " ">> \o KeyAtoms>>
      [] spec = "lookalike" -> <<<<name, "2", ":", " ">> \o KeyAtoms>>
      [] spec = "spacecolon" -> <<<<name, " ", ":", " ">> \o KeyAtoms>>
      [] spec = "folded" -> <<<<" ", name, ":", " ">> \o KeyAtoms>>
      [] spec = "noname" -> <<<<":", " ">> \o KeyAtoms>>
      [] OTHER -> <<KeyLine(name, spec)>>
(* by construction: some well-formed x-api-key line carries the exact key *)
Presents(spec) == spec \in {"exact", "tight", "padded", "dupEW", "dupWE"}
(* by construction: the value of some x-api-key line begins with the exact key.  A read boundary right after the  *)
(* key bytes makes the scanner hand the line over as it is (Token, CODE-DERIVED), so "s3cR7kx" can pass as       *)
(* "s3cR7k" - the sender still had to know the key.                                                               *)
KeyBytesSent(spec) == Presents(spec) \/ spec = "longer"

ClLine(name, val) == <<name, ":", " ">> \o val
Num(n) == <<ToString(n)>>
ClSpecs == {"absent", "ok", "tight", "plus1", "zero", "neg", "alpha", "huge", "empty", "padded", "plus", "zeros", "trail",
            "dupOkPlus1", "dupPlus1Ok", "dupAlphaOk", "dupOkAlpha"}
ClHdrs(spec, name, n) ==
    CASE spec = "absent" -> <<>>
      [] spec = "ok" -> <<ClLine(name, Num(n))>>
      [] spec = "tight" -> <<<<name, ":">> \o Num(n)>>
      [] spec = "plus1" -> <<ClLine(name, Num(n + 1))>>
      [] spec = "zero" -> <<ClLine(name, <<"0">>)>>
      [] spec = "neg" -> <<ClLine(name, <<"-1">>)>>
      [] spec = "alpha" -> <<ClLine(name, <<"abc">>)>>
      [] spec = "huge" -> <<ClLine(name, <<"1048577">>)>>
      [] spec = "empty" -> <<ClLine(name, <<>>)>>
      [] spec = "padded" -> <<ClLine(name, <<" ", TAB>> \o Num(n) \o <<" ">>)>>
      [] spec = "plus" -> <<ClLine(name, <<"+">> \o Num(n))>>
      [] spec = "zeros" -> <<ClLine(name, <<"00">> \o Num(n))>>
      [] spec = "trail" -> <<ClLine(name, Num(n) \o <<"x">>)>>
      [] spec = "dupOkPlus1" -> <<ClLine(name, Num(n)), ClLine(name, Num(n + 1))>>
      [] spec = "dupPlus1Ok" -> <<ClLine(name, Num(n + 1)), ClLine(name, Num(n))>>
      [] spec = "dupAlphaOk" -> <<ClLine(name, <<"abc">>), ClLine(name, Num(n))>>
      [] spec = "dupOkAlpha" -> <<ClLine(name, Num(n)), ClLine(name, <<"abc">>)>>
ExtraTab == [ none |-> <<>>, host |-> <<"Host", ":", " ", "localhost", ":", "6266">>, garbage |-> <<"garbage">>,
              ctype |-> <<"Content-Type", ":", " ", "text/plain">>, colononly |-> <<":">> ]

(* ------------------------------------------------------------------ shapes *)
(* order: "ck" length first, "kc" key first; extra line in front *)
Shape(st, ks, cs, order, extra, kname, cname, blank, bn, decl) ==
    LET body == BodyTab[bn]
        n == IF decl < 0 THEN BLen(body) + (IF blank > 1 THEN 2 * (blank - 1) ELSE 0) ELSE decl   \* declared length: what follows the
                                                             \* first empty line; decl: bytes of a prefix of the body
        kh == KeyHdrs(ks, kname)
        ch == ClHdrs(cs, cname, n)
        ex == IF extra = "none" THEN <<>> ELSE <<ExtraTab[extra]>>
        hs == ex \o (IF order = "ck" THEN ch \o kh ELSE kh \o ch)
    IN [req |-> [start |-> StartTab[st].a, hdrs |-> hs, blank |-> blank, body |-> body],
        presents |-> Presents(ks), keysent |-> KeyBytesSent(ks),
        tags |-> [m |-> StartTab[st].m, start |-> st, key |-> ks, cl |-> cs, order |-> order, extra |-> extra,
                  kname |-> kname, cname |-> cname, blank |-> ToString(blank), body |-> bn, decl |-> ToString(decl)]]
Std(st, ks, cs, bn) == Shape(st, ks, cs, "ck", "none", "X-API-Key", "Content-Length", 1, bn, -1)

(* prefix lengths of a body in bytes (declared length shorter than the body: the rest is ignored) *)
PrefixDecls(bn) == {BLen(Take(BodyTab[bn], k)) : k \in 1..(Len(BodyTab[bn]) - 1)}

SliceStart == {Std(st, ks, cs, "up") : st \in DOMAIN StartTab, ks \in {"absent", "exact"}, cs \in {"absent", "ok"}}
SliceHdr == {Shape("post", ks, cs, o, "none", "X-API-Key", "Content-Length", 1, "multi", -1) :
                 ks \in KeySpecs, cs \in ClSpecs, o \in {"ck", "kc"}}
SliceName == {Shape("post", ks, "ok", "ck", ex, kn, cn, 1, "arg", -1) :
                 ks \in {"exact", "prefix"}, ex \in DOMAIN ExtraTab,
                 kn \in {"X-API-Key", "x-api-key", "X-Api-Key", "X-API-KEY"},
                 cn \in {"Content-Length", "content-length", "CONTENT-LENGTH", "Content-length"}}
SliceBody == {Shape("post", ks, cs, "ck", "none", "X-API-Key", "Content-Length", bl, bn, -1) :
                 ks \in {"absent", "exact"}, cs \in {"ok", "plus1", "absent"}, bl \in {0, 1, 2}, bn \in BodyNames}
SliceDecl == UNION {{Shape("post", ks, "ok", "kc", "none", "x-api-key", "content-length", 1, bn, d) : d \in PrefixDecls(bn), ks \in {"exact", "suffix"}} :
                       bn \in {"multi", "arg", "colon", "brack", "tcrlf", "icrlf", "same"}}
SliceGet == {Shape(st, ks, cs, "kc", ex, "X-API-Key", "Content-Length", bl, bn, -1) :
                 st \in {"get", "getq", "getq0"}, ks \in KeySpecs, cs \in {"absent", "ok", "alpha"}, ex \in {"none", "host"},
                 bl \in {0, 1}, bn \in {"none", "up"}}
(* the heart of the property, exported whatever the sampling: every key variant on a plain POST and a plain GET *)
CoreShapes == {Std("post", ks, "ok", "up") : ks \in KeySpecs} \cup {Shape("get", ks, "absent", "ck", "none", "X-API-Key", "Content-Length", 1, "none", -1) : ks \in KeySpecs}
AllShapes == CoreShapes \cup SliceStart \cup SliceHdr \cup SliceName \cup SliceBody \cup SliceDecl \cup SliceGet
(* the small model for exhaustive checking of the machine *)
SmallShapes == {Std(st, ks, cs, bn) : st \in {"get", "getq", "post", "getx", "junk", "empty"},
                                      ks \in {"absent", "exact", "prefix", "dupEW", "elsewhere"},
                                      cs \in {"absent", "ok", "plus1", "alpha", "dupOkPlus1"}, bn \in {"up", "arg", "tcrlf", "nope"}}
               \cup {Shape("post", ks, "ok", "kc", "host", "x-api-key", "CONTENT-LENGTH", bl, bn, -1) :
                                      ks \in {"exact", "padded", "case"}, bl \in {0, 1, 2}, bn \in {"colon", "lead", "icrlf", "none"}}

(* long bodies: the 1 MiB limit and the scanner's token limit (CODE-DERIVED, appendix D) *)
BigLine == <<"%X", CR, LF>>
RECURSIVE ManyLines(_)
ManyLines(k) == IF k = 0 THEN <<>> ELSE BigLine \o ManyLines(k - 1)
BigShapes == {
  [req |-> [start |-> StartTab.post.a, hdrs |-> <<ClLine("Content-Length", <<"60014">>)>>, blank |-> 1,
            body |-> <<"change-query", "(", "%X", ")">>], presents |-> FALSE, keysent |-> FALSE,
   tags |-> [m |-> "POST", start |-> "post", key |-> "absent", cl |-> "ok", body |-> "big60k"]],
  [req |-> [start |-> StartTab.post.a, hdrs |-> <<ClLine("Content-Length", <<"70014">>)>>, blank |-> 1,
            body |-> <<"change-query", "(", "%Y", ")">>], presents |-> FALSE, keysent |-> FALSE,
   tags |-> [m |-> "POST", start |-> "post", key |-> "absent", cl |-> "ok", body |-> "big70k"]],
  [req |-> [start |-> StartTab.post.a, hdrs |-> <<ClLine("Content-Length", <<"1048577">>)>>, blank |-> 1,
            body |-> <<"change-query", "(", "%X", ")">>], presents |-> FALSE, keysent |-> FALSE,
   tags |-> [m |-> "POST", start |-> "post", key |-> "absent", cl |-> "huge", body |-> "big60k"]],
  [req |-> [start |-> StartTab.post.a, hdrs |-> <<ClLine("Content-Length", <<"1048576">>)>>, blank |-> 1,
            body |-> <<"change-query", "(", "%X", ")">>], presents |-> FALSE, keysent |-> FALSE,
   tags |-> [m |-> "POST", start |-> "post", key |-> "absent", cl |-> "max-short", body |-> "big60k"]],
  [req |-> [start |-> StartTab.post.a, hdrs |-> <<ClLine("Content-Length", <<"1020048">>)>>, blank |-> 1,
            body |-> <<"change-query", "(">> \o ManyLines(17) \o <<")">>], presents |-> FALSE, keysent |-> FALSE,
   tags |-> [m |-> "POST", start |-> "post", key |-> "absent", cl |-> "ok", body |-> "big1m-lines"]] }

ShapeSeq == SetToSeq(AllShapes)
NShapes == Len(ShapeSeq)

-------------------------------------------------------------------------------
(* ACTION LISTS: structured lists, their text, and what they mean *)
ArgChars == {"a", " ", "+", ",", ":", "(", ")", "]", "up"}
Forms == {"(", "[", "<", "~", "|", ":"}
SimpleItems == {[k |-> "s", n |-> n] : n \in {"up", "toggle-down", "top", "accept", "toggle-preview", "UP", "ignore"}}
ArgSeqs(f, max) == LET ok == ArgChars \ {Closer(f)}
                   IN {<<>>} \cup {<<a>> : a \in ok} \cup (IF max > 1 THEN {<<a, b>> : a \in ok, b \in ok} ELSE {})
ArgItems(names, forms, max) == UNION {{[k |-> "a", n |-> n, f |-> f, arg |-> x] : x \in ArgSeqs(f, max)} : n \in names, f \in forms}
PrintItem(it) == IF it.k = "s" THEN <<it.n>>
                 ELSE IF it.f = ":" THEN <<it.n, ":">> \o it.arg ELSE <<it.n, it.f>> \o it.arg \o <<Closer(it.f)>>
MeanItem(it) == IF it.k = "s" THEN [x \in 1..Len(SimpleActs[LowerAct(it.n)]) |-> <<SimpleActs[LowerAct(it.n)][x], "">>]
                ELSE <<<<ArgActs[LowerAct(it.n)], Str(it.arg)>>>>
RECURSIVE PrintList(_), MeanList(_)
PrintList(l) == IF l = <<>> THEN <<>> ELSE PrintItem(Head(l)) \o (IF Len(l) > 1 THEN <<"+">> ELSE <<>>) \o PrintList(Tail(l))
MeanList(l) == IF l = <<>> THEN <<>> ELSE MeanItem(Head(l)) \o MeanList(Tail(l))
(* the ":" notation swallows the rest of the list, so it can only be last *)
NotLast(it) == it.k = "s" \/ it.f # ":"
Items1 == SimpleItems \cup ArgItems({"change-query", "reload", "put", "pos", "Change-Query", "change-multi"}, Forms, 2)
Items2 == SimpleItems \cup ArgItems({"change-query", "print"}, {"(", "~", ":"}, 1)
ItemsFew == {[k |-> "s", n |-> "up"], [k |-> "s", n |-> "toggle-preview"], [k |-> "s", n |-> "hide-preview"],
             [k |-> "a", n |-> "preview", f |-> "(", arg |-> <<"a">>],
             [k |-> "a", n |-> "change-preview-window", f |-> "[", arg |-> <<"up">>],
             [k |-> "a", n |-> "change-preview-window", f |-> ":", arg |-> <<"hidden">>],
             [k |-> "a", n |-> "reload", f |-> ":", arg |-> <<"a", "+", "up">>]}
ValidLists == {<<a>> : a \in Items1} \cup {<<a, b>> : a \in {x \in Items2 : NotLast(x)}, b \in Items2}
              \cup {<<a, b, c>> : a \in {x \in ItemsFew : NotLast(x)}, b \in {x \in ItemsFew : NotLast(x)}, c \in ItemsFew}
(* further texts derived from valid ones, most of them outside the grammar *)
Broken(l) == LET p == PrintList(l)
             IN {p \o <<"+">>, <<"+">> \o p, <<"+", "+">> \o p, Take(p, Len(p) - 1) \o <<"nope">>, p \o <<",", "down">>,
                 <<"nope", "+">> \o p, p \o <<"+", "put">>, p \o <<"+", "change-query">>}
                \cup (IF Len(p) > 1 THEN {Take(p, Len(p) - 1)} ELSE {})
ListTexts == {PrintList(l) : l \in ValidLists} \cup UNION {Broken(<<a>>) : a \in Items2} \cup {<<>>}
ListSeq == SetToSeq(ListTexts)
(* the grammar is unambiguous: what is printed parses back *)
RoundTrip(l) == ParseActions(PrintList(l)) = [ok |-> TRUE, acts |-> MeanList(l)]

=============================================================================
