------------------------------- MODULE FzfRank -------------------------------
(* Ranking of matched lines: src/result.go (buildResult, compareRanks), the criteria list of src/options.go     *)
(* (--tiebreak, --scheme) and the "is the result sorted at all" decision of src/pattern.go / src/matcher.go.    *)
(*                                                                                                              *)
(* A matched line is abstracted to an ITEM  [key |-> <<k1,k2,k3,k4>>, index |-> input position].                *)
(*   DOCUMENTED (man fzf, --tiebreak / +s / --tac; property C04):                                               *)
(*     results = the matching lines, each once; ordered by decreasing score, then by the criteria in the given  *)
(*     order, finally by input position (reversed under --tac); input order (reversed under --tac) when         *)
(*     --no-sort is given, the query is empty or has only negated terms.   -> Less, Ranked, InputOrder, Result  *)
(*   CODE-DERIVED (buildResult): how each criterion turns (text, match offsets, score) into a 16-bit number.    *)
(*     -> Key and its helpers; regression oracle only, bound to buildResult by replay.                          *)
(* A text is a sequence of FzfChars symbols; Go offsets are 0-based [b, e) character ranges.                    *)
EXTENDS FzfChars, Integers, Sequences, FiniteSets, TLC

MaxU16 == 65535
Clamp16(v) == IF v > MaxU16 THEN MaxU16 ELSE IF v < 0 THEN 0 ELSE v       \* util.AsUint16

MinOf(S) == CHOOSE x \in S : \A y \in S : x <= y
MaxOf(S) == CHOOSE x \in S : \A y \in S : x >= y

CriterionNames == {"score", "length", "chunk", "pathname", "begin", "end"}

-------------------------------------------------------------------------------
(* DOCUMENTED: which criteria apply.  tiebreak = sequence of names as written after --tiebreak= (may end in     *)
(* "index", which is implicit), or <<"NONE">> when the option is absent and the scheme decides.                 *)
NoTiebreak == <<"NONE">>
CriteriaOf(scheme, tiebreak) ==
    IF tiebreak = NoTiebreak
      THEN CASE scheme = "path"    -> <<"score", "pathname", "length">>
             [] scheme = "history" -> <<"score">>
             [] OTHER              -> <<"score", "length">>
      ELSE <<"score">> \o SelectSeq(tiebreak, LAMBDA c : c # "index")

(* a --tiebreak list the option parser accepts: distinct names, index only last, at most 3 besides index *)
ValidTiebreak(tb) == /\ Len(tb) >= 1
                     /\ \A i \in 1..Len(tb) : tb[i] \in (CriterionNames \ {"score"}) \cup {"index"}
                     /\ \A i, j \in 1..Len(tb) : i # j => tb[i] # tb[j]
                     /\ \A i \in 1..Len(tb) : tb[i] = "index" => i = Len(tb)
                     /\ Len(SelectSeq(tb, LAMBDA c : c # "index")) <= 3

(* DOCUMENTED: is the result ranked at all?  query = sequence of terms, a term = sequence of symbols;           *)
(* "|" alone is the OR operator, a leading "!" negates.                                                         *)
IsOrToken(term) == term = <<"|">>
IsNegated(term) == Len(term) >= 2 /\ term[1] = "!"
Sortable(query) == \E i \in 1..Len(query) : ~IsOrToken(query[i]) /\ ~IsNegated(query[i])
IsRanked(sortOpt, query) == sortOpt /\ Sortable(query)

-------------------------------------------------------------------------------
(* CODE-DERIVED text metrics (util.Chars.TrimLength, the loops of buildResult) *)
IsWhite(c) == c \in Whites
NonWhiteIdx(t) == {i \in 1..Len(t) : ~IsWhite(t[i])}
LeadingWhites(t) == IF NonWhiteIdx(t) = {} THEN Len(t) ELSE MinOf(NonWhiteIdx(t)) - 1
TrimLength(t) == IF NonWhiteIdx(t) = {} THEN 0 ELSE Clamp16(MaxOf(NonWhiteIdx(t)) - MinOf(NonWhiteIdx(t)) + 1)

(* UTF-8 length of a symbol: byPathname looks for the separator in the byte string but compares the position    *)
(* with a character offset                                                                                      *)
ByteLen(c) == IF c \in {"a~", "A~", "e~"} THEN 2 ELSE IF c = "han" THEN 3 ELSE 1
RECURSIVE ByteOff(_, _)
ByteOff(t, k) == IF k = 0 THEN 0 ELSE ByteOff(t, k - 1) + ByteLen(t[k])     \* byte offset of 0-based character k
IsPathSep(c) == c \in {"/", "\\"}
LastDelim(t) == LET S == {i \in 1..Len(t) : IsPathSep(t[i])} IN IF S = {} THEN -1 ELSE ByteOff(t, MaxOf(S) - 1)

ValidOffsets(offs) == {i \in 1..Len(offs) : offs[i][1] < offs[i][2]}

(* value of one criterion; offs = one <<b, e>> per term set (inverse terms contribute <<0, 0>>) *)
CriterionValue(c, t, offs, score) ==
    LET V == ValidOffsets(offs)
        minBegin == MinOf({offs[i][1] : i \in V})
        minEnd   == MinOf({offs[i][2] : i \in V})
        maxEnd   == MaxOf({offs[i][2] : i \in V})
        n == Len(t)
        wpl == IF n = 0 THEN 0 ELSE MinOf({LeadingWhites(t), minBegin, n - 1})
    IN IF c = "score" THEN MaxU16 - Clamp16(score)                       \* higher score first
       ELSE IF c = "length" THEN TrimLength(t)
       ELSE IF V = {} THEN MaxU16                                         \* positional criteria need a match range
       ELSE IF c = "chunk" THEN
              LET b == MaxOf({0} \cup {j \in 1..minBegin : IsWhite(t[j])})
                  e == MinOf({n} \cup {j \in maxEnd..(n - 1) : IsWhite(t[j + 1])})
              IN Clamp16(e - b)
       ELSE IF c = "pathname" THEN
              (IF LastDelim(t) <= minBegin THEN Clamp16(minBegin - LastDelim(t)) ELSE MaxU16)
       ELSE IF c = "begin" THEN Clamp16(minEnd - wpl)
       ELSE IF c = "end" THEN Clamp16(MaxU16 - (MaxU16 * (maxEnd - wpl)) \div (TrimLength(t) + 1))
       ELSE MaxU16

(* Result.points, most significant first; unused slots are 0 *)
Key(t, offs, score, criteria) ==
    [i \in 1..4 |-> IF i <= Len(criteria) THEN CriterionValue(criteria[i], t, offs, score) ELSE 0]

-------------------------------------------------------------------------------
(* DOCUMENTED: the order *)
KeyLess(k1, k2) == \E i \in 1..4 : k1[i] < k2[i] /\ \A j \in 1..(i - 1) : k1[j] = k2[j]
Less(a, b, tac) == \/ KeyLess(a.key, b.key)
                   \/ a.key = b.key /\ (IF tac THEN a.index > b.index ELSE a.index < b.index)

IsSortedBy(s, R(_, _)) == \A i \in 1..(Len(s) - 1) : R(s[i], s[i + 1])
IsPermutationOf(s, S) == Len(s) = Cardinality(S) /\ {s[i] : i \in 1..Len(s)} = S

(* the items of S (distinct indices) as a sequence in some order (any order would do) *)
LOCAL INSTANCE SequencesExt
AsSeq(S) == SetToSeq(S)

(* the unique Less-sorted permutation of S *)
Ranked(S, tac) == SortSeq(AsSeq(S), LAMBDA a, b : Less(a, b, tac))
InputOrder(S, tac) == SortSeq(AsSeq(S), LAMBDA a, b : IF tac THEN a.index > b.index ELSE a.index < b.index)
Result(S, sorted, tac) == IF sorted THEN Ranked(S, tac) ELSE InputOrder(S, tac)

RestrictTo(s, Sub) == SelectSeq(s, LAMBDA x : x \in Sub)

(* The same order computed group-wise (a stable bucket sort over the distinct keys) from the items in ascending   *)
(* input order: equal to Result (lemma GroupsLemma, model-checked in MC_Rank); used by the judge for lists that    *)
(* are too long for TLC's quadratic SortSeq.                                                                        *)
Mirror(s) == [i \in 1..Len(s) |-> s[Len(s) - i + 1]]
RECURSIVE Flatten(_)
Flatten(ss) == IF ss = <<>> THEN <<>> ELSE Head(ss) \o Flatten(Tail(ss))
RankedByGroups(asc, tac) ==
    LET base == IF tac THEN Mirror(asc) ELSE asc
        ks == SortSeq(AsSeq({asc[i].key : i \in 1..Len(asc)}), KeyLess)
    IN Flatten([i \in 1..Len(ks) |-> SelectSeq(base, LAMBDA it : it.key = ks[i])])
ResultOfSeq(asc, sorted, tac) == IF sorted THEN RankedByGroups(asc, tac) ELSE IF tac THEN Mirror(asc) ELSE asc
================================================================================
