CONSTANTS
  AlphaSeq <- AlphaFull
  Prefix <- PrefNone
  MaxLen = 0
  Pres = {0}
  Depth = 2
INIT GInit
NEXT GNext
INVARIANTS GNoSwallow GWellFormed GSpans
CHECK_DEADLOCK FALSE
