------------------------------- MODULE MC_Shell -------------------------------
(* FzfShell, quoting level: every string over Alphabet up to MaxLen, one state per string.                         *)
(*   MC_Shell*.cfg     the quoting invariants on the data alphabet (C12: ShEval(Quote(s)) = <<s>>); the same walk    *)
(*                     prints one case per string for the Go harness (EmitQuote)                                     *)
(*   MC_ShellLex*.cfg  walk over the lexing alphabet: self-consistency of the shell model, and every string the      *)
(*                     model calls inert is printed with its words - replayed on the real shells, this validates     *)
(*                     the model itself                                                                               *)
(*   MC_ShellEnv*.cfg  walk over the environment alphabet: every string is one environment ENTRY of `fzf --tmux`;    *)
(*                     which entries the re-launch script exports and the theorem that sh evaluating the script      *)
(*                     defines exactly those (FzfShell section 7); one case per entry for the real binary            *)
(* Environment variable C12_FIRST (optional): walk only the strings that start with this symbol (sharding).          *)
EXTENDS FzfShell, Json, IOUtils

CONSTANTS Alphabet, MaxLen
VARIABLE s

Init == s = IF "C12_FIRST" \in DOMAIN IOEnv THEN <<IOEnv.C12_FIRST>> ELSE <<>>
Grow(c) == Len(s) < MaxLen /\ s' = Append(s, c)
Next == \E c \in Alphabet : Grow(c)

LexAlphabet == {"SQ", "DQ", "BSL", "SP", "LF", "DOL", "a"}

(* ---- the executor matrix: every ($SHELL, --with-shell) pair of these two lists is a CELL ---- *)
ShellVars == << UnsetShell, ShellVar(EmptyPath), ShellVar(<<"", "bin", "sh">>), ShellVar(<<"", "bin", "bash">>),
                ShellVar(<<"", "usr", "bin", "fish">>), ShellVar(<<"", "opt", "x", "fish">>), ShellVar(<<"fishy">>),
                ShellVar(<<"", "bin", "zsh">>) >>
WithShells == << <<>>, << <<"sh">>, <<"-c">> >>, << <<"bash">>, <<"-c">> >>,
                 << <<"", "bin", "bash">>, <<"--posix">>, <<"-c">> >>, << <<"fish">>, <<"-c">> >>,
                 << <<"", "usr", "local", "bin", "fish">>, <<"-c">> >> >>
NCells == Len(ShellVars) * Len(WithShells)
Cell(i) == [env |-> ShellVars[((i - 1) \div Len(WithShells)) + 1], ws |-> WithShells[((i - 1) % Len(WithShells)) + 1]]
CStyle(i) == QuoteStyle(Cell(i).env, Cell(i).ws)
CEval(i)  == Evaluator(Cell(i).env, Cell(i).ws)
CKey(i)   == WordsStr(ExecArgv(Cell(i).env, Cell(i).ws))       \* "sh -c", "/bin/bash --posix -c", ...
(* the (style, evaluator) pairs that occur, the cells per style as a 0/1 mask, the POSIX-evaluated command prefixes *)
CellPairs == {<<CStyle(i), CEval(i)>> : i \in 1..NCells}
Mask(style) == FoldLeft(LAMBDA acc, i : acc \o (IF CStyle(i) = style THEN "1" ELSE "0"), "", [i \in 1..NCells |-> i])
PosixMask == Mask("posix")
FishMask  == Mask("fish")
AllMask   == FoldLeft(LAMBDA acc, i : acc \o "1", "", [i \in 1..NCells |-> i])
PosixKeys == {CKey(i) : i \in {j \in 1..NCells : CEval(j) = "posix"}}
KeyStyle == [k \in PosixKeys |-> CStyle(CHOOSE i \in 1..NCells : CKey(i) = k)]

(* design level, on the table alone: the style follows the program that evaluates; crossed pairs would not do;     *)
(* a command prefix determines its style; the matrix exercises both inputs (cells in which $SHELL and              *)
(* --with-shell disagree about fish, in both directions)                                                            *)
ASSUME CrossedStylesBreak
ASSUME \A i \in 1..NCells : (CEval(i) = "fish") <=> (CStyle(i) = "fish")
ASSUME \A i, j \in 1..NCells : CKey(i) = CKey(j) => CStyle(i) = CStyle(j) /\ CEval(i) = CEval(j)
ASSUME \E i \in 1..NCells : /\ Cell(i).env.set /\ BaseName(Cell(i).env.path) = "fish" /\ CEval(i) = "posix"
ASSUME \E i \in 1..NCells : /\ Cell(i).env.set /\ BaseName(Cell(i).env.path) \in PosixShellNames /\ CEval(i) = "fish"
ASSUME CellPairs = {<<"posix", "posix">>, <<"fish", "fish">>, <<"posix", "other">>}
(* the table itself, for the Go harness (printed once per TLC run) *)
EmitCell(i) == PrintT(<<"CELL", ToJson([id |-> i - 1, set |-> Cell(i).env.set, shell |-> PathStr(Cell(i).env.path),
                                        ws |-> WordsStr(Cell(i).ws), style |-> CStyle(i), ev |-> CEval(i),
                                        argv |-> [k \in 1..Len(ExecArgv(Cell(i).env, Cell(i).ws)) |->
                                                    PathStr(ExecArgv(Cell(i).env, Cell(i).ws)[k])]])>>)
ASSUME \A i \in 1..NCells : EmitCell(i)

(* ---- invariants: data alphabet ---- *)
(* every executor of the matrix: what it quotes is read back by the program it starts *)
InvExecutorReadsBack == \A pr \in CellPairs : ReadsBackBy(pr[1], pr[2], s)
InvQuoteReadsBack   == QuoteReadsBack(s)
InvQuoteInsideWord  == QuoteInsideWord(s)
InvEscapeReadsBack  == EscapeReadsBack(s)
InvFishReadsBack    == FishReadsBack(s)
InvTmuxReadsBack    == TmuxReadsBack(<<s, Reverse(s), <<>>, s>>) /\ TmuxExportReadsBack(s)
(* one word per item: three quoted texts joined by blanks are three words, in order *)
InvOneWordPerItem   == ShEval(JoinWith(<<Quote(s), Quote(Reverse(s)), Quote(s \o s)>>, <<"SP">>))
                         = Ok(<<s, Reverse(s), s \o s>>)
(* the two POSIX quoting routines of the code base agree *)
InvSameScheme       == Quote(s) = EscapeSingleQuote(s)

(* ---- invariants: environment alphabet (MC_ShellEnv*.cfg): s is ONE ENTRY of the environment of fzf --tmux ---- *)
(* letters, a digit, the underscore, "=", and what must never get into the script from a NAME: ; - . $ ( blank quote  *)
EnvAlphabet == {"a", "1", "US", "EQ", "SEMI", "MINUS", "DOT", "DOL", "LP", "SP", "SQ"}
ASSUME ScriptUnsafeByPrefix
(* the entry alone, and among others (a good entry before and after it, itself twice over as a value) *)
Good1 == <<"a", "1", "EQ", "SQ", "SP", "SEMI">>
Good2 == <<"US", "x", "EQ">>
InvScriptSafe == /\ ScriptSafe(<<s>>)
                 /\ ScriptSafe(<<Good1, s, Good2, <<"q", "EQ">> \o s \o s>>)
(* the value of an exported entry is re-quoted like an argument: whatever follows the first "=" reads back *)
InvEnvValueReadsBack == Exported(s) => ScriptEval(TmuxExports(<<s>>)).vars = <<s>>
(* nothing of an entry that is not exported reaches the script *)
InvNotExportedIsAbsent == ~Exported(s) => TmuxExports(<<Good1, s, Good2>>) = TmuxExports(<<Good1, Good2>>)
EmitEnv == PrintT(<<"CASE", ToJson([ent |-> Enc(s), exported |-> Exported(s), script |-> Enc(TmuxExports(<<s>>)),
                                     vars |-> EncAll(ScriptEval(TmuxExports(<<s>>)).vars)])>>)

(* ---- invariants: lexing alphabet (self-consistency of the shell model) ---- *)
(* re-quoting the words the model reads gives a command line the model reads as the same words *)
InvRequote == LET r == ShEval(s) IN
              r.status = "OK" => ShEval(JoinWith([i \in 1..Len(r.words) |-> Quote(r.words[i])], <<"SP">>)) = r
InvLexTotal == ShEval(s).status \in {"OK", "HAZARD", "INCOMPLETE"}

(* ---- case export ---- *)
(* the line handed to the real shells: the two quoted forms as separate words, and one glued between letters *)
QuoteLine(p, e) == p \o <<"SP">> \o e \o <<"SP", "a">> \o p \o <<"a">>
(* xs: which cells' executors give which quoted form; ev: per POSIX-evaluated command prefix, the quoted form its    *)
(* executors give and the words the shell model reads from it                                                       *)
EmitQuote == LET p == Enc(Quote(s))
                 f == Enc(QuoteFish(s))
                 pr == p :> EncAll(ShEval(Quote(s)).words)
                 fr == f :> EncAll(ShEval(QuoteFish(s)).words)
             IN PrintT(<<"CASE", ToJson([s |-> Enc(s), p |-> p, f |-> f,
                                      e |-> Enc(EscapeSingleQuote(s)),
                                      w |-> EncAll(ShEval(QuoteLine(Quote(s), EscapeSingleQuote(s))).words),
                                      xs |-> IF p = f THEN (p :> AllMask) ELSE (p :> PosixMask) @@ (f :> FishMask),
                                      ev |-> [k \in PosixKeys |-> IF KeyStyle[k] = "fish" THEN fr ELSE pr]])>>)
EmitLex == LET r == ShEval(s) IN
           r.status = "OK" => PrintT(<<"CASE", ToJson([t |-> Enc(s), w |-> EncAll(r.words)])>>)
================================================================================
