------------------------------- MODULE MC_Shell -------------------------------
(* FzfShell, quoting level: every string over Alphabet up to MaxLen, one state per string.                         *)
(*   MC_Shell*.cfg     the quoting invariants on the data alphabet (C12: ShEval(Quote(s)) = <<s>>); the same walk    *)
(*                     prints one case per string for the Go harness (EmitQuote)                                     *)
(*   MC_ShellLex*.cfg  walk over the lexing alphabet: self-consistency of the shell model, and every string the      *)
(*                     model calls inert is printed with its words - replayed on the real shells, this validates     *)
(*                     the model itself                                                                               *)
(* Environment variable C12_FIRST (optional): walk only the strings that start with this symbol (sharding).          *)
EXTENDS FzfShell, Json, IOUtils

CONSTANTS Alphabet, MaxLen
VARIABLE s

Init == s = IF "C12_FIRST" \in DOMAIN IOEnv THEN <<IOEnv.C12_FIRST>> ELSE <<>>
Grow(c) == Len(s) < MaxLen /\ s' = Append(s, c)
Next == \E c \in Alphabet : Grow(c)

LexAlphabet == {"SQ", "DQ", "BSL", "SP", "LF", "DOL", "a"}

(* ---- invariants: data alphabet ---- *)
InvQuoteReadsBack   == QuoteReadsBack(s)
InvQuoteInsideWord  == QuoteInsideWord(s)
InvEscapeReadsBack  == EscapeReadsBack(s)
InvFishReadsBack    == FishReadsBack(s)
InvTmuxReadsBack    == TmuxReadsBack(<<s, Reverse(s), <<>>, s>>) /\ TmuxExportReadsBack(s)
(* one word per item: three quoted texts joined by blanks are three words, in order *)
InvOneWordPerItem   == ShEval(JoinWith(<<Quote(s), Quote(Reverse(s)), Quote(s \o s)>>, <<"SP">>))
                         = Ok(<<s, Reverse(s), s \o s>>)
(* the two POSIX quoting routines of the code base agree *)
InvSameScheme       == Quote(s) = EscapeSingleQuote(s)

(* ---- invariants: lexing alphabet (self-consistency of the shell model) ---- *)
(* re-quoting the words the model reads gives a command line the model reads as the same words *)
InvRequote == LET r == ShEval(s) IN
              r.status = "OK" => ShEval(JoinWith([i \in 1..Len(r.words) |-> Quote(r.words[i])], <<"SP">>)) = r
InvLexTotal == ShEval(s).status \in {"OK", "HAZARD", "INCOMPLETE"}

(* ---- case export ---- *)
(* the line handed to the real shells: the two quoted forms as separate words, and one glued between letters *)
QuoteLine(p, e) == p \o <<"SP">> \o e \o <<"SP", "a">> \o p \o <<"a">>
EmitQuote == PrintT(<<"CASE", ToJson([s |-> Enc(s), p |-> Enc(Quote(s)), f |-> Enc(QuoteFish(s)),
                                      e |-> Enc(EscapeSingleQuote(s)),
                                      w |-> EncAll(ShEval(QuoteLine(Quote(s), EscapeSingleQuote(s))).words)])>>)
EmitLex == LET r == ShEval(s) IN
           r.status = "OK" => PrintT(<<"CASE", ToJson([t |-> Enc(s), w |-> EncAll(r.words)])>>)
================================================================================
