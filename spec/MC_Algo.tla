------------------------------- MODULE MC_Algo -------------------------------
(* Exhaustive enumeration of (text, pattern, cs, norm, scheme) over class-covering alphabets:                    *)
(*   - MC_Algo*.cfg : theorems of the design (algorithmic sub-specs agree with the declarative Witness, the DP    *)
(*                    score is the score of an existing alignment and never exceeds the best one, ...)            *)
(*   - Gen_Algo*.cfg: the same enumeration printed as cases with the predicted result of every matcher (E).       *)
(* The enumeration lives in Next (an index walking the space, sharded by the initial state) so that all TLC       *)
(* workers share it.                                                                                              *)
EXTENDS AlgoEnum, Json, SequencesExt

CONSTANTS Shards,     \* number of index walks
          AlphaSel    \* which alphabets of Alphas are enumerated (set of indices)

VARIABLES ai, idx, cur     \* cur = the decoded case and the result of every matcher: computed once per state
evars == <<ai, idx, cur>>
EInit == ai \in AlphaSel /\ idx \in 0..(Shards - 1) /\ idx < Total(ai) /\ cur = CaseOf(ai, idx)
ENext == idx + Shards < Total(ai) /\ idx' = idx + Shards /\ ai' = ai /\ cur' = CaseOf(ai, idx + Shards)

Text == cur.t
Pat == cur.p
Cs == cur.cs
Nrm == cur.norm
Sch == cur.sch
Live == cur.live
KindNo(k) == CHOOSE n \in 1..Len(Kinds) : Kinds[n] = k
Res(kind, fwd) == cur.r[2 * KindNo(kind) - (IF fwd THEN 1 ELSE 0)]

-------------------------------------------------------------------------------
(* Theorems about the design, checked on every enumerated input *)
KindSet == {Kinds[i] : i \in 1..Len(Kinds)}
AgreeWitness == \A k \in KindSet, fwd \in BOOLEAN :
                   Pat # <<>> => ((Res(k, fwd).s >= 0) <=> Witness(k, Text, Pat, Cs, Nrm, Sch))
ResultsValid == \A k \in KindSet, fwd \in BOOLEAN, wp \in BOOLEAN :
                   Pat # <<>> => ValidResult(k, Text, Pat, Cs, Nrm, Sch, Res(k, fwd), wp)
GreedyComplete == LET T == FoldSeq(Text, Cs, Nrm) IN HasEmb(T, Pat) <=> (Embeddings(T, Pat) # {})
(* V1 reports exactly the span of its two greedy passes *)
V1SpanTight == \A fwd \in BOOLEAN : LET sp == V1Span(FoldSeq(Text, Cs, Nrm), Pat, fwd) IN
                   (Pat # <<>> /\ sp # <<0, 0>>) => Res("v1", fwd).e = sp[2] /\ Res("v1", fwd).s = sp[1] - 1
(* C03: the DP score is the score of an alignment that exists (hence it never exceeds the best existing alignment) *)
AlignScores == LET B == BonusSeq(Text, Sch) IN
               {EmbWalk(B, e, e[1], 1, 0, FALSE, 0, 0) : e \in Embeddings(FoldSeq(Text, Cs, Nrm), Pat)}
V2IsSomeAlignment == (Pat # <<>> /\ Res("v2", TRUE).s >= 0) => Res("v2", TRUE).sc \in AlignScores
V2NotAboveBest == (Pat # <<>> /\ Res("v2", TRUE).s >= 0) => Res("v2", TRUE).sc <= SetMax(AlignScores)
V2DirSameScore == Res("v2", TRUE).sc = Res("v2", FALSE).sc
(* NOT a theorem (and not required by C03): the DP is a heuristic for runs of consecutive matches, so the greedy V1  *)
(* alignment can score higher than V2's, e.g. text abaaaaab / pattern aab / scheme history: V2 55, V1 56, best 61.   *)
V1NotAboveV2 == Res("v1", TRUE).sc <= Res("v2", TRUE).sc /\ Res("v1", FALSE).sc <= Res("v2", TRUE).sc
(* cutting long runs of one character down to Len(P) + 2 keeps / creates no witness: justifies judging giant lines *)
RleSound == \A k \in KindSet : Pat # <<>> =>
               (Witness(k, Text, Pat, Cs, Nrm, Sch) <=> Witness(k, Shortened(Text, Pat), Pat, Cs, Nrm, Sch))
Thm(name, ok) == ok \/ PrintT(<<"THMFAIL", ToJson([thm |-> name, t |-> Text, p |-> Pat, cs |-> Cs, norm |-> Nrm, sch |-> Sch])>>)
TheoremsWitness == Live =>          \* C02
    /\ Thm("AgreeWitness", AgreeWitness) /\ Thm("ResultsValid", ResultsValid) /\ Thm("GreedyComplete", GreedyComplete)
    /\ Thm("V1SpanTight", V1SpanTight) /\ Thm("RleSound", RleSound)
TheoremsScore == Live =>            \* C03
    /\ Thm("V2IsSomeAlignment", V2IsSomeAlignment) /\ Thm("V2NotAboveBest", V2NotAboveBest)
    /\ Thm("V2DirSameScore", V2DirSameScore)
Theorems == TheoremsWitness /\ TheoremsScore

-------------------------------------------------------------------------------
(* Case export (E): per live input the predicted result of all seven matchers in both scan directions, without a *)
(* slab; plus, per scaled-down slab capacity, whether V2 must behave as V1.                                      *)
Caps16 == <<4, 8, 16, 24, 100>>           \* int16 capacities of the scaled-down slabs the harness builds
Caps32 == <<2, 4, 8, 64, 4>>              \* their int32 capacities (no influence on any result)
Enc(r) == <<r.s, r.e, r.sc, r.pos>>
CaseRec == [a |-> ai, i |-> idx, t |-> Text, p |-> Pat, cs |-> Cs, norm |-> Nrm, sch |-> Sch,
            r |-> [n \in 1..(2 * Len(Kinds)) |-> Enc(cur.r[n])],
            fb |-> [c \in 1..Len(Caps16) |-> Len(Text) * Len(Pat) > Caps16[c]]]
Emit == Live => PrintT(<<"CASE", ToJson(CaseRec)>>)

(* symbol tables the Go harness must agree with (unicode.* / charClassOf / normalizeRune), per scheme *)
SymSeq == SetToSeq(AllSymbols)
Table == [kinds |-> Kinds, caps16 |-> Caps16, caps32 |-> Caps32, schemes |-> Schemes,
          syms |-> [i \in 1..Len(SymSeq) |->
                      [sym |-> SymSeq[i], lower |-> Lower(SymSeq[i]), norm |-> Norm(SymSeq[i]), space |-> IsSpace(SymSeq[i]),
                       ascii |-> IsAscii(SymSeq[i]),
                       class |-> [s \in 1..Len(Schemes) |-> Class(SymSeq[i], Schemes[s])]]]]
ASSUME PrintT(<<"TABLE", ToJson(Table)>>)
=============================================================================
