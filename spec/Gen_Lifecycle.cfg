CONSTANTS
  MaxChildren = 2
  MaxTemps = 4
  QMax = 30
  MaxPending = 1
  CfgSet <- ListenCfgs
  Hows <- AllHows
INIT GInit
NEXT GNext
INVARIANTS Emit
CONSTRAINT GBound
CHECK_DEADLOCK FALSE
