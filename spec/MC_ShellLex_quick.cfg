CONSTANTS
  Alphabet <- LexAlphabet
  MaxLen = 5
INIT Init
NEXT Next
INVARIANTS InvRequote InvLexTotal EmitLex
CHECK_DEADLOCK FALSE
