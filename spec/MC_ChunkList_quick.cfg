CONSTANTS
  ChunkSize = 2
  HeaderChoices = {0, 1, 2}
  TailChoices = {0, 1, 2, 3}
  PushSizes = {1}
  MaxPushed = 7
  MaxSnaps = 3
INIT GInit
NEXT GNextMC
INVARIANTS SnapshotIsTail SnapshotFrozen MemoryBound ListIsSuffix CountAgrees HeaderIsFirstH IndexKeepsCounting OnlyEndsPartial
CHECK_DEADLOCK FALSE
