CONSTANTS
  MaxUI = 3
  Kinds = {"finite", "endless"}
  TemplateHasQ = FALSE
SPECIFICATION Spec
INVARIANTS TypeOK OneAlive ShownIsStarted Convergence ExitClean
PROPERTIES Liveness NoSurvivor
CHECK_DEADLOCK FALSE
