CONSTANTS
  MaxUI = 3
  Kinds = {"finite", "endless"}
  ShowBumpsVersion = TRUE
  TemplateHasQ = FALSE
SPECIFICATION Spec
INVARIANTS TypeOK OneAlive ShownIsStarted Convergence ShowFixed ExitClean
PROPERTIES Liveness NoSurvivor
CHECK_DEADLOCK FALSE
