---------------------------- MODULE Judge_Feed ----------------------------
(* J binding of FzfReader: every record is one real execution of Reader.feed on a random stream with random read()  *)
(* sizes (chosen by the Go driver).  TLC folds the spec's step function over the recorded read sizes and compares    *)
(* the items and the len(p) of every call with what the real code did.                                               *)
EXTENDS MC_Reader, IOUtils

TraceLog == ndJsonDeserialize(IOEnv.TRACE)
Shards == 16
VARIABLE l

RECURSIVE RunFeed(_, _, _, _, _)
RunFeed(s, st, reads, i, scopes) ==
    IF i > Len(reads) THEN [st |-> st, scopes |-> scopes, legal |-> FALSE]      \* the script must end with the EOF call
    ELSE LET st1 == IF st.slabOff = SlabSize THEN RotateStep(st) ELSE st
             n == reads[i]
             sc == Append(scopes, Scope(st1))
         IN  IF n = -1 THEN RunFeed(s, st1, reads, i + 1, sc)       \* a read that brought nothing and no error: retried (io.Reader allows it)
             ELSE IF n = 0 THEN [st |-> EofStep(st1), scopes |-> sc, legal |-> i = Len(reads) /\ st1.pos = Total(s)]
             ELSE IF n > Cap(s, st1) THEN [st |-> st1, scopes |-> sc, legal |-> FALSE]
             ELSE RunFeed(s, ReadStep(s, st1, n), reads, i + 1, sc)

IdentIn(s, b) == IF b = <<>> THEN <<0, 0>>
                 ELSE LET m == {i \in 1..NumRecords(s) : Seg(RecStart(s, i), RecEnd(s, i)) = b}
                      IN  IF m = {} THEN <<-1, BLen(b)>> ELSE <<CHOOSE i \in m : TRUE, BLen(b)>>

Explained(r) ==
    LET s == [lens |-> r.lens, unterm |-> r.unterm]
        run == RunFeed(s, St0, r.reads, 1, <<>>)
        items == [i \in 1..Len(run.st.emitted) |-> IdentIn(s, run.st.emitted[i].bytes)]
    IN  /\ run.legal
        /\ r.panic = "" /\ r.anom = <<>>
        /\ r.scopes = run.scopes
        /\ r.items = items
        (* and the design itself says these are the records *)
        /\ [i \in 1..Len(run.st.emitted) |-> run.st.emitted[i].bytes] = Records(s)

JInit == GInit /\ target = 0 /\ unterm = FALSE
         /\ l \in 1..(IF Len(TraceLog) < Shards THEN Len(TraceLog) ELSE Shards)
JNext == l + Shards <= Len(TraceLog) /\ l' = l + Shards /\ UNCHANGED <<vars, hist>>
JInv == Explained(TraceLog[l]) \/ PrintT(<<"MISMATCH", l>>)
=============================================================================
