CONSTANTS
  MaxT = 0
  MaxP = 0
  Shards = 4
  AlphaSel = {6}
INIT EInit
NEXT ENext
INVARIANT Emit
CHECK_DEADLOCK FALSE
